#!/bin/sh
# Build everything the checks need from files on disk (offline): Coq development, oracles, harness.
set -e
cd "$(dirname "$0")"
export CARGO_NET_OFFLINE=true
python3 tools/setup.py
