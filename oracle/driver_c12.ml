(* C12 oracle: judges gcd / root / ilog / log2_bounds / remove answers against the extracted Coq
   specifications of Int/GrlSpec.v (certificates proved complete in Int/GrlSpecProof.v); the as-is
   models of Int/GrlModel.v only classify known findings and measure model fidelity. *)
open Common
open Model

let usz s = Zar.of_string_base 16 s
let bits x = if Zar.sign x = 0 then 0 else Zar.numbits (Zar.abs x)
let zi = Zar.of_int
let gcd00 = "Undocumented:thegreatestcommondivisorisnotdefinedbetweenzeros!"

let cert_verdict ?(extra = "") ok want = if ok then pass ~extra () else fail want

let same asis got = "asis=" ^ (if split_ws asis = got then "same" else "diff")
let rec nat_of n = if n <= 0 then O else S (nat_of (n - 1))
let fuel_small = nat_of 4000
(* text of an as-is result in the answer format of the harness *)
let res_text f = function
  | Ok v -> "ok " ^ f v
  | Panic r -> "panic " ^ (match r with RootZeroth -> "RootZeroth" | RootNegative -> "RootNegative" | LogOperand -> "LogOperand" | GcdZeroZero -> gcd00 | _ -> "?")
  | Err _ -> "err" | OutOfFuel -> "outoffuel"
(* f32 answers are written ~hex by the harness (so that they can be told from integers) *)
let unf s = if String.length s > 0 && s.[0] = '~' then String.sub s 1 (String.length s - 1) else s

(* ------------------------------------------------------------------ gcd *)
let fuel_lehmer = nat_of 200000
let both_large ?(wb = 64) a b = bits a > 2 * wb && bits b > 2 * wb
let panic_text = function Panic _ -> "panic-in-model" | Err _ -> "err" | OutOfFuel -> "outoffuel" | Ok _ -> ""
(* value-level as-is model of gcd_large (Lehmer loop) for two operands of more than two words *)
let lehmer_gcd_text ?(wb = 64) a b =
  match lehmer_gcd_asis fuel_lehmer (zi wb) (Zar.abs a) (Zar.abs b) with
  | Ok g -> "ok " ^ hx g
  | r -> panic_text r
(* gcd_ext_large + the sign handling of impl_ibig_gcd_ext *)
let lehmer_gcd_ext_text ?(wb = 64) a b =
  match lehmer_gcd_ext_asis fuel_lehmer (zi wb) (Zar.abs a) (Zar.abs b) with
  | Ok ((g, s), t) ->
      let sg v x = if Zar.sign v < 0 then Zar.neg x else x in
      "ok " ^ hx g ^ " " ^ hx (sg a s) ^ " " ^ hx (sg b t)
  | r -> panic_text r

let judge_gcd ?(asis = "") ?(wb = 64) a b got =
  let asis = if asis = "" && both_large ~wb a b then lehmer_gcd_text ~wb a b else asis in
  let fid = if asis = "" then "" else " " ^ same asis got in
  match gcd_spec a b with
  | Panic _ -> expect ~nt:false ~extra:fid ("panic " ^ gcd00) got
  | Ok g ->
      let cls = Printf.sprintf "cls=gcd%s-%dx%d" (if wb = 64 then "" else "-w32") (min 4 ((bits a + wb - 1) / wb)) (min 4 ((bits b + wb - 1) / wb)) in
      expect ~extra:(cls ^ fid) ("ok " ^ hx g) got
  | _ -> fail "spec"

let judge_gcd_ext ?(asis = "") ?(wb = 64) a b got =
  let asis = if asis = "" && both_large ~wb a b then lehmer_gcd_ext_text ~wb a b else asis in
  let fid = if asis = "" then "" else " " ^ same asis got in
  match gcd_spec a b with
  | Panic _ -> expect ~nt:false ~extra:fid ("panic " ^ gcd00) got
  | Ok g -> (
      let wa = (bits a + wb - 1) / wb and wb' = (bits b + wb - 1) / wb in
      let cls = Printf.sprintf "cls=gcdext%s-%dx%d" (if wb = 64 then "" else "-w32") (min 4 wa) (min 4 wb') ^ fid in
      match got with
      | [ "ok"; g'; s; t ] ->
          let g' = z g' and s = z s and t = z t in
          cert_verdict ~extra:cls (gcd_ext_cert a b g' s t && Zar.equal g g') ("ok " ^ hx g ^ " s t with s*a+t*b=g")
      | _ -> fail ("ok " ^ hx g ^ " s t with s*a+t*b=g"))
  | _ -> fail "spec"

(* ------------------------------------------------------------------ roots *)
let reason_str = function
  | RootZeroth -> "RootZeroth" | RootNegative -> "RootNegative" | LogOperand -> "LogOperand" | _ -> "?"

(* the truncated n-th root of |x|, for the expected-value text only *)
let root_text n x =
  if Zar.fits_int n && Zar.to_int n <= 100000 then hx (Zar.root (Zar.abs x) (Zar.to_int n)) else "1-or-0"

let judge_root ?(model = true) ~signed n x got =
  (* fidelity of the as-is Newton model (skipped for huge degrees: the model would build g^(n-1)) *)
  let fid =
    if (not model) || (Zar.gt n (zi 3000) && Zar.gt (zi (bits x)) n) then ""
    else
      let r = if signed then inth_root_asis fuel_small x n else nth_root_asis fuel_small x n in
      " " ^ same (res_text hx r) got
  in
  match root_panic n x with
  | Some r -> expect ~nt:false ~extra:fid ("panic " ^ reason_str r) got
  | None -> (
      let want = "ok " ^ (if Zar.sign x < 0 then "-" else "") ^ root_text n x in
      let cls = "cls=root-" ^ (if Zar.equal n (zi 2) then "2" else if Zar.equal n (zi 3) then "3" else "n")
                ^ (if Zar.sign x = 0 then "-zero" else if Zar.sign x < 0 then "-neg" else "") ^ fid in
      match got with
      | [ "ok"; r ] ->
          let r = z r in
          (* a huge exponent: the root is 0 or 1 in magnitude *)
          if Zar.gt n (zi (2 * bits x + 2)) then
            let w = if Zar.sign x = 0 then Zar.zero else Zar.of_int (Zar.sign x) in
            cert_verdict ~extra:cls (Zar.equal r w) ("ok " ^ hx w)
          else if bits r > bits x + 1 then fail want
          else cert_verdict ~extra:cls (if signed then iroot_cert n x r else root_cert n x r) want
      | _ -> fail want)

let judge_root_rem n x got =
  let want = "ok " ^ root_text n x ^ " x-r^n" in
  match got with
  | [ "ok"; r; e ] ->
      let r = z r and e = z e in
      if bits r > bits x + 1 then fail want
      else cert_verdict ~extra:(Printf.sprintf "cls=rootrem-%d-w%d" (Zar.to_int n) (min 9 ((bits x + 63) / 64))) (root_rem_cert n x r e) want
  | _ -> fail want

(* ------------------------------------------------------------------ ilog *)
let judge_ilog x b got =
  let fid = match ilog_shortcuts (Zar.abs x) b with Some r -> " path=shortcut " ^ same (res_text hx r) got | None -> " path=estimate" in
  if ilog_panic x b then expect ~nt:false ~extra:fid "panic LogOperand" got
  else
    match got with
    | [ "ok"; e ] ->
        let e = usz e in
        let want = "ok floor(log_b|x|)" in
        if Zar.gt e (zi (bits x)) then fail want
        else
          let cls = Printf.sprintf "cls=ilog-x%d-b%d" (min 4 ((bits x + 63) / 64)) (min 4 ((bits b + 63) / 64)) ^ fid in
          cert_verdict ~extra:cls (ilog_cert x b e) want
    | _ -> fail "ok floor(log_b|x|)"

(* ------------------------------------------------------------------ log2 bounds *)
let neg_inf = "ff800000"
let pos_inf = "7f800000"

(* x = p / q > 0 *)
let judge_log2 ?(cls = "") ?(fid = "") (p : Zar.t) (q : Zar.t) got =
  match got with
  | [ "ok"; lb; ub ] ->
      let lbv = f32_decode (usz (unf lb)) and ubv = f32_decode (usz (unf ub)) in
      let size_ok v = Zar.to_int (log2_bound_k v) <= 14 && (bits p + bits q) * (1 lsl Zar.to_int (log2_bound_k v)) <= 40_000_000 in
      let one lower v =
        let rec go = function
          | [] -> if size_ok v then log2_bound_exact lower v p q else zi 2
          | pr :: rest -> let r = log2_bound_check (zi pr) lower v p q in if Zar.equal r (zi 2) then go rest else r
        in
        go [ 96; 320; 1200 ]
      in
      let l = one true lbv and u = one false ubv in
      let extra = "cls=log2-" ^ cls ^ fid in
      if Zar.equal l Zar.zero || Zar.equal u Zar.zero then
        fail (Printf.sprintf "lb<=log2(x)<=ub_violated_%s%s" (if Zar.equal l Zar.zero then "L" else "") (if Zar.equal u Zar.zero then "U" else ""))
      else if Zar.equal l (zi 2) || Zar.equal u (zi 2) then skip "log2-undecided"
      else pass ~extra ()
  | _ -> fail "ok lb ub"

(* the dyadic fraction m / 2^k as the f32 bit pattern it is exactly (None if it is not an f32) *)
let dyadic_f32 (m, k) =
  let k = let rec n = function O -> 0 | S x -> 1 + n x in n k in
  if Zar.sign m = 0 then Some "0"
  else
    let nb = Zar.numbits m in
    if nb > 24 then None
    else
      let m24 = Zar.shift_left m (24 - nb) in
      let e = nb - 1 - k in
      Some (Printf.sprintf "%x" (((e + 127) lsl 23) lor (Zar.to_int m24 land 0x7fffff)))

let judge_log2_value ?(cls = "") ?(nostd_model = false) (num : Zar.t) (den : Zar.t) got =
  (* value num/den, den > 0; sign ignored; zero -> (-inf, -inf) *)
  let ns = (match List.rev got with "ns" :: _ -> true | _ -> false) in
  let got = List.filter (fun t -> t <> "ns") got in
  let got = List.map unf got in
  (* fidelity of the no_std table model (u8 / u16 values in the no_std build only) *)
  let fid =
    if ns && nostd_model && Zar.leq (Zar.abs num) (zi 65535) then
      let text = match nostd_log2_u16 (Zar.abs num) with
        | None -> "ok " ^ neg_inf ^ " " ^ neg_inf
        | Some (l, u) -> (match dyadic_f32 l, dyadic_f32 u with Some a, Some b -> "ok " ^ a ^ " " ^ b | _ -> "?") in
      " path=nostd-table " ^ same text got
    else if ns && nostd_model then
      (* wider than u16: the shifted table estimate with next_down / next_up, both as dyadic values and
         through the bit-pattern functions of the source *)
      let n = Zar.abs num in
      let text = match nostd_log2_wide n with
        | None -> "ok " ^ neg_inf ^ " " ^ neg_inf
        | Some (l, u) -> (match dyadic_f32 l, dyadic_f32 u with Some a, Some b -> "ok " ^ a ^ " " ^ b | _ -> "?") in
      let pow2 = Zar.equal n (Zar.shift_left Zar.one (Zar.numbits n - 1)) in
      let text2 = if pow2 then text else (let (a, b) = nostd_wide_bits n in Printf.sprintf "ok %s %s" (hx a) (hx b)) in
      " path=nostd-wide " ^ (if text = text2 then same text got else "asis=diff")
    else if ns then " path=nostd" else " path=std" in
  if Zar.sign num = 0 then expect ~nt:false ~extra:fid ("ok " ^ neg_inf ^ " " ^ neg_inf) got
  else judge_log2 ~cls ~fid (Zar.abs num) den got

let float_value v =
  match v with
  | FFin (m, e) -> if Zar.sign e >= 0 then Some (Zar.mul m (Zar.pow (zi 2) (Zar.to_int e)), Zar.one) else Some (m, Zar.pow (zi 2) (- Zar.to_int e))
  | _ -> None

(* ------------------------------------------------------------------ remove *)
let judge_remove x f got =
  let fid = " " ^ same (res_text (function None -> "none " ^ hx x | Some (e, rest) -> "some " ^ hx e ^ " " ^ hx rest) (remove_asis fuel_small x f)) got in
  if remove_none x f then expect ~nt:false ~extra:fid ("ok none " ^ hx x) got
  else
    match got, remove_spec x f with
    | [ "ok"; "some"; e; rest ], Some (e', rest') ->
        let e = usz e and rest = z rest in
        let want = "ok some " ^ hx e' ^ " " ^ hx rest' in
        if Zar.gt e (zi (bits x)) then fail want
        else cert_verdict ~extra:(Printf.sprintf "cls=remove-e%d" (min 9 (Zar.to_int e')) ^ fid) (remove_cert x f e rest && Zar.equal e e' && Zar.equal rest rest') want
    | _, Some (e', rest') -> fail ("ok some " ^ hx e' ^ " " ^ hx rest')
    | _, None -> fail "spec"

(* ------------------------------------------------------------------ Karatsuba square root kernel (hook) *)
let w64 = zi 64
let judge_ksqrt ?(wb = 64) n a got =
  let ni = Zar.to_int n in
  let m = Zar.pow (zi 2) (wb * ni) in
  let s = Zar.sqrt a in
  let r = Zar.sub a (Zar.mul s s) in
  let want = Printf.sprintf "ok %s %s %s" (hx s) (hx (Zar.rem r m)) (hx (Zar.div r m)) in
  let asis = res_text (fun ((s, rlo), c) -> hx s ^ " " ^ hx rlo ^ " " ^ (if c then "1" else "0")) (ksqrt (zi wb) (ksqrt_fuel n) n a) in
  let odd = if ni land 1 = 1 then "odd" else "even" in
  (* which branches the top level of the recursion takes (from the mathematics of the algorithm) *)
  let path =
    if ni <= 2 then "base" else
    let split = ni / 2 in
    let l = Zar.pow (zi 2) (wb * split) in
    let hi = Zar.shift_right a (2 * wb * split) in
    let s1 = Zar.sqrt hi in
    let r1 = Zar.sub hi (Zar.mul s1 s1) in
    let b1 = Zar.rem (Zar.shift_right a (wb * split)) l and b0 = Zar.rem a l in
    let d = Zar.add (Zar.mul r1 l) b1 in
    let q = Zar.div d (Zar.mul (zi 2) s1) and u = Zar.rem d (Zar.mul (zi 2) s1) in
    let r = Zar.sub (Zar.add (Zar.mul u l) b0) (Zar.mul q q) in
    (if Zar.geq r1 (Zar.pow (zi 2) (wb * (ni - split))) then "T" else "t") ^ (if Zar.equal q l then "Q" else "q")
    ^ (if Zar.sign r < 0 then "C" else "c") ^ (if Zar.geq u s1 then "U" else "u") in
  expect ~extra:(Printf.sprintf "cls=ksqrt%s-%s-n%d path=ksqrt-%s " (if wb = 64 then "" else "-w32") odd (min 9 ni) path ^ same asis got) want got


(* ------------------------------------------------------------------ Lehmer kernels (hooks), word level *)
let mdl300 = zi 300
let wordsz wb = Zar.pow (zi 2) wb
let words_of wb n v = to_words (wordsz wb) (nat_of n) v
let nwords wb v = (bits v + wb - 1) / wb
let hxl l = String.concat " " (List.map hx l)
(* fidelity of a model result that may be a panic: the model does not predict the panic message *)
let same_p asis_res text got =
  "asis=" ^ (match asis_res with
    | Ok v -> if split_ws ("ok " ^ text v) = got then "same" else "diff"
    | Panic _ -> (match got with "panic" :: _ -> "same" | _ -> "diff")
    | _ -> "diff")
let ginv_ok wb a b c d =
  let l = coeff_limit (zi wb) in
  let inr v = Zar.sign v >= 0 && Zar.leq v l in
  inr a && inr b && inr c && inr d && Zar.equal (Zar.sub (Zar.mul a d) (Zar.mul b c)) Zar.one

(* lehmer_guess / lehmer_guess_dword: the matrix is unimodular with entries <= COEFF_LIMIT and b <= a*xb - b*yb,
   c <= d*yb - c*xb (hence a*x - b*y >= 0, d*y - c*x >= 0 for all x, y with these leading bits) *)
let judge_lguess wb dword xb yb got =
  let m = if dword then lehmer_guess_dword (zi wb) xb yb else lehmer_guess (zi wb) xb yb in
  let fid = same_p m (fun (((a, b), c), d) -> hxl [ a; b; c; d ]) got in
  let cls = Printf.sprintf "cls=lguess-%s-w%d " (if dword then "dword" else "word") wb in
  if Zar.lt xb yb then (match got with "panic" :: _ -> pass ~nt:false ~extra:(cls ^ fid) () | _ -> fail "panic (debug_assert xbar >= ybar)")
  else
    match got with
    | [ "ok"; a; b; c; d ] ->
        let a = z a and b = z b and c = z c and d = z d in
        let xb' = Zar.sub (Zar.mul a xb) (Zar.mul b yb) and yb' = Zar.sub (Zar.mul d yb) (Zar.mul c xb) in
        let steps = if Zar.sign b = 0 then "failed" else "step" in
        cert_verdict ~extra:(cls ^ "path=" ^ steps ^ " " ^ fid) (ginv_ok wb a b c d && Zar.leq b xb' && Zar.leq c yb') "ok a b c d unimodular, b <= a*xb-b*yb, c <= d*yb-c*xb"
    | _ -> fail "ok a b c d"

let judge_ltop wb dword x y got =
  let k = bits x - (if dword then 2 * wb else wb) in
  let want = Printf.sprintf "ok %s %s" (hx (Zar.shift_right x k)) (hx (Zar.shift_right y k)) in
  let (mx, my) = if dword then highest_dword_normalized (zi wb) x y else highest_word_normalized (zi wb) x y in
  let fid = same ("ok " ^ hxl [ mx; my ]) got in
  expect ~extra:(Printf.sprintf "cls=ltop-%s-w%d-d%d " (if dword then "dword" else "word") wb (min 3 (nwords wb x - nwords wb y)) ^ fid) want got

(* lehmer_step on raw slices: inside the contract (coefficients <= COEFF_LIMIT, lengths differ by at most one,
   both results non-negative, the new x fits the words of y) the slices hold a*x - b*y and d*y - c*x *)
let judge_lstep wb xlen x ylen y a b c d got =
  let m = lstep_words (zi wb) a b c d (words_of wb xlen x) (words_of wb ylen y) in
  let w = wordsz wb in
  let fid = same_p m (fun (xs, ys) -> hxl [ wval w xs; wval w ys ]) got in
  let x' = Zar.sub (Zar.mul a x) (Zar.mul b y) and y' = Zar.sub (Zar.mul d y) (Zar.mul c x) in
  let inside = ginv_ok wb a b c d && (xlen = ylen || xlen = ylen + 1) && Zar.sign x' >= 0 && Zar.sign y' >= 0 && bits x' <= wb * ylen in
  let cls = Printf.sprintf "cls=lstep-w%d-%s " wb (if xlen = ylen then "eq" else if xlen = ylen + 1 then "longer" else "badlen") in
  if inside then expect ~extra:(cls ^ "path=contract " ^ fid) ("ok " ^ hxl [ x'; y' ]) got
  else pass ~nt:false ~extra:(cls ^ "path=outside " ^ fid) ()

(* the Lehmer branch of one iteration: guess + step on the trimmed slices *)
let judge_liter wb x y got =
  let m = lehmer_iter_words mdl300 (zi wb) (words_of wb (nwords wb x) x) (words_of wb (nwords wb y) y) in
  let w = wordsz wb in
  let text = function
    | None -> "euclid"
    | Some (((((a, b), c), d), xs), ys) -> hxl [ a; b; c; d; wval w xs; wval w ys ] in
  let fid = same_p m text got in
  let cls = Printf.sprintf "cls=liter-w%d-%s-d%d " wb (if nwords wb x < 300 then "word" else "dword") (min 3 (nwords wb x - nwords wb y)) in
  match got with
  | [ "ok"; "euclid" ] -> pass ~nt:false ~extra:(cls ^ "path=euclid " ^ fid) ()
  | [ "ok"; a; b; c; d; x'; y' ] ->
      let a = z a and b = z b and c = z c and d = z d and x' = z x' and y' = z y' in
      let ok = ginv_ok wb a b c d && Zar.equal x' (Zar.sub (Zar.mul a x) (Zar.mul b y)) && Zar.equal y' (Zar.sub (Zar.mul d y) (Zar.mul c x))
               && Zar.sign x' >= 0 && Zar.sign y' >= 0 && Zar.lt x' y in
      cert_verdict ~extra:(cls ^ "path=lehmer " ^ fid) ok "ok a b c d x' y' with x' = a*x-b*y >= 0, y' = d*y-c*x >= 0, ad-bc = 1"
  | _ -> fail "ok euclid | ok a b c d x' y'"

(* lehmer_ext_step: the first len words and the carries hold a*x + b*y, c*x + d*y *)
let judge_lext wb len xlen x ylen y a b c d got =
  let m = lext_words (zi wb) a b c d (zi len) (words_of wb xlen x) (words_of wb ylen y) in
  let w = wordsz wb in
  let fid = same_p m (fun (((xs, ys), cx), cy) -> hxl [ wval w xs; wval w ys; cx; cy ]) got in
  let l = coeff_limit (zi wb) in
  let inside = List.for_all (fun v -> Zar.sign v >= 0 && Zar.leq v l) [ a; b; c; d ] && len <= xlen && len <= ylen in
  let cls = Printf.sprintf "cls=lext-w%d " wb in
  if inside then begin
    let q = Zar.pow (zi 2) (wb * len) in
    let xl = Zar.rem x q and yl = Zar.rem y q in
    let t0 = Zar.add (Zar.mul a xl) (Zar.mul b yl) and t1 = Zar.add (Zar.mul c xl) (Zar.mul d yl) in
    let x' = Zar.add (Zar.sub x xl) (Zar.rem t0 q) and y' = Zar.add (Zar.sub y yl) (Zar.rem t1 q) in
    expect ~extra:(cls ^ "path=contract " ^ fid) ("ok " ^ hxl [ x'; y'; Zar.div t0 q; Zar.div t1 q ]) got
  end else pass ~nt:false ~extra:(cls ^ "path=outside " ^ fid) ()

(* the hook-level Lehmer ops exist to tie the word-level / guess models to the code: an answer that differs from the
   extracted as-is model is a failure even where the specification accepts it (e.g. another valid cosequence matrix) *)
let contains s sub =
  let n = String.length s and m = String.length sub in
  let rec go i = i + m <= n && (String.sub s i m = sub || go (i + 1)) in
  go 0
let strict_model (v : verdict) = if v.v = "pass" && contains v.extra "asis=diff" then fail "the-answer-of-the-extracted-as-is-model" else v

let fuel_root = nat_of 64
let add_extra e (v : verdict) = if v.v = "pass" then { v with extra = v.extra ^ e } else v
let ty_bits t = match t with "u8" | "i8" -> 8 | "u16" | "i16" -> 16 | "u32" | "i32" -> 32 | "u128" | "i128" -> 128 | _ -> 64

let judge op args got =
  (* the force_bits="32" build marks the answers of its word-level ops *)
  let wb = if List.mem "w32" got then 32 else 64 in
  let got = List.filter (fun t -> t <> "w32") got in
  let ni i = Zar.to_int (usz (List.nth args i)) in
  let a i = z (List.nth args i) in
  let n i = usz (List.nth args i) in
  let s i = List.nth args i in
  let v =
    match op with
    | "gcd" | "ugcd" | "gcd_ui" | "gcd_iu" -> judge_gcd ~wb (a 1) (a 2) got
    | "pgcd" -> judge_gcd ~asis:(res_text hx (prim_gcd_asis fuel_small (zi (ty_bits (s 0))) (a 1) (a 2))) (a 1) (a 2) got
    | "gcd_ext" | "ugcd_ext" | "gcd_ext_ui" | "gcd_ext_iu" -> judge_gcd_ext ~wb (a 1) (a 2) got
    | "pgcd_ext" ->
        let asis = res_text (fun ((g, cs), ct) -> hx g ^ " " ^ hx cs ^ " " ^ hx ct) (prim_gcd_ext_asis fuel_small (a 1) (a 2)) in
        judge_gcd_ext ~asis (a 1) (a 2) got
    | "usqrt" -> expect ~extra:(Printf.sprintf "cls=sqrt-w%d" (min 9 ((bits (a 0) + 63) / 64))) ("ok " ^ hx (Zar.sqrt (a 0))) got
    | "psqrt" ->
        let fid = " " ^ same (res_text (fun (r, _) -> hx r) (prim_sqrt_rem_asis fuel_root (zi (ty_bits (s 0))) (a 1))) got in
        expect ~extra:(Printf.sprintf "cls=psqrt-%s" (s 0) ^ fid) ("ok " ^ hx (Zar.sqrt (a 1))) got
    | "usqrt_rem" -> let (r, e) = sqrt_rem_spec (a 0) in
        (* multi-word values: the pre-/post-shift model around the kernel contract *)
        let fid = if bits (a 0) > 2 * wb then (
            let (r', e') = sqrt_rem_large_gen true (zi wb) (a 0) in
            let full = res_text (fun (r, e) -> hx r ^ " " ^ hx e) (sqrt_rem_large_asis (zi wb) (a 0)) in
            " " ^ (if split_ws full = got then same ("ok " ^ hx r' ^ " " ^ hx e') got else "asis=diff")) else "" in
        expect ~extra:(Printf.sprintf "cls=sqrtrem%s-w%d" (if wb = 64 then "" else "-w32") (min 9 ((bits (a 0) + wb - 1) / wb)) ^ fid) ("ok " ^ hx r ^ " " ^ hx e) got
    | "psqrt_rem" -> let (r, e) = sqrt_rem_spec (a 1) in
        let fid = " " ^ same (res_text (fun (r, e) -> hx r ^ " " ^ hx e) (prim_sqrt_rem_asis fuel_root (zi (ty_bits (s 0))) (a 1))) got in
        expect ~extra:(Printf.sprintf "cls=psqrtrem-%s" (s 0) ^ fid) ("ok " ^ hx r ^ " " ^ hx e) got
    | "psweep64" | "psweep32" ->
        (* round 5: the extracted class certificates (GrlPrimRootCert.v; certificate true => the model answers for every n of
           the class: GrlPrimRootTotal.v for all u32 classes, GrlPrimRootTotal64.v per u64 class) against the real code -
           u64: at the critical points of the same classes, u32: at every value of the classes *)
        let wide = op = "psweep64" in
        let x0 = a 1 and cnt = Zar.to_int (a 2) in
        let cube = s 0 = "cbrt" in
        let bad = ref 0 in
        for i = 0 to cnt - 1 do
          let x = Zar.add x0 (zi i) in
          if Zar.lt x (Zar.shift_left Zar.one (if wide then 32 else 16)) then
            if not (if wide then (if cube then cb64_cert x else sq64_cert x) else (if cube then cb32_class x else sq32_class x)) then incr bad
        done;
        let fid = if (!bad = 0) = (got = ["ok"; "0"]) then " asis=same" else " asis=diff" in
        expect ~extra:(Printf.sprintf "cls=%s-%s certbad=%d" op (s 0) !bad ^ fid) "ok 0" got
    | "isqrt" -> if Zar.sign (a 0) < 0 then expect ~nt:false "panic RootNegative" got else expect ("ok " ^ hx (Zar.sqrt (a 0))) got
    | "ucbrt" -> judge_root ~signed:false (zi 3) (a 0) got
    | "pcbrt" ->
        let fid = " " ^ same (res_text (fun (r, _) -> hx r) (prim_cbrt_rem_asis fuel_root (zi (ty_bits (s 0))) (a 1))) got in
        add_extra fid (judge_root ~model:false ~signed:false (zi 3) (a 1) got)
    | "icbrt" -> judge_root ~signed:true (zi 3) (a 0) got
    | "unth" -> judge_root ~signed:false (n 1) (a 0) got
    | "inth" -> judge_root ~signed:true (n 1) (a 0) got
    | "ucbrt_rem" -> judge_root_rem (zi 3) (a 0) got
    | "pcbrt_rem" ->
        let fid = " " ^ same (res_text (fun (r, e) -> hx r ^ " " ^ hx e) (prim_cbrt_rem_asis fuel_root (zi (ty_bits (s 0))) (a 1))) got in
        add_extra fid (judge_root_rem (zi 3) (a 1) got)
    | "uilog" | "iilog" -> judge_ilog (a 0) (a 1) got
    | "ulog2b" | "ilog2b" -> judge_log2_value ~cls:(Printf.sprintf "int-w%d" (min 9 ((bits (a 0) + 63) / 64))) (a 0) Zar.one got
    | "plog2b" -> judge_log2_value ~cls:(s 0) ~nostd_model:true (a 1) Zar.one got
    | "f32log2b" | "f64log2b" -> (
        let v = if op = "f32log2b" then f32_decode (n 0) else f64_decode (n 0) in
        match v with
        | FNan -> (match got with "panic" :: _ -> pass ~nt:false ~extra:"cls=log2-nan" () | _ -> fail "panic (NaN has no logarithm)")
        | FInf _ -> expect ~nt:false ("ok " ^ pos_inf ^ " " ^ pos_inf) (List.map unf (List.filter (fun t -> t <> "ns") got))
        | FFin (m, e) -> (match float_value v with Some (p, q) -> judge_log2_value ~cls:(String.sub op 0 3) p q got | None -> fail "spec"))
    | "flog2b" ->
        let base = n 0 and sg = s 1 in
        if sg = "inf" || sg = "-inf" then skip "infinite-float"
        else
          let sg = z sg and ex = z (s 2) in
          let bp = Zar.pow base (abs (Zar.to_int ex)) in
          if Zar.sign ex >= 0 then judge_log2_value ~cls:("fbig" ^ Zar.to_string base) (Zar.mul sg bp) Zar.one got
          else judge_log2_value ~cls:("fbig" ^ Zar.to_string base) sg bp got
    | "rlog2b" | "relog2b" -> judge_log2_value ~cls:"ratio" (a 0) (a 1) got
    | "remove" -> judge_remove (a 0) (a 1) got
    | "ksqrt" -> judge_ksqrt ~wb (n 0) (a 1) got
    | "lguess" -> strict_model (judge_lguess wb false (a 0) (a 1) got)
    | "lguessd" -> strict_model (judge_lguess wb true (a 0) (a 1) got)
    | "ltop" -> strict_model (judge_ltop wb false (a 0) (a 1) got)
    | "ltopd" -> strict_model (judge_ltop wb true (a 0) (a 1) got)
    | "lstep" -> strict_model (judge_lstep wb (ni 0) (a 1) (ni 2) (a 3) (a 4) (a 5) (a 6) (a 7) got)
    | "liter" -> strict_model (judge_liter wb (a 0) (a 1) got)
    | "lext" -> strict_model (judge_lext wb (ni 0) (ni 1) (a 2) (ni 3) (a 4) (a 5) (a 6) (a 7) (a 8) got)
    | _ -> fail ("unknown-op-" ^ op)
  in
  v

let () = serve judge
