(* C15 oracle.  One case = one operation on one set of operands; the implementation's answer lists
   every call form:  name=v,<tokens>  (returned) or  name=p,<PanicClass>  (panicked).
   Every form is judged against the extracted Coq specification of the operation
   (Forms/FormsSpec.v, Float/Contract.v, Ratio/RatArithModel.v, Int/ModRingSpec.v) - hence all forms
   agree or all panic - and the set of forms must be exactly the set the operation offers.
   known:<tag> only when the input lies in a listed class AND every form returned exactly what the
   as-is model of that form predicts. *)
open Common
open Model

type fr = V of string | P of string

let parse_form tok =
  match String.index_opt tok '=' with
  | None -> (tok, P "malformed")
  | Some i ->
      let name = String.sub tok 0 i in
      let rest = String.sub tok (i + 1) (String.length tok - i - 1) in
      if String.length rest >= 2 && rest.[1] = ',' then
        let payload = String.sub rest 2 (String.length rest - 2) in
        (name, if rest.[0] = 'v' then V payload else P payload)
      else (name, P "malformed")

let starts_with p s = String.length s >= String.length p && String.sub s 0 (String.length p) = p
let fr_ok want got = match want, got with
  | V a, V b -> a = b
  | P c, P d -> starts_with c d
  | _ -> false
let show_fr = function V a -> "v," ^ a | P c -> "p," ^ c

let reason_name = function
  | DivideBy0 -> "DivideBy0" | NegativeUBig -> "NegativeUBig" | OperateWithInf -> "OperateWithInf"
  | UnlimitedPrecision -> "UnlimitedPrecision" | NonInvertible -> "NonInvertible"
  | DifferentRings -> "DifferentRings" | GcdZeroZero -> "Undocumented:thegreatestcommondivisor"
  | Undocumented -> "Undocumented:" | _ -> "?"
let of_res show = function
  | Ok v -> V (show v) | Panic r -> P (reason_name r) | Err _ -> P "err" | OutOfFuel -> P "outoffuel"
let pair (a, b) = hx a ^ "," ^ hx b

(* ---------------------------------------------------------------- the verdict of one case
   names: the forms this operation offers; spec/asis: name -> (predicate on the form's answer, text) *)
type want = { ok : fr -> bool; txt : string }
let exactly w = { ok = fr_ok w; txt = show_fr w }

let verdict ?(cls = "") ?(path = "") ?(nt = true) ?asis ?tag names forms (spec : string -> want) =
  let extra = (if cls = "" then "" else "cls=" ^ cls ^ " ") ^ (if path = "" then "" else "path=" ^ path ^ " ") in
  let missing = List.filter (fun n -> not (List.mem_assoc n forms)) names in
  let unexpected = List.filter (fun (n, _) -> not (List.mem n names)) forms in
  if missing <> [] then fail ("missing-form-" ^ List.hd missing)
  else if unexpected <> [] then fail ("unexpected-form-" ^ fst (List.hd unexpected))
  else
    let bad = List.filter (fun (n, g) -> not ((spec n).ok g)) forms in
    let asis_same = match asis with
      | Some f -> Some (List.for_all (fun (n, g) -> ((f n) : want).ok g) forms)
      | None -> None in
    let fid = match asis_same with Some true -> "asis=same " | Some false -> "asis=diff " | None -> "" in
    if bad = [] then pass ~nt ~extra:(extra ^ fid) ()
    else
      let (n, g) = List.hd bad in
      let why = n ^ ":" ^ (spec n).txt ^ "_got_" ^ show_fr g in
      match tag, asis_same with
      | Some tag, Some true -> { v = "known:" ^ tag; extra = extra ^ "want=" ^ String.concat "_" (split_ws why) }
      | _ -> fail why

let all_same w = fun (_ : string) -> w

(* ---------------------------------------------------------------- form families (harness macros) *)
let own4 = [ "vv"; "vr"; "rv"; "rr" ]
let asg2 = [ "av"; "ar" ]
let met4 = [ "m_vv"; "m_vr"; "m_rv"; "m_rr" ]
let dra2 = [ "dra_v"; "dra_r" ]
let opsp = [ "ops_vv"; "ops_rr" ]
let pright = [ "big"; "bv_pv"; "bv_pr"; "br_pv"; "br_pr" ]
let pleft = [ "gib"; "pv_bv"; "pr_bv"; "pv_br"; "pr_br" ]
let pasg = [ "a_pv"; "a_pr" ]
let pdivrem = [ "big"; "bv_pv"; "bv_pr"; "br_pv"; "br_pr"; "dra_pv"; "dra_pr"; "ops" ]

let iop_of = function
  | "add" -> IoAdd | "sub" | "rsub" -> IoSub | "mul" -> IoMul | "div" | "rdiv" -> IoDiv | "rem" -> IoRem
  | "and" -> IoAnd | "or" -> IoOr | "xor" -> IoXor | o -> failwith ("iop " ^ o)

let gcd_zero = P "Undocumented:thegreatestcommondivisor"

(* ---------------------------------------------------------------- integers *)
(* the Repr-level as-is models of the ownership arms (Forms/FormsMul.v, FormsDiv.v, Int/BitsKernels.v;
   64-bit words): each form's answer is also compared with what the model of ITS arm computes
   (asis=same|diff statistic).  The word-level multipliers / dividers are only run below a work bound. *)
module Arms = struct
  let w64 = Zar.of_int 64
  let nwords v = (Zar.numbits v + 63) / 64
  let small a b = let la = nwords a and lb = nwords b in la * lb <= 40000 && la + lb <= 1500
  let own_of = function
    | "vv" | "av" | "m_vv" | "ops_vv" | "dra_v" -> OVV
    | "vr" | "ar" | "m_vr" | "dra_r" -> OVR
    | "rv" | "m_rv" -> ORV
    | _ -> ORR
  let bown_of n = match own_of n with OVV -> VV | OVR -> VR | ORV -> RV | ORR -> RR
  let tr v = typed_of_value w64 v
  let br v = to_brepr w64 v
  let sg v = if Zar.sign v < 0 then Negative else Positive
  let mag v = Zar.abs v
  let uval = function Ok r -> Ok (repr_value w64 r) | Panic p -> Panic p | Err e -> Err e | OutOfFuel -> OutOfFuel
  let sval = function Ok r -> Ok (srepr_value w64 r) | Panic p -> Panic p | Err e -> Err e | OutOfFuel -> OutOfFuel
  let upair = function
    | Ok (q, r) -> Ok (repr_value w64 q, repr_value w64 r) | Panic p -> Panic p | Err e -> Err e | OutOfFuel -> OutOfFuel
  let spair = function
    | Ok (q, r) -> Ok (srepr_value w64 q, srepr_value w64 r) | Panic p -> Panic p | Err e -> Err e | OutOfFuel -> OutOfFuel
  (* name of the form -> answer of the model of that arm; memoised per ownership arm *)
  let memo f = let tbl = Hashtbl.create 4 in
    fun n -> let o = own_of n in
      (match Hashtbl.find_opt tbl o with Some v -> v | None -> let v = f n o in Hashtbl.add tbl o v; v)
  let int_asis kind op a b : (string -> fr) option =
    let u = kind = "uu" in
    if not (u || kind = "ii") || not (small a b) then None
    else match op with
    | "mul" -> Some (memo (fun _ o -> if u then of_res hx (uval (repr_mul_form w64 o (tr a) (tr b)))
                                       else of_res hx (sval (ibig_mul_form w64 o (sg a) (tr (mag a)) (sg b) (tr (mag b))))))
    | "div" -> Some (memo (fun _ o -> if u then of_res hx (uval (i_div_form w64 o (tr a) (tr b)))
                                       else of_res hx (sval (i_ibig_div_form w64 o (sg a) (tr (mag a)) (sg b) (tr (mag b))))))
    | "rem" -> Some (memo (fun _ o -> if u then of_res hx (uval (i_rem_form w64 o (tr a) (tr b)))
                                       else of_res hx (sval (i_ibig_rem_form w64 o (sg a) (tr (mag a)) (sg b) (tr (mag b))))))
    | "divrem" -> Some (memo (fun _ o -> if u then of_res pair (upair (i_div_rem_form w64 o (tr a) (tr b)))
                                          else of_res pair (spair (i_ibig_div_rem_form w64 o (sg a) (tr (mag a)) (sg b) (tr (mag b))))))
    | "and" | "or" | "xor" ->
        Some (memo (fun n _ -> let o = bown_of n in
          if u then
            let f = match op with "and" -> repr_bitand | "or" -> repr_bitor | _ -> repr_bitxor in
            V (hx (bvalue w64 (f w64 o (br a) (br b))))
          else
            let f = match op with "and" -> ibig_bitand_asis | "or" -> ibig_bitor_asis | _ -> ibig_bitxor_asis in
            V (hx (f w64 o (sg a) (br (mag a)) (sg b) (br (mag b))))))
    | _ -> None
  (* gcd at Repr level (Forms/FormsGcd.v over C12's primitive / Lehmer models and C02's remainder
     kernels): every ownership form runs the one body on the magnitudes *)
  let gcd_asis a b : (string -> fr) option =
    if not (small a b) || nwords a + nwords b > 80 then None
    else Some (memo (fun _ o -> of_res hx (uval (i_gcd_form w64 o (tr (mag a)) (tr (mag b))))))
  let shift_asis kind op a n : (string -> fr) option =
    if Zar.numbits n > 20 then None
    else
      let owned name = name = "v_n" || name = "v_rn" || name = "a_n" || name = "a_rn" in
      Some (fun name ->
        let r = br (mag a) and s = sg a in
        let v =
          if kind = "ush" then
            (match op, owned name with
             | "shl", true -> bvalue w64 (repr_shl w64 true r n)
             | "shl", false -> bvalue w64 (repr_shl_ref w64 r n)
             | _, true -> bvalue w64 (repr_shr w64 r n)
             | _, false -> bvalue w64 (repr_shr_ref w64 r n))
          else
            (match op, owned name with
             | "shl", true -> ibig_shl_asis w64 s true r n
             | "shl", false -> ibig_shl_ref_asis w64 s r n
             | _, true -> ibig_shr_asis w64 s r n
             | _, false -> ibig_shr_ref_asis w64 s r n) in
        V (hx v))
end

let want_of (f : (string -> fr) option) = match f with
  | Some g -> Some (fun n -> exactly (g n))
  | None -> None

let judge_int kind args forms =
  let op = List.nth args 0 and a = z (List.nth args 1) and b = z (List.nth args 2) in
  let t = if kind = "uu" then TUBig else TIBig in
  let both = kind = "uu" || kind = "ii" in
  let has_asg = match kind, op with
    | ("uu" | "ii" | "iu"), _ -> true | "ui", ("rem" | "and") -> true | _ -> false in
  let cls = kind ^ "-" ^ op in
  let asis = want_of (Arms.int_asis kind op a b) in
  match op with
  | "add" | "sub" | "mul" | "div" | "rem" | "and" | "or" | "xor" ->
      let w = exactly (of_res hx (big_op t (iop_of op) a b)) in
      verdict ~cls ?asis (own4 @ (if has_asg then asg2 else [])) forms (all_same w)
  | "divrem" ->
      let w = exactly (of_res pair (divrem_spec a b)) in
      verdict ~cls ?asis (met4 @ opsp @ (if both then dra2 else [])) forms (all_same w)
  | "gcd" ->
      let w = if Zar.sign a = 0 && Zar.sign b = 0 then gcd_zero else V (hx (Zar.gcd a b)) in
      let asis = want_of (Arms.gcd_asis a b) in
      verdict ~cls ?asis met4 forms (all_same (exactly w))
  | "gcdext" ->
      if Zar.sign a = 0 && Zar.sign b = 0 then verdict ~cls met4 forms (all_same (exactly gcd_zero))
      else
        let g = Zar.gcd a b in
        let first = match forms with (_, V s) :: _ -> s | _ -> "" in
        let ok = function
          | V s when s = first ->
              (match String.split_on_char ',' s with
               | [ g'; x; y ] -> z g' = g && Zar.equal (Zar.add (Zar.mul a (z x)) (Zar.mul b (z y))) g
               | _ -> false)
          | _ -> false in
        verdict ~cls met4 forms (all_same { ok; txt = "g=" ^ hx g ^ ",a*x+b*y=g,all-forms-identical" })
  | "dive" when both ->
      let w = if Zar.sign b = 0 then P "DivideBy0" else V (hx (div_euclid_spec a b)) in
      verdict ~cls met4 forms (all_same (exactly w))
  | "reme" when both ->
      let w = if Zar.sign b = 0 then P "DivideBy0" else V (hx (rem_euclid_spec a b)) in
      verdict ~cls met4 forms (all_same (exactly w))
  | "divreme" when both ->
      verdict ~cls met4 forms (all_same (exactly (of_res pair (divrem_euclid_spec a b))))
  | _ -> fail ("unknown-op-" ^ kind ^ "-" ^ op)

let prim_ty ty =
  let bits = match ty with
    | "u8" | "i8" -> 8 | "u16" | "i16" -> 16 | "u32" | "i32" -> 32
    | "u64" | "i64" | "usize" | "isize" -> 64 | "u128" | "i128" -> 128 | _ -> failwith ("type " ^ ty) in
  TPrim (ty.[0] = 'i', Zar.of_int bits)

let judge_prim kind args forms =
  let ty = List.nth args 0 and op = List.nth args 1 in
  let x = z (List.nth args 2) and p = z (List.nth args 3) in
  let t = if kind = "up" then TUBig else TIBig and pt = prim_ty ty in
  let cls = kind ^ "-" ^ op ^ "-" ^ (if ty.[0] = 'i' then "signed" else "unsigned") in
  let tag = "prim_result_unrepresentable" in
  if op = "divrem" then begin
    let spec = exactly (of_res pair (divrem_spec x p)) in
    let asis n = exactly (match n with
      | "big" -> of_res pair (divrem_spec x p)
      | "ops" ->
          (* (&x / p, &x % p): the quotient is evaluated first *)
          (match big_op t IoDiv x p with
           | Ok q -> of_res (fun r -> hx q ^ "," ^ hx r) (prim_right_asis t pt IoRem x p)
           | e -> of_res hx e)
      | _ -> of_res pair (prim_divrem_asis t pt x p)) in
    let in_class = prim_unrepresentable pt (big_op t IoRem x p) in
    (if in_class then verdict ~cls ~asis ~tag pdivrem forms (all_same spec) else verdict ~cls ~asis pdivrem forms (all_same spec))
  end else begin
    let o = iop_of op in
    let names = match op with
      | "add" | "mul" | "and" | "or" | "xor" -> pright @ pleft @ pasg
      | "sub" | "div" -> pright @ pasg
      | "rem" -> pright
      | "rsub" | "rdiv" -> pleft
      | _ -> [] in
    if names = [] then fail ("unknown-op-" ^ kind ^ "-" ^ op) else
    let is_left n = List.mem n pleft in
    (* rsub / rdiv: the primitive is the left operand in every form *)
    let spec n = exactly (of_res hx (if is_left n then big_op t o p x else big_op t o x p)) in
    let asis n = exactly (of_res hx (match n with
      | "big" -> big_op t o x p
      | "gib" -> big_op t o p x
      | "a_pv" | "a_pr" -> prim_assign_asis t o x p
      | n when is_left n -> prim_left_asis t pt o p x
      | _ -> prim_right_asis t pt o x p)) in
    let in_class =
      (List.exists (fun n -> not (is_left n)) names && prim_unrepresentable (out_ty t pt o false) (big_op t o x p))
      || (List.exists is_left names && prim_unrepresentable (out_ty t pt o true) (big_op t o p x)) in
    (if in_class then verdict ~cls ~asis ~tag names forms spec else verdict ~cls ~asis names forms spec)
  end

let judge_shift kind args forms =
  let op = List.nth args 0 and a = z (List.nth args 1) and n = z (List.nth args 2) in
  let v = if op = "shl" then shl_spec a n else shr_spec a n in
  let asis = want_of (Arms.shift_asis kind op a n) in
  verdict ~cls:(kind ^ "-" ^ op) ?asis [ "v_n"; "r_n"; "v_rn"; "r_rn"; "a_n"; "a_rn" ] forms (all_same (exactly (V (hx v))))

let sgn_of s = if s = "neg" then Zar.minus_one else Zar.one

let judge_unary args forms =
  let op = List.nth args 0 and a = z (List.nth args 1) in
  let one names v = verdict ~cls:("un-" ^ op) names forms (all_same (exactly (V (hx v)))) in
  match op with
  | "neg" | "uneg" -> one [ "v"; "r" ] (Zar.neg a)
  | "not" -> one [ "v"; "r" ] (Zar.lognot a)
  | "abs" -> one [ "v"; "r"; "uv"; "ur" ] (Zar.abs a)
  | "mulsign" -> one [ "xs"; "sx"; "as" ] (Zar.mul a (sgn_of (List.nth args 2)))
  | "umulsign" -> one [ "xs"; "sx" ] (Zar.mul a (sgn_of (List.nth args 2)))
  | "rootu" | "rooti" ->
      (* roots towards zero; the square root of a negative IBig is the documented panic *)
      let neg = Zar.sign a < 0 in
      let sq = if neg then P "RootNegative" else V (hx (Zar.sqrt a)) in
      let cb = let r = Zar.root (Zar.abs a) 3 in if neg then Zar.neg r else r in
      let want n = exactly (match n with
        | "sqrt_t" | "sqrt_n" -> sq
        | "sqrtrem_t" -> let r = Zar.sqrt a in V (hx r ^ "," ^ hx (Zar.sub a (Zar.mul r r)))
        | "cbrt_t" | "cbrt_n" -> V (hx cb)
        | _ -> V (hx cb ^ "," ^ hx (Zar.sub a (Zar.mul cb (Zar.mul cb cb))))) in
      verdict ~cls:("un-" ^ op)
        (if op = "rootu" then [ "sqrt_t"; "sqrt_n"; "sqrtrem_t"; "cbrt_t"; "cbrt_n"; "cbrtrem_t" ] else [ "sqrt_t"; "sqrt_n"; "cbrt_t"; "cbrt_n" ])
        forms want
  | "addround" ->
      let d = match List.nth args 2 with "AddOne" -> Zar.one | "SubOne" -> Zar.minus_one | _ -> Zar.zero in
      one [ "v"; "r"; "a" ] (Zar.add a d)
  | "upow" | "ipow" ->
      let n = Zar.to_int (z (List.nth args 2)) in
      one [ "m"; "prod_v"; "prod_r"; "fold" ] (Zar.pow a n)
  | _ -> fail ("unknown-op-un-" ^ op)

(* the operators taking a prepared divisor (&ConstDivisor) next to the plain operators: truncating division *)
let judge_constdiv kind args forms =
  let op = List.nth args 0 and a = z (List.nth args 1) and d = z (List.nth args 2) in
  let cls = kind ^ "-" ^ op in
  let names = [ "big"; "v"; "r"; "a" ] in
  let w = match op with
    | "div" -> of_res hx (iop_spec IoDiv a d)
    | "rem" -> of_res hx (iop_spec IoRem a d)
    | "divrem" -> of_res pair (divrem_spec a d)
    | _ -> P "unknown-op" in
  (* as-is: C02's ConstDivisor kernels on the magnitude + the sign of the dividend (Forms/FormsR4Spec.v); `big` is the
     plain operator (judged by the specification only) *)
  let w64 = Zar.of_int 64 in
  let asis = if Zar.numbits a > 40000 then None else Some (fun n ->
    if n = "big" then exactly w else exactly (match op with
      | "div" -> of_res hx (cd_div_asis w64 a d)
      | "rem" -> of_res hx (cd_rem_asis w64 a d)
      | _ -> of_res pair (cd_divrem_asis w64 a d))) in
  verdict ~cls ?asis names forms (all_same (exactly w))

(* ---------------------------------------------------------------- floats *)
let mode_of = function
  | "Zero" -> MZero | "Away" -> MAway | "Up" -> MUp | "Down" -> MDown
  | "HalfEven" -> MHalfEven | "HalfAway" -> MHalfAway | m -> failwith ("mode " ^ m)

type fop = Inf of bool | Fin of Zar.t * Zar.t
let fopnd b s e = match s with
  | "inf" -> Inf false | "-inf" -> Inf true
  | _ -> let (s, e) = normalize b (z s) (z e) in Fin (s, e)
let is_inf = function Inf _ -> true | _ -> false
let frac b s e = if Zar.sign e >= 0 then (Zar.mul s (Zar.pow b (Zar.to_int e)), Zar.one) else (s, Zar.pow b (Zar.to_int (Zar.neg e)))
let qnorm (n, d) = if Zar.sign d < 0 then (Zar.neg n, Zar.neg d) else (n, d)
let qadd (a, b) (c, d) = (Zar.add (Zar.mul a d) (Zar.mul c b), Zar.mul b d)
let qmul (a, b) (c, d) = (Zar.mul a c, Zar.mul b d)
let qneg (a, b) = (Zar.neg a, b)
let qdiv (a, b) (c, d) = qnorm (Zar.mul a d, Zar.mul b c)
let fshow b p (s, e) = let (s, e) = normalize b s e in hx s ^ "," ^ hx e ^ "," ^ hx p

(* does the form's answer  s,e,prec  satisfy the rounding contract for the exact result x at precision p
   (p = 0: exact)?  The value must be stored normalised. *)
let contract_ok b p m x = function
  | V s ->
      (match String.split_on_char ',' s with
       | [ sg; e; prec ] when sg <> "inf" && sg <> "-inf" ->
           let sg = z sg and e = z e in
           let (ns, ne) = normalize b sg e in
           Zar.equal (z prec) p && Zar.equal ns sg && Zar.equal ne e
           && (if Zar.sign p = 0 then cmp_kx b Zar.one x sg e = Eq else check_contract b p m x sg e FUnknown)
       | _ -> false)
  | P _ -> false

let all_identical forms = match forms with
  | [] -> true
  | (_, f) :: rest -> List.for_all (fun (_, g) -> g = f) rest

let max_prec p1 p2 = ctx_max p1 p2

(* the shared judgement of a float binary operator; [ctx] = the form list contains the Context method *)
let judge_fbin ?(known_ok = true) cls b m op (p1, x1) (p2, x2) names forms =
  let p = max_prec p1 p2 in
  let all w = verdict ~cls names forms (all_same w) in
  match x1, x2 with
  | _ when (is_inf x1 || is_inf x2) ->
      (match op with
       | "dive" | "reme" | "divreme" ->
           (* align_as_int does not look at infinities: only agreement is demanded here *)
           let first = snd (List.hd forms) in
           verdict ~cls:(cls ^ "-inf") ~nt:false names forms (all_same { ok = (fun g -> g = first); txt = "all-forms-identical" })
       | _ -> verdict ~cls:(cls ^ "-inf") names forms (all_same (exactly (P "OperateWithInf"))))
  | Fin (s1, e1), Fin (s2, e2) ->
      let q1 = frac b s1 e1 and q2 = frac b s2 e2 in
      let first = (match forms with (_, f) :: _ -> f | [] -> P "none") in
      let same_as_first txt okf = { ok = (fun g -> g = first && okf g); txt } in
      let over = Zar.sign p <> 0 && (Zar.gt (dlen b s1) p || Zar.gt (dlen b s2) p) in
      (* the former class float_operand_exceeds_precision (Forms/FormsFloatR3.v float_mul_class,
         float_div_class_exact) is closed since the repairs 675af08 / da565f6 (Forms/FormsFloatR4.v): the
         histogram still tells how many cases lie in it *)
      let two_p = Zar.mul (Zar.of_int 2) p in
      let was_class = Zar.sign p <> 0 && (match op with
        | "mul" -> Zar.gt (dlen b s1) two_p || Zar.gt (dlen b s2) two_p
        | "div" -> Zar.gt (dlen b s1) (Zar.add p (dlen b s2))
        | _ -> false) in
      let in_class = false in
      let cls = if was_class then cls ^ "-formerclass" else if over then cls ^ "-over" else cls in
      let tag = "float_operand_exceeds_precision" in
      let shown r = V (fshow b p r) in
      let contract x = same_as_first "rounding-contract+all-forms-identical" (contract_ok b p m x) in
      (* alignment branch of an addition / subtraction (Float/AddModel.add_path), for the coverage histogram *)
      let path = match op with
        | "add" | "sub" -> op ^ "-" ^ Zar.to_string (add_path b p s1 e1 s2 e2 (if op = "add" then Positive else Negative))
        | _ -> "" in
      let vk (asis : string -> want) spec =
        if not known_ok then verdict ~cls ~path names forms spec
        else if in_class then verdict ~cls ~path ~asis ~tag names forms spec
        else verdict ~cls ~path ~asis names forms spec in
      (match op with
       | "add" | "sub" ->
           let sg = if op = "add" then Positive else Negative in
           let (n, d) = qadd q1 (if op = "add" then q2 else qneg q2) in
           let asis nme = exactly (shown (match nme with
             | "vv" | "av" -> fadd_form_x b OVV p1 p2 m s1 e1 s2 e2 sg
             | "vr" | "ar" -> fadd_form_x b OVR p1 p2 m s1 e1 s2 e2 sg
             | "rv" -> fadd_form_x b ORV p1 p2 m s1 e1 s2 e2 sg
             | "rr" -> fadd_form_x b ORR p1 p2 m s1 e1 s2 e2 sg
             | _ -> approx_val ((if op = "add" then ctx_add_x else ctx_sub_r3_x) b p m s1 e1 s2 e2))) in
           (* an operand longer than the result precision: C15 demands that all forms return the same
              value (and the as-is models predict it); whether that value is the correctly rounded sum
              is C03's question there (its over-long findings); here: the value of the form models, which
              are proved to agree (C15_float_add_ctx_agrees_r3 / C15_float_sub_ctx_agrees_r3) *)
           if over then vk asis (fun nme -> let w = asis nme in { ok = (fun g -> g = first && w.ok g); txt = w.txt ^ "+all-forms-identical" })
           else vk asis (all_same (contract (XRat (n, d))))
       | "mul" ->
           let (n, d) = qmul q1 q2 in
           let asis nme = exactly (shown (match nme with
             | "ctx" -> fmul_ctx_r4 b p m s1 e1 s2 e2
             | _ -> fmul_op b p m s1 e1 s2 e2)) in
           vk asis (all_same (contract (XRat (n, d))))
       | "div" ->
           if Zar.sign p = 0 then all (exactly (P "UnlimitedPrecision"))
           else
             let shr = function Ok r -> shown r | e -> of_res (fun _ -> "") e in
             let asis nme = exactly (match nme with
               | "ctx" -> shr (fdiv_ctx_r4 b p m s1 e1 s2 e2)
               | _ -> shr (fdiv_op_r4 b p m s1 e1 s2 e2)) in
             if Zar.sign s2 = 0 then
               (* the integer division raises the documented panic *)
               vk asis (all_same (exactly (P "DivideBy0")))
             else
               let (n, d) = qdiv q1 q2 in
               vk asis (all_same (contract (XRat (n, d))))
       | "rem" ->
           if Zar.sign s2 = 0 then all (exactly (P "DivideBy0"))
           else
             (* r = x1 - n * x2,  n = x1 / x2 rounded to nearest, ties away from zero *)
             let (qn, qd) = qdiv q1 q2 in
             let n = rha qn qd in
             let (rn, rd) = qadd q1 (qneg (qmul (n, Zar.one) q2)) in
             verdict ~cls names forms (all_same (contract (XRat (rn, rd))))
       | "dive" | "reme" | "divreme" ->
           if Zar.sign s2 = 0 then all (exactly (P "DivideBy0"))
           else
             let emin = Zar.min e1 e2 in
             let num = Zar.mul s1 (Zar.pow b (Zar.to_int (Zar.sub e1 emin))) in
             let den = Zar.mul s2 (Zar.pow b (Zar.to_int (Zar.sub e2 emin))) in
             let q = ediv num den and r = emod num den in
             let (rn, rd) = frac b r emin in
             (match op with
              | "dive" -> all (exactly (V (hx q)))
              | "reme" -> verdict ~cls names forms (all_same (contract (XRat (rn, rd))))
              | _ ->
                  let ok g = g = first && (match g with
                    | V s -> (match String.index_opt s ',' with
                        | Some i -> z (String.sub s 0 i) = q
                                    && contract_ok b p m (XRat (rn, rd)) (V (String.sub s (i + 1) (String.length s - i - 1)))
                        | None -> false)
                    | _ -> false) in
                  verdict ~cls names forms (all_same { ok; txt = "q=" ^ hx q ^ ",r-contract" }))
       | _ -> fail ("unknown-op-f-" ^ op))
  | _ -> fail "unreachable"

let judge_float args forms =
  let op = List.nth args 0 and b = z (List.nth args 1) and m = mode_of (List.nth args 2) in
  let a i = List.nth args i in
  let p1 = z (a 3) and p2 = z (a 6) in
  let x1 = fopnd b (a 4) (a 5) and x2 = fopnd b (a 7) (a 8) in
  let names = match op with
    | "add" | "sub" | "mul" | "div" | "rem" -> own4 @ asg2 @ [ "ctx" ]
    | _ -> met4 in
  judge_fbin ("f-" ^ op) b m op (p1, x1) (p2, x2) names forms

let judge_fshift args forms =
  let op = List.nth args 0 and b = z (List.nth args 1) in
  let a i = List.nth args i in
  let p = z (a 3) and n = z (a 6) in
  let x = match fopnd b (a 4) (a 5) with Inf neg -> FInf neg | Fin (s, e) -> FFin (s, e) in
  let show = function FFin (s, e) -> hx s ^ "," ^ hx e ^ "," ^ hx p | FInf neg -> (if neg then "-inf" else "inf") ^ ",0," ^ hx p in
  let w = exactly (of_res show (fshift_spec x (if op = "shl" then n else Zar.neg n))) in
  verdict ~cls:("fsh-" ^ op) [ "v"; "a" ] forms (all_same w)

let judge_funary args forms =
  let op = List.nth args 0 and b = z (List.nth args 1) and m = mode_of (List.nth args 2) in
  let a i = List.nth args i in
  let p = z (a 3) in
  let x = fopnd b (a 4) (a 5) in
  let cls = "fu-" ^ op in
  let first = (match forms with (_, f) :: _ -> f | [] -> P "none") in
  let agree names = verdict ~cls:(cls ^ "-inf") ~nt:false names forms (all_same { ok = (fun g -> g = first); txt = "all-forms-identical" }) in
  let contract ?asis names x = verdict ~cls ?asis names forms (all_same { ok = (fun g -> g = first && contract_ok b p m x g); txt = "rounding-contract+all-forms-identical" }) in
  match op, x with
  | "neg", Inf _ -> agree [ "v"; "r" ]
  | "neg", Fin (s, e) -> verdict ~cls [ "v"; "r" ] forms (all_same (exactly (V (fshow b p (Zar.neg s, e)))))
  | "abs", Inf _ -> agree [ "v" ]
  | "abs", Fin (s, e) -> verdict ~cls [ "v" ] forms (all_same (exactly (V (fshow b p (Zar.abs s, e)))))
  | "mulsign", Inf _ -> agree [ "xs"; "sx"; "as" ]
  | "mulsign", Fin (s, e) -> verdict ~cls [ "xs"; "sx"; "as" ] forms (all_same (exactly (V (fshow b p (Zar.mul s (sgn_of (a 6)), e)))))
  | "inv", _ ->
      let names = [ "v"; "r"; "ctx"; "one_div" ] in
      (match x with
       | Inf _ -> verdict ~cls names forms (all_same (exactly (P "OperateWithInf")))
       | Fin (s, e) ->
           if Zar.sign p = 0 then verdict ~cls names forms (all_same (exactly (P "UnlimitedPrecision")))
           else if Zar.sign s = 0 then verdict ~cls names forms (all_same (exactly (P "DivideBy0")))
           else let (n, d) = qdiv (Zar.one, Zar.one) (frac b s e) in contract names (XRat (n, d)))
  | ("sqr" | "cubic"), Inf _ -> verdict ~cls [ "m"; "ctx" ] forms (all_same (exactly (P "OperateWithInf")))
  | "sqr", Fin (s, e) ->
      let q = frac b s e in let (n, d) = qmul q q in
      contract ~asis:(all_same (exactly (V (fshow b p (fsqr_r4 b p m s e))))) [ "m"; "ctx" ] (XRat (n, d))
  | "cubic", Fin (s, e) ->
      let q = frac b s e in let (n, d) = qmul q (qmul q q) in
      contract ~asis:(all_same (exactly (V (fshow b p (fcubic_r4 b p m s e))))) [ "m"; "ctx" ] (XRat (n, d))
  | _ -> fail ("unknown-op-fu-" ^ op)

let judge_fprim args forms =
  let op = List.nth args 0 and b = z (List.nth args 1) and m = mode_of (List.nth args 2) in
  let a i = List.nth args i in
  let p1 = z (a 3) in
  let x1 = fopnd b (a 4) (a 5) in
  let pv = z (a 7) in
  (* FBig::from(prim) = from_parts(prim, 0): precision = digits of the primitive (at least 1) *)
  let p2 = Zar.max Zar.one (dlen b pv) in
  let (s2, e2) = normalize b pv Zar.zero in
  let x2 = Fin (s2, e2) in
  let names = match op with
    | "add" | "mul" -> pright @ pleft @ pasg
    | "sub" | "div" -> pright @ pasg
    | "rsub" | "rdiv" -> pleft
    | _ -> [] in
  if names = [] then fail ("unknown-op-fp-" ^ op) else
  let cls = "fp-" ^ op ^ "-" ^ a 6 in
  match op with
  | "rsub" -> judge_fbin ~known_ok:false cls b m "sub" (p2, x2) (p1, x1) names forms
  | "rdiv" -> judge_fbin ~known_ok:false cls b m "div" (p2, x2) (p1, x1) names forms
  | "add" | "mul" ->
      (* commutative: the left forms compute prim (op) x, the same exact value *)
      judge_fbin ~known_ok:false cls b m op (p1, x1) (p2, x2) names forms
  | _ -> judge_fbin ~known_ok:false cls b m op (p1, x1) (p2, x2) names forms

(* ---------------------------------------------------------------- rationals *)
let qshow (n, d) = hx n ^ "," ^ hx d
let qbinop_of = function
  | "add" -> OAdd | "sub" -> OSub | "mul" -> OMul | "div" -> ODiv | "rem" -> ORem | "reme" -> ORemE
  | o -> failwith ("qop " ^ o)

(* RBig: the canonical representative, token for token.  Relaxed: equal value (cross multiplication),
   positive denominator, and the same stored representation in every form *)
let qwant relaxed first (r : (Zar.t * Zar.t) result) : want =
  match r with
  | Ok q when relaxed ->
      { ok = (fun g -> g = first && (match g with
          | V s -> (match String.split_on_char ',' s with
              | [ n; d ] -> Zar.sign (z d) > 0 && veqb (z n, z d) q
              | _ -> false)
          | _ -> false));
        txt = "value=" ^ qshow q ^ ",all-forms-identical" }
  | r -> exactly (of_res qshow r)

let judge_ratio kind args forms =
  let relaxed = kind = "x" in
  let op = List.nth args 0 in
  let a i = z (List.nth args i) in
  let x = canon (a 1) (a 2) and y = canon (a 3) (a 4) in
  let first = (match forms with (_, f) :: _ -> f | [] -> P "none") in
  let cls = kind ^ "-" ^ op in
  match op with
  | "add" | "sub" | "mul" | "div" | "rem" ->
      verdict ~cls (own4 @ asg2) forms (all_same (qwant relaxed first (c15_qbin (qbinop_of op) x y)))
  | "reme" -> verdict ~cls met4 forms (all_same (qwant relaxed first (c15_qbin ORemE x y)))
  | "dive" -> verdict ~cls met4 forms (all_same (exactly (of_res hx (c15_qdive x y))))
  | "divreme" ->
      (match c15_qdivreme x y with
       | Ok (q, r) ->
           let ok g = g = first && (match g with
             | V s -> (match String.index_opt s ',' with
                 | Some i -> z (String.sub s 0 i) = q
                             && (qwant relaxed (V (String.sub s (i + 1) (String.length s - i - 1))) (Ok r)).ok (V (String.sub s (i + 1) (String.length s - i - 1)))
                 | None -> false)
             | _ -> false) in
           verdict ~cls met4 forms (all_same { ok; txt = "q=" ^ hx q ^ ",r=" ^ qshow r })
       | e -> verdict ~cls met4 forms (all_same (exactly (of_res (fun _ -> "") e))))
  | _ -> fail ("unknown-op-" ^ kind ^ "-" ^ op)

let judge_ratio_int kind args forms =
  let relaxed = kind = "xi" in
  let op = List.nth args 0 in
  let x = canon (z (List.nth args 1)) (z (List.nth args 2)) and i = z (List.nth args 4) in
  let first = (match forms with (_, f) :: _ -> f | [] -> P "none") in
  let cls = kind ^ "-" ^ op ^ "-" ^ List.nth args 3 in
  let right = [ "big"; "bv_pv"; "bv_pr"; "br_pv"; "br_pr" ] in
  (* Relaxed results are not canonical (0/3 and 0/1 are the same value): the four ownership arms of
     one macro body must store the identical pair, the all-rational form `big` / `gib` (another body)
     must only return the same value - C15_relaxed_int_forms_agree is up to the value *)
  let first_of names = (match List.filter (fun (n, _) -> List.mem n names) forms with (_, f) :: _ -> f | [] -> P "none") in
  let arms_r = [ "bv_pv"; "bv_pr"; "br_pv"; "br_pr" ] and arms_l = [ "pv_bv"; "pr_bv"; "pv_br"; "pr_br" ] in
  let w o = fun n ->
    let fst_ = if not relaxed then first
      else if List.mem n arms_r then first_of arms_r else if List.mem n arms_l then first_of arms_l
      else (match List.assoc_opt n forms with Some f -> f | None -> P "none") in
    qwant relaxed fst_ (c15_qint o x i) in
  match op with
  | "add" -> verdict ~cls (right @ pleft) forms (w IAdd)
  | "mul" -> verdict ~cls (right @ pleft) forms (w IMul)
  | "sub" -> verdict ~cls right forms (w ISub)
  | "rsub" -> verdict ~cls pleft forms (w IRsub)
  | "div" -> verdict ~cls right forms (w IDiv)
  | "rdiv" -> verdict ~cls pleft forms (w IRdiv)
  | _ -> fail ("unknown-op-" ^ kind ^ "-" ^ op)

let judge_ratio_unary kind args forms =
  let relaxed = kind = "xu" in
  let op = List.nth args 0 in
  let x = canon (z (List.nth args 1)) (z (List.nth args 2)) in
  let first = (match forms with (_, f) :: _ -> f | [] -> P "none") in
  let cls = kind ^ "-" ^ op in
  match op with
  | "neg" -> verdict ~cls [ "v"; "r" ] forms (all_same (qwant relaxed first (c15_qun UNeg x)))
  | "abs" -> verdict ~cls [ "v" ] forms (all_same (qwant relaxed first (c15_qun UAbs x)))
  | "inv" -> verdict ~cls [ "v"; "r" ] forms (all_same (qwant relaxed first (c15_qun UInv x)))
  | "mulsign" ->
      let s = if List.nth args 3 = "neg" then Negative else Positive in
      verdict ~cls [ "xs" ] forms (all_same (qwant relaxed first (Ok (c15_qmulsign s x))))
  | _ -> fail ("unknown-op-" ^ kind ^ "-" ^ op)

(* ---------------------------------------------------------------- residues *)
let judge_reduced args forms =
  let op = List.nth args 0 and m = z (List.nth args 1) in
  let red v = Zar.erem v m in
  let a = red (z (List.nth args 2)) in
  let cls = "m-" ^ op in
  if op = "sqr" then verdict ~cls [ "m"; "mul_vv"; "mul_rr" ] forms (all_same (exactly (V (hx (c15_mmul m a a)))))
  else if op = "dbl" then verdict ~cls [ "m"; "add_vv"; "add_rr" ] forms (all_same (exactly (V (hx (c15_madd m a a)))))
  else if op.[0] = 'x' then begin
    (* operands of two rings: the documented panic; a division inverts the divisor first, so a
       non-invertible divisor may be reported instead - by every form alike *)
    let first = (match forms with (_, f) :: _ -> f | [] -> P "none") in
    let noninv = op = "xdiv" && (match c15_mdiv m a (red (z (List.nth args 3))) with Panic NonInvertible -> true | _ -> false) in
    let ok g = g = first && (fr_ok (P "DifferentRings") g || (noninv && fr_ok (P "NonInvertible") g)) in
    verdict ~cls (own4 @ asg2) forms (all_same { ok; txt = "p,DifferentRings" })
  end
  else if op = "neg" then verdict ~cls [ "v"; "r" ] forms (all_same (exactly (V (hx (c15_mneg m a)))))
  else
    let b = red (z (List.nth args 3)) in
    let w = match op with
      | "add" -> V (hx (c15_madd m a b)) | "sub" -> V (hx (c15_msub m a b)) | "mul" -> V (hx (c15_mmul m a b))
      | "div" -> of_res hx (c15_mdiv m a b) | _ -> P "unknown-op" in
    verdict ~cls (own4 @ asg2) forms (all_same (exactly w))

(* ---------------------------------------------------------------- clone / clone_from *)
let maxcap = Zar.shift_left Zar.one 57

let judge_clone args forms =
  let src = z (List.nth args 0) and dst0 = z (List.nth args 1) and sh = Zar.to_int (z (List.nth args 2)) in
  let one unsigned =
    let src = if unsigned then Zar.abs src else src in
    let dst = if unsigned then Zar.shift_right (Zar.abs dst0) sh else Zar.shift_right dst0 sh in
    ignore dst;
    let ok = function
      | V s ->
          (match String.split_on_char ',' s with
           | [ sc; sl; si; bc; _bl; _bi; av; ac; al; ai; cv; cc; cl; ci; ind ] ->
               let sc = z sc and sl = z sl and bc = z bc and ac = z ac and al = z al and cc = z cc and cl = z cl in
               let nwords = Zar.of_int ((Zar.numbits src + 63) / 64) in
               let sgn v = if Zar.sign src < 0 then Zar.neg v else v in
               (* the source is stored canonically: inline iff at most two words *)
               let src_canon = (si = "1") = (Zar.leq nwords (Zar.of_int 2)) && (si = "1" || Zar.equal sl nwords)
                               && Zar.sign sc = (if Zar.sign src < 0 then -1 else 1) in
               let want_after = sgn (clone_from_cap maxcap (Zar.abs bc) (Zar.abs sc) sl) in
               let want_clone = sgn (clone_cap maxcap (Zar.abs sc) sl) in
               src_canon
               && z av = src && z cv = src
               && Zar.equal ac want_after && Zar.equal al sl && ai = si
               && Zar.equal cc want_clone && Zar.equal cl sl && ci = si
               && ind = "111"
           | _ -> false)
      | P _ -> false in
    { ok; txt = "value-equal,layout=clone_from_cap/clone_cap,independent" } in
  verdict ~cls:"clone-int" [ "ibig"; "ubig" ] forms (fun n -> one (n = "ubig"))

let judge_clone_float args forms =
  let b = z (List.nth args 0) in
  let a i = List.nth args i in
  let p1 = z (a 2) in
  let shown = match fopnd b (a 3) (a 4) with
    | Inf neg -> (if neg then "-inf" else "inf") ^ ",0," ^ hx p1
    | Fin (s, e) -> fshow b p1 (s, e) in
  (* value and precision of the source; source untouched by mutating the copy; equal to the source /
     to clone() under == and in a follow-up multiplication *)
  verdict ~cls:"clone-float" [ "clone"; "clone_from" ] forms (all_same (exactly (V (shown ^ ",1,1"))))

let judge_clone_ratio args forms =
  let a i = z (List.nth args i) in
  let x = canon (a 0) (a 1) in
  let rb = exactly (V (qshow x ^ "," ^ qshow x ^ ",1,1")) in
  let rx = { ok = (function
      | V s -> (match String.split_on_char ',' s with
          | [ n1; d1; n2; d2; "1"; "1" ] -> n1 = n2 && d1 = d2 && Zar.sign (z d1) > 0 && veqb (z n1, z d1) x
          | _ -> false)
      | _ -> false); txt = "value=" ^ qshow x ^ ",clone=clone_from,same-in-follow-up-ops,independent" } in
  verdict ~cls:"clone-ratio" [ "rbig"; "relaxed" ] forms (fun n -> if n = "rbig" then rb else rx)

(* Reduced: clone_from onto a destination of the same ring or of ANOTHER ring (any representation):
   afterwards residue and modulus are those of the source, == and + with the source work (they panic
   with 'different rings' otherwise), equal to clone(); along a history of clone_from between two rings *)
let judge_clone_reduced args forms =
  let m = z (List.nth args 0) in
  let m2 = if List.length args > 3 then z (List.nth args 3) else m in
  let r = Zar.erem (z (List.nth args 1)) m in
  let r2 = Zar.erem (z (List.nth args 2)) m2 in
  let kind v = let n = (Zar.numbits v + 63) / 64 in if n <= 1 then "1" else if n = 2 then "2" else "L" ^ string_of_int n in
  let cls = "clone-reduced-" ^ (if Zar.equal m m2 then "same" else kind m2 ^ "to" ^ kind m) in
  let sum = Zar.erem (Zar.mul (Zar.of_int 2) r) m in
  let want n = match n with
    | "chain" -> exactly (V (String.concat "," [ hx r2; hx m2; "1"; hx r; hx m; "1"; hx (Zar.erem (Zar.mul r r) m) ]))
    | _ -> exactly (V (String.concat "," [ hx r; hx m; hx r; hx m; "1"; hx sum; "1" ])) in
  verdict ~cls [ "reduced"; "chain" ] forms want

(* ---------------------------------------------------------------- Sum / Product, method vs Context *)
let fold_names = [ "owned"; "refs"; "fold_v"; "fold_r"; "fold_rv" ]
let prim_fold_names = [ "prims"; "prims_r" ]
let rec drop n l = if n <= 0 then l else match l with [] -> [] | _ :: t -> drop (n - 1) t
let rec pairs = function a :: b :: t -> (a, b) :: pairs t | _ -> []

let judge_iter args forms =
  let op = List.nth args 0 and kind = List.nth args 1 in
  let rest = drop 2 args in
  let cls = "it-" ^ op ^ "-" ^ kind in
  let first = (match forms with (_, f) :: _ -> f | [] -> P "none") in
  match kind with
  | "u" | "i" ->
      let vs = List.map z rest in
      let fold l = if op = "sum" then List.fold_left Zar.add Zar.zero l else List.fold_left Zar.mul Zar.one l in
      (* primitive items: the low 16 bits of every item (u16 for UBig, i16 for IBig) *)
      let low16 v = let u = Zar.logand v (Zar.of_int 0xffff) in
        if kind = "i" && Zar.geq u (Zar.of_int 0x8000) then Zar.sub u (Zar.of_int 0x10000) else u in
      let rp = fold (List.map low16 vs) and r = fold vs in
      verdict ~cls (fold_names @ prim_fold_names) forms
        (fun n -> exactly (V (hx (if List.mem n prim_fold_names then rp else r))))
  | "q" | "x" ->
      let vs = List.map (fun (n, d) -> canon (z n) (z d)) (pairs rest) in
      let o = if op = "sum" then OAdd else OMul in
      let init = if op = "sum" then (Zar.zero, Zar.one) else (Zar.one, Zar.one) in
      let r = List.fold_left (fun acc v -> match acc with Ok a -> c15_qbin o a v | e -> e) (Ok init) vs in
      verdict ~cls fold_names forms (all_same (qwant (kind = "x") first r))
  | _ -> fail ("unknown-kind-it-" ^ kind)

(* floats: every item is rounded into the running precision, the explicit folds are judged by the `f`
   cases; here the four forms must return the same thing *)
let rec triples = function a :: b :: c :: t -> (a, b, c) :: triples t | _ -> []
let judge_iter_float args forms =
  let op = List.nth args 0 and b = z (List.nth args 1) and m = mode_of (List.nth args 2) in
  let has_inf = List.exists (fun t -> t = "inf" || t = "-inf") args in
  if has_inf then
    verdict ~cls:("itf-" ^ op ^ "-inf") fold_names forms (all_same (exactly (P "OperateWithInf")))
  else begin
    (* Sum / Product = the fold of the operator + / * from FBig::ZERO / FBig::ONE (Forms/FormsR3Spec.v
       fsum_asis / fprod_asis, regenerated from iter.rs): owned items and the by-value fold run the
       T + T body, borrowed items and += the T + &T body *)
    let items = List.map (fun (p, s, e) -> let (s, e) = normalize b (z s) (z e) in (z p, (s, e))) (triples (drop 3 args)) in
    let want o =
      let (p, (s, e)) = if op = "sum" then fsum_asis_x b m o items else fprod_asis b m items in
      exactly (V (fshow b p (s, e))) in
    let spec n = match n with "refs" | "fold_r" -> want OVR | "fold_rv" -> want ORR | _ -> want OVV in
    verdict ~cls:("itf-" ^ op) ~asis:spec fold_names forms spec
  end

let judge_fmethod args forms =
  let op = List.nth args 0 and b = z (List.nth args 1) and m = mode_of (List.nth args 2) in
  let a i = List.nth args i in
  let p = z (a 3) in
  let x = fopnd b (a 4) (a 5) in
  let cls = "fm-" ^ op in
  let names = [ "m"; "ctx" ] in
  let first = (match forms with (_, f) :: _ -> f | [] -> P "none") in
  let agree = { ok = (fun g -> g = first); txt = "all-forms-identical" } in
  match op, x with
  | "sqrt", Fin (s, e) ->
      if Zar.sign p = 0 then verdict ~cls names forms (all_same (exactly (P "UnlimitedPrecision")))
      else if Zar.sign s < 0 then verdict ~cls names forms (all_same (exactly (P "RootNegative")))
      else
        let (n, d) = frac b s e in
        verdict ~cls names forms (all_same { ok = (fun g -> g = first && contract_ok b p m (XSqrt (n, d)) g); txt = "sqrt-contract+all-forms-identical" })
  | _ -> verdict ~cls ~nt:false names forms (all_same agree)

let judge op args got =
  match got with
  | "ok" :: toks when toks <> [] ->
      let forms = List.map parse_form toks in
      (match op with
       | "uu" | "ii" | "ui" | "iu" -> judge_int op args forms
       | "up" | "ip" -> judge_prim op args forms
       | "ush" | "ish" -> judge_shift op args forms
       | "un" -> judge_unary args forms
       | "cdu" | "cdi" -> judge_constdiv op args forms
       | "f" -> judge_float args forms
       | "fsh" -> judge_fshift args forms
       | "fu" -> judge_funary args forms
       | "fp" -> judge_fprim args forms
       | "q" | "x" -> judge_ratio op args forms
       | "qi" | "xi" -> judge_ratio_int op args forms
       | "qu" | "xu" -> judge_ratio_unary op args forms
       | "m" -> judge_reduced args forms
       | "it" -> judge_iter args forms
       | "itf" -> judge_iter_float args forms
       | "fm" -> judge_fmethod args forms
       | "clone" -> judge_clone args forms
       | "clonef" -> judge_clone_float args forms
       | "cloneq" -> judge_clone_ratio args forms
       | "clonem" -> judge_clone_reduced args forms
       | _ -> fail ("unknown-op-" ^ op))
  | _ -> fail "ok-form-list"

let () = serve judge
