(* C09 oracle: judges the implementation's answers against the extracted Coq specifications.
   spec  = Zar.land/Zar.lor/... (Coq's infinite two's complement) and Int/BitsSpec.v
   asis  = the sign tables regenerated from the Rust source (DashuGen.SignTables)             *)
open Common
open Model

let sm x = if Zar.sign x < 0 then (Negative, Zar.neg x) else (Positive, x)
let usz s = Zar.of_string_base 16 s

let fidelity asis_val got =
  match got with
  | [ "ok"; g ] -> "asis=" ^ if hx asis_val = g then "same" else "diff"
  | _ -> "asis=na"

(* word-level as-is models run on 64-bit word lists (the harness build's word size) *)
let w64 = Zar.of_int 64
let rec nat_of_int n = if n <= 0 then O else S (nat_of_int (n - 1))
let words_of v = to_words w64 (nat_of_int ((Zar.numbits v + 63) / 64)) v
let fid_opt model got = match got with
  | [ "ok"; "some"; g ] -> "asis=" ^ (if hx model = g then "same" else "diff")
  | _ -> "asis=na"

let prim_bits ty = match ty with
  | "u8" | "i8" -> 8 | "u16" | "i16" -> 16 | "u32" | "i32" -> 32
  | "u64" | "i64" | "usize" | "isize" -> 64 | _ -> 128

(* word-level as-is models (Int/BitsKernels.v, proved for every word size) run at the word size of
   the harness build; a magnitude is handed over as its typed view (inline double word / heap
   words), C09_to_brepr proves that view faithful *)
let br m = to_brepr w64 m
let bv r = bvalue w64 r
let fid_tokens want got = "asis=" ^ (if got = "ok" :: want then "same" else "diff")
(* two as-is answers (sign table on Z, and the same table over the word kernels) must both match *)
let fid2 a b got = match got with
  | [ "ok"; g ] -> "asis=" ^ (if hx a = g && hx b = g then "same" else "diff")
  | _ -> "asis=na"

let judge op args got =
  let a i = z (List.nth args i) in
  let n i = usz (List.nth args i) in
  let bin own tbl wtbl f =
    let x = a 0 and y = a 1 in
    let s0, m0 = sm x and s1, m1 = sm y in
    expect ~extra:(fid2 (tbl s0 m0 s1 m1) (wtbl own s0 (br m0) s1 (br m1)) got) ("ok " ^ hx (f x y)) got
  in
  let ubin own wop f =
    let x = a 0 and y = a 1 in
    expect ~extra:(fid_tokens [ hx (bv (wop w64 own (br x) (br y))) ] got) ("ok " ^ hx (f x y)) got
  in
  match op with
  | "and" -> bin VV ibig_bitand_gen (ibig_bitand_asis w64) Zar.logand
  | "and_vr" -> bin VR ibig_bitand_gen (ibig_bitand_asis w64) Zar.logand
  | "and_rv" -> bin RV ibig_bitand_gen (ibig_bitand_asis w64) Zar.logand
  | "and_rr" -> bin RR ibig_bitand_gen (ibig_bitand_asis w64) Zar.logand
  | "or" | "or_ui" | "or_iu" -> bin VV ibig_bitor_gen (ibig_bitor_asis w64) Zar.logor
  | "or_vr" -> bin VR ibig_bitor_gen (ibig_bitor_asis w64) Zar.logor
  | "or_rv" -> bin RV ibig_bitor_gen (ibig_bitor_asis w64) Zar.logor
  | "or_rr" -> bin RR ibig_bitor_gen (ibig_bitor_asis w64) Zar.logor
  | "xor" | "xor_ui" | "xor_iu" -> bin VV ibig_bitxor_gen (ibig_bitxor_asis w64) Zar.logxor
  | "xor_vr" -> bin VR ibig_bitxor_gen (ibig_bitxor_asis w64) Zar.logxor
  | "xor_rv" -> bin RV ibig_bitxor_gen (ibig_bitxor_asis w64) Zar.logxor
  | "xor_rr" -> bin RR ibig_bitxor_gen (ibig_bitxor_asis w64) Zar.logxor
  | "uand" -> ubin VV repr_bitand Zar.logand
  | "uand_vr" -> ubin VR repr_bitand Zar.logand
  | "uand_rv" -> ubin RV repr_bitand Zar.logand
  | "uand_rr" -> ubin RR repr_bitand Zar.logand
  | "uor" -> ubin VV repr_bitor Zar.logor
  | "uor_vr" -> ubin VR repr_bitor Zar.logor
  | "uor_rv" -> ubin RV repr_bitor Zar.logor
  | "uor_rr" -> ubin RR repr_bitor Zar.logor
  | "uxor" -> ubin VV repr_bitxor Zar.logxor
  | "uxor_vr" -> ubin VR repr_bitxor Zar.logxor
  | "uxor_rv" -> ubin RV repr_bitxor Zar.logxor
  | "uxor_rr" -> ubin RR repr_bitxor Zar.logxor
  | "and_ui" -> bin VV ubig_ibig_bitand_gen (ibig_bitand_asis w64) Zar.logand
  | "and_iu" ->
      (* impl_ibig_ubig_bitand: the unsigned operand (second) is the receiver of bitand / and_not *)
      bin VV ibig_ubig_bitand_gen (fun own s0 r0 _ r1 -> ibig_bitand_asis w64 own Positive r1 s0 r0) Zar.logand
  | "not" -> let x = a 0 in let s, m = sm x in expect ~extra:(fidelity (ibig_not_gen s m) got) ("ok " ^ hx (Zar.lognot x)) got
  | "not_r" -> let x = a 0 in let s, m = sm x in expect ~extra:(fidelity (ibig_not_ref_gen s m) got) ("ok " ^ hx (Zar.lognot x)) got
  | "uand_p" | "uor_p" | "uxor_p" | "iand_pu" | "ior_pu" | "ixor_pu" | "iand_pi" | "ior_pi" | "ixor_pi" ->
      let x = a 1 and p = a 2 in
      let f = (match String.sub op 1 2 with "an" -> Zar.logand | "or" -> Zar.logor | _ -> Zar.logxor) in
      expect ("ok " ^ hx (f x p)) got
  | "shl" | "shl_r" ->
      let x = a 0 in let s, m = sm x in
      let asis = if op = "shl" then ibig_shl_asis w64 s true (br m) (n 1) else signed s (bv (repr_shl_ref w64 (br m) (n 1))) in
      expect ~extra:(fid_tokens [ hx asis ] got) ("ok " ^ hx (Zar.shift_left x (Zar.to_int (n 1)))) got
  | "ushl" | "ushl_assign" | "ushl_r" ->
      let x = a 0 in
      let asis = if op = "ushl_r" then repr_shl_ref w64 (br x) (n 1) else repr_shl w64 true (br x) (n 1) in
      expect ~extra:(fid_tokens [ hx (bv asis) ] got) ("ok " ^ hx (Zar.shift_left x (Zar.to_int (n 1)))) got
  | "shr" | "shr_assign" -> let x = a 0 in let s, m = sm x in
      expect ~extra:(fid2 (ibig_shr_gen s m (n 1)) (ibig_shr_asis w64 s (br m) (n 1)) got) ("ok " ^ hx (Zar.shift_right x (Zar.to_int (n 1)))) got
  | "shr_r" -> let x = a 0 in let s, m = sm x in
      expect ~extra:(fid2 (ibig_shr_ref_gen s m (n 1)) (ibig_shr_ref_asis w64 s (br m) (n 1)) got) ("ok " ^ hx (Zar.shift_right x (Zar.to_int (n 1)))) got
  | "ushr" | "ushr_r" ->
      let x = a 0 in
      let asis = if op = "ushr" then repr_shr w64 (br x) (n 1) else repr_shr_ref w64 (br x) (n 1) in
      expect ~extra:(fid_tokens [ hx (bv asis) ] got) ("ok " ^ hx (Zar.shift_right x (Zar.to_int (n 1)))) got
  | "ubit" ->
      let x = a 0 in
      expect ~extra:(fid_tokens [ b2s (repr_bit w64 (br x) (n 1)) ] got) ("ok " ^ b2s (Zar.testbit x (Zar.to_int (n 1)))) got
  | "bit" ->
      let x = a 0 in let s, m = sm x in
      let extra = if Zar.sign x = 0 then "" else fid_tokens [ b2s (ibig_bit w64 s (br m) (n 1)) ] got in
      expect ~extra ("ok " ^ b2s (Zar.testbit x (Zar.to_int (n 1)))) got
  | "bit_len" | "ubit_len" ->
      let x = a 0 in
      expect ~extra:(fid_tokens [ hx (repr_bit_len w64 (br (Zar.abs x))) ] got) ("ok " ^ hx (bit_len_spec x)) got
  | "set_bit" ->
      expect ~extra:(fid_tokens [ hx (bv (repr_set_bit w64 (br (a 0)) (n 1))) ] got) ("ok " ^ hx (set_bit_spec (a 0) (n 1))) got
  | "clear_bit" ->
      expect ~extra:(fid_tokens [ hx (bv (repr_clear_bit w64 (br (a 0)) (n 1))) ] got) ("ok " ^ hx (clear_bit_spec (a 0) (n 1))) got
  | "utz" | "tz" ->
      let x = a 0 in
      expect ~extra:(fid_tokens (split_ws (hopt (repr_trailing_zeros w64 (br (Zar.abs x))))) got) ("ok " ^ hopt (trailing_zeros_spec x)) got
  | "uto" ->
      let x = a 0 in
      (* two word-level answers: the scanning kernel on the raw words and the typed dispatch *)
      let k = repr_trailing_ones w64 (br x) in
      let extra = if Zar.numbits x > 128 && not (Zar.equal k (trailing_ones_large w64 (words_of x))) then "asis=diff"
                  else fid_tokens [ "some"; hx k ] got in
      expect ~extra ("ok " ^ hopt (trailing_ones_spec x)) got
  | "to" ->
      let x = a 0 in let s, m = sm x in
      expect ~extra:(fid_tokens (split_ws (hopt (ibig_trailing_ones w64 s (br m)))) got) ("ok " ^ hopt (trailing_ones_spec x)) got
  | "count_ones" ->
      expect ~extra:(fid_tokens [ hx (repr_count_ones (br (a 0))) ] got) ("ok " ^ hx (count_ones_spec (a 0))) got
  | "count_zeros" ->
      expect ~extra:(fid_tokens (split_ws (hopt (repr_count_zeros w64 (br (a 0))))) got) ("ok " ^ hopt (count_zeros_spec (a 0))) got
  | "split_bits" ->
      let (lo, hi) = split_bits_spec (a 0) (n 1) in
      let (alo, ahi) = repr_split_bits w64 (br (a 0)) (n 1) in
      expect ~extra:(fid_tokens [ hx (bv alo); hx (bv ahi) ] got) ("ok " ^ hx lo ^ " " ^ hx hi) got
  | "clear_high_bits" ->
      expect ~extra:(fid_tokens [ hx (bv (repr_clear_high_bits w64 (br (a 0)) (n 1))) ] got) ("ok " ^ hx (clear_high_bits_spec (a 0) (n 1))) got
  | "is_pow2" ->
      expect ~extra:(fid_tokens [ b2s (repr_is_power_of_two (br (a 0))) ] got) ("ok " ^ b2s (is_power_of_two_spec (a 0))) got
  | "next_pow2" ->
      expect ~extra:(fid_tokens [ hx (bv (repr_next_power_of_two w64 (br (a 0)))) ] got) ("ok " ^ hx (next_power_of_two_spec (a 0))) got
  | "ones" ->
      expect ~extra:(fid_tokens [ hx (bv (repr_ones w64 (n 0))); "1" ] got) ("ok " ^ hx (ones_spec (n 0)) ^ " 1") got
  | _ -> fail ("unknown-op-" ^ op)

let () = serve judge
