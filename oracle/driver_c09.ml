(* C09 oracle: judges the implementation's answers against the extracted Coq specifications.
   spec  = Zar.land/Zar.lor/... (Coq's infinite two's complement) and Int/BitsSpec.v
   asis  = the sign tables regenerated from the Rust source (DashuGen.SignTables)             *)
open Common
open Model

let sm x = if Zar.sign x < 0 then (Negative, Zar.neg x) else (Positive, x)
let usz s = Zar.of_string_base 16 s

let fidelity asis_val got =
  match got with
  | [ "ok"; g ] -> "asis=" ^ if hx asis_val = g then "same" else "diff"
  | _ -> "asis=na"

(* word-level as-is models run on 64-bit word lists (the harness build's word size) *)
let w64 = Zar.of_int 64
let rec nat_of_int n = if n <= 0 then O else S (nat_of_int (n - 1))
let words_of v = to_words w64 (nat_of_int ((Zar.numbits v + 63) / 64)) v
let fid_opt model got = match got with
  | [ "ok"; "some"; g ] -> "asis=" ^ (if hx model = g then "same" else "diff")
  | _ -> "asis=na"

let prim_bits ty = match ty with
  | "u8" | "i8" -> 8 | "u16" | "i16" -> 16 | "u32" | "i32" -> 32
  | "u64" | "i64" | "usize" | "isize" -> 64 | _ -> 128

let judge op args got =
  let a i = z (List.nth args i) in
  let n i = usz (List.nth args i) in
  let bin tbl f =
    let x = a 0 and y = a 1 in
    let s0, m0 = sm x and s1, m1 = sm y in
    expect ~extra:(fidelity (tbl s0 m0 s1 m1) got) ("ok " ^ hx (f x y)) got
  in
  match op with
  | "and" | "and_rr" -> bin ibig_bitand_gen Zar.logand
  | "or" | "or_rr" | "or_ui" | "or_iu" -> bin ibig_bitor_gen Zar.logor
  | "xor" | "xor_rr" | "xor_ui" | "xor_iu" -> bin ibig_bitxor_gen Zar.logxor
  | "uand" | "uand_rv" | "uor" | "uor_vr" | "uxor" | "uxor_rr" ->
      let f = (match String.sub op 0 3 with "uan" -> Zar.logand | "uor" -> Zar.logor | _ -> Zar.logxor) in
      expect ("ok " ^ hx (f (a 0) (a 1))) got
  | "and_ui" -> bin ubig_ibig_bitand_gen Zar.logand
  | "and_iu" -> bin ibig_ubig_bitand_gen Zar.logand
  | "not" -> let x = a 0 in let s, m = sm x in expect ~extra:(fidelity (ibig_not_gen s m) got) ("ok " ^ hx (Zar.lognot x)) got
  | "not_r" -> let x = a 0 in let s, m = sm x in expect ~extra:(fidelity (ibig_not_ref_gen s m) got) ("ok " ^ hx (Zar.lognot x)) got
  | "uand_p" | "uor_p" | "uxor_p" | "iand_pu" | "ior_pu" | "ixor_pu" | "iand_pi" | "ior_pi" | "ixor_pi" ->
      let x = a 1 and p = a 2 in
      let f = (match String.sub op 1 2 with "an" -> Zar.logand | "or" -> Zar.logor | _ -> Zar.logxor) in
      expect ("ok " ^ hx (f x p)) got
  | "shl" | "shl_r" | "ushl" | "ushl_r" | "ushl_assign" -> expect ("ok " ^ hx (Zar.shift_left (a 0) (Zar.to_int (n 1)))) got
  | "shr" | "shr_assign" -> let x = a 0 in let s, m = sm x in
      expect ~extra:(fidelity (ibig_shr_gen s m (n 1)) got) ("ok " ^ hx (Zar.shift_right x (Zar.to_int (n 1)))) got
  | "shr_r" -> let x = a 0 in let s, m = sm x in
      expect ~extra:(fidelity (ibig_shr_ref_gen s m (n 1)) got) ("ok " ^ hx (Zar.shift_right x (Zar.to_int (n 1)))) got
  | "ushr" | "ushr_r" -> expect ("ok " ^ hx (Zar.shift_right (a 0) (Zar.to_int (n 1)))) got
  | "ubit" ->
      let x = a 0 in
      let extra = if Zar.numbits x > 128 then (match got with [ "ok"; g ] -> "asis=" ^ (if b2s (bit_large w64 (words_of x) (n 1)) = g then "same" else "diff") | _ -> "") else "" in
      expect ~extra ("ok " ^ b2s (Zar.testbit x (Zar.to_int (n 1)))) got
  | "bit" -> expect ("ok " ^ b2s (Zar.testbit (a 0) (Zar.to_int (n 1)))) got
  | "bit_len" | "ubit_len" -> expect ("ok " ^ hx (bit_len_spec (a 0))) got
  | "set_bit" -> expect ("ok " ^ hx (set_bit_spec (a 0) (n 1))) got
  | "clear_bit" -> expect ("ok " ^ hx (clear_bit_spec (a 0) (n 1))) got
  | "utz" | "tz" ->
      let x = a 0 in
      let extra = if Zar.numbits x > 128 then fid_opt (trailing_zeros_large w64 (words_of (Zar.abs x))) got else "" in
      expect ~extra ("ok " ^ hopt (trailing_zeros_spec x)) got
  | "uto" ->
      let x = a 0 in
      let extra = if Zar.numbits x > 128 then fid_opt (trailing_ones_large w64 (words_of x)) got else "" in
      expect ~extra ("ok " ^ hopt (trailing_ones_spec x)) got
  | "to" -> expect ("ok " ^ hopt (trailing_ones_spec (a 0))) got
  | "count_ones" -> expect ("ok " ^ hx (count_ones_spec (a 0))) got
  | "count_zeros" -> expect ("ok " ^ hopt (count_zeros_spec (a 0))) got
  | "split_bits" -> let (lo, hi) = split_bits_spec (a 0) (n 1) in expect ("ok " ^ hx lo ^ " " ^ hx hi) got
  | "clear_high_bits" -> expect ("ok " ^ hx (clear_high_bits_spec (a 0) (n 1))) got
  | "is_pow2" -> expect ("ok " ^ b2s (is_power_of_two_spec (a 0))) got
  | "next_pow2" -> expect ("ok " ^ hx (next_power_of_two_spec (a 0))) got
  | "ones" -> expect ("ok " ^ hx (ones_spec (n 0)) ^ " 1") got
  | _ -> fail ("unknown-op-" ^ op)

let () = serve judge
