(* C09 oracle: judges the implementation's answers against the extracted Coq specifications.
   spec  = Zar.land/Zar.lor/... (Coq's infinite two's complement) and Int/BitsSpec.v
   asis  = the sign tables regenerated from the Rust source (DashuGen.SignTables), the word-level kernels
           (Int/BitsKernels.v) and the operator forms around them (Int/BitsForms.v), run at word sizes
           16, 32 and 64 on every case (value) and at the word size the harness build reports in a layout
           token `L<bits>:<inline>:<len>:<cap>` (Repr compared word for word: inline / heap, length).   *)
open Common
open Model

let sm x = if Zar.sign x < 0 then (Negative, Zar.neg x) else (Positive, x)
let usz s = Zar.of_string_base 16 s
let wz = Zar.of_int
let rec nat_of_int n = if n <= 0 then O else S (nat_of_int (n - 1))
let words_of w v = to_words (wz w) (nat_of_int ((Zar.numbits v + w - 1) / w)) v
(* a magnitude is handed to the word-level models as its typed view (inline double word / heap words)
   at word size w; C09_to_brepr proves that view faithful, C09_brepr_canonical proves it unique *)
let br w m = to_brepr (wz w) m
let bv w r = bvalue (wz w) r
let all_w = [ 16; 32; 64 ]
let rec int_of_nat n = match n with O -> 0 | S k -> 1 + int_of_nat k
let zeros k = List.init k (fun _ -> Zar.zero)
let rec drop k l = if k <= 0 then l else match l with [] -> [] | _ :: t -> drop (k - 1) t

(* shift counts / bit positions beyond anything storable (2^32 + k ... usize::MAX - k): the specifications are
   constants there (C09_shr_beyond_len, C09_bitops_beyond_len, C09_testbit_beyond_len_neg), so no 2^n is formed *)
let huge n = Zar.gt n (Zar.of_int (1 lsl 24))
let shr_spec x n = if huge n then (if Zar.sign x < 0 then Zar.minus_one else Zar.zero) else Zar.shift_right x (Zar.to_int n)
let shl_spec x n = if Zar.sign x = 0 then Zar.zero else Zar.shift_left x (Zar.to_int n)
let testbit_spec x n = if huge n then Zar.sign x < 0 else Zar.testbit x (Zar.to_int n)

let prim_ty ty = match ty with
  | "u8" -> PUnsigned (wz 8) | "u16" -> PUnsigned (wz 16) | "u32" -> PUnsigned (wz 32)
  | "u64" | "usize" -> PUnsigned (wz 64) | "u128" -> PUnsigned (wz 128)
  | "i8" -> PSigned (wz 8) | "i16" -> PSigned (wz 16) | "i32" -> PSigned (wz 32)
  | "i64" | "isize" -> PSigned (wz 64) | _ -> PSigned (wz 128)

(* ---------------------------------------------------------------- layout tokens *)
type lay = LBig of int * bool * Zar.t * Zar.t | LPrim of int
let parse_lay t =
  match String.split_on_char ':' (String.sub t 1 (String.length t - 1)) with
  | [ w; "p" ] -> LPrim (int_of_string w)
  | [ w; i; l; c ] -> LBig (int_of_string w, i = "1", usz l, usz c)
  | _ -> failwith "layout-token"
let split_layout got =
  let ls, rest = List.partition (fun t -> String.length t > 1 && t.[0] = 'L') got in
  (List.map parse_lay ls, rest)
let lay_of w r = let (i, l) = brepr_layout (wz w) r in (i, l)
let lay_tok w r = let (i, l) = lay_of w r in Printf.sprintf "L%d:%s:%s:*" w (b2s i) (hx l)
(* the reported Repr against the typed view r: inline flag, length, and the capacity field within the
   bounds of the representation invariant (inline: max 1 len; heap: len <= cap <= len + len/4 + 4) *)
let lay_matches w r (i, l, c) =
  let (mi, ml) = lay_of w r in
  mi = i && Zar.equal ml l &&
  (if i then Zar.equal c (Zar.max Zar.one l)
   else Zar.leq l c && Zar.leq c (Zar.add (Zar.add l (Zar.div l (wz 4))) (wz 4)))

(* ---------------------------------------------------------------- models of the big-valued operations *)
type mres = MU of brepr | MI of Zar.t | MP of Zar.t result | MS of (sign * brepr)

let own_of sfx = match sfx with "_vr" | "_asr" -> VR | "_rv" -> RV | "_rr" -> RR | _ -> VV
let swap_own o = match o with VR -> RV | RV -> VR | o -> o
let split_suffix op =
  let ends s = let n = String.length s and m = String.length op in m >= n && String.sub op (m - n) n = s in
  match List.find_opt ends [ "_vr"; "_rv"; "_rr"; "_asr"; "_as" ] with
  | Some s -> (String.sub op 0 (String.length op - String.length s), s)
  | None -> (op, "")
let bop_of s = match s with "and" -> OpAnd | "or" -> OpOr | _ -> OpXor
let zf f = match f with OpAnd -> Zar.logand | OpOr -> Zar.logor | OpXor -> Zar.logxor

(* [big_model w op args] = Some (spec value, as-is results at word size w: all must agree with the answer) *)
let big_model w op args : (Zar.t * mres list) option =
  let a i = z (List.nth args i) in
  let n i = usz (List.nth args i) in
  let ww = wz w in
  match String.split_on_char '.' op with
  | [ kind; fs; form ] when kind = "pu" || kind = "pi" || kind = "ps" ->
      let f = bop_of fs in
      let t = prim_ty (List.nth args 0) and x = a 1 and p = a 2 in
      let spec = zf f x p in
      let pf = (match form with
        | "bv" | "bvr" -> Some (PF_big_prim false) | "rv" | "rvr" -> Some (PF_big_prim true)
        | "pb" | "rpb" -> Some (PF_prim_big false) | "pr" | "rpr" -> Some (PF_prim_big true)
        | _ -> None) in
      let ret_prim = f = OpAnd && kind <> "ps" in
      let s, m = sm x in
      Some (spec, [ (match pf, kind with
        | Some pf, "pu" -> MP (ubig_prim_asis ww pf f ret_prim t (br w x) p)
        | Some pf, _ -> MP (ibig_prim_asis ww pf f ret_prim t s (br w m) p)
        | None, "pu" -> MU (ubig_prim_assign_asis ww f (br w x) p)
        | None, _ -> MI (ibig_prim_assign_asis ww f s (br w m) p)) ])
  | _ ->
  let base, sfx = split_suffix op in
  let o = own_of sfx in
  let ibin f tbl =
    let x = a 0 and y = a 1 in let s0, m0 = sm x and s1, m1 = sm y in
    let words_tbl = (match f with OpAnd -> ibig_bitand_words | OpOr -> ibig_bitor_words | OpXor -> ibig_bitxor_words) in
    Some (zf f x y, [ MI (ibig_op ww o f s0 (br w m0) s1 (br w m1)); MI (tbl s0 m0 s1 m1);
                      MS (words_tbl ww o s0 (br w m0) s1 (br w m1)) ]) in
  (* the hand-written dispatch and the one regenerated from bits.rs on this run *)
  let gen_dispatch f = match f, o with
    | OpAnd, VV -> gen_bitand_vv | OpAnd, VR -> gen_bitand_vr | OpAnd, RV -> gen_bitand_rv | OpAnd, RR -> gen_bitand_rr
    | OpOr, VV -> gen_bitor_vv | OpOr, VR -> gen_bitor_vr | OpOr, RV -> gen_bitor_rv | OpOr, RR -> gen_bitor_rr
    | OpXor, VV -> gen_bitxor_vv | OpXor, VR -> gen_bitxor_vr | OpXor, RV -> gen_bitxor_rv | OpXor, RR -> gen_bitxor_rr in
  let ubin f = let x = a 0 and y = a 1 in
    Some (zf f x y, [ MU (ubig_op ww o f (br w x) (br w y)); MU (gen_dispatch f ww (br w x) (br w y)) ]) in
  match base with
  | "and" -> ibin OpAnd ibig_bitand_gen
  | "or" | "or_ui" | "or_iu" -> ibin OpOr ibig_bitor_gen
  | "xor" | "xor_ui" | "xor_iu" -> ibin OpXor ibig_bitxor_gen
  | "uand" -> ubin OpAnd | "uor" -> ubin OpOr | "uxor" -> ubin OpXor
  | "and_ui" ->
      let x = a 0 and y = a 1 in let s1, m1 = sm y in
      Some (Zar.logand x y, [ MI (ibig_bitand_asis ww o Positive (br w x) s1 (br w m1)); MI (ubig_ibig_bitand_gen Positive x s1 m1) ])
  | "and_iu" ->
      (* impl_ibig_ubig_bitand: the unsigned operand (second) is the receiver of bitand / and_not *)
      let x = a 0 and y = a 1 in let s0, m0 = sm x in
      Some (Zar.logand x y, [ MI (ibig_bitand_asis ww (swap_own o) Positive (br w y) s0 (br w m0)); MI (ibig_ubig_bitand_gen s0 m0 Positive y) ])
  | _ ->
  let shift_ref = List.mem op [ "shl_r"; "shr_r"; "shl_rpr"; "shr_rpr"; "ushl_r"; "ushr_r"; "ushl_rpr"; "ushr_rpr" ] in
  match op with
  | "not" -> let x = a 0 in let s, m = sm x in Some (Zar.lognot x, [ MI (ibig_not_gen s m); MS (ibig_not_words ww s (br w m)) ])
  | "not_r" -> let x = a 0 in let s, m = sm x in Some (Zar.lognot x, [ MI (ibig_not_ref_gen s m); MS (ibig_not_words ww s (br w m)) ])
  | "uand_p" | "uor_p" | "uxor_p" | "iand_pu" | "ior_pu" | "ixor_pu" | "iand_pi" | "ior_pi" | "ixor_pi" -> None
  | "shl" | "shl_r" | "shl_pr" | "shl_rpr" | "shl_assign" | "shl_assign_pr" ->
      let x = a 0 in let s, m = sm x in
      Some (shl_spec x (n 1),
            [ MI (ibig_shl_form ww shift_ref true s (br w m) (n 1)); MI (ibig_shl_form ww shift_ref false s (br w m) (n 1)) ])
  | "shr" | "shr_r" | "shr_pr" | "shr_rpr" | "shr_assign" | "shr_assign_pr" ->
      let x = a 0 in let s, m = sm x in
      (* the regenerated value-level table forms m mod 2^n: only for counts that can be materialised *)
      Some (shr_spec x (n 1),
            [ MI (ibig_shr_form ww shift_ref s (br w m) (n 1));
              (match ibig_shr_words ww shift_ref s (br w m) (n 1) with Ok p -> MS p | _ -> MP OutOfFuel) ]
            @ (if huge (n 1) then [] else [ MI ((if shift_ref then ibig_shr_ref_gen else ibig_shr_gen) s m (n 1)) ]))
  | "ushl" | "ushl_r" | "ushl_pr" | "ushl_rpr" | "ushl_assign" | "ushl_assign_pr" ->
      let x = a 0 in
      Some (shl_spec x (n 1),
            [ MU (ubig_shl_form ww shift_ref true (br w x) (n 1)); MU (ubig_shl_form ww shift_ref false (br w x) (n 1)) ])
  | "ushr" | "ushr_r" | "ushr_pr" | "ushr_rpr" | "ushr_assign" | "ushr_assign_pr" ->
      let x = a 0 in Some (shr_spec x (n 1), [ MU (ubig_shr_form ww shift_ref (br w x) (n 1)) ])
  | "set_bit" -> Some (set_bit_spec (a 0) (n 1), [ MU (repr_set_bit ww (br w (a 0)) (n 1)) ])
  | "clear_bit" -> Some ((if huge (n 1) then a 0 else clear_bit_spec (a 0) (n 1)), [ MU (repr_clear_bit ww (br w (a 0)) (n 1)) ])
  | "clear_high_bits" ->
      Some ((if huge (n 1) then a 0 else clear_high_bits_spec (a 0) (n 1)), [ MU (repr_clear_high_bits ww (br w (a 0)) (n 1)) ])
  | "next_pow2" -> Some (next_power_of_two_spec (a 0), [ MU (repr_next_power_of_two ww (br w (a 0))) ])
  | _ -> None

(* does one as-is result reproduce the answered value (and, at the build's word size, the layout)? *)
let mres_value w r = match r with
  | MU b -> Some (bv w b) | MI v -> Some v | MP (Ok v) -> Some v | MP _ -> None
  | MS (s, b) -> Some (signed s (bv w b))
let mres_repr w r = match r with
  | MU b -> Some b | MI v | MP (Ok v) -> Some (br w (Zar.abs v)) | MP _ -> None
  | MS (_, b) -> Some b

(* ---------------------------------------------------------------- the loop kernels REGENERATED from the source
   (coq/gen/BitsKernelsGen.v) run on the raw words of heap operands: the answer must be reproduced by them too *)
let gen_kernels w op args rest =
  let ww = wz w in
  let a i = z (List.nth args i) in
  let n i = usz (List.nth args i) in
  let large v = Zar.numbits v > 2 * w in
  let ws v = words_of w v in
  let value_is r v = rest = [ "ok"; hx v ] && Zar.equal (bv w r) (Zar.abs v) in
  let answer = match rest with [ "ok"; t ] -> (try Some (z t) with _ -> None) | _ -> None in
  let base, _ = split_suffix op in
  match base, answer with
  | ("uand" | "uor" | "uxor"), Some v when large (a 0) && large (a 1) ->
      let k = (match base with "uand" -> bitand_large_gen | "uor" -> bitor_large_gen | _ -> bitxor_large_gen) in
      value_is (k ww (ws (a 0)) (ws (a 1))) v && value_is (k ww (ws (a 1)) (ws (a 0))) v
  | "and", Some v when Zar.sign (a 0) <> Zar.sign (a 1) && Zar.sign (a 0) <> 0 && Zar.sign (a 1) <> 0 ->
      let p, m = if Zar.sign (a 0) > 0 then (a 0, Zar.neg (a 1)) else (a 1, Zar.neg (a 0)) in
      let m1 = Zar.pred m in
      if large p && large m1 then value_is (and_not_large_gen ww (ws p) (ws m1)) v else true
  | _ ->
  let is_in l = List.mem op l in
  let shl_ops = [ "shl"; "shl_r"; "shl_pr"; "shl_rpr"; "shl_assign"; "shl_assign_pr"; "ushl"; "ushl_r"; "ushl_pr"; "ushl_rpr"; "ushl_assign"; "ushl_assign_pr" ] in
  let shr_ops = [ "shr"; "shr_r"; "shr_pr"; "shr_rpr"; "shr_assign"; "shr_assign_pr"; "ushr"; "ushr_r"; "ushr_pr"; "ushr_rpr"; "ushr_assign"; "ushr_assign_pr" ] in
  match answer with
  | Some v when is_in shl_ops && large (Zar.abs (a 0)) && not (huge (n 1)) ->
      let k = Zar.to_int (n 1) in
      let (r, c) = shl_in_place_gen ww (ws (Zar.abs (a 0))) (wz (k mod w)) in
      Zar.sign v = Zar.sign (a 0) && value_is (from_buffer ww (zeros (k / w) @ r @ [ c ])) v
  | Some v when is_in shr_ops && large (Zar.abs (a 0)) && not (huge (n 1)) ->
      let k = Zar.to_int (n 1) in
      let m = Zar.abs (a 0) in
      let words = ws m in
      if k / w >= List.length words then true else begin
        let (r, _) = shr_in_place_with_carry_gen ww (drop (k / w) words) (wz (k mod w)) Zar.zero in
        let q = bv w (from_buffer ww r) in
        if Zar.sign (a 0) > 0 then Zar.equal q v
        else
          let b = are_slice_low_bits_nonzero_gen ww words (nat_of_int k) in
          Zar.equal v (Zar.sub (Zar.neg q) (if b then Zar.one else Zar.zero))
      end
  | _ ->
  match op, rest with
  | ("utz" | "tz"), [ "ok"; "some"; t ] when large (Zar.abs (a 0)) ->
      int_of_nat (trailing_zeros_large_gen ww (ws (Zar.abs (a 0)))) = Zar.to_int (usz t)
  | "uto", [ "ok"; "some"; t ] when large (a 0) -> int_of_nat (trailing_ones_large_gen ww (ws (a 0))) = Zar.to_int (usz t)
  | "to", [ "ok"; "some"; t ] when Zar.sign (a 0) < 0 && large (Zar.abs (a 0)) && Zar.is_odd (a 0) ->
      int_of_nat (trailing_zeros_large_shifted_by_one_gen ww (ws (Zar.abs (a 0)))) + 1 = Zar.to_int (usz t)
  | "count_ones", [ "ok"; t ] when large (a 0) -> int_of_nat (count_ones_large_gen ww (ws (a 0))) = Zar.to_int (usz t)
  | _ -> true


(* ---------------------------------------------------------------- round 5: the STRAIGHT-LINE bodies REGENERATED from the
   source (coq/gen/BitsBodiesGen.v: shl_dword .. shr_large_ref, set_bit / clear_bit / clear_high_bits / split_bits,
   next_power_of_two(_large), Repr::ones - casts and machine shifts with their width, usize of 64 bits on both builds) run on
   the typed view of the operand: the answer (and, at the word size of the build, the layout) must be reproduced by them too *)
let uw64 = Zar.of_int 64
let gen_bodies w op args rest lays =
  let ww = wz w in
  let a i = z (List.nth args i) in
  let n i = usz (List.nth args i) in
  let lay_ok rs = match lays with
    | LBig (w', _, _, _) :: _ when w' = w && List.length lays = List.length rs ->
        List.for_all2 (fun l r -> match l with LBig (_, i, l, c) -> lay_matches w r (i, l, c) | LPrim _ -> true) lays rs
    | _ -> true in
  let is_in l = List.mem op l in
  let shl_ops = [ "shl"; "shl_r"; "shl_pr"; "shl_rpr"; "shl_assign"; "shl_assign_pr"; "ushl"; "ushl_r"; "ushl_pr"; "ushl_rpr"; "ushl_assign"; "ushl_assign_pr" ] in
  let shr_val = [ "shr"; "shr_pr"; "shr_assign"; "shr_assign_pr"; "ushr"; "ushr_pr"; "ushr_assign"; "ushr_assign_pr" ] in
  let shr_ref = [ "shr_r"; "shr_rpr"; "ushr_r"; "ushr_rpr" ] in
  let shl_ref = [ "shl_r"; "shl_rpr"; "ushl_r"; "ushl_rpr" ] in
  if is_in shl_ops then begin
    let x = a 0 in let m = Zar.abs x in
    if Zar.sign x = 0 || huge (n 1) then true else
    let rs = (match br w m with
      | BSmall d -> [ shl_dword_gen ww uw64 d (n 1) ]
      | BLarge b ->
          if is_in shl_ref then [ shl_large_ref_gen ww uw64 b (n 1) ]
          else [ shl_large_gen ww uw64 Zar.zero b (n 1); shl_large_gen ww uw64 (Zar.of_int max_int) b (n 1) ]) in
    List.for_all (fun r -> rest = [ "ok"; hx (if Zar.sign x < 0 then Zar.neg (bv w r) else bv w r) ] && lay_ok [ r ]) rs
  end else if is_in shr_val || is_in shr_ref then begin
    let x = a 0 in let m = Zar.abs x in
    let r = (match br w m with
      | BSmall d -> shr_dword_gen ww uw64 d (n 1)
      | BLarge b -> if is_in shr_ref then shr_large_ref_gen ww uw64 b (n 1) else shr_large_gen ww uw64 b (n 1)) in
    if Zar.sign x >= 0 then rest = [ "ok"; hx (bv w r) ] && lay_ok [ r ]
    else
      let b = ref_are_low_bits_nonzero_gen ww uw64 (br w m) (n 1) in
      rest = [ "ok"; hx (Zar.sub (Zar.neg (bv w r)) (if b then Zar.one else Zar.zero)) ]
  end else
  match op with
  | "set_bit" when not (huge (n 1)) -> let r = typed_set_bit_gen ww uw64 (br w (a 0)) (n 1) in rest = [ "ok"; hx (bv w r) ] && lay_ok [ r ]
  | "clear_bit" -> let r = typed_clear_bit_gen ww uw64 (br w (a 0)) (n 1) in rest = [ "ok"; hx (bv w r) ] && lay_ok [ r ]
  | "clear_high_bits" -> let r = typed_clear_high_bits_gen ww uw64 (br w (a 0)) (n 1) in rest = [ "ok"; hx (bv w r) ] && lay_ok [ r ]
  | "next_pow2" -> let r = typed_next_power_of_two_gen ww uw64 (br w (a 0)) in rest = [ "ok"; hx (bv w r) ] && lay_ok [ r ]
  | "split_bits" ->
      let (lo, hi) = typed_split_bits_gen ww uw64 (br w (a 0)) (n 1) in
      rest = [ "ok"; hx (bv w lo); hx (bv w hi) ] && lay_ok [ lo; hi ]
  | "ubit" -> rest = [ "ok"; b2s (ref_bit_gen ww uw64 (br w (a 0)) (n 1)) ]
  | "bit" when Zar.sign (a 0) > 0 -> rest = [ "ok"; b2s (ref_bit_gen ww uw64 (br w (a 0)) (n 1)) ]
  | "bit_len" | "ubit_len" -> rest = [ "ok"; hx (ref_bit_len_gen ww uw64 (br w (Zar.abs (a 0)))) ]
  | "utz" | "tz" -> rest = "ok" :: split_ws (hopt (ref_trailing_zeros_gen ww uw64 (br w (Zar.abs (a 0)))))
  | "uto" -> rest = [ "ok"; "some"; hx (ref_trailing_ones_gen ww uw64 (br w (a 0))) ]
  | "to" when Zar.sign (a 0) >= 0 -> rest = [ "ok"; "some"; hx (ref_trailing_ones_gen ww uw64 (br w (a 0))) ]
  | "to" -> rest = "ok" :: split_ws (hopt (ref_trailing_ones_neg_gen ww uw64 (br w (Zar.abs (a 0)))))
  | "count_ones" -> rest = [ "ok"; hx (ref_count_ones_gen ww uw64 (br w (a 0))) ]
  | "count_zeros" -> rest = "ok" :: split_ws (hopt (ref_count_zeros_gen ww uw64 (br w (a 0))))
  | "is_pow2" -> rest = [ "ok"; b2s (ref_is_power_of_two_gen ww uw64 (br w (a 0))) ]
  | "ones" when not (huge (n 0)) -> let r = repr_ones_gen ww uw64 (n 0) in rest = [ "ok"; hx (bv w r); "1" ] && lay_ok [ r ]
  | _ -> true

let judge_big op args got =
  let lays, rest = split_layout got in
  match big_model 64 op args with
  | None -> None
  | Some (spec, _) ->
      let want = "ok " ^ hx spec in
      (* fidelity: value at every word size; Repr at the word size of the build *)
      let value_ok w =
        match big_model w op args with
        | Some (_, rs) -> List.for_all (fun r -> match mres_value w r with Some v -> rest = [ "ok"; hx v ] | None -> false) rs
        | None -> false in
      let same = ref (List.for_all value_ok all_w && List.for_all (fun w -> gen_kernels w op args rest && gen_bodies w op args rest lays) all_w) in
      let verdict_lay = ref None in
      (match lays with
       | [ LBig (w, i, l, c) ] ->
           (match big_model w op args with
            | Some (_, rs) ->
                List.iter (fun r -> match mres_repr w r with
                  | Some b -> if not (lay_matches w b (i, l, c)) then same := false
                  | None -> same := false) rs
            | None -> same := false);
           (* verdict: the Repr must be the canonical one of the specified value *)
           let canon = br w (Zar.abs spec) in
           if not (lay_matches w canon (i, l, c)) then verdict_lay := Some (want ^ " " ^ lay_tok w canon)
       | [ LPrim _ ] | [] -> ()
       | _ -> same := false);
      let extra = "asis=" ^ (if !same then "same" else "diff") in
      Some (match !verdict_lay with
            | Some w -> if split_ws want = rest then fail w else fail want
            | None -> expect ~extra want rest)

(* ---------------------------------------------------------------- the remaining operations *)
let fid_all f = "asis=" ^ (if List.for_all f all_w then "same" else "diff")

let judge op args got =
  let lay_op, op = if String.length op > 4 && String.sub op 0 4 = "lay." then (true, String.sub op 4 (String.length op - 4)) else (false, op) in
  ignore lay_op;
  match judge_big op args got with
  | Some v -> v
  | None ->
  let a i = z (List.nth args i) in
  let n i = usz (List.nth args i) in
  let lays, rest = split_layout got in
  let toks want = "ok" :: want in
  let fid_all f = fid_all (fun w -> f w && gen_kernels w op args rest && gen_bodies w op args rest lays) in
  match op with
  | "uand_p" | "uor_p" | "uxor_p" | "iand_pu" | "ior_pu" | "ixor_pu" | "iand_pi" | "ior_pi" | "ixor_pi" ->
      let x = a 1 and p = a 2 in
      let f = (match String.sub op 1 2 with "an" -> Zar.logand | "or" -> Zar.logor | _ -> Zar.logxor) in
      expect ("ok " ^ hx (f x p)) got
  | "ubit" ->
      let x = a 0 in
      expect ~extra:(fid_all (fun w -> rest = toks [ b2s (repr_bit (wz w) (br w x) (n 1)) ])) ("ok " ^ b2s (testbit_spec x (n 1))) got
  | "bit" ->
      let x = a 0 in let s, m = sm x in
      let extra = if Zar.sign x = 0 then "" else fid_all (fun w -> rest = toks [ b2s (ibig_bit (wz w) s (br w m) (n 1)) ]) in
      expect ~extra ("ok " ^ b2s (testbit_spec x (n 1))) got
  | "bit_len" | "ubit_len" ->
      let x = a 0 in
      expect ~extra:(fid_all (fun w -> rest = toks [ hx (repr_bit_len (wz w) (br w (Zar.abs x))) ])) ("ok " ^ hx (bit_len_spec x)) got
  | "utz" | "tz" ->
      let x = a 0 in
      expect ~extra:(fid_all (fun w -> rest = toks (split_ws (hopt (repr_trailing_zeros (wz w) (br w (Zar.abs x)))))))
        ("ok " ^ hopt (trailing_zeros_spec x)) got
  | "uto" ->
      let x = a 0 in
      (* two word-level answers: the scanning kernel on the raw words and the typed dispatch *)
      let f w =
        let k = repr_trailing_ones (wz w) (br w x) in
        (Zar.numbits x <= 2 * w || Zar.equal k (trailing_ones_large (wz w) (words_of w x))) && rest = toks [ "some"; hx k ] in
      expect ~extra:(fid_all f) ("ok " ^ hopt (trailing_ones_spec x)) got
  | "to" ->
      let x = a 0 in let s, m = sm x in
      expect ~extra:(fid_all (fun w -> rest = toks (split_ws (hopt (ibig_trailing_ones (wz w) s (br w m))))))
        ("ok " ^ hopt (trailing_ones_spec x)) got
  | "count_ones" ->
      expect ~extra:(fid_all (fun w -> rest = toks [ hx (repr_count_ones (br w (a 0))) ])) ("ok " ^ hx (count_ones_spec (a 0))) got
  | "count_zeros" ->
      expect ~extra:(fid_all (fun w -> rest = toks (split_ws (hopt (repr_count_zeros (wz w) (br w (a 0)))))))
        ("ok " ^ hopt (count_zeros_spec (a 0))) got
  | "split_bits" ->
      let (lo, hi) = if huge (n 1) then (a 0, Zar.zero) else split_bits_spec (a 0) (n 1) in
      let want = "ok " ^ hx lo ^ " " ^ hx hi in
      let f w = let (alo, ahi) = repr_split_bits (wz w) (br w (a 0)) (n 1) in rest = toks [ hx (bv w alo); hx (bv w ahi) ] in
      (match lays with
       | [ LBig (w, i0, l0, c0); LBig (_, i1, l1, c1) ] ->
           let (alo, ahi) = repr_split_bits (wz w) (br w (a 0)) (n 1) in
           let same = List.for_all f all_w && lay_matches w alo (i0, l0, c0) && lay_matches w ahi (i1, l1, c1)
                      && List.for_all (fun w -> gen_bodies w op args rest lays) all_w in
           if lay_matches w (br w lo) (i0, l0, c0) && lay_matches w (br w hi) (i1, l1, c1)
           then expect ~extra:("asis=" ^ if same then "same" else "diff") want rest
           else fail (want ^ " " ^ lay_tok w (br w lo) ^ " " ^ lay_tok w (br w hi))
       | _ -> expect ~extra:(fid_all f) want rest)
  | "is_pow2" ->
      expect ~extra:(fid_all (fun w -> rest = toks [ b2s (repr_is_power_of_two (br w (a 0))) ])) ("ok " ^ b2s (is_power_of_two_spec (a 0))) got
  | "ones" ->
      let want = "ok " ^ hx (ones_spec (n 0)) ^ " 1" in
      let f w = rest = toks [ hx (bv w (repr_ones (wz w) (n 0))); "1" ] in
      (match lays with
       | [ LBig (w, i, l, c) ] ->
           let same = List.for_all f all_w && lay_matches w (repr_ones (wz w) (n 0)) (i, l, c)
                      && List.for_all (fun w -> gen_bodies w op args rest lays) all_w in
           if lay_matches w (br w (ones_spec (n 0))) (i, l, c)
           then expect ~extra:("asis=" ^ if same then "same" else "diff") want rest
           else fail (want ^ " " ^ lay_tok w (br w (ones_spec (n 0))))
       | _ -> expect ~extra:(fid_all f) want rest)
  | _ -> fail ("unknown-op-" ^ op)

let () = serve judge
