(* C11 oracle.  Every implementation answer is decided by the extracted Coq checkers of
   Float/ElemEncl.v (certified interval enclosures of the true value) and the entry-logic model of
   Float/ElemEntry.v.  This file only chooses working precisions / Newton schedules (heuristics: a bad
   choice can only produce VUndecided, never a wrong verdict) and escalates them. *)
open Common
open Model

let isz s = z s
let mode_of = function
  | "Zero" -> MZero | "Away" -> MAway | "Up" -> MUp | "Down" -> MDown
  | "HalfEven" -> MHalfEven | "HalfAway" -> MHalfAway | m -> failwith ("mode " ^ m)

let zi = Zar.of_int
let log2f x = log x /. log 2.0
let nb v = Zar.numbits v                      (* bits of |v| *)
let iceil x = int_of_float (ceil x)
let clampi lo hi x = max lo (min hi x)
let pos_of i = zi (max 2 i)

(* approximate log2 |s * B^e| (s <> 0) *)
let alog2 b s e = float_of_int (nb s) -. 0.5 +. Zar.to_float e *. log2f (Zar.to_float b)

(* approximate natural logarithm of x = s * B^e > 0 (float heuristics only) *)
let aln b s e =
  let l2 = alog2 b s e in
  if abs_float l2 < 900.0 then begin
    (* close to 1 the difference matters: use the exact rational distance to 1 *)
    let ef = Zar.to_int e in
    let num, den = if ef >= 0 then (Zar.mul s (Zar.pow b ef), Zar.one) else (s, Zar.pow b (- ef)) in
    let d = Zar.sub num den in
    if Zar.sign d = 0 then 0.0
    else
      let rel = (float_of_int (nb d) -. float_of_int (nb den)) in
      if rel < -20.0 then (if Zar.sign d > 0 then 1.0 else -1.0) *. (2.0 ** rel)
      else l2 *. log 2.0
  end else l2 *. log 2.0

(* precision doubling schedule ending at prt *)
let schedule prt =
  let rec go q acc = if q >= prt then List.rev (zi prt :: acc) else go (2 * q) (zi q :: acc) in
  go 110 []

let margins = [ 48; 160; 600 ]

let string_of_verdict = function VAccept -> "accept" | VReject -> "reject" | VUndecided -> "undecided"

(* run the attempts in order until one decides *)
let rec first_decided = function
  | [] -> VUndecided
  | f :: rest -> (match f () with VUndecided -> first_decided rest | v -> v)

let bits_of b p = iceil (Zar.to_float p *. log2f (Zar.to_float b)) + 2

(* for every margin: the strict decision (the property) and the loose one (as-is accuracy of the
   directed modes, finding directed_faithful), with the same working precisions *)
let attempts op b p s e a2 a3 rs re fexact : ((unit -> verdict) * (unit -> verdict)) list =
  let bits = bits_of b p in
  let rbits = nb rs + 8 in
  match op with
  | "exp" | "exp_m1" ->
      let lx = alog2 b s e in
      let m1 = (op = "exp_m1") in
      let attempt mg =
        let tiny = lx < -. float_of_int (bits + 24) in
        (* exp_m1 of a moderately negative x: exp x = 2^(x / ln 2) must be resolved next to -1 *)
        let cancel = if m1 && Zar.sign s < 0 && lx > 0.0 && lx < 12.0 then iceil (1.45 *. (2.0 ** lx)) else 0 in
        let prt =
          if tiny then 40
          else bits + mg + iceil (abs_float lx) + cancel + 8 in
        (* exp of a tiny x: 1 + x must be resolved; exp_m1 works relative to x (x^2 against x) *)
        let pra = max prt (bits + mg) + rbits + nb s + iceil (max 0.0 (-. lx)) + 64 in
        ((fun () -> (if m1 then check_expm1 else check_exp) (pos_of prt) (pos_of pra) b p s e rs re fexact),
         (fun () -> (if m1 then loose_expm1 else loose_exp) (pos_of prt) (pos_of pra) b p s e rs re)) in
      List.map attempt margins
  | "ln" | "ln_1p" ->
      let one_plus = (op = "ln_1p") in
      let lx = alog2 b s e in
      (* magnitude of the true value *)
      let lt =
        if one_plus then
          (if lx < -2.0 then lx
           else
             let ef = Zar.to_int e in
             let num, den = if ef >= 0 then (Zar.mul s (Zar.pow b ef), Zar.one) else (s, Zar.pow b (- ef)) in
             let n1 = Zar.add num den in
             if Zar.sign n1 <= 0 then 0.0
             else
               (* ln (n1/den) *)
               let l2 = float_of_int (nb n1) -. float_of_int (nb den) in
               if abs_float l2 > 2.0 then log2f (abs_float l2 *. log 2.0)
               else
                 let d = num in
                 if Zar.sign d = 0 then 0.0 else float_of_int (nb d) -. float_of_int (nb n1))
        else
          let v = aln b s e in if v = 0.0 then 0.0 else log2f (abs_float v) in
      let attempt (mg, from_result) =
        let tiny = one_plus && lx < -. float_of_int (bits + 24) in
        if tiny then
          let pra = bits + mg + rbits + nb s + iceil (-. lx) + 64 in
          ((fun () -> check_ln1p (pos_of 40) (pos_of pra) (zi 10) true [] b p s e rs re fexact),
           (fun () -> loose_ln1p (pos_of 40) (pos_of pra) (zi 10) [] b p s e rs re))
        else
          let slack = bits + mg + iceil (max 0.0 (-. lt)) + 8 in
          let prt = slack + 40 + iceil (max 0.0 lt) in
          let pra = prt + rbits + nb s + (if one_plus then iceil (max 0.0 (-. lx)) else 0) + 64 in
          let steps = if from_result then [ zi prt ] else schedule prt in
          ((fun () -> (if one_plus then check_ln1p else check_ln) (pos_of prt) (pos_of pra) (zi slack) from_result steps b p s e rs re fexact),
           (fun () -> (if one_plus then loose_ln1p else loose_ln) (pos_of prt) (pos_of pra) (zi slack) (schedule prt) b p s e rs re)) in
      (* starting from the implementation's own result only pays when it carries enough digits *)
      List.map attempt ((if bits >= 24 then [ (48, true) ] else []) @ [ (48, false); (200, false); (800, false) ])
  | "powi" ->
      let n = a2 in
      let an = Zar.abs n in
      (* expanding s^|n| as an integer is only worth it while it stays small (I.fromZ is quadratic) *)
      let exact_ok = Zar.equal (Zar.abs s) Zar.one || (Zar.numbits an < 40 && Zar.to_float an *. float_of_int (nb s) < 1.0e5) in
      let attempt mg =
        let pra = bits + mg + rbits + 4 * nb an + nb s + 64 in
        ((fun () -> check_powi (pos_of pra) exact_ok b p s e n rs re fexact),
         (fun () -> loose_powi (pos_of pra) b p s e n rs re)) in
      List.map attempt margins
  | "powf" ->
      let ys = a2 and ye = a3 in
      let exact_ok =
        Zar.sign ye >= 0 && Zar.numbits ye < 8 &&
        (let y = Zar.abs (Zar.mul ys (Zar.pow b (Zar.to_int ye))) in
         Zar.equal (Zar.abs s) Zar.one || (Zar.numbits y < 40 && Zar.to_float y *. float_of_int (nb s) < 1.0e5)) in
      let attempt mg =
        if Zar.sign s <= 0 || Zar.sign ys = 0 then
          let pra = bits + mg + rbits + 64 in
          ((fun () -> check_powf (pos_of 64) (pos_of pra) (zi 10) [] exact_ok b p s e ys ye rs re fexact),
           (fun () -> VUndecided))
        else
          let lnx = aln b s e in
          let llnx = if lnx = 0.0 then 0.0 else log2f (abs_float lnx) in
          let lu = alog2 b ys ye +. llnx in
          let slack = bits + mg + iceil (max 0.0 lu) + iceil (max 0.0 (-. llnx)) + 8 in
          (* a result next to 1: y ln x must be resolved against 1 *)
          let prt = slack + 40 + iceil (max 0.0 llnx) + iceil (max 0.0 (-. lu)) in
          let pra = prt + rbits + nb s + nb ys + 4 * nb (Zar.abs ye) + 64 in
          ((fun () -> check_powf (pos_of prt) (pos_of pra) (zi slack) (schedule prt) exact_ok b p s e ys ye rs re fexact),
           (fun () -> loose_powf (pos_of prt) (pos_of pra) (zi slack) (schedule prt) b p s e ys ye rs re)) in
      List.map attempt margins
  | _ -> failwith ("op " ^ op)

let flag_name = function NoOp -> "NoOp" | AddOne -> "AddOne" | SubOne -> "SubOne"
let show_approx b = function
  | AExact (s, e) -> let (s, e) = normalize b s e in hx s ^ " " ^ hx e ^ " Exact"
  | AInexact (s, e, r) -> let (s, e) = normalize b s e in hx s ^ " " ^ hx e ^ " " ^ flag_name r

(* ---------------------------------------------------------------------------------------------
   As-is models of the series / powering code (Float/ElemAsis.v), evaluated on every case and
   compared with the implementation's answer bit for bit (asis=same|diff).  The f32 estimate layer
   (Float/ElemF32.v, abstract in Coq) is instantiated here with IEEE single arithmetic: an f32 is an
   OCaml float holding a single-precision value, +,-,*,/ are computed in double and rounded to
   single (exact double rounding for these operations), log2 is the double log2 rounded to single
   (libm's log2f differs from it on ~1300 of the 2^24 integer arguments, and only by one ulp, which
   matters only next to an integer value: a mismatch shows as asis=diff, never as a verdict). *)
let r32 x = Int32.float_of_bits (Int32.bits_of_float x)
let f_of_z (v : Zar.t) : Stdlib.Float.t =
  if Zar.numbits v <= 53 then r32 (Zar.to_float v)
  else begin
    let av = Zar.abs v in
    let sh = Zar.numbits av - 30 in
    let top = Zar.shift_right av sh in
    let top = if Zar.equal (Zar.shift_left top sh) av then top else Zar.logor top Zar.one in
    let r = r32 (ldexp (Zar.to_float top) sh) in
    if Zar.sign v < 0 then -. r else r
  end
let two64 = Zar.shift_left Zar.one 64
let two63 = Zar.shift_left Zar.one 63
let f_to_usize x =
  if Stdlib.Float.is_nan x || x <= 0.0 then Zar.zero
  else if x >= 18446744073709551616.0 then Zar.pred two64 else Zar.of_float (Stdlib.Float.trunc x)
let f_to_isize x =
  if Stdlib.Float.is_nan x then Zar.zero
  else if x >= 9223372036854775808.0 then Zar.pred two63
  else if x <= -9223372036854775808.0 then Zar.neg two63 else Zar.of_float (Stdlib.Float.trunc x)
let next_up f =
  let bits = Int32.bits_of_float f in
  let abs = Int32.logand bits 0x7fff_ffffl in
  Int32.float_of_bits (if abs = 0l then 1l else if bits = abs then Int32.add bits 1l else Int32.sub bits 1l)
let next_down f =
  let bits = Int32.bits_of_float f in
  let abs = Int32.logand bits 0x7fff_ffffl in
  Int32.float_of_bits (if abs = 0l then 0x8000_0001l else if bits = abs then Int32.sub bits 1l else Int32.add bits 1l)
let f32 : Stdlib.Float.t f32ops =
  { f_of_Z = f_of_z; f_log2 = (fun x -> r32 (Stdlib.Float.log2 x));
    f_add = (fun a b -> r32 (a +. b)); f_sub = (fun a b -> r32 (a -. b));
    f_mul = (fun a b -> r32 (a *. b)); f_div = (fun a b -> r32 (a /. b));
    f_neg = (fun a -> -. a); f_ltb = (fun a b -> a < b);
    f_to_usize = f_to_usize; f_to_isize = f_to_isize; f_next_up = next_up; f_next_down = next_down;
    f_log10_2 = r32 0.301029995663981195213738894724493027; f_epsilon = ldexp 1.0 (-23); f_neg_inf = neg_infinity }

let rec nat_of_int n acc = if n <= 0 then acc else nat_of_int (n - 1) (S acc)
let fuel = nat_of_int 200000 O
let word_bits = zi 64

let show_result b = function
  | Ok a -> show_approx b a
  | Panic _ -> "panic"
  | Err _ -> "err"
  | OutOfFuel -> "out-of-fuel"

(* which branch of the as-is model a case takes (coverage histogram only) *)
let asis_path op b s e a2 : string =
  let small () = f32.f_ltb (repr_log2_est f32 word_bits b s e) (f32.f_neg (uint_log2_est f32 b)) in
  let b2 = if Zar.equal b (zi 2) then "-b2" else "" in
  match op with
  | "powi" ->
      let nbits = nb (Zar.abs a2) in
      (if Zar.sign a2 < 0 then "powi-inverse" else "powi") ^ (if nbits <= 32 then "-n32" else if nbits <= 64 then "-n64" else "-nbig")
  | "exp" -> "exp-scaled"
  | "exp_m1" -> if small () then (if Zar.sign s < 0 then "expm1-series-neg" else "expm1-series-pos") else "expm1-scaled"
  | "ln" -> if f32.f_ltb (fst (repr_log2_bounds f32 word_bits b s e)) 0.0 then "ln-sneg" ^ b2 else "ln-spos" ^ b2
  | "ln_1p" -> if small () then (if Zar.sign s < 0 then "ln1p-series-neg" else "ln1p-series-pos") else "ln1p-scaled" ^ b2
  | "powf" -> "powf-ln-mul-exp"
  | _ -> "?"

(* evaluation of the model under a wall-clock budget (the extracted digit count is quadratic: huge
   operands are affordable for the implementation but not here); None = not evaluated *)
exception Budget
let with_budget secs (f : unit -> 'a) : 'a option =
  let old = Sys.signal Sys.sigalrm (Sys.Signal_handle (fun _ -> raise Budget)) in
  let stop () =
    ignore (Unix.setitimer Unix.ITIMER_REAL { Unix.it_interval = 0.0; it_value = 0.0 });
    Sys.set_signal Sys.sigalrm old in
  ignore (Unix.setitimer Unix.ITIMER_REAL { Unix.it_interval = 0.0; it_value = secs });
  match f () with
  | v -> stop (); Some v
  | exception Budget -> stop (); None
  | exception Stack_overflow -> stop (); None
  | exception e -> stop (); raise e

(* the answer the as-is model predicts: "sig exp Flag" *)
let asis_answer op b m p s e a2 a3 : string =
  match op with
  | "powi" -> show_result b (powi_asis b p m s e a2)
  | "exp" -> show_result b (exp_internal b f32 word_bits fuel p m s e false)
  | "exp_m1" -> show_result b (exp_internal b f32 word_bits fuel p m s e true)
  | "ln" -> show_result b (ln_internal b f32 word_bits fuel p m s e false)
  | "ln_1p" -> show_result b (ln_internal b f32 word_bits fuel p m s e true)
  | "powf" -> show_result b (powf_asis b f32 word_bits fuel p m s e a2 a3)
  | _ -> failwith ("op " ^ op)

let panic_name = function EPUnlimited -> "UnlimitedPrecision" | EPNegBase -> "PowerNegativeBase" | EPLogDomain -> "LogNonPositive"

let judge op0 args got =
  (* FBig forms return a bare value: the flag is unknown *)
  let fbig = String.length op0 > 1 && op0.[0] = 'f' in
  let op = if fbig then String.sub op0 1 (String.length op0 - 1) else op0 in
  let b = z (List.nth args 0) and m = mode_of (List.nth args 1) and p = z (List.nth args 2) in
  let ssig = List.nth args 3 in
  if ssig = "inf" || ssig = "-inf" then expect ~nt:false ~extra:"cls=inf" "panic OperateWithInf" got
  else
  let (s, e) = normalize b (z ssig) (isz (List.nth args 4)) in
  let a2 = if List.length args > 5 then z (List.nth args 5) else Zar.zero in
  let a3 = if List.length args > 6 then z (List.nth args 6) else Zar.zero in
  let (a2, a3) = if op = "powf" then normalize b a2 a3 else (a2, a3) in
  let entry = match op with
    | "exp" -> exp_entry p s false
    | "exp_m1" -> exp_entry p s true
    | "ln" -> ln_entry b p s e false
    | "ln_1p" -> ln_entry b p s e true
    | "powi" -> powi_entry b p m s e a2
    | "powf" -> powf_entry b p m s e a2 a3
    | _ -> failwith ("op " ^ op) in
  (* outside the mathematical domain of the property (0^negative, negative base of powf): any documented panic is fine *)
  let zero_neg_power = (op = "powi" || op = "powf") && Zar.sign s = 0 && Zar.sign a2 < 0 in
  if zero_neg_power then
    (match got with
     | [ "panic"; c ] when String.length c < 12 || String.sub c 0 12 <> "Undocumented" -> pass ~nt:false ~extra:"cls=out-of-domain" ()
     | _ -> { v = "pass"; extra = "nt=0 cls=out-of-domain-value" })
  else
  match entry with
  | EPanic r -> expect ~nt:false ~extra:("cls=panic-" ^ panic_name r) ("panic " ^ panic_name r) got
  | _ ->
    match got with
    | [ "ok"; rs; re; f; prec ] ->
        if rs = "inf" || rs = "-inf" then fail "finite-result"
        else
          (* the precision carried by the returned FBig is not part of the property: histogram only *)
          let precnote = if Zar.equal (z prec) p then "" else "-prec" ^ prec in
          let rs = z rs and re = isz re in
          let fexact = (f = "Exact") in
          let got_txt = hx rs ^ " " ^ hx re ^ " " ^ f in
          (* what the entry model predicts, where it predicts a value *)
          let predicted = match entry with
            | EExact (s', e') -> Some (hx s' ^ " " ^ hx e' ^ " " ^ (if fbig then "NoFlag" else "Exact"))
            | ERound a ->
                let t = show_approx b a in
                Some (if fbig then (match split_ws t with [ x; y; _ ] -> x ^ " " ^ y ^ " NoFlag" | _ -> t) else t)
            | _ -> None in
          let predicted = match predicted with
            | Some w -> Some w
            | None ->
                (* the series / powering code ran: the value-level as-is model *)
                (* the scaling of ln by 2^s is carried at a precision of |log_B 2^s| digits unless B = 2 and the
                   argument is not shifted by 1 + x: hopeless here (the digit count of the extraction is quadratic) *)
                let heavy = (op = "ln_1p" || ((op = "ln" || op = "powf") && not (Zar.equal b (zi 2)))) &&
                            Zar.sign s <> 0 && abs_float (alog2 b s e) > 3000.0 in
                if Zar.sign p > 0 && Zar.lt p (zi 1500) && not heavy then
                  (match with_budget 2.0 (fun () -> asis_answer op b m p s e a2 a3) with
                   | Some t -> Some (if fbig then (match split_ws t with [ x; y; _ ] -> x ^ " " ^ y ^ " NoFlag" | _ -> t) else t)
                   | None -> None)
                else None in
          let fid = match predicted with
            | Some w -> if w = got_txt then " asis=same" else " asis=diff"
            | None -> "" in
          let fid = if entry = ECompute && Zar.sign s <> 0 then fid ^ " path=" ^ asis_path op b s e a2 else fid in
          let cls = (match entry with EExact _ -> "entry-exact" | ERound _ -> "entry-round" | _ -> "computed") ^ "-" ^ f ^ precnote in
          let nt = (match entry with ECompute -> true | ERound (AInexact _) -> true | _ -> false) in
          (* the result is a precision-p value *)
          if Zar.sign p > 0 && Zar.gt (dlen b rs) p then fail ("at-most-" ^ hx p ^ "-digits")
          else if Zar.sign p = 0 then
            (* unlimited precision is only answered exactly *)
            (match entry with
             | EExact (s', e') ->
                 if feq b rs re s' e' && (fexact || fbig) then pass ~nt:false ~extra:("cls=unlimited-exact" ^ fid) ()
                 else fail ("exact-" ^ hx s' ^ "-" ^ hx e')
             | ERound (AExact (s', e')) ->
                 if feq b rs re s' e' && (fexact || fbig) then pass ~nt:false ~extra:("cls=unlimited-exact" ^ fid) ()
                 else fail ("exact-" ^ hx s' ^ "-" ^ hx e')
             | _ -> fail "panic-UnlimitedPrecision")
          else begin
            let att = attempts op b p s e a2 a3 rs re fexact in
            let directed = (match m with MHalfEven | MHalfAway -> false | _ -> true) in
            match first_decided (List.map fst att) with
            | VAccept -> pass ~nt ~extra:("cls=" ^ cls ^ fid) ()
            | VReject ->
                (* open finding directed_faithful: directed modes, computed results, not flagged Exact;
                   as-is accuracy: less than B ulps of the result *)
                if directed && entry = ECompute && not fexact && first_decided (List.map snd att) = VAccept
                then known "directed_faithful" ("within-1ulp cls=" ^ cls)
                (* open finding powi_overlong_operand (F07): an operand longer than twice the working precision is
                   rounded by Context::sqr / mul with the flag dropped (C03 F08): untruthful Exact, or a value off by
                   the double rounding; known only when the implementation returned exactly what the as-is model predicts *)
                else if op = "powi" && powi_overlong b p s a2 && fid = " asis=same" ^ (if entry = ECompute && Zar.sign s <> 0 then " path=" ^ asis_path op b s e a2 else "")
                then known "powi_overlong_operand" ("within-1ulp-truthful-flag cls=" ^ cls)
                else { v = "fail"; extra = "not-within-1ulp-or-untruthful-Exact cls=" ^ cls ^ fid }
            | VUndecided -> skip ("undecided-" ^ cls)
          end
    | [ "panic"; c ] -> fail ("value-not-panic-" ^ c)
    | [ "hang" ] -> fail "value-not-hang"
    | _ -> fail "ok-sig-exp-flag-prec"

let () = serve judge
