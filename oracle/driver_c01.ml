(* C01 oracle: judges the implementation's answers against the extracted Coq specifications
   (Int/RingSpec.v; Z is zarith/GMP in this build = the independent big-integer implementation).
   asis = the word-level models of Int/Ring*.v + the sign tables regenerated from the source.   *)
open Common
open Model

let sm x = if Zar.sign x < 0 then (Negative, Zar.neg x) else (Positive, x)
let usz s = Zar.of_string_base 16 s

(* word size of the build that answered: every answer carries a token W40 / W20 (hex); NATIVE marks per-build answers *)
let wbits = ref 64
let split_answer got =
  wbits := 64;
  List.filter (fun t ->
    if t = "NATIVE" then false
    else if String.length t >= 2 && t.[0] = 'W' && (match int_of_string_opt ("0x" ^ String.sub t 1 (String.length t - 1)) with Some _ -> true | None -> false)
    then (wbits := int_of_string ("0x" ^ String.sub t 1 (String.length t - 1)); false)
    else true) got

let cls_of x =
  let n = (Zar.numbits x + !wbits - 1) / !wbits in
  if n <= 1 then "w1" else if n = 2 then "w2" else if n <= 24 then "s" else if n <= 192 then "k" else "t"

let res_str = function
  | Ok v -> "ok " ^ hx v ^ " 1"
  | Panic NegativeUBig -> "panic NegativeUBig"
  | Panic _ -> "panic other"
  | Err _ -> "err"
  | OutOfFuel -> "outoffuel"


(* ---- as-is models: the extracted word-level development (Int/RingAdd.v, RingMul.v, RingOps.v) ---- *)
module Ringasis = struct
  let rec nat_of_int n = if n <= 0 then O else S (nat_of_int (n - 1))
  let zn v = nat_of_int (Zar.to_int v)
  let ts = zn mul_threshold_simple and tk = zn mul_threshold_karatsuba
  let chunk = zn mul_simple_chunk_len and sq = zn sqr_max_len_simple
  let wz () = Zar.of_int !wbits
  let words n v = to_words (wz ()) (nat_of_int n) v
  (* the word-level stack (Int/RingMulW.v): dispatch + Toom-3 with div_by_word / shr_in_place at word level;
     num-modular's 2-by-1 division is instantiated by exact division as in the C02 oracle *)
  let d21 = x2by1
  (* work bound for running the word-level model inside the oracle (lists of words, unary lengths) *)
  let small la lb = la * lb <= 1200000 && la + lb <= 9000
  let small_pow la lb = la * lb <= 250000 && la + lb <= 6000
  let typed v = typed_of_value (wz ()) v
  let nwords v = (Zar.numbits v + !wbits - 1) / !wbits
  let own_of = function "vv" | "av" -> OVV | "vr" | "ar" -> OVR | "rv" -> ORV | _ -> ORR
  let uval = function
    | Ok r -> Ok (repr_value (wz ()) r) | Panic p -> Panic p | Err e -> Err e | OutOfFuel -> OutOfFuel
  let sval = function
    | Ok r -> Ok (srepr_value (wz ()) r) | Panic p -> Panic p | Err e -> Err e | OutOfFuel -> OutOfFuel
  let ubig_op (op : string) (form : string) (x : Zar.t) (y : Zar.t) : Zar.t result option =
    let o = own_of form in
    match op with
    | "uadd" -> Some (Ok (repr_value (wz ()) (repr_add (wz ()) o (typed x) (typed y))))
    | "usub" -> Some (uval (repr_sub (wz ()) o (typed x) (typed y)))
    | _ ->
        (* round 4: Small x Large arms with the word-level shl_in_place of C09, square shortcut by cmp_in_place (Int/RingOpsW4.v);
           the round-3 model (by-value shift, list equality) must say the same *)
        if small (nwords x) (nwords y) then begin
          let r4 = uval (repr_mul_w4 (wz ()) d21 ts tk chunk sq (typed x) (typed y)) in
          let r3 = uval (repr_mul_w (wz ()) d21 ts tk chunk sq (typed x) (typed y)) in
          if r3 = r4 then Some r4 else Some (Err Zar.zero)
        end else None
  let ibig_op (k : string) (form : string) s0 m0 s1 m1 : Zar.t result option =
    let o = own_of form in
    match k with
    | "add" -> Some (sval (ibig_add_asis (wz ()) o s0 (typed m0) s1 (typed m1)))
    | "sub" -> Some (sval (ibig_sub_asis (wz ()) o s0 (typed m0) s1 (typed m1)))
    | _ ->
        if small (nwords m0) (nwords m1) then begin
          let r3 = sval (ibig_mul_asis_w (wz ()) d21 ts tk chunk sq s0 (typed m0) s1 (typed m1)) in
          let r4 = (match uval (repr_mul_w4 (wz ()) d21 ts tk chunk sq (typed m0) (typed m1)) with
                    | Ok v -> Ok (if s0 = s1 then v else Zar.neg v) | Panic p -> Panic p | Err e -> Err e | OutOfFuel -> OutOfFuel) in
          if r3 = r4 then Some r4 else Some (Err Zar.zero)
        end else None
  let sqr (x : Zar.t) : Zar.t result option =
    if small (nwords x) (nwords x) then Some (uval (repr_sqr_w (wz ()) d21 ts tk sq (typed x))) else None
  let cubic s (m : Zar.t) : Zar.t result option =
    if small (nwords m) (2 * nwords m) then Some (sval (ibig_cubic_asis_w (wz ()) d21 ts tk chunk sq s (typed m))) else None
  let pow s (m : Zar.t) (e : Zar.t) : Zar.t result option =
    let rw = nwords m * Zar.to_int e in
    if small rw (rw / 4) then Some (sval (ibig_pow_w (wz ()) d21 ts tk chunk sq true s (typed m) e)) else None
  (* primitive-operand forms (Int/RingPrim.v): side l r lr rr a, op add sub mul *)
  let pside = function "r" | "rr" -> PRight | _ -> PLeft
  let pref = function "lr" | "rr" -> true | _ -> false
  let pop_of = function "add" -> PAdd | "sub" -> PSub | _ -> PMul
  let bits_of ty = Zar.of_int (match ty with "i8" -> 8 | "i16" -> 16 | "i32" -> 32 | "i64" | "isize" -> 64 | _ -> 128)
  (* Repr::from_unsigned at word level (Int/RingPrimW4.v: a primitive wider than a double word goes through its little-endian
     bytes and from_le_bytes_large) must give the representation the by-value conversion inside ubig_prim / ibig_prim gives *)
  let bytes_of ty = (match ty with "u8" | "i8" -> 1 | "u16" | "i16" -> 2 | "u32" | "i32" -> 4 | "u64" | "i64" | "usize" | "isize" -> 8 | _ -> 16)
  let conv_ok ty (m : Zar.t) = repr_from_unsigned_w (wz ()) (nat_of_int (bytes_of ty)) m = typed m
  let uprim ty side o (x : Zar.t) (p : Zar.t) : Zar.t result option =
    if not (conv_ok ty p) then Some (Err Zar.zero) else
    if small (nwords x) 2 then Some (uval (ubig_prim (wz ()) d21 ts tk chunk sq (pop_of o) (pside side) (pref side) (typed x) p)) else None
  let iprim ty signed_ty side o (x : Zar.t) (p : Zar.t) : Zar.t result option =
    if not (conv_ok ty (Zar.abs p)) then Some (Err Zar.zero) else
    let s, m = sm x in
    let q = (match signed_ty with Some ty -> ibig_from_signed (wz ()) (bits_of ty) p | None -> ibig_from_unsigned (wz ()) p) in
    if small (nwords m) 2 then Some (sval (ibig_prim (wz ()) d21 ts tk chunk sq (pop_of o) (pside side) (pref side) (s, typed m) q)) else None
  let kmul (which : int) s (la : int) (lb : int) (c : Zar.t) (a : Zar.t) (b : Zar.t) : string option =
    if not (small la lb) then None else
    let cw = words (la + lb) c and aw = words la a and bw = words lb b in
    let f = (match which with
      | 0 -> add_signed_mul_w (wz ()) d21 ts tk chunk
      | 1 -> simple_add_signed_mul_w (wz ()) d21 ts tk chunk
      | 2 -> karatsuba_add_signed_mul_w (wz ()) d21 ts tk chunk
      | _ -> toom3_add_signed_mul_w (wz ()) d21 ts tk chunk) in
    (match f cw s aw bw with
     | Ok (r, carry) ->
         let t = "ok " ^ hx (value (wz ()) r) ^ " " ^ hx carry in
         (* the schoolbook rows REGENERATED from mul/simple.rs (coq/gen/WordKernelsGen.v) must say the same *)
         if which = 1 && la <= Zar.to_int mul_simple_chunk_len && la >= lb then begin
           let (r2, c2) = signed_mul_chunk_gen (wz ()) cw s aw bw in
           if "ok " ^ hx (value (wz ()) r2) ^ " " ^ hx c2 = t then Some t else Some "gen-rows-differ"
         end else
         (* round 5: the BODIES regenerated from mul/{helpers,simple,karatsuba,toom_3,mod}.rs (coq/gen/MulBodiesGen.v:
            dispatch, chunk loop, Karatsuba step, generated fuel knot) must say the same *)
         if la + lb <= 1600 then begin
           match kmul_bodies_gen (wz ()) d21 (Zar.of_int which) cw s aw bw with
           | Ok (r2, c2) when "ok " ^ hx (value (wz ()) r2) ^ " " ^ hx c2 = t -> Some t
           | _ -> Some "gen-bodies-differ"
         end else Some t
     | Panic _ -> Some "panic model"
     | Err _ -> Some "err model"
     | OutOfFuel -> Some "outoffuel")
  let ksqr (la : int) (a : Zar.t) : string option =
    if not (small la la) then None else
    (match sqr_w (wz ()) d21 ts tk sq (words la a) with
     | Ok r ->
         let t = "ok " ^ hx (value (wz ()) r) in
         (match ksqr_bodies_gen (wz ()) d21 (words la a) with
          | Ok r2 when "ok " ^ hx (value (wz ()) r2) = t -> Some t
          | _ -> Some "gen-bodies-differ")
     | Panic _ -> Some "panic model"
     | _ -> Some "outoffuel")
end

let fid asis got = "asis=" ^ (if split_ws asis = got then "same" else "diff")
let fido asis got = match asis with Some r -> fid (res_str r) got | None -> "asis=na"

(* implementation answers on the API ops are `ok <value> <canonical-storage flag>` *)
let expect_val ?(extra = "") v got = expect ~extra ("ok " ^ hx v ^ " 1") got


let judge op args got0 =
  let got = split_answer got0 in
  let sc = 64 / !wbits in
  if got = ["ok"; "na"] then pass ~nt:false ~extra:"cls=other-build" () else
  let a i = z (List.nth args i) in
  let n i = usz (List.nth args i) in
  let cls2 x y = "cls=" ^ cls_of x ^ "-" ^ cls_of y in
  match op with
  | "uadd" | "usub" | "umul" ->
      let x = a 1 and y = a 2 in
      let spec = (match op with "uadd" -> ubig_add_spec x y | "usub" -> ubig_sub_spec x y | _ -> ubig_mul_spec x y) in
      let asis = Ringasis.ubig_op op (List.nth args 0) x y in
      expect ~extra:(cls2 x y ^ " " ^ fido asis got) (res_str spec) got
  | "iadd" | "isub" | "imul" | "add_ui" | "sub_ui" | "mul_ui" | "add_iu" | "sub_iu" | "mul_iu" ->
      let x = a 1 and y = a 2 in
      let s0, m0 = sm x and s1, m1 = sm y in
      let k = String.sub op (if op.[0] = 'i' then 1 else 0) 3 in
      let spec, tbl = (match k with
        | "add" -> ibig_add_spec x y, ibig_add_gen s0 m0 s1 m1
        | "sub" -> ibig_sub_spec x y, ibig_sub_gen s0 m0 s1 m1
        | _ -> ibig_mul_spec x y, ibig_mul_gen s0 m0 s1 m1) in
      let asis = Ringasis.ibig_op k (List.nth args 0) s0 m0 s1 m1 in
      let f = if Zar.equal tbl spec then fido asis got else "asis=diff" in
      expect_val ~extra:(cls2 x y ^ " " ^ f) spec got
  | "uprim" | "iprim_u" | "iprim_i" ->
      let side = List.nth args 1 and o = List.nth args 2 in
      let x = a 3 and p = a 4 in
      let l, r = if side = "r" || side = "rr" then (p, x) else (x, p) in
      if op = "uprim" then
        expect ~extra:(fido (Ringasis.uprim (List.nth args 0) side o x p) got)
          (res_str (match o with "add" -> ubig_add_spec l r | "sub" -> ubig_sub_spec l r | _ -> ubig_mul_spec l r)) got
      else
        let asis = Ringasis.iprim (List.nth args 0) (if op = "iprim_i" then Some (List.nth args 0) else None) side o x p in
        expect_val ~extra:(fido asis got) (match o with "add" -> ibig_add_spec l r | "sub" -> ibig_sub_spec l r | _ -> ibig_mul_spec l r) got
  | "usqr" | "isqr" ->
      let x = a 0 in
      expect_val ~extra:("cls=" ^ cls_of x ^ " " ^ fido (Ringasis.sqr (Zar.abs x)) got) (sqr_spec x) got
  | "ucubic" | "icubic" ->
      let x = a 0 in
      let s, m = sm x in
      expect_val ~extra:("cls=" ^ cls_of x ^ " " ^ fido (Ringasis.cubic s m) got) (cubic_spec x) got
  | "upow" | "ipow" ->
      let x = a 0 and e = n 1 in
      let s, m = sm x in
      (* the shift count exp * trailing_zeros in usize (64 bits in both builds), Int/RingPowShift.v: when it does not fit, the
         result has more than usize::MAX bits and the documented 'try to allocate too much memory' is the only right answer *)
      let shift = if Zar.sign m = 0 then Zar.zero else Zar.of_int (Zar.trailing_zeros m) in
      (match pow_shift (Zar.shift_left Zar.one 64) e shift with
       | Panic AllocateTooMuch -> expect ~extra:"cls=pow-shift-overflow asis=same" "panic AllocateTooMuch" got
       | _ ->
         if Zar.gt (Zar.mul (Zar.of_int (max 0 (Zar.numbits m - 1))) e) (Zar.shift_left Zar.one 36) then
           (* too large to build: any of the two documented allocation panics, never a value *)
           (match got with
            | ["panic"; ("AllocateTooMuch" | "OutOfMemory")] -> pass ~extra:"cls=pow-huge" ()
            | _ -> fail "panic AllocateTooMuch")
         else
           let asis = Ringasis.pow s m e in
           expect_val ~extra:("cls=" ^ cls_of x ^ " " ^ fido asis got) (pow_spec x e) got)
  | "kmul" | "kmul32" | "kmul64" ->
      let which = Zar.to_int (n 0) and s = (if List.nth args 1 = "1" then Positive else Negative) in
      let sc = if op = "kmul" then sc else 1 in
      let la = Zar.mul (Zar.of_int sc) (n 2) and lb = Zar.mul (Zar.of_int sc) (n 3) in
      let c = a 4 and x = a 5 and y = a 6 in
      let (r, carry) = mul_kernel_spec (Zar.of_int !wbits) (Zar.add la lb) s c x y in
      let want = "ok " ^ hx r ^ " " ^ hx carry in
      let asis = Ringasis.kmul which s (Zar.to_int la) (Zar.to_int lb) c x y in
      expect ~extra:("cls=k" ^ string_of_int which ^ (if !wbits = 32 then "w32" else "") ^ " " ^ (match asis with Some t -> fid t got | None -> "asis=na")) want got
  | "ksqr" | "ksqr32" ->
      let la = Zar.mul (Zar.of_int (if op = "ksqr" then sc else 1)) (n 0) and x = a 1 in
      let want = "ok " ^ hx (sqr_spec x) in
      let asis = Ringasis.ksqr (Zar.to_int la) x in
      expect ~extra:(match asis with Some t -> fid t got | None -> "asis=na") want got
  | "kmem" ->
      (* scratch memory: verdict = the reserved amount suffices (least amount that runs <= reserved);
         fidelity = both numbers are the ones of the model (DashuGen.MulMemory formula, Int/RingScratch.v consumption) *)
      let la = Zar.mul (Zar.of_int sc) (n 0) and lb = Zar.mul (Zar.of_int sc) (n 1) in
      let want = "ok " ^ hx (kernel_alloc Zar.zero la lb) ^ " " ^ hx (kernel_need Zar.zero la lb) in
      (match got with
       | ["ok"; f; k] when Zar.leq (usz k) (usz f) -> pass ~extra:("cls=mem " ^ fid want got) ()
       | _ -> fail want)
  | "wk" ->
      (* one word kernel of add.rs / mul/mod.rs: wk wordbits which llen rlen lhs rhs x sx -> ok lhs' magnitude negative? *)
      let wb = Zar.to_int (n 0) in
      wbits := wb;
      let w = Zar.of_int wb in
      let which = n 1 and ll = Zar.to_int (n 2) and rl = Zar.to_int (n 3) in
      let lhs = a 4 and rhs = a 5 and x = a 6 and sx = a 7 in
      let str v m neg = "ok " ^ hx v ^ " " ^ hx m ^ " " ^ (if neg then "1" else "0") in
      let ((v, m), neg) = word_kernel_spec w which (Zar.of_int ll) lhs rhs x sx in
      let (l2, (m2, neg2)) = word_kernel_gen w which (Ringasis.words ll lhs) (Ringasis.words rl rhs) x sx in
      let (l3, (m3, neg3)) = word_kernel_hand w which (Ringasis.words ll lhs) (Ringasis.words rl rhs) x sx in
      let gen = str (value w l2) m2 neg2 and hand = str (value w l3) m3 neg3 in
      let f = if gen <> hand then "asis=diff" else fid gen got in
      expect ~extra:("cls=wk" ^ string_of_int wb ^ "-" ^ Zar.to_string which ^ " " ^ f) (str v m neg) got
  | "params" ->
      expect (Printf.sprintf "ok %s %s %s %s %x" (hx mul_threshold_simple) (hx mul_threshold_karatsuba) (hx karatsuba_min_len) (hx toom3_min_len) (match got with [_; _; _; _; _; "20"] -> 32 | _ -> 64)) got
  | _ -> fail ("unknown-op-" ^ op)

let () = serve judge
