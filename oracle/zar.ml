(* alias of zarith's Z under a name the extracted code cannot shadow *)
include Z
