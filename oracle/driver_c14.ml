(* C14 oracle.  Verdict = the order / hash input of the EXACT values (XVal.spec_cmp, spec_abs_cmp, spec_hash),
   asis = the transcribed bodies (XOrdModel / XDispatch) run with two different admissible estimators.
   When an exponent is so large that the exact value cannot be written down, the verdict is taken from the
   as-is bodies, which Cross/XOrdProofs.v proves equal to the specification for every sound estimator. *)
open Common
open Model

let big_exp = Zar.of_int 3_000_000

(* operand tokens -> tagged operand (what the library stores after its constructors) *)
let parse tok : tagged =
  let f = Array.of_list (String.split_on_char ':' tok) in
  let flt b sg ex =
    match sg with
    | "inf" -> TF (b, Zar.zero, Zar.one)
    | "-inf" -> TF (b, Zar.zero, Zar.minus_one)
    | _ -> let (s, e) = repr_new b (z sg) (z ex) in TF (b, s, e) in
  let base k = Zar.of_int (int_of_string (String.sub k 1 (String.length k - 1))) in
  match f.(0) with
  | "u" | "pu8" | "pu16" | "pu32" | "pu64" | "pu128" | "pusize" -> TU (z f.(1))
  | "i" | "pi8" | "pi16" | "pi32" | "pi64" | "pi128" | "pisize" -> TI (z f.(1))
  | "f2" | "f3" | "f10" | "f16" -> flt (base f.(0)) f.(2) f.(3)
  | "g2" | "g3" | "g10" | "g16" -> flt (base f.(0)) f.(1) f.(2)
  | "q" -> (match mk_rbig (z f.(1)) (z f.(2)) with ORat (n, d) -> TQ (n, d) | _ -> failwith "mk_rbig")
  | "r" -> (match mk_relaxed (z f.(1)) (z f.(2)) with ORat (n, d) -> TQ (n, d) | _ -> failwith "mk_relaxed")
  | "s" -> TP (Zar.of_int 23, Zar.of_int 8, z f.(1))
  | "d" -> TP (Zar.of_int 52, Zar.of_int 11, z f.(1))
  | k -> failwith ("operand kind " ^ k)

(* the type of an operand token, for the regenerated impl tables (coq/gen/XImplTable.v through XImplPairs.has_numord / has_absord) *)
let xty_of_tok tok : xty =
  let k = List.hd (String.split_on_char ':' tok) in
  let width s = if s = "size" then Zar.zero else Zar.of_int (int_of_string s) in
  match k with
  | "u" -> XUBig | "i" -> XIBig | "s" -> XF32 | "d" -> XF64 | "q" -> XRBig | "r" -> XRelaxed
  | _ when String.length k > 2 && String.sub k 0 2 = "pu" -> XPu (width (String.sub k 2 (String.length k - 2)))
  | _ when String.length k > 2 && String.sub k 0 2 = "pi" -> XPi (width (String.sub k 2 (String.length k - 2)))
  | _ when k.[0] = 'f' -> XFBig
  | _ when k.[0] = 'g' -> XFRepr
  | _ -> failwith ("operand kind " ^ k)

let huge = function TF (_, s, e) -> Zar.sign s <> 0 && Zar.gt (Zar.abs e) big_exp | _ -> false


(* ------------------------------------------------------------------ the f32 estimators of the library *)
let w64 = Zar.of_int 64
exception Lg_missing
(* f32::log2 as reported by the implementation for the arguments the estimators can use *)
let lg_of_pairs (pairs : (int * int) list) : f32 -> f32 =
  fun x -> let b = Zar.to_int (f_to_bits x) in
    match List.assoc_opt b pairs with Some o -> f_of_bits (Zar.of_int o) | None -> raise Lg_missing
let rec read_pairs = function
  | a :: b :: rest -> (int_of_string ("0x" ^ a), int_of_string ("0x" ^ b)) :: read_pairs rest
  | _ -> []
let f32_of_bits_float (b : int) : float = Int32.float_of_bits (Int32.of_int (if b land 0x80000000 <> 0 then b - (1 lsl 32) else b))
(* the assumption on libm (XLog2Flocq.lg_contract), checked in double precision for the reported values:
   the two f32 neighbours of f32::log2(n) enclose log2 n *)
let libm_ok (pairs : (int * int) list) : bool =
  List.for_all (fun (i, o) ->
    let x = f32_of_bits_float i and y = f32_of_bits_float o in
    if not (x >= 1.0 && x <= 16777216.0 && Float.is_integer x) then true
    else
      let nb b = f32_of_bits_float b in
      let up = if y = 0.0 then nb 1 else if y > 0.0 then nb (o + 1) else nb (o - 1) in
      let dn = if y = 0.0 then nb 0x80000001 else if y > 0.0 then nb (o - 1) else nb (o + 1) in
      let t = Float.log2 x in
      let tol = 1e-13 *. (Float.abs t +. 1.0) in
      dn <= t +. tol && t -. tol <= up) pairs
(* log2 of a positive integer in double precision *)
let log2_z (n : Zar.t) : float =
  let nb = Zar.numbits n in
  let k = max 0 (nb - 62) in
  Float.log2 (Zar.to_float (Zar.shift_right n k)) +. float_of_int k
(* log2 of the magnitude of an operand and a bound of the rounding error of that number; None for zero *)
let log2_operand = function
  | TU z | TI z -> if Zar.sign z = 0 then None else let l = log2_z (Zar.abs z) in Some (l, 1e-14 *. (l +. 1.0))
  | TF (b, s, e) -> if Zar.sign s = 0 then None else
      let ls = log2_z (Zar.abs s) and p = Zar.to_float e *. log2_z b in
      Some (ls +. p, 1e-14 *. (ls +. Float.abs p +. 1.0))
  | TQ (n, d) -> if Zar.sign n = 0 then None else
      let ln = log2_z (Zar.abs n) and ld = log2_z d in Some (ln -. ld, 1e-14 *. (ln +. ld +. 1.0))
  | TP _ -> None
let bits_s v = Printf.sprintf "%x" (Zar.to_int (f_to_bits v))
(* the word size of the build that answered (token w20 / w40 in front of the libm table) *)
let word_of tok = Zar.of_int (int_of_string ("0x" ^ String.sub tok 1 (String.length tok - 1)))
let est_model lg w = function
  | TU z | TI z -> Some (ibig_log2_bounds lg w z, None)
  | TF (b, s, e) -> Some (f_log2_bounds lg w b s e, (if Zar.sign s = 0 && Zar.sign e <> 0 then None else Some (digits_ub32 lg w64 w b s)))
  | TQ (n, d) -> Some (q_log2_bounds lg w n d, None)
  | TP _ -> None
let size_cls w x =
  let dw = 2 * Zar.to_int w in
  let bl v = Zar.numbits (Zar.abs v) in
  let big = match x with TU z | TI z -> bl z > dw | TF (_, s, _) -> bl s > dw | TQ (n, d) -> bl n > dw || bl d > dw | TP _ -> false in
  if big then "large" else "small"

(* ------------------------------------------------------------------ lgchk: the libm assumption, decided exactly *)
(* enclosure of log2 n in units of 2^-160 (bit-by-bit squaring with 400 fraction bits, lower and upper track) *)
let lg_p = 160
let log2_enclosure_z (n : Zar.t) : Zar.t * Zar.t =
  let f = 400 in
  let ip = Zar.numbits n - 1 in
  if Zar.equal n (Zar.shift_left Zar.one ip) then (let e = Zar.shift_left (Zar.of_int ip) lg_p in (e, e)) else
  let x = Zar.shift_left n (f - ip) in
  let two = Zar.shift_left Zar.one (f + 1) in
  let mask = Zar.pred (Zar.shift_left Zar.one f) in
  let yl = ref x and yu = ref x and sl = ref Zar.zero and su = ref Zar.zero in
  for k = 1 to lg_p do
    let zl = Zar.shift_right (Zar.mul !yl !yl) f in
    if Zar.geq zl two then (sl := Zar.add !sl (Zar.shift_left Zar.one (lg_p - k)); yl := Zar.shift_right zl 1) else yl := zl;
    let p = Zar.mul !yu !yu in
    let zu = Zar.add (Zar.shift_right p f) (if Zar.sign (Zar.logand p mask) <> 0 then Zar.one else Zar.zero) in
    if Zar.geq zu two then (su := Zar.add !su (Zar.shift_left Zar.one (lg_p - k)); yu := Zar.add (Zar.shift_right zu 1) (Zar.logand zu Zar.one)) else yu := zu
  done;
  let base = Zar.shift_left (Zar.of_int ip) lg_p in
  (Zar.add base !sl, Zar.succ (Zar.add base !su))
(* a finite f32 bit pattern times 2^160, exactly *)
let f32_scaled (b : int) : Zar.t =
  let e8 = (b lsr 23) land 255 and m = b land 0x7fffff in
  let (mm, ex) = if e8 = 0 then (m, -149) else (m + 0x800000, e8 - 150) in
  let v = Zar.shift_left (Zar.of_int mm) (ex + lg_p) in
  if b land 0x80000000 <> 0 then Zar.neg v else v
(* lg_contract for one integer: f32::log2 n = the pattern o; the neighbours are Flocq's Bsucc / Bpred (the model's next_up / next_down) *)
let lg_contract_holds (n : int) (o : int) : bool =
  let y = f_of_bits (Zar.of_int o) in
  if (o lsr 23) land 255 = 255 then false
  else
    let up = Zar.to_int (f_to_bits (next_up y)) and dn = Zar.to_int (f_to_bits (next_down y)) in
    if (up lsr 23) land 255 = 255 || (dn lsr 23) land 255 = 255 then false
    else
      let (el, eu) = log2_enclosure_z (Zar.of_int n) in
      Zar.leq (f32_scaled dn) el && Zar.leq eu (f32_scaled up)

let c2s = function Eq -> "eq" | Lt -> "lt" | Gt -> "gt"
let bits = function
  | None -> "010000"
  | Some Eq -> "100101"
  | Some Lt -> "011100"
  | Some Gt -> "010011"
let ord_answer = function
  | None -> "ok none - " ^ bits None
  | Some c -> "ok " ^ c2s c ^ " " ^ c2s c ^ " " ^ bits (Some c)

let kind = function TU _ -> "U" | TI _ -> "I" | TF (b, _, _) -> "F" ^ Zar.to_string b | TQ _ -> "Q" | TP (m, _, _) -> if Zar.to_int m = 23 then "f32" else "f64"
let is_zero_val = function XFin (n, _) -> Zar.sign n = 0 | _ -> false

let judge op args got =
  let a i = parse (List.nth args i) in
  match op with
  | ("ord" | "ordf") when not (has_numord (xty_of_tok (List.nth args 0)) (xty_of_tok (List.nth args 1))) ->
      (* the regenerated table has no impl NumOrd<B> for A: the harness, whose dispatch needs the impl to compile, must say so *)
      expect ~nt:false ~extra:"cls=no-impl path=table" "err no-impl" (List.filteri (fun i _ -> i < 2) got)
  | ("abs" | "absf") when not (has_absord (xty_of_tok (List.nth args 0)) (xty_of_tok (List.nth args 1))) ->
      expect ~nt:false ~extra:"cls=abs-no-impl path=table" "err no-impl" (List.filteri (fun i _ -> i < 2) got)
  | "ord" ->
      let x = a 0 and y = a 1 in
      (match ord_run x y, ord_run2 x y with
       | None, _ | _, None -> expect "err no-impl" got
       | Some m1, Some m2 ->
           let cls = "cls=" ^ kind x ^ "x" ^ kind y in
           if m1 <> m2 then fail "model-depends-on-estimator"
           else if huge x || huge y then
             expect ~extra:(cls ^ " path=est-only asis=" ^ (if split_ws (ord_answer m1) = got then "same" else "diff")) (ord_answer m1) got
           else
             let vx = value_of (untag x) and vy = value_of (untag y) in
             let want = spec_cmp vx vy in
             let nt = not (is_zero_val vx && is_zero_val vy) in
             let asis = "asis=" ^ (if split_ws (ord_answer m1) = got then "same" else "diff") in
             let path = "path=" ^ (match want with None -> "nan" | Some Eq -> "equal" | Some _ -> "ordered") in
             if m1 <> want && split_ws (ord_answer m1) = got then
               (* the model reproduces the implementation and both differ from the specification *)
               fail (ord_answer want ^ " model-agrees-with-impl")
             else expect ~nt ~extra:(cls ^ " " ^ path ^ " " ^ asis) (ord_answer want) got)
  | "abs" ->
      let x = a 0 and y = a 1 in
      (match abs_run x y, abs_run2 x y with
       | None, _ | _, None -> expect "err no-impl" got
       | Some m1, Some m2 ->
           let cls = "cls=abs-" ^ kind x ^ "x" ^ kind y in
           if m1 <> m2 then fail "model-depends-on-estimator"
           else if huge x || huge y then
             expect ~extra:(cls ^ " path=est-only asis=" ^ (if [ "ok"; c2s m1 ] = got then "same" else "diff")) ("ok " ^ c2s m1) got
           else
             (match spec_abs_cmp (value_of (untag x)) (value_of (untag y)) with
              | None -> fail "spec-none"
              | Some w ->
                  let asis = "asis=" ^ (if [ "ok"; c2s m1 ] = got then "same" else "diff") in
                  expect ~extra:(cls ^ " " ^ asis) ("ok " ^ c2s w) got))
  | "cmp" ->
      (match a 0, a 1 with
       | (TF (b, s1, e1) as x), (TF (_, s2, e2) as y) ->
           let m = fsame_run b s1 e1 s2 e2 in
           if huge x || huge y then
             expect ~extra:("cls=cmp-F" ^ Zar.to_string b ^ " path=est-only asis=" ^ (if [ "ok"; c2s m ] = got then "same" else "diff")) ("ok " ^ c2s m) got
           else
           (match spec_cmp (value_of (untag x)) (value_of (untag y)) with
            | Some w -> expect ~extra:("cls=cmp-F" ^ Zar.to_string b ^ " asis=" ^ (if [ "ok"; c2s m ] = got then "same" else "diff")) ("ok " ^ c2s w) got
            | None -> fail "spec-none")
       | _ -> fail "cmp-operands")
  | "hash" ->
      let x = a 0 in
      (* num-order's own hashing of the primitives (XPrimHashModel): the model of what the implementation feeds the hasher *)
      let prim =
        let f = Array.of_list (String.split_on_char ':' (List.nth args 0)) in
        let k = f.(0) in
        let bits_of s = if s = "size" then 64 else int_of_string s in
        if String.length k > 2 && String.sub k 0 2 = "pu" then Some (prim_int_hash (Zar.of_int (bits_of (String.sub k 2 (String.length k - 2)))) false (z f.(1)))
        else if String.length k > 2 && String.sub k 0 2 = "pi" then Some (prim_int_hash (Zar.of_int (bits_of (String.sub k 2 (String.length k - 2)))) true (z f.(1)))
        else if k = "s" then Some (prim_float_hash (Zar.of_int 23) (Zar.of_int 8) (z f.(1)))
        else if k = "d" then Some (prim_float_hash (Zar.of_int 52) (Zar.of_int 11) (z f.(1)))
        else None in
      let prim_asis = match prim with
        | Some m -> " asis=" ^ (if [ "ok"; hx m; "10" ] = got then "same" else "diff") ^ " path=num-order-prim"
        | None -> "" in
      if huge x then
        (match hash_asis x with
         | Some h -> expect ~extra:("cls=hash-" ^ kind x ^ " path=est-only") ("ok " ^ hx h ^ " 10") got
         | None -> skip "no-model")
      else
      (match spec_hash (value_of (untag x)) with
       | None ->
           (* infinities and NaN have no exact value: the answer is num-order's convention (transcribed, C14_prim_float_hash_inf / _nan) for
              the primitives and the as-is body for dashu's infinite floats, which agree for the infinities (C14_inf_hash_agree: both 0) *)
           let m = match prim with Some m -> Some m | None -> hash_asis x in
           (match m with
            | Some m ->
                let infinite = (match value_of (untag x) with XInf _ -> true | _ -> false) in
                if infinite && Zar.sign m <> 0 then fail "infinity-hash-not-0(model)"
                else expect ~nt:false ~extra:("cls=hash-nonfinite-" ^ kind x ^ " asis=" ^ (if [ "ok"; hx m; "10" ] = got then "same" else "diff")) ("ok " ^ hx m ^ " 10") got
            | None -> (match got with "ok" :: _ -> pass ~nt:false ~extra:("cls=hash-nonfinite-" ^ kind x) () | _ -> fail "ok <any>"))
       | Some h ->
           let asis = if prim <> None then String.trim prim_asis else match hash_asis x with
             | Some m -> "asis=" ^ (if [ "ok"; hx m; "10" ] = got then "same" else "diff")
             | None -> "asis=na" in
           expect ~extra:("cls=hash-" ^ kind x ^ " " ^ asis) ("ok " ^ hx h ^ " 10") got)
  | "est" ->
      let x = a 0 in
      (match got with
       | "ok" :: lo :: hi :: dub :: wtok :: _k :: rest ->
           let pairs = read_pairs rest in
           let w = word_of wtok in
           let cls = "cls=est-" ^ kind x ^ "-" ^ size_cls w x ^ "-" ^ wtok in
           if not (libm_ok pairs) then fail "libm-contract(one-ulp)-violated"
           else
             let model = (try est_model (lg_of_pairs pairs) w x with Lg_missing -> None) in
             let asis = match model with
               | Some ((l, u), d) ->
                   let ds = match d with Some d -> Printf.sprintf "%x" (Zar.to_int d) | None -> "-" in
                   if bits_s l = lo && bits_s u = hi && ds = dub then "asis=same" else "asis=diff"
               | None -> "asis=na" in
             (* the specification: the bounds enclose the exact logarithm (double precision, with the error of that number);
                digits_ub is not below the number of digits *)
             let lo_f = f32_of_bits_float (int_of_string ("0x" ^ lo)) and hi_f = f32_of_bits_float (int_of_string ("0x" ^ hi)) in
             (match log2_operand x with
              | None -> expect ~nt:false ~extra:(cls ^ " " ^ asis) ("ok ff800000 ff800000 " ^ (match x with TF (_, s, e) when Zar.sign s = 0 && Zar.sign e <> 0 -> "-" | TF _ -> "0" | _ -> "-") ) (List.filteri (fun i _ -> i < 4) got)
              | Some (t, err) ->
                  let dub_ok = match x, dub with
                    | TF (b, s, _), d when d <> "-" ->
                        let d = int_of_string ("0x" ^ d) in
                        (* |s| < b^d, decided exactly when the power is small, else through logarithms *)
                        if d < 100000 then Zar.lt (Zar.abs s) (Zar.pow b d) else float_of_int d *. log2_z b > log2_z (Zar.abs s)
                    | _ -> true in
                  if lo_f <= t +. err && t -. err <= hi_f && dub_ok then pass ~extra:(cls ^ " " ^ asis) ()
                  else fail (Printf.sprintf "log2_bounds-do-not-enclose-%.17g%s" t (if dub_ok then "" else "-digits_ub-too-small")))
       | _ -> fail "ok lo hi dub w k pairs")
  | "ordf" | "absf" | "cmpf" ->
      let x = a 0 and y = a 1 in
      let rec split acc = function "t" :: wtok :: _k :: rest -> (List.rev acc, read_pairs rest, word_of wtok) | t :: rest -> split (t :: acc) rest | [] -> (List.rev acc, [], w64) in
      let (ans, pairs, w) = split [] got in
      (match ans with
       | "err" :: _ ->
           (* no impl only where the model has none either (floats of two bases under AbsOrd / Ord, two primitives) *)
           let none = match op with
             | "ordf" -> ord_run x y = None
             | "absf" -> abs_run x y = None
             | _ -> (match x, y with TF (b1, _, _), TF (b2, _, _) -> not (Zar.equal b1 b2) | _ -> true) in
           if none then expect ~nt:false "err no-impl" ans else fail "an-impl-exists"
       | _ ->
      if not (libm_ok pairs) then fail "libm-contract(one-ulp)-violated"
      else
        let lg = lg_of_pairs pairs in
        let cls = "cls=" ^ op ^ "-" ^ kind x ^ "x" ^ kind y in
        let far = huge x || huge y in
        (match op with
         | "ordf" ->
             (match (try ord_raw lg w x y with Lg_missing -> None), ord_run x y with
              | Some m, Some m1 ->
                  let want = if far then m1 else spec_cmp (value_of (untag x)) (value_of (untag y)) in
                  let asis = "asis=" ^ (if split_ws (ord_answer m) = ans then "same" else "diff") in
                  if m <> want && split_ws (ord_answer m) = ans then fail (ord_answer want ^ " f32-model-agrees-with-impl")
                  else expect ~extra:(cls ^ " " ^ asis) (ord_answer want) ans
              | _ -> fail "no-model")
         | "absf" ->
             (match (try abs_raw lg w x y with Lg_missing -> None), abs_run x y with
              | Some m, Some m1 ->
                  let want = if far then Some m1 else spec_abs_cmp (value_of (untag x)) (value_of (untag y)) in
                  (match want with
                   | None -> fail "spec-none"
                   | Some wv ->
                       let asis = "asis=" ^ (if [ "ok"; c2s m ] = ans then "same" else "diff") in
                       expect ~extra:(cls ^ " " ^ asis) ("ok " ^ c2s wv) ans)
              | _ -> fail "no-model")
         | _ ->
             (match x, y with
              | TF (b, s1, e1), TF (_, s2, e2) ->
                  let m = (try Some (fsame_raw lg w b s1 e1 s2 e2) with Lg_missing -> None) in
                  let want = if far then Some (fsame_run b s1 e1 s2 e2) else spec_cmp (value_of (untag x)) (value_of (untag y)) in
                  (match m, want with
                   | Some m, Some wv ->
                       let asis = "asis=" ^ (if [ "ok"; c2s m ] = ans then "same" else "diff") in
                       expect ~extra:(cls ^ " " ^ asis) ("ok " ^ c2s wv) ans
                   | _ -> fail "no-model")
              | _ -> fail "cmp-operands")))
  | "lgchk" ->
      let lo = int_of_string ("0x" ^ List.nth args 0) and hi = int_of_string ("0x" ^ List.nth args 1) in
      (match got with
       | "ok" :: cnt :: bad :: und :: _k :: rest ->
           let h s = int_of_string ("0x" ^ s) in
           let pairs = read_pairs rest in
           if h cnt <> hi - lo + 1 then fail "count"
           else if h bad <> 0 then fail "lg_contract-violated(harness-enclosure)"
           else if h und <> 0 then fail "lg_contract-undecided-at-40-bits"
           else if List.length pairs < 3 then fail "samples"
           else if not (List.for_all (fun (n, _) -> lo <= n && n <= hi) pairs) then fail "sample-out-of-range"
           else if not (List.for_all (fun (n, o) -> lg_contract_holds n o) pairs) then fail "lg_contract-violated(oracle-enclosure)"
           else pass ~extra:"cls=lgchk path=all-in-range" ()
       | _ -> fail "ok count bad und k pairs")
  | _ -> fail ("unknown-op-" ^ op)

let () = serve judge
