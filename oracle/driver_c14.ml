(* C14 oracle.  Verdict = the order / hash input of the EXACT values (XVal.spec_cmp, spec_abs_cmp, spec_hash),
   asis = the transcribed bodies (XOrdModel / XDispatch) run with two different admissible estimators.
   When an exponent is so large that the exact value cannot be written down, the verdict is taken from the
   as-is bodies, which Cross/XOrdProofs.v proves equal to the specification for every sound estimator. *)
open Common
open Model

let big_exp = Zar.of_int 3_000_000

(* operand tokens -> tagged operand (what the library stores after its constructors) *)
let parse tok : tagged =
  let f = Array.of_list (String.split_on_char ':' tok) in
  let flt b sg ex =
    match sg with
    | "inf" -> TF (b, Zar.zero, Zar.one)
    | "-inf" -> TF (b, Zar.zero, Zar.minus_one)
    | _ -> let (s, e) = repr_new b (z sg) (z ex) in TF (b, s, e) in
  let base k = Zar.of_int (int_of_string (String.sub k 1 (String.length k - 1))) in
  match f.(0) with
  | "u" | "pu8" | "pu16" | "pu32" | "pu64" | "pu128" | "pusize" -> TU (z f.(1))
  | "i" | "pi8" | "pi16" | "pi32" | "pi64" | "pi128" | "pisize" -> TI (z f.(1))
  | "f2" | "f3" | "f10" | "f16" -> flt (base f.(0)) f.(2) f.(3)
  | "g2" | "g3" | "g10" | "g16" -> flt (base f.(0)) f.(1) f.(2)
  | "q" -> (match mk_rbig (z f.(1)) (z f.(2)) with ORat (n, d) -> TQ (n, d) | _ -> failwith "mk_rbig")
  | "r" -> (match mk_relaxed (z f.(1)) (z f.(2)) with ORat (n, d) -> TQ (n, d) | _ -> failwith "mk_relaxed")
  | "s" -> TP (Zar.of_int 23, Zar.of_int 8, z f.(1))
  | "d" -> TP (Zar.of_int 52, Zar.of_int 11, z f.(1))
  | k -> failwith ("operand kind " ^ k)

let huge = function TF (_, s, e) -> Zar.sign s <> 0 && Zar.gt (Zar.abs e) big_exp | _ -> false

let c2s = function Eq -> "eq" | Lt -> "lt" | Gt -> "gt"
let bits = function
  | None -> "010000"
  | Some Eq -> "100101"
  | Some Lt -> "011100"
  | Some Gt -> "010011"
let ord_answer = function
  | None -> "ok none - " ^ bits None
  | Some c -> "ok " ^ c2s c ^ " " ^ c2s c ^ " " ^ bits (Some c)

let kind = function TU _ -> "U" | TI _ -> "I" | TF (b, _, _) -> "F" ^ Zar.to_string b | TQ _ -> "Q" | TP (m, _, _) -> if Zar.to_int m = 23 then "f32" else "f64"
let is_zero_val = function XFin (n, _) -> Zar.sign n = 0 | _ -> false

let judge op args got =
  let a i = parse (List.nth args i) in
  match op with
  | "ord" ->
      let x = a 0 and y = a 1 in
      (match ord_run x y, ord_run2 x y with
       | None, _ | _, None -> expect "err no-impl" got
       | Some m1, Some m2 ->
           let cls = "cls=" ^ kind x ^ "x" ^ kind y in
           if m1 <> m2 then fail "model-depends-on-estimator"
           else if huge x || huge y then
             expect ~extra:(cls ^ " path=est-only asis=" ^ (if split_ws (ord_answer m1) = got then "same" else "diff")) (ord_answer m1) got
           else
             let vx = value_of (untag x) and vy = value_of (untag y) in
             let want = spec_cmp vx vy in
             let nt = not (is_zero_val vx && is_zero_val vy) in
             let asis = "asis=" ^ (if split_ws (ord_answer m1) = got then "same" else "diff") in
             let path = "path=" ^ (match want with None -> "nan" | Some Eq -> "equal" | Some _ -> "ordered") in
             if m1 <> want && split_ws (ord_answer m1) = got then
               (* the model reproduces the implementation and both differ from the specification *)
               fail (ord_answer want ^ " model-agrees-with-impl")
             else expect ~nt ~extra:(cls ^ " " ^ path ^ " " ^ asis) (ord_answer want) got)
  | "abs" ->
      let x = a 0 and y = a 1 in
      (match abs_run x y, abs_run2 x y with
       | None, _ | _, None -> expect "err no-impl" got
       | Some m1, Some m2 ->
           let cls = "cls=abs-" ^ kind x ^ "x" ^ kind y in
           if m1 <> m2 then fail "model-depends-on-estimator"
           else if huge x || huge y then
             expect ~extra:(cls ^ " path=est-only asis=" ^ (if [ "ok"; c2s m1 ] = got then "same" else "diff")) ("ok " ^ c2s m1) got
           else
             (match spec_abs_cmp (value_of (untag x)) (value_of (untag y)) with
              | None -> fail "spec-none"
              | Some w ->
                  let asis = "asis=" ^ (if [ "ok"; c2s m1 ] = got then "same" else "diff") in
                  expect ~extra:(cls ^ " " ^ asis) ("ok " ^ c2s w) got))
  | "cmp" ->
      (match a 0, a 1 with
       | (TF (b, s1, e1) as x), (TF (_, s2, e2) as y) ->
           let m = fsame_run b s1 e1 s2 e2 in
           if huge x || huge y then
             expect ~extra:("cls=cmp-F" ^ Zar.to_string b ^ " path=est-only asis=" ^ (if [ "ok"; c2s m ] = got then "same" else "diff")) ("ok " ^ c2s m) got
           else
           (match spec_cmp (value_of (untag x)) (value_of (untag y)) with
            | Some w -> expect ~extra:("cls=cmp-F" ^ Zar.to_string b ^ " asis=" ^ (if [ "ok"; c2s m ] = got then "same" else "diff")) ("ok " ^ c2s w) got
            | None -> fail "spec-none")
       | _ -> fail "cmp-operands")
  | "hash" ->
      let x = a 0 in
      if huge x then
        (match hash_asis x with
         | Some h -> expect ~extra:("cls=hash-" ^ kind x ^ " path=est-only") ("ok " ^ hx h ^ " 10") got
         | None -> skip "no-model")
      else
      (match spec_hash (value_of (untag x)) with
       | None -> (match got with "ok" :: _ -> pass ~nt:false ~extra:("cls=hash-nonfinite-" ^ kind x) () | _ -> fail "ok <any>")
       | Some h ->
           let asis = match hash_asis x with
             | Some m -> "asis=" ^ (if [ "ok"; hx m; "10" ] = got then "same" else "diff")
             | None -> "asis=na" in
           expect ~extra:("cls=hash-" ^ kind x ^ " " ^ asis) ("ok " ^ hx h ^ " 10") got)
  | _ -> fail ("unknown-op-" ^ op)

let () = serve judge
