(* pure build: Z is the extracted inductive; zarith is used only to read/print numbers *)
open Model
let rec pos_of (v : Zar.t) : positive =
  if Zar.equal v Zar.one then XH
  else if Zar.is_even v then XO (pos_of (Zar.shift_right v 1)) else XI (pos_of (Zar.shift_right v 1))
let z_of (v : Zar.t) : z = if Zar.sign v = 0 then Z0 else if Zar.sign v > 0 then Zpos (pos_of v) else Zneg (pos_of (Zar.neg v))
let rec zar_of_pos = function XH -> Zar.one | XO p -> Zar.shift_left (zar_of_pos p) 1 | XI p -> Zar.succ (Zar.shift_left (zar_of_pos p) 1)
let zar_of = function Z0 -> Zar.zero | Zpos p -> zar_of_pos p | Zneg p -> Zar.neg (zar_of_pos p)
let of_hex s = if String.length s > 0 && s.[0] = '-' then Zar.neg (Zar.of_string_base 16 (String.sub s 1 (String.length s - 1))) else Zar.of_string_base 16 s
let to_hex v = if Zar.sign v < 0 then "-" ^ Zar.format "%x" (Zar.neg v) else Zar.format "%x" v
let () =
  try while true do
    let line = input_line stdin in
    match String.split_on_char ' ' line with
    | [op; a; b] ->
      let r = try to_hex (zar_of (probe (z_of (Zar.of_int (int_of_string op))) (z_of (of_hex a)) (z_of (of_hex b)))) with e -> "exn" in
      print_endline r
    | _ -> ()
  done with End_of_file -> ()
