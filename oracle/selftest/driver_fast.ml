let () =
  try while true do
    let line = input_line stdin in
    match String.split_on_char ' ' line with
    | [op; a; b] ->
      let r = try Zconv.to_hex (Model.probe (Zar.of_int (int_of_string op)) (Zconv.of_hex a) (Zconv.of_hex b)) with e -> "exn" in
      print_endline r
    | _ -> ()
  done with End_of_file -> ()
