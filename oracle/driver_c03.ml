(* C03 oracle: the exact result x of each operation (a rational or a square root of a rational,
   computed here with zarith from the operands of the case) and the implementation's answer are
   handed to the extracted Coq checker Contract.check_contract. *)
open Common
open Model

let isz s = z s
let mode_of = function
  | "Zero" -> MZero | "Away" -> MAway | "Up" -> MUp | "Down" -> MDown
  | "HalfEven" -> MHalfEven | "HalfAway" -> MHalfAway | m -> failwith ("mode " ^ m)

(* s * B^e as a fraction (num, den) *)
let frac b s e = if Zar.sign e >= 0 then (Zar.mul s (Zar.pow b (Zar.to_int e)), Zar.one) else (s, Zar.pow b (Zar.to_int (Zar.neg e)))
let norm (n, d) = if Zar.sign d < 0 then (Zar.neg n, Zar.neg d) else (n, d)
let fadd (a, b) (c, d) = (Zar.add (Zar.mul a d) (Zar.mul c b), Zar.mul b d)
let fmul (a, b) (c, d) = (Zar.mul a c, Zar.mul b d)
let fneg (a, b) = (Zar.neg a, b)
let fdiv (a, b) (c, d) = norm (Zar.mul a d, Zar.mul b c)

let flag_of = function
  | "Exact" -> FExact | "NoOp" -> FInexact NoOp | "AddOne" -> FInexact AddOne | "SubOne" -> FInexact SubOne
  | "NoFlag" -> FUnknown | f -> failwith ("flag " ^ f)

(* strip trailing zero digits: Repr::new normalises *)
let rec normalize b (s, e) =
  if Zar.sign s = 0 then (Zar.zero, Zar.zero)
  else let (q, r) = Zar.div_rem s b in
    if Zar.sign r = 0 then normalize b (q, Zar.succ e) else (s, e)

let flag_name = function NoOp -> "NoOp" | AddOne -> "AddOne" | SubOne -> "SubOne"

(* the answer the as-is model (Float/Model.v, Float/AddModel.v) predicts, as tokens "sig exp flag" *)
let asis_answer b p m op args =
  (* Repr::new normalises its operands *)
  let nz i = normalize b (z (List.nth args i), z (List.nth args (i + 1))) in
  let a i = if i = 3 || i = 5 then fst (nz i) else snd (nz (i - 1)) in
  let show ap = match ap with
    | AExact (s, e) -> let (s, e) = normalize b (s, e) in hx s ^ " " ^ hx e ^ " Exact"
    | AInexact (s, e, r) -> let (s, e) = normalize b (s, e) in hx s ^ " " ^ hx e ^ " " ^ flag_name r in
  let showv (s, e) = let (s, e) = normalize b (s, e) in hx s ^ " " ^ hx e ^ " NoFlag" in
  (* the answer must not depend on the digit estimate: exact estimate and estimate + 1 are both run *)
  let both f g = let r = show (f b p m (a 3) (a 4) (a 5) (a 6)) in
    if show (g b p m (a 3) (a 4) (a 5) (a 6)) = r then Some r else Some ("estimate-dependent " ^ r) in
  let opv f sg = Some (showv (f b p p m (a 3) (a 4) (a 5) (a 6) sg)) in
  let resv = function Ok v -> Some (showv v) | _ -> None in
  let resa = function Ok ap -> show ap | Panic _ -> "panic" | _ -> "other" in
  (* second operand precision of the mulp_*/divp_* forms; the raw big-integer operand of the *prim_* forms *)
  let p2 () = z (List.nth args 7) in
  let n () = z (List.nth args 5) in
  let pre op' = let l = String.length op' in fun s -> String.length s > l && String.sub s 0 (l + 1) = op' ^ "_" in
  match op with
  | "div" -> (* Context::div: the answer must not depend on the digit estimates *)
      let r = resa (ctx_div_x b p m (a 3) (a 4) (a 5) (a 6)) in
      if resa (ctx_div_x1 b p m (a 3) (a 4) (a 5) (a 6)) = r then (if r = "panic" || r = "other" then None else Some r)
      else Some ("estimate-dependent " ^ r)
  | "inv" -> (match ctx_inv b p m (a 3) (a 4) with Ok ap -> Some (show ap) | _ -> None)
  | "mulprim_fi" -> Some (showv (mul_float_prim b p m (a 3) (a 4) (n ())))
  | "mulprim_if" -> Some (showv (mul_prim_float b p m (n ()) (a 3) (a 4)))
  | "divprim_fi" -> resv (div_float_prim b p m (a 3) (a 4) (n ()))
  | "divprim_if" -> resv (div_prim_float b p m (n ()) (a 3) (a 4))
  | s when pre "mulp" s -> Some (showv (fbig_mul b p (p2 ()) m (a 3) (a 4) (a 5) (a 6)))
  | s when pre "divp" s -> resv (fbig_div b p (p2 ()) m (a 3) (a 4) (a 5) (a 6))
  | "mul_vv" | "mul_vr" | "mul_rv" | "mul_rr" | "mul_assign" -> Some (showv (fbig_mul b p p m (a 3) (a 4) (a 5) (a 6)))
  | "div_vv" | "div_vr" | "div_rv" | "div_rr" | "div_assign" -> resv (fbig_div b p p m (a 3) (a 4) (a 5) (a 6))
  | "mul" -> Some (show (ctx_mul b p m (a 3) (a 4) (a 5) (a 6)))
  | "sqr" -> Some (show (ctx_sqr b p m (a 3) (a 4)))
  | "cubic" -> Some (show (ctx_cubic b p m (a 3) (a 4)))
  | "add" -> both ctx_add_x ctx_add_x1
  | "sub" -> both ctx_sub_x ctx_sub_x1
  | "add_vv" | "add_assign" -> opv add_val_val_x Positive
  | "add_vr" -> opv add_val_ref_x Positive
  | "add_rv" -> opv add_ref_val_x Positive
  | "add_rr" -> opv add_ref_ref_x Positive
  | "sub_vv" | "sub_assign" -> opv add_val_val_x Negative
  | "sub_vr" -> opv add_val_ref_x Negative
  | "sub_rv" -> opv add_ref_val_x Negative
  | "sub_rr" -> opv add_ref_ref_x Negative
  | "sqrt" -> (match ctx_sqrt b p m (a 3) (a 4) with Ok ap -> Some (show ap) | _ -> None)
  | "fsqrt" -> (match ctx_sqrt b p m (a 3) (a 4) with Ok ap -> Some (showv (approx_val ap)) | _ -> None)
  | _ -> None

(* alignment branch of an addition / subtraction, for the coverage histogram *)
let add_path_of b p base_op args =
  if base_op <> "add" && base_op <> "sub" then "" else
  let nz i = normalize b (z (List.nth args i), z (List.nth args (i + 1))) in
  let (s1, e1) = nz 3 and (s2, e2) = nz 5 in
  " path=" ^ Zar.to_string (add_path b p s1 e1 s2 e2 (if base_op = "add" then Positive else Negative))

let strip op = match String.index_opt op '_' with Some i -> String.sub op 0 i | None -> op

(* Round::round_fract called directly: the answer with the f32 pre-filter must be the exact comparison's
   (Model.round_fract; FilterProof.round_fract_f32_eq) - the sharpest sound filter is evaluated too *)
let judge_rfract args got =
  let b = z (List.nth args 0) and m = mode_of (List.nth args 1) and k = z (List.nth args 2) in
  let i = z (List.nth args 3) and f = z (List.nth args 4) in
  let want = round_fract b m i f k in
  if round_fract_sharp b m i f k <> want then fail "model-filter-disagrees" else
  let c = Zar.compare (Zar.mul (Zar.of_int 2) (Zar.abs f)) (Zar.pow b (Zar.to_int k)) in
  let bits = Zar.numbits (Zar.pow b (Zar.to_int k)) in
  let cls = (if c = 0 then "tie" else if c > 0 then "above" else "below") ^ "-" ^
            (if bits < 8192 then "lt8k" else if bits < 16384 then "8k-16k" else if bits < 32768 then "16k-32k" else "ge32k") in
  expect ~nt:(want <> NoOp) ~extra:("cls=rfract-" ^ cls ^ " asis=same") ("ok " ^ flag_name want) got

let judge op args got =
  if op = "rfract" then judge_rfract args got else
  let b = z (List.nth args 0) and m = mode_of (List.nth args 1) and p = z (List.nth args 2) in
  let x1 = frac b (z (List.nth args 3)) (isz (List.nth args 4)) in
  let x2 () = frac b (z (List.nth args 5)) (isz (List.nth args 6)) in
  let base_op = match op with "fsqr" -> "sqr" | "fcubic" -> "cubic" | "fsqrt" -> "sqrt"
    | _ -> (match strip op with "mulp" | "mulprim" -> "mul" | "divp" | "divprim" -> "div" | s -> s) in
  (* primitive (op) float: the operands of the exact result are swapped *)
  let swapped = (op = "divprim_if") in
  let (x1, x2) = if swapped then (x2 (), fun () -> x1) else (x1, x2) in
  (* the precision the result must carry: Context::max of the operand precisions *)
  let p0 = p in
  let p = match strip op with
    | "mulp" | "divp" -> ctx_max p (z (List.nth args 7))
    | "mulprim" | "divprim" -> ctx_max p (prim_prec b (z (List.nth args 5)))
    | _ -> p in
  let divides_by_zero = (base_op = "div" && Zar.sign (fst (x2 ())) = 0) || (base_op = "inv" && Zar.sign (fst x1) = 0) in
  let neg_root = base_op = "sqrt" && Zar.sign (fst x1) < 0 in
  if divides_by_zero then expect ~extra:"cls=div0" "panic DivideBy0" got
  else if neg_root then expect ~extra:"cls=negroot" "panic RootNegative" got
  else
    let x = match base_op with
      | "add" -> let (n, d) = fadd x1 (x2 ()) in XRat (n, d)
      | "sub" -> let (n, d) = fadd x1 (fneg (x2 ())) in XRat (n, d)
      | "mul" -> let (n, d) = fmul x1 (x2 ()) in XRat (n, d)
      | "div" -> let (n, d) = fdiv x1 (x2 ()) in XRat (n, d)
      | "inv" -> let (n, d) = fdiv (Zar.one, Zar.one) x1 in XRat (n, d)
      | "sqr" -> let (n, d) = fmul x1 x1 in XRat (n, d)
      | "cubic" -> let (n, d) = fmul x1 (fmul x1 x1) in XRat (n, d)
      | "sqrt" -> let (n, d) = x1 in XSqrt (n, d)
      | _ -> failwith ("op " ^ op) in
    match got with
    | [ "ok"; s; e; f; prec ] ->
        if s = "inf" || s = "-inf" then fail "finite-result"
        else if z prec <> p then fail ("precision-" ^ hx p)
        else
          let ok = check_contract b p m x (z s) (isz e) (flag_of f) in
          let exact = (cmp_kx b Zar.one x (z s) (isz e) = Eq) in
          let cls = (if exact then "exact" else "inexact") ^ "-" ^ f in
          let fid = match asis_answer b p0 m op args with
            | Some want -> if want = s ^ " " ^ e ^ " " ^ f then " asis=same" else " asis=diff"
            | None -> "" in
          let fid = fid ^ add_path_of b p op args in
          if ok then pass ~extra:("cls=" ^ cls ^ fid) ()
          else begin
            (* diagnose: the correctly rounded p-digit result, for the replay *)
            { v = "fail"; extra = "contract-violated cls=" ^ cls }
          end
    | _ -> fail "ok-sig-exp-flag-prec"

let () = serve judge
