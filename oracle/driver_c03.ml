(* C03 oracle: the exact result x of each operation (a rational or a square root of a rational,
   computed here with zarith from the operands of the case) and the implementation's answer are
   handed to the extracted Coq checker Contract.check_contract. *)
open Common
open Model

let isz s = if s = "min" then Zar.neg (Zar.pow (Zar.of_int 2) 63) else z s
let mode_of = function
  | "Zero" -> MZero | "Away" -> MAway | "Up" -> MUp | "Down" -> MDown
  | "HalfEven" -> MHalfEven | "HalfAway" -> MHalfAway | m -> failwith ("mode " ^ m)

(* s * B^e as a fraction (num, den) *)
let frac b s e = if Zar.sign e >= 0 then (Zar.mul s (Zar.pow b (Zar.to_int e)), Zar.one) else (s, Zar.pow b (Zar.to_int (Zar.neg e)))
let norm (n, d) = if Zar.sign d < 0 then (Zar.neg n, Zar.neg d) else (n, d)
let fadd (a, b) (c, d) = (Zar.add (Zar.mul a d) (Zar.mul c b), Zar.mul b d)
let fmul (a, b) (c, d) = (Zar.mul a c, Zar.mul b d)
let fneg (a, b) = (Zar.neg a, b)
let fdiv (a, b) (c, d) = norm (Zar.mul a d, Zar.mul b c)

let flag_of = function
  | "Exact" -> FExact | "NoOp" -> FInexact NoOp | "AddOne" -> FInexact AddOne | "SubOne" -> FInexact SubOne
  | "NoFlag" -> FUnknown | f -> failwith ("flag " ^ f)

(* strip trailing zero digits: Repr::new normalises *)
let rec normalize b (s, e) =
  if Zar.sign s = 0 then (Zar.zero, Zar.zero)
  else let (q, r) = Zar.div_rem s b in
    if Zar.sign r = 0 then normalize b (q, Zar.succ e) else (s, e)

let flag_name = function NoOp -> "NoOp" | AddOne -> "AddOne" | SubOne -> "SubOne"

(* the answer the as-is model (Float/Model.v, Float/AddModel.v) predicts, as tokens "sig exp flag" *)
let asis_answer b p m op args =
  (* Repr::new normalises its operands *)
  let nz i = normalize b (z (List.nth args i), z (List.nth args (i + 1))) in
  let a i = if i = 3 || i = 5 then fst (nz i) else snd (nz (i - 1)) in
  let show ap = match ap with
    | AExact (s, e) -> let (s, e) = normalize b (s, e) in hx s ^ " " ^ hx e ^ " Exact"
    | AInexact (s, e, r) -> let (s, e) = normalize b (s, e) in hx s ^ " " ^ hx e ^ " " ^ flag_name r in
  let showv (s, e) = let (s, e) = normalize b (s, e) in hx s ^ " " ^ hx e ^ " NoFlag" in
  (* the answer must not depend on the digit estimate: exact estimate and estimate + 1 are both run *)
  let opv f sg = Some (showv (f b p p m (a 3) (a 4) (a 5) (a 6) sg)) in
  let resv = function Ok v -> Some (showv v) | _ -> None in
  let resa = function Ok ap -> show ap | Panic _ -> "panic" | _ -> "other" in
  (* second operand precision of the mulp_*/divp_* forms; the raw big-integer operand of the *prim_* forms *)
  let p2 () = z (List.nth args 7) in
  let n () = z (List.nth args 5) in
  let pre op' = let l = String.length op' in fun s -> String.length s > l && String.sub s 0 (l + 1) = op' ^ "_" in
  (* round 3: the models that contain every Repr::new of the code are printed as they are (no stripping here) *)
  let raw ap = match ap with
    | AExact (s, e) -> hx s ^ " " ^ hx e ^ " Exact"
    | AInexact (s, e, r) -> hx s ^ " " ^ hx e ^ " " ^ flag_name r in
  let rawr = function Ok ap -> Some (raw ap) | _ -> None in
  let rawv (s, e) = hx s ^ " " ^ hx e ^ " NoFlag" in
  let rawvr = function Ok v -> Some (rawv v) | _ -> None in
  (* the digit estimates must not matter: the pinned models are run with the exact and the worst estimate *)
  let indep f g r = if resa (f b p m (a 3) (a 4) (a 5) (a 6)) = resa (g b p m (a 3) (a 4) (a 5) (a 6)) then r else (match r with Some r -> Some ("estimate-dependent " ^ r) | None -> Some "estimate-dependent") in
  let sg_of o = if String.length o >= 3 && String.sub o 0 3 = "sub" then Negative else Positive in
  match op with
  (* round 4: the models of the REPAIRED add.rs / mul.rs / div.rs (Float/FixModel.v), with every Repr::new *)
  | "add" | "addl" -> indep ctx_add_fix_x ctx_add_fix_x1 (rawr (ctx_add_fix_n_x b p m (a 3) (a 4) (a 5) (a 6)))
  | "sub" | "subl" -> indep ctx_sub_fix_x ctx_sub_fix_x1 (rawr (ctx_sub_fix_n_x b p m (a 3) (a 4) (a 5) (a 6)))
  | "mul" | "mull" -> Some (raw (ctx_mul_fix_n b p m (a 3) (a 4) (a 5) (a 6)))
  | "sqr" | "sqrl" -> Some (raw (ctx_sqr_fix_n b p m (a 3) (a 4)))
  | "cubic" | "cubicl" -> Some (raw (ctx_cubic_fix_n b p m (a 3) (a 4)))
  | "div" | "divl" -> rawr (repr_div_fix_n b p m (a 3) (a 4) (a 5) (a 6))
  | "inv" | "invl" -> rawr (ctx_inv_fix_n b p m (a 3) (a 4))
  | "sqrt" | "sqrtl" -> rawr (ctx_sqrt_n b p m (a 3) (a 4))
  | "rem" -> rawr (repr_rem_n b p m (a 3) (a 4) (a 5) (a 6))
  | s when pre "rem" s -> resv (fbig_rem b p p m (a 3) (a 4) (a 5) (a 6))
  | s when pre "remeuc" s -> rawvr (fbig_rem_euclid b p p m (a 3) (a 4) (a 5) (a 6))
  | "finv" | "finv_r" -> resv (fbig_inv b p m (a 3) (a 4))
  | "fsqr" -> Some (showv (fbig_sqr b p m (a 3) (a 4)))
  | "fcubic" -> Some (showv (fbig_cubic b p m (a 3) (a 4)))
  | "fsqrt" -> resv (fbig_sqrt b p m (a 3) (a 4))
  | "addprim_fi" | "subprim_fi" ->
      (* float (op) i64: val/val for +, ref/val for - ; float (op) IBig: ref/val for +, val/val for - (the harness picks) *)
      let small = Zar.fits_int64 (n ()) in
      let f = if (op = "addprim_fi") = small then add_float_prim_vv_x else add_float_prim_rv_x in
      Some (showv (f b p m (a 3) (a 4) (n ()) (sg_of op)))
  | "addprim_if" | "subprim_if" ->
      let small = Zar.fits_int64 (n ()) in
      let f = if (op = "addprim_if") = small then add_prim_float_vr_x else add_prim_float_vv_x in
      Some (showv (f b p m (n ()) (a 3) (a 4) (sg_of op)))
  | "mulprim_fi" -> Some (showv (mul_float_prim b p m (a 3) (a 4) (n ())))
  | "mulprim_if" -> Some (showv (mul_prim_float b p m (n ()) (a 3) (a 4)))
  | "divprim_fi" -> resv (div_float_prim b p m (a 3) (a 4) (n ()))
  | "divprim_if" -> resv (div_prim_float b p m (n ()) (a 3) (a 4))
  | s when pre "mulp" s -> Some (showv (fbig_mul b p (p2 ()) m (a 3) (a 4) (a 5) (a 6)))
  | s when pre "divp" s -> resv (fbig_div_fix b p (p2 ()) m (a 3) (a 4) (a 5) (a 6))
  | "mul_vv" | "mul_vr" | "mul_rv" | "mul_rr" | "mul_assign" -> Some (showv (fbig_mul b p p m (a 3) (a 4) (a 5) (a 6)))
  | "div_vv" | "div_vr" | "div_rv" | "div_rr" | "div_assign" -> resv (fbig_div_fix b p p m (a 3) (a 4) (a 5) (a 6))
  | "add_vv" | "add_assign" -> opv add_val_val_x Positive
  | "add_vr" -> opv add_val_ref_x Positive
  | "add_rv" -> opv add_ref_val_x Positive
  | "add_rr" -> opv add_ref_ref_x Positive
  | "sub_vv" | "sub_assign" -> opv add_val_val_x Negative
  | "sub_vr" -> opv add_val_ref_x Negative
  | "sub_rv" -> opv add_ref_val_x Negative
  | "sub_rr" -> opv add_ref_ref_x Negative
  | _ -> None

(* alignment branch of an addition / subtraction, for the coverage histogram *)
let add_path_of b p base_op args =
  if base_op <> "add" && base_op <> "sub" then "" else
  let nz i = normalize b (z (List.nth args i), z (List.nth args (i + 1))) in
  let (s1, e1) = nz 3 and (s2, e2) = nz 5 in
  " path=" ^ Zar.to_string (add_path b p s1 e1 s2 e2 (if base_op = "add" then Positive else Negative))

let strip op = match String.index_opt op '_' with Some i -> String.sub op 0 i | None -> op

(* Round::round_fract called directly: the answer with the f32 pre-filter must be the exact comparison's
   (Model.round_fract; FilterProof.round_fract_f32_eq) - the sharpest sound filter is evaluated too *)
let judge_rfract args got =
  let b = z (List.nth args 0) and m = mode_of (List.nth args 1) and k = z (List.nth args 2) in
  let i = z (List.nth args 3) and f = z (List.nth args 4) in
  let want = round_fract b m i f k in
  if round_fract_sharp b m i f k <> want then fail "model-filter-disagrees" else
  let c = Zar.compare (Zar.mul (Zar.of_int 2) (Zar.abs f)) (Zar.pow b (Zar.to_int k)) in
  let bits = Zar.numbits (Zar.pow b (Zar.to_int k)) in
  let cls = (if c = 0 then "tie" else if c > 0 then "above" else "below") ^ "-" ^
            (if bits < 8192 then "lt8k" else if bits < 16384 then "8k-16k" else if bits < 32768 then "16k-32k" else "ge32k") in
  expect ~nt:(want <> NoOp) ~extra:("cls=rfract-" ^ cls ^ " asis=same") ("ok " ^ flag_name want) got

(* exact rationals for the remainder family *)
let fsub a b = fadd a (fneg b)
let ffloor (n, d) = Zar.fdiv n d          (* d > 0 *)
let fround_half_away (n, d) =             (* d > 0: nearest integer, ties away from zero *)
  let k = Zar.fdiv (Zar.add (Zar.mul (Zar.of_int 2) (Zar.abs n)) d) (Zar.mul (Zar.of_int 2) d) in
  if Zar.sign n < 0 then Zar.neg k else k
let fint k = (k, Zar.one)
let euclid_quot x1 x2 =                   (* the integer q with 0 <= x1 - q * x2 < |x2| *)
  let q = fdiv x1 x2 in
  if Zar.sign (fst x2) > 0 then ffloor q else Zar.neg (ffloor (fneg q))

(* round 4: Product for FBig - the chain of operator steps (Float/IterModel.v; every step is proved to be the
   specification rounding of the exact product at the running precision: C03_product_is_a_chain_of_roundings) *)
let judge_prod args got =
  let b = z (List.nth args 0) and m = mode_of (List.nth args 1) in
  let rec triples = function
    | p :: s :: e :: rest -> let (s', e') = normalize b (z s, isz e) in (z p, (s', e')) :: triples rest
    | [] -> []
    | _ -> failwith "prod arity" in
  let xs = triples (List.tl (List.tl args)) in
  let (p, (s, e)) = fbig_product b m xs in
  let (s, e) = normalize b (s, e) in
  let n = List.length xs in
  expect ~nt:(n >= 2) ~extra:("cls=prod-" ^ string_of_int (min n 4) ^ " asis=same") ("ok " ^ hx s ^ " " ^ hx e ^ " NoFlag " ^ hx p) got

(* round 4: exponents next to isize::MAX / isize::MIN.  mul / sqr / cubic: the model with every exponent computation
   checked against isize (Float/ExpRangeModel.v; C03_exponent_range_side_conditions): a panic iff an exponent leaves
   the range, else the unbounded model.  add / sub: the unbounded model (the exponent gap is formed without overflow
   since /repo abdd8e0; the generator keeps the result exponents inside the range).  The exact value is not formed
   here (B^exponent is astronomically large): the verdict is the proved model. *)
let judge_xrange op args got =
  let b = z (List.nth args 0) and m = mode_of (List.nth args 1) and p = z (List.nth args 2) in
  let nz i = normalize b (z (List.nth args i), isz (List.nth args (i + 1))) in
  let raw ap = match ap with
    | AExact (s, e) -> hx s ^ " " ^ hx e ^ " Exact"
    | AInexact (s, e, r) -> hx s ^ " " ^ hx e ^ " " ^ flag_name r in
  let w = Zar.of_int 64 in
  let (s1, e1) = nz 3 in
  let want = match op with
    | "mulx" -> let (s2, e2) = nz 5 in ctx_mul_chk b w p m s1 e1 s2 e2
    | "sqrx" -> ctx_sqr_chk b w p m s1 e1
    | "cubicx" -> ctx_cubic_chk b w p m s1 e1
    | "addx" -> let (s2, e2) = nz 5 in ctx_add_fix_n_x b p m s1 e1 s2 e2
    | "subx" -> let (s2, e2) = nz 5 in ctx_sub_fix_n_x b p m s1 e1 s2 e2
    | _ -> failwith ("op " ^ op) in
  match want, got with
  | Ok ap, _ -> expect ~nt:true ~extra:("cls=xrange-" ^ op ^ "-ok asis=same") ("ok " ^ raw ap ^ " " ^ hx p) got
  | Panic _, "panic" :: _ -> pass ~nt:true ~extra:("cls=xrange-" ^ op ^ "-overflow-panic asis=same") ()
  | Panic _, _ -> fail ("exponent-overflow-must-panic cls=xrange-" ^ op)
  | _, _ -> fail "xrange-model"

let judge op args got =
  if op = "rfract" then judge_rfract args got else
  if op = "prod" then judge_prod args got else
  if List.mem op [ "mulx"; "sqrx"; "cubicx"; "addx"; "subx" ] then judge_xrange op args got else
  let b = z (List.nth args 0) and m = mode_of (List.nth args 1) and p = z (List.nth args 2) in
  let x1 = frac b (z (List.nth args 3)) (isz (List.nth args 4)) in
  let x2 () = frac b (z (List.nth args 5)) (isz (List.nth args 6)) in
  let long_op = List.mem op [ "addl"; "subl"; "mull"; "divl"; "sqrl"; "cubicl"; "sqrtl"; "invl" ] in
  let base_op = match op with "fsqr" -> "sqr" | "fcubic" -> "cubic" | "fsqrt" -> "sqrt" | "finv" | "finv_r" -> "inv"
    | _ when long_op -> String.sub op 0 (String.length op - 1)
    | _ -> (match strip op with "mulp" | "mulprim" -> "mul" | "divp" | "divprim" -> "div"
            | "addprim" -> "add" | "subprim" -> "sub" | s -> s) in
  (* primitive (op) float: the operands of the exact result are swapped *)
  let swapped = (op = "divprim_if" || op = "subprim_if") in
  let (x1, x2) = if swapped then (x2 (), fun () -> x1) else (x1, x2) in
  (* the precision the result must carry: Context::max of the operand precisions *)
  let p0 = p in
  let p = match strip op with
    | "mulp" | "divp" -> ctx_max p (z (List.nth args 7))
    | "mulprim" | "divprim" | "addprim" | "subprim" -> ctx_max p (prim_prec b (z (List.nth args 5)))
    | _ -> p in
  let euclid_family = List.mem base_op [ "rem"; "remeuc"; "diveuc"; "divremeuc" ] in
  let divides_by_zero = ((base_op = "div" || euclid_family) && Zar.sign (fst (x2 ())) = 0) || (base_op = "inv" && Zar.sign (fst x1) = 0) in
  let neg_root = base_op = "sqrt" && Zar.sign (fst x1) < 0 in
  (* the finding classes of operands longer than the precision (Float/LongModel.v), on the stored (normalised) operands *)
  let nz i = normalize b (z (List.nth args i), z (List.nth args (i + 1))) in
  (* the classes of the two former findings (round 3), both repaired in round 4: nothing is excused any more, the
     class only tags the case in the histogram so that the evidence shows that the generators reach it *)
  let former_class () =
    if not long_op then "" else
    let (s1, e1) = nz 3 in
    let c = match op with
    | "addl" -> let (s2, e2) = nz 5 in add_short_class b p s1 e1 s2 e2 Positive
    | "subl" -> let (s2, e2) = nz 5 in add_short_class b p s1 e1 s2 e2 Negative
    | "mull" -> let (s2, _) = nz 5 in mul_long_class b p s1 s2
    | "divl" -> let (s2, _) = nz 5 in div_long_class b p s1 s2
    | "sqrl" -> sqr_long_class b p s1
    | "cubicl" -> cubic_long_class b p s1
    | _ -> false in
    if c then "formerclass-" else "" in
  if divides_by_zero then expect ~extra:"cls=div0" "panic DivideBy0" got
  else if neg_root then expect ~extra:"cls=negroot" "panic RootNegative" got
  else if base_op = "diveuc" then begin
    let q = euclid_quot x1 (x2 ()) in
    let (s1, e1) = nz 3 and (s2, e2) = nz 5 in
    let fid = match fbig_div_euclid b s1 e1 s2 e2 with Ok q' -> if Zar.equal q q' then "asis=same" else "asis=diff" | _ -> "asis=diff" in
    expect ~extra:("cls=diveuc " ^ fid) ("ok " ^ hx q) got
  end else
    let x = match base_op with
      | "add" -> let (n, d) = fadd x1 (x2 ()) in XRat (n, d)
      | "sub" -> let (n, d) = fadd x1 (fneg (x2 ())) in XRat (n, d)
      | "mul" -> let (n, d) = fmul x1 (x2 ()) in XRat (n, d)
      | "div" -> let (n, d) = fdiv x1 (x2 ()) in XRat (n, d)
      | "inv" -> let (n, d) = fdiv (Zar.one, Zar.one) x1 in XRat (n, d)
      | "sqr" -> let (n, d) = fmul x1 x1 in XRat (n, d)
      | "cubic" -> let (n, d) = fmul x1 (fmul x1 x1) in XRat (n, d)
      | "sqrt" -> let (n, d) = x1 in XSqrt (n, d)
      | "rem" -> (* x1 - n * x2, n = x1 / x2 rounded to nearest, ties away *)
          let n = fround_half_away (fdiv x1 (x2 ())) in
          let (n, d) = fsub x1 (fmul (fint n) (x2 ())) in XRat (n, d)
      | "remeuc" | "divremeuc" ->
          let q = euclid_quot x1 (x2 ()) in
          let (n, d) = fsub x1 (fmul (fint q) (x2 ())) in XRat (n, d)
      | _ -> failwith ("op " ^ op) in
    (* div_rem_euclid: the quotient comes first *)
    let (got, qok) = match base_op, got with
      | "divremeuc", "ok" :: q :: rest -> ("ok" :: rest, Zar.equal (z q) (euclid_quot x1 (x2 ())))
      | _ -> (got, true) in
    match got with
    | [ "ok"; s; e; f; prec ] ->
        if s = "inf" || s = "-inf" then fail "finite-result"
        else if not qok then fail "euclidean-quotient"
        else if not (is_normal b (z s) (isz e)) then fail "result-not-normalised"   (* C03_results_are_normalised *)
        else if z prec <> p then fail ("precision-" ^ hx p)
        else
          let ok = check_contract b p m x (z s) (isz e) (flag_of f) in
          let exact = (cmp_kx b Zar.one x (z s) (isz e) = Eq) in
          let cls = (if long_op then "long-" ^ former_class () else "") ^ (if euclid_family then base_op ^ "-" else "") ^ (if exact then "exact" else "inexact") ^ "-" ^ f in
          let asis = asis_answer b p0 m (if base_op = "divremeuc" then "remeuc_" else op) args in
          let same = (asis = Some (s ^ " " ^ e ^ " " ^ f)) in
          let fid = match asis with Some _ -> if same then " asis=same" else " asis=diff" | None -> "" in
          let fid = fid ^ add_path_of b p (if long_op then "" else op) args in
          if ok then pass ~extra:("cls=" ^ cls ^ fid) ()
          else { v = "fail"; extra = "contract-violated cls=" ^ cls ^ fid }
    | _ -> fail "ok-sig-exp-flag-prec"

let () = serve judge
