(* C04 oracle: judges the implementation's answers against the extracted Coq specification
   (Ratio/RatArithModel.v): RBig answers must BE the canonical exact rational (so value and lowest terms
   are checked at once), Relaxed answers must have a positive denominator and the same value.
   The as-is models only produce the model-fidelity statistic (asis=same|diff).                     *)
open Common
open Model

let rat_s (n, d) = hx n ^ " " ^ hx d
let reason_s = function DivideBy0 -> "DivideBy0" | _ -> "Other"
let int_of_hex s = int_of_string ("0x" ^ s)
let rec nat_of_int i = if i <= 0 then O else S (nat_of_int (i - 1))

let bind r f = match r with Ok a -> f a | Panic x -> Panic x | Err e -> Err e | OutOfFuel -> OutOfFuel

let res_s show = function
  | Ok r -> "ok " ^ show r
  | Panic r -> "panic " ^ reason_s r
  | Err _ -> "err"
  | OutOfFuel -> "outoffuel"

(* model fidelity: the hand transcription AND (where there is one) the body regenerated from the Rust source
   (coq/gen/RatioBodies.v) must both predict the implementation's answer *)
let fid ?gen show asis got =
  let ok r = split_ws (res_s show r) = got in
  match gen with
  | None -> "asis=" ^ (if ok asis then "same" else "diff")
  | Some g -> if ok asis && ok g then "asis=same" else if ok asis then "asis=diff cls=generated-body-differs" else "asis=diff"
let fid_err asis got = match asis, got with
  | Err _, "err" :: _ -> "asis=same"
  | _ -> "asis=diff"

(* RBig: the answer must be exactly the specification's canonical pair *)
let judge_exact ?(extra = "") ?gen show spec asis got =
  match spec, got with
  | Err _, "err" :: _ -> pass ~extra:(fid_err asis got ^ " " ^ extra) ()
  | Err _, _ -> fail "err"
  | OutOfFuel, _ -> skip "spec-out-of-fuel"
  | _ ->
    let cls = match got with
      | [ "ok"; n; d ] when (match spec with Ok _ -> true | _ -> false) && not (invb (z n, z d)) -> " cls=not-lowest-terms"
      | _ -> "" in
    let v = expect ~extra:(fid ?gen show asis got ^ " " ^ extra) (res_s show spec) got in
    if v.v = "fail" then { v with extra = v.extra ^ cls } else v

(* Relaxed: positive denominator and the value of the specification *)
let judge_value ?(extra = "") ?gen spec xasis got =
  match spec, got with
  | Ok s, [ "ok"; n; d ] ->
    let r = (z n, z d) in
    if Zar.sign (snd r) > 0 && veqb r s then
      (* informational only (the property demands the value): does the stored pair still share a factor two? *)
      let even v = Zar.equal (Zar.logand v Zar.one) Zar.zero in
      let c2 = if even (fst r) && even (snd r) then " cls=relaxed-common-two" else " cls=relaxed-no-common-two" in
      pass ~extra:(fid ?gen rat_s xasis got ^ " " ^ extra ^ c2) ()
    else fail ("value " ^ rat_s s)
  | Ok s, _ -> fail ("value " ^ rat_s s)
  | Err _, "err" :: _ -> pass ~extra:(fid_err xasis got) ()
  | Err _, _ -> fail "err"
  | OutOfFuel, _ -> skip "spec-out-of-fuel"
  | Panic _, _ -> expect ~extra:(fid ?gen rat_s xasis got) (res_s rat_s spec) got

let sign_of_tok s = if s = "-" then Negative else Positive

let binop_of = function
  | "add" -> OAdd | "sub" -> OSub | "mul" -> OMul | "div" -> ODiv | "rem" -> ORem | "reme" -> ORemE
  | s -> failwith ("binop " ^ s)
let unop_of = function
  | "neg" -> UNeg | "abs" -> UAbs | "inv" -> UInv | "sqr" -> USqr | "cubic" -> UCubic
  | "signum" -> USignum | "fract" -> UFract | s -> failwith ("unop " ^ s)
let intop_of = function
  | "addi" | "iadd" | "addu" -> IAdd | "subi" | "subu" -> ISub | "muli" | "imul" | "mulu" -> IMul
  | "divi" | "divu" -> IDiv | "isub" -> IRsub | "idiv" -> IRdiv | s -> failwith ("intop " ^ s)

let add_path name (a, b) (c, d) =
  match name with
  | "add" | "sub" | "rem" | "reme" | "divreme" -> if Zar.equal (Zar.gcd b d) Zar.one then "path=coprime-den" else "path=hint-reduce"
  | "mul" -> if Zar.equal (Zar.gcd a d) Zar.one && Zar.equal (Zar.gcd b c) Zar.one then "path=no-cross" else "path=cross-gcd"
  | "div" -> if Zar.equal (Zar.gcd a c) Zar.one && Zar.equal (Zar.gcd b d) Zar.one then "path=no-cross" else "path=cross-gcd"
  | _ -> ""

(* round 4: which impl_binop_with_int! / impl_binop_assign_by_taking! row of rational/src/{add,mul,div}.rs a case exercises
   (the name of the definition regenerated for that row): per-row counters in the evidence (path:<op>:ROW-...) *)
let int_row relaxed name u =
  let ty = if relaxed then "Relaxed" else "RBig" and it = if u then "UBig" else "IBig" in
  let tr = (match name with "addi" | "iadd" -> "Add" | "subi" | "isub" -> "Sub" | "muli" | "imul" -> "Mul" | _ -> "Div") in
  if String.get name 0 = 'i' then Printf.sprintf "ROW-gen_%s_%s_%s" tr it ty else Printf.sprintf "ROW-gen_%s_%s_%s" tr ty it
let assign_row relaxed name form =
  if form = "av" || form = "ar" then
    Printf.sprintf "+ROW-gen_%sAssign_%s" (String.capitalize_ascii name) (if relaxed then "Relaxed" else "RBig")
  else ""

let err_name = function 0 -> "InvalidDigit" | 1 -> "NoDigits" | 2 -> "UnsupportedRadix" | 3 -> "InconsistentRadix" | _ -> "?"
(* a piece of the text as the generator describes it: a hex integer, or eN / eI / eU = the integer parser fails *)
let piece_res tok : Zar.t result = match tok with
  | "eN" -> Err (Zar.of_int 1) | "eI" -> Err Zar.zero | "eU" -> Err (Zar.of_int 2) | t -> Ok (z t)
let parse_tokens show = function
  | Ok r -> "ok " ^ show r
  | Err e -> "err " ^ err_name (Zar.to_int e)
  | Panic r -> "panic " ^ reason_s r
  | OutOfFuel -> "outoffuel"
(* RBig: exactly the specification; Relaxed: same error / positive denominator and same value; fidelity: the generated parser *)
let judge_parse relaxed (spec : (Zar.t * Zar.t) result) (gen : (Zar.t * Zar.t) result) suffix got =
  let fidelity = "asis=" ^ (if split_ws (parse_tokens rat_s gen ^ suffix) = got then "same" else "diff") in
  match spec, got with
  | Ok s_, "ok" :: n :: d :: rest when relaxed ->
    if Zar.sign (z d) > 0 && veqb (z n, z d) s_ && rest = split_ws suffix then pass ~extra:(fidelity ^ " cls=parse-ok") ()
    else fail ("value " ^ rat_s s_ ^ suffix)
  | Ok _, _ when relaxed -> fail (parse_tokens rat_s spec ^ suffix)
  | Ok _, _ -> expect ~extra:(fidelity ^ " cls=parse-ok") (parse_tokens rat_s spec ^ suffix) got
  | Err e, _ -> expect ~extra:(fidelity ^ " cls=parse-err-" ^ err_name (Zar.to_int e)) (parse_tokens rat_s spec) got
  | _, _ -> expect ~extra:fidelity (parse_tokens rat_s spec) got

(* one operation on one flavour. relaxed=false: RBig *)
let judge_op relaxed name args got =
  let a i = z (List.nth args i) in
  let s i = List.nth args i in
  (* operand as the harness builds it: T::from_parts(n, d) *)
  let opnd_spec i = from_parts_spec (a i) (a (i + 1)) in
  let opnd_asis i = if relaxed then xfrom_parts_asis (a i) (a (i + 1)) else from_parts_asis (a i) (a (i + 1)) in
  let fin_rat ?(extra = "") ?gen spec asis =
    if relaxed then judge_value ~extra ?gen spec asis got else judge_exact ~extra ?gen rat_s spec asis got in
  (* operands through the regenerated constructors *)
  let opnd_gen i = if relaxed then gen_Relaxed_from_parts (a i) (a (i + 1)) else gen_RBig_from_parts (a i) (a (i + 1)) in
  let q_rat_s (q, r) = hx q ^ " " ^ rat_s r in
  match name with
  | "add" | "sub" | "mul" | "div" | "rem" | "reme" ->
    let o = binop_of name in
    let spec = bind (opnd_spec 1) (fun x -> bind (opnd_spec 3) (fun y -> bin_spec o x y)) in
    let asis = bind (opnd_asis 1) (fun x -> bind (opnd_asis 3) (fun y -> (if relaxed then xbin_asis else bin_asis) o x y)) in
    let gen = bind (opnd_gen 1) (fun x -> bind (opnd_gen 3) (fun y -> (if relaxed then gxbin else gbin) o x y)) in
    let extra = match opnd_spec 1, opnd_spec 3 with Ok x, Ok y -> add_path name x y ^ (if name = "reme" then "" else assign_row relaxed name (s 0)) | _ -> "" in
    (* the in-place forms (av / ar) go through the regenerated impl_binop_assign_by_taking! rows *)
    let gen = if (s 0 = "av" || s 0 = "ar") && name <> "reme" then
        (let a_ = (match o with OAdd -> AAdd | OSub -> ASub | OMul -> AMul | ODiv -> ADiv | _ -> ARem) in
         bind (opnd_gen 1) (fun x -> bind (opnd_gen 3) (fun y -> (if relaxed then gxassign else gassign) a_ x y)))
      else gen in
    fin_rat ~extra ~gen spec asis
  | "dive" ->
    let spec = bind (opnd_spec 1) (fun x -> bind (opnd_spec 3) (fun y -> dive_spec x y)) in
    let asis = bind (opnd_asis 1) (fun x -> bind (opnd_asis 3) (fun y -> dive_asis x y)) in
    let gen = bind (opnd_gen 1) (fun x -> bind (opnd_gen 3) (fun y -> (if relaxed then gxdive else gdive) x y)) in
    judge_exact ~gen hx spec asis got
  | "divreme" ->
    let spec = bind (opnd_spec 1) (fun x -> bind (opnd_spec 3) (fun y -> divreme_spec x y)) in
    let asis = bind (opnd_asis 1) (fun x -> bind (opnd_asis 3) (fun y -> (if relaxed then xdivreme_asis else divreme_asis) x y)) in
    let gen = bind (opnd_gen 1) (fun x -> bind (opnd_gen 3) (fun y -> (if relaxed then gxdivreme else gdivreme) x y)) in
    if not relaxed then judge_exact ~gen q_rat_s spec asis got
    else (match spec, got with
        | Ok (q, r), [ "ok"; gq; n; d ] ->
          if hx q = gq && Zar.sign (z d) > 0 && veqb (z n, z d) r then pass ~extra:(fid ~gen q_rat_s asis got) ()
          else fail ("value " ^ q_rat_s (q, r))
        | _ -> expect (res_s q_rat_s spec) got)
  | "addi" | "subi" | "muli" | "divi" | "iadd" | "isub" | "imul" | "idiv" ->
    let o = intop_of name in
    let u = (s 1 = "u") in
    let i = a 4 in
    let spec = bind (opnd_spec 2) (fun x -> int_spec o x i) in
    let asis = bind (opnd_asis 2) (fun x -> (if relaxed then xint_asis else int_asis) u o x i) in
    let left = (String.get name 0 = 'i') in      (* iadd / isub / imul / idiv: the integer is the left operand *)
    let gen = bind (opnd_gen 2) (fun x -> (if relaxed then gxint else gint) left u o x i) in
    fin_rat ~extra:("path=" ^ int_row relaxed name u) ~gen spec asis
  | "neg" | "inv" ->
    let o = unop_of name in
    let gen = bind (opnd_gen 1) (gun4 relaxed (s 0 = "r") o) in
    fin_rat ~gen (bind (opnd_spec 1) (un_spec o)) (bind (opnd_asis 1) (un_asis o))
  | "abs" | "sqr" | "cubic" | "fract" ->
    let o = unop_of name in
    let gen = bind (opnd_gen 0) (gun4 relaxed false o) in
    fin_rat ~gen (bind (opnd_spec 0) (un_spec o)) (bind (opnd_asis 0) (un_asis o))
  | "signum" ->
    (* answer: signum pair, sign token, is_zero flag *)
    (match opnd_spec 0 with
     | Ok (n, d) ->
       let sg = Zar.of_int (Zar.sign n) in
       expect ("ok " ^ rat_s (sg, Zar.one) ^ (if Zar.sign n < 0 then " - " else " + ") ^ b2s (Zar.sign n = 0)) got
     | r -> expect (res_s rat_s r) got)
  | "mulsign" ->
    let sg = sign_of_tok (s 0) in
    fin_rat ~gen:(bind (opnd_gen 1) (fun x -> Ok (gmulsign relaxed sg x)))
      (bind (opnd_spec 1) (fun x -> Ok (mulsign_spec sg x))) (bind (opnd_asis 1) (fun x -> Ok (mulsign_asis sg x)))
  | "pow" ->
    let e = a 0 in
    fin_rat ~gen:(bind (opnd_gen 1) (fun x -> Ok ((if relaxed then gen_Relaxed_pow else gen_RBig_pow) x e)))
      (bind (opnd_spec 1) (fun x -> Ok (pow_spec x e))) (bind (opnd_asis 1) (fun x -> Ok (pow_asis x e)))
  | "from_parts" ->
    (* Relaxed: additionally through reduce2 on 64-bit word lists (Reduce2WordsModel.v) *)
    let gen = if relaxed then (let g = opnd_gen 0 in if g = xfrom_parts_words (Zar.of_int 64) (a 0) (a 1) then g else OutOfFuel)
      else opnd_gen 0 in
    fin_rat ~gen (opnd_spec 0) (opnd_asis 0)
  | "preds" ->
    (* is_zero is_one is_int(RBig only): spec on the value, model = regenerated predicates on the stored pair *)
    (match opnd_spec 0, opnd_gen 0 with
     | Ok (n, d), Ok (gn, gd) ->
       let b v = if v then "1" else "0" in
       let one = Zar.equal n Zar.one && Zar.equal d Zar.one in
       let want = [ "ok"; b (Zar.sign n = 0); b one; (if relaxed then "-" else b (Zar.equal d Zar.one)) ] in
       let model = if relaxed then [ "ok"; b (gen_Relaxed_is_zero gn gd); b (gen_Relaxed_is_one gn gd); "-" ]
         else [ "ok"; b (gen_RBig_is_zero gn gd); b (gen_RBig_is_one gn gd); b (gen_RBig_is_int gn gd) ] in
       expect ~extra:("asis=" ^ (if model = got then "same" else "diff")) (String.concat " " want) got
     | r, _ -> expect (res_s rat_s r) got)
  | "fromi" | "fromu" ->
    (* From<IBig/UBig/primitive>: the integer over one, which is canonical (C04_from_integer) *)
    let g = (match relaxed, name with
        | false, "fromi" -> gen_RBig_from_IBig | false, _ -> gen_RBig_from_UBig
        | true, "fromi" -> gen_Relaxed_from_IBig | true, _ -> gen_Relaxed_from_UBig) (a 0) in
    let gp = (if relaxed then gen_Relaxed_from_prim else gen_RBig_from_prim) (a 0) in
    judge_exact ~gen:(if g = gp then Ok g else OutOfFuel) rat_s (Ok (canon (a 0) Zar.one)) (Ok (from_int_asis (a 0))) got
  | "fromf32" | "fromf64" ->
    (* TryFrom<f32/f64>: args <bits>; decode (thin, here) then the Coq model from the decoded pair on.
       Both flavours must store the canonical pair (C04_from_float_exact_lowest_terms). *)
    let bits = a 0 in
    let (mb, eb, bias) = if name = "fromf32" then (23, 8, 127) else (52, 11, 1023) in
    let p2 k = Zar.shift_left Zar.one k in
    let frac = Zar.logand bits (Zar.pred (p2 mb)) in
    let ex = Zar.to_int (Zar.logand (Zar.shift_right bits mb) (Zar.pred (p2 eb))) in
    let neg = Zar.testbit bits (mb + eb) in
    let gtf = if relaxed then gen_Relaxed_try_from_float else gen_RBig_try_from_float in
    if ex = (1 lsl eb) - 1 then (match got with
        | "err" :: _ -> pass ~extra:((match gtf false None with Err _ -> "asis=same" | _ -> "asis=diff") ^ " cls=nonfinite") ()
        | _ -> fail "err")
    else begin
      let m = if ex = 0 then frac else Zar.add frac (p2 mb) in
      let e = if ex = 0 then 1 - bias - mb else ex - bias - mb in
      let m = if neg then Zar.neg m else m in
      judge_exact ~extra:(if e >= 0 then "cls=integer" else "cls=dyadic") ~gen:(gtf (Zar.sign m = 0) (Some (m, Zar.of_int e))) rat_s
        (Ok (from_float_spec m (Zar.of_int e))) (from_float_asis m (Zar.of_int e)) got
    end
  | "from_parts_signed" ->
    fin_rat ~gen:((if relaxed then gen_Relaxed_from_parts_signed else gen_RBig_from_parts_signed) (a 0) (a 1))
      (from_parts_signed_spec (a 0) (a 1))
      ((if relaxed then xfrom_parts_signed_asis else from_parts_signed_asis) (a 0) (a 1))
  | "from_parts_const" ->
    let sg = sign_of_tok (s 0) in
    (* the regenerated body with its while loop, run with the fuel the theorem names *)
    fin_rat ~gen:((if relaxed then gen_Relaxed_from_parts_const else gen_RBig_from_parts_const) (fpc_fuel (a 2)) sg (a 1) (a 2))
      (from_parts_const_spec sg (a 1) (a 2))
      ((if relaxed then xfrom_parts_const_asis else from_parts_const_asis) sg (a 1) (a 2))
  | "split" ->
    (match opnd_spec 0, opnd_asis 0 with
     | Ok x, Ok x' ->
       let (t, f) = split_spec x in
       let gen = bind (opnd_gen 0) (fun y -> Ok ((if relaxed then gen_Relaxed_split_at_point else gen_RBig_split_at_point) y)) in
       if not relaxed then judge_exact ~gen q_rat_s (Ok (t, f)) (Ok (split_asis x')) got
       else (match got with
           | [ "ok"; gt; n; d ] when hx t = gt && Zar.sign (z d) > 0 && veqb (z n, z d) f ->
             pass ~extra:(fid ~gen q_rat_s (Ok (split_asis x')) got) ()
           | _ -> fail ("value " ^ q_rat_s (t, f)))
     | r, _ -> expect (res_s rat_s r) got)
  | "trunc" | "floor" | "ceil" | "round" ->
    let fs, fa, fg = (match name with
        | "trunc" -> trunc_spec, trunc_asis, (if relaxed then gen_Relaxed_trunc else gen_RBig_trunc)
        | "floor" -> floor_spec, floor_asis, (if relaxed then gen_Relaxed_floor else gen_RBig_floor)
        | "ceil" -> ceil_spec, ceil_asis, (if relaxed then gen_Relaxed_ceil else gen_RBig_ceil)
        | _ -> round_spec, round_asis, (if relaxed then gen_Relaxed_round else gen_RBig_round)) in
    judge_exact ~gen:(bind (opnd_gen 0) (fun x -> Ok (fg x))) hx
      (bind (opnd_spec 0) (fun x -> Ok (fs x))) (bind (opnd_asis 0) (fun x -> Ok (fa x))) got
  (* parsers: args <string> <n> <d>: what the two pieces of the text denote (hex integer, or eN / eI / eU when the integer
     parser refuses the piece with NoDigits / InvalidDigit / UnsupportedRadix; d = "-" when the text has no '/').
     The rational layer's own logic (order of the errors, sign of the denominator, zero denominator, reduction) is
     parse_radix_spec / parse_prefix_spec; model = the parsers regenerated from parse.rs over the same piece answers. *)
  | "parse" | "parse_radix" ->
    let k = if name = "parse" then 1 else 2 in
    let has_slash = s (k + 1) <> "-" in
    let ip p _ = (match p with PAfter -> piece_res (s (k + 1)) | _ -> piece_res (s k)) in
    let radix = if name = "parse" then Zar.of_int 10 else a 0 in
    let gen = (match relaxed, name with
        | false, "parse" -> gen_RBig_from_str ip has_slash | false, _ -> gen_RBig_from_str_radix ip has_slash radix
        | true, "parse" -> gen_Relaxed_from_str ip has_slash | true, _ -> gen_Relaxed_from_str_radix ip has_slash radix) in
    judge_parse relaxed (parse_radix_spec ip has_slash radix) gen "" got
  | "parse_prefix" ->
    (* args <string> <n> <d> <radix of the numerator piece> [<radix the denominator piece shows, when it has its own prefix>] *)
    let has_slash = s 2 <> "-" in
    let with_radix r = function Ok v -> Ok (v, r) | Err e -> Err e | Panic q -> Panic q | OutOfFuel -> OutOfFuel in
    let ipp _ = with_radix (a 3) (piece_res (s 1)) in
    let ipd _ default = with_radix (if List.length args > 4 then a 4 else default) (piece_res (s 2)) in
    let spec = parse_prefix_spec ipp ipd has_slash in
    let gen = (if relaxed then gen_Relaxed_from_str_with_radix_prefix else gen_RBig_from_str_with_radix_prefix) ipp ipd has_slash in
    let strip = function Ok (v, _) -> Ok v | Err e -> Err e | Panic q -> Panic q | OutOfFuel -> OutOfFuel in
    let suffix = (match spec with Ok (_, r) -> " " ^ hx r | _ -> "") in
    let gsuffix = (match gen with Ok (_, r) -> " " ^ hx r | _ -> "") in
    judge_parse relaxed (strip spec) (if gsuffix = suffix then strip gen else OutOfFuel) suffix got
  (* round 4: clone_from into a slot that holds a value (directly, through Vec::clone_from, through clone_from_slice) and clone:
     args dn dd sn sd; all five answers are the source *)
  | "clonefrom" ->
    (match opnd_spec 0, opnd_spec 2 with
     | Ok _, Ok src ->
       let gen = bind (opnd_gen 0) (fun x -> bind (opnd_gen 2) (fun y ->
           Ok ((if relaxed then gen_Relaxed_clone_from else gen_RBig_clone_from) x y, (if relaxed then gen_Relaxed_clone else gen_RBig_clone) y))) in
       let five (x, c) = String.concat " " [ rat_s x; rat_s x; rat_s x; rat_s x; rat_s c ] in
       let fidelity = "asis=" ^ (match gen with Ok p when split_ws ("ok " ^ five p) = got -> "same" | _ -> "diff") in
       if not relaxed then expect ~extra:fidelity ("ok " ^ five (src, src)) got
       else (match got with
           | "ok" :: rest when List.length rest = 10 ->
             let rec pairs = function n :: d :: r -> (z n, z d) :: pairs r | _ -> [] in
             if List.for_all (fun r -> Zar.sign (snd r) > 0 && veqb r src) (pairs rest) then pass ~extra:fidelity ()
             else fail ("value " ^ rat_s src)
           | _ -> fail ("value " ^ rat_s src))
     | _, _ -> expect "panic DivideBy0" got)
  (* TryFrom<T> for IBig / UBig: converts exactly when the VALUE is an integer (non-negative for UBig) - an integer-valued
     number is never refused, RBig (stored n/1) and Relaxed (any stored pair: reduced first since /repo 4757027) alike;
     model = the regenerated conversion on the stored pair *)
  | "tryint" ->
    (match opnd_spec 0, opnd_gen 0 with
     | Ok (n, d), Ok g ->
       let tok = function Ok v -> hx v | Err e -> if Zar.to_int e = 1 then "err:OutOfBounds" else "err:LossOfPrecision" | _ -> "?" in
       let model = [ "ok"; tok ((if relaxed then gen_IBig_try_from_Relaxed else gen_IBig_try_from_RBig) g);
                     tok ((if relaxed then gen_UBig_try_from_Relaxed else gen_UBig_try_from_RBig) g) ] in
       let fidelity = "asis=" ^ (if model = got then "same" else "diff") in
       let is_int = Zar.equal d Zar.one in
       expect ~extra:(fidelity ^ (if is_int then " cls=tryint-integer" else " cls=tryint-fraction"))
         (String.concat " " [ "ok"; (if is_int then hx n else "err:LossOfPrecision");
                              (if Zar.sign n < 0 then "err:OutOfBounds" else if is_int then hx n else "err:LossOfPrecision") ]) got
     | r, _ -> expect (res_s rat_s r) got)
  (* serde: Deserialize from the struct form (the stored pair, possibly unreduced / zero denominator) and from the text n/d *)
  | "serde" ->
    let spec = deserialize_spec (a 0) (a 1) in
    let gen = (if relaxed then gen_serde_Relaxed_deserialize else gen_serde_RBig_deserialize) (a 0) (a 1) in
    let tok = function Ok r -> rat_s r | _ -> "err -" in
    let fidelity = "asis=" ^ (if [ "ok" ] @ split_ws (tok gen) @ split_ws (tok gen) = got then "same" else "diff") in
    (match spec, got with
     | Ok s_, [ "ok"; n1; d1; n2; d2 ] when relaxed && d1 <> "-" && d2 <> "-" ->
       if List.for_all (fun r -> Zar.sign (snd r) > 0 && veqb r s_) [ (z n1, z d1); (z n2, z d2) ] then pass ~extra:fidelity ()
       else fail ("value " ^ rat_s s_)
     | Ok s_, _ when relaxed -> fail ("value " ^ rat_s s_)
     | _, _ -> expect ~extra:fidelity (String.concat " " [ "ok"; tok spec; tok spec ]) got)
  | _ -> fail ("unknown-op-" ^ name)

(* ---------------------------------------------------------------------------------------------- *)
(* histories *)
let rec take n l = if n = 0 then [] else match l with [] -> [] | x :: r -> x :: take (n - 1) r
let rec drop n l = if n = 0 then l else match l with [] -> [] | _ :: r -> drop (n - 1) r

let hop_of op i arg dst =
  let i = nat_of_int (int_of_hex i) and dst = nat_of_int (int_of_hex dst) in
  match op with
  | "add" | "sub" | "mul" | "div" | "rem" | "reme" -> HBin (binop_of op, i, nat_of_int (int_of_hex arg), dst)
  | "neg" | "abs" | "inv" | "sqr" | "cubic" | "signum" | "fract" -> HUn (unop_of op, i, dst)
  | "pow" -> HPow (i, z arg, dst)
  | "addi" | "subi" | "muli" | "divi" | "isub" | "idiv" -> HInt (intop_of op, i, z arg, dst)
  | "addu" | "mulu" | "divu" -> HIntU (intop_of op, i, z arg, dst)
  | s -> failwith ("history op " ^ s)

let judge_hist args got =
  let k = int_of_hex (List.hd args) in
  let rest = List.tl args in
  let rec pairs n l = if n = 0 then [] else match l with a :: b :: r -> (z a, z b) :: pairs (n - 1) r | _ -> failwith "pool" in
  let init = pairs k rest in
  let steps = drop (2 * k) rest in
  let all_ok f = List.for_all (fun (n, d) -> match f n d with Ok _ -> true | _ -> false) init in
  if not (all_ok from_parts_spec) then expect "panic DivideBy0" got
  else begin
    let unok = function Ok r -> r | _ -> failwith "unok" in
    let ps = ref (List.map (fun (n, d) -> unok (from_parts_spec n d)) init) in
    let pa = ref (List.map (fun (n, d) -> unok (from_parts_asis n d)) init) in
    let px = ref (List.map (fun (n, d) -> unok (xfrom_parts_asis n d)) init) in
    let pg = ref (List.map (fun (n, d) -> unok (gen_RBig_from_parts n d)) init) in
    let pgx = ref (List.map (fun (n, d) -> unok (gen_Relaxed_from_parts n d)) init) in
    match got with
    | "ok" :: toks ->
      let rec go t steps toks same =
        match steps, toks with
        | [], [ flag ] -> if flag = "1" then pass ~extra:("asis=" ^ (if same then "same" else "diff") ^ " cls=steps" ^ string_of_int t) ()
          else fail "step-final:RBig-and-Relaxed-pools-compare-equal"
        | op :: i :: arg :: dst :: steps', r1 :: r2 :: x1 :: x2 :: toks' ->
          let h = hop_of op i arg dst in
          let spec = heval_spec !ps h in
          let asis = heval_asis !pa h in
          let xasis = heval_xasis !px h in
          let tok_of = function Ok (n, d) -> [ hx n; hx d ] | Panic r -> [ "panic:" ^ reason_s r; "-" ] | _ -> [ "?"; "?" ] in
          let want = tok_of spec in
          if [ r1; r2 ] <> want then fail (Printf.sprintf "step%d:%s:rbig:%s" t op (String.concat "_" want))
          else begin
            let xok = (match spec with
                | Ok s -> (x1 <> "" && x2 <> "-" && Zar.sign (z x2) > 0 && veqb (z x1, z x2) s)
                | _ -> [ x1; x2 ] = want) in
            if not xok then fail (Printf.sprintf "step%d:%s:relaxed-value:%s" t op (String.concat "_" want))
            else begin
              let same = same && tok_of asis = [ r1; r2 ] && tok_of xasis = [ x1; x2 ]
                         && tok_of (heval_gen !pg h) = [ r1; r2 ] && tok_of (heval_xgen !pgx h) = [ x1; x2 ] in
              ps := hstep heval_spec !ps h;
              pa := hstep heval_asis !pa h;
              px := hstep heval_xasis !px h;
              pg := hstep heval_gen !pg h;
              pgx := hstep heval_xgen !pgx h;
              go (t + 1) steps' toks' same
            end
          end
        | _ -> fail "history-answer-shape"
      in
      go 0 steps toks true
    | _ -> fail "ok ..."
  end

(* round 4: extended histories (the heval4 functions): in-place forms, clone / clone_from, integers on the left, UBig right, From<IBig> *)
let hop4_of op i arg dst =
  let ni = nat_of_int (int_of_hex i) and nd = nat_of_int (int_of_hex dst) in
  match op with
  | "adda" -> HAssign (AAdd, ni, nat_of_int (int_of_hex arg)) | "suba" -> HAssign (ASub, ni, nat_of_int (int_of_hex arg))
  | "mula" -> HAssign (AMul, ni, nat_of_int (int_of_hex arg)) | "diva" -> HAssign (ADiv, ni, nat_of_int (int_of_hex arg))
  | "rema" -> HAssign (ARem, ni, nat_of_int (int_of_hex arg))
  | "clone" -> HClone (ni, nd) | "clonefrom" -> HCloneFrom (ni, nd)
  | "laddi" -> HIntL (IAdd, ni, z arg, nd) | "lsubi" -> HIntL (ISub, ni, z arg, nd)
  | "lmuli" -> HIntL (IMul, ni, z arg, nd) | "ldivi" -> HIntL (IDiv, ni, z arg, nd)
  | "laddu" -> HIntLU (IAdd, ni, z arg, nd) | "lsubu" -> HIntLU (ISub, ni, z arg, nd)
  | "lmulu" -> HIntLU (IMul, ni, z arg, nd) | "ldivu" -> HIntLU (IDiv, ni, z arg, nd)
  | "subu" -> H3 (HIntU (ISub, ni, z arg, nd))
  | "fromi" -> HFromInt (z arg, nd)
  | _ -> H3 (hop_of op i arg dst)

let judge_hist4 args got =
  let k = int_of_hex (List.hd args) in
  let rest = List.tl args in
  let rec pairs n l = if n = 0 then [] else match l with a :: b :: r -> (z a, z b) :: pairs (n - 1) r | _ -> failwith "pool" in
  let init = pairs k rest in
  let steps = drop (2 * k) rest in
  if not (List.for_all (fun (n, d) -> match from_parts_spec n d with Ok _ -> true | _ -> false) init) then expect "panic DivideBy0" got
  else begin
    let unok = function Ok r -> r | _ -> failwith "unok" in
    let ps = ref (List.map (fun (n, d) -> unok (from_parts_spec n d)) init) in
    let pg = ref (List.map (fun (n, d) -> unok (gen_RBig_from_parts n d)) init) in
    let pgx = ref (List.map (fun (n, d) -> unok (gen_Relaxed_from_parts n d)) init) in
    let zero = (Zar.zero, Zar.one) in
    match got with
    | "ok" :: toks ->
      let rec go t steps toks same =
        match steps, toks with
        | [], "|" :: final ->
          (* the pools at the end: RBig slots are the specification's, Relaxed slots have the same values; then the agreement flag *)
          let rec chk sp gp gxp toks same = (match sp, gp, gxp, toks with
              | [], _, _, [ flag ] -> if flag = "1" then pass ~extra:("asis=" ^ (if same then "same" else "diff") ^ " cls=steps4-" ^ string_of_int t) ()
                else fail "final:pools-compare-equal-and-is_int-agrees"
              | sv :: sr, gv :: gr, gxv :: gxr, n :: d :: xn :: xd :: toks' ->
                if [ n; d ] <> [ hx (fst sv); hx (snd sv) ] then fail ("final-pool:rbig:" ^ hx (fst sv) ^ "_" ^ hx (snd sv))
                else if not (Zar.sign (z xd) > 0 && veqb (z xn, z xd) sv) then fail ("final-pool:relaxed-value:" ^ hx (fst sv) ^ "_" ^ hx (snd sv))
                else chk sr gr gxr toks' (same && rat_s gv = n ^ " " ^ d && rat_s gxv = xn ^ " " ^ xd)
              | _ -> fail "history-answer-shape") in
          chk !ps !pg !pgx final same
        | op :: i :: arg :: dst :: steps', r1 :: r2 :: x1 :: x2 :: toks' ->
          let h = hop4_of op i arg dst in
          let spec = heval4_spec !ps h in
          let tok_of = function Ok (n, d) -> [ hx n; hx d ] | Panic r -> [ "panic:" ^ reason_s r; "-" ] | _ -> [ "?"; "?" ] in
          let want = tok_of spec in
          if [ r1; r2 ] <> want then fail (Printf.sprintf "step%d:%s:rbig:%s" t op (String.concat "_" want))
          else begin
            let xok = (match spec with
                | Ok s -> (x1 <> "" && x2 <> "-" && Zar.sign (z x2) > 0 && veqb (z x1, z x2) s)
                | _ -> [ x1; x2 ] = want) in
            if not xok then fail (Printf.sprintf "step%d:%s:relaxed-value:%s" t op (String.concat "_" want))
            else begin
              let same = same && tok_of (heval4_gen !pg h) = [ r1; r2 ] && tok_of (heval4_xgen !pgx h) = [ x1; x2 ] in
              ps := hstep4 heval4_spec zero !ps h;
              pg := hstep4 heval4_gen gen_RBig_default !pg h;
              pgx := hstep4 heval4_xgen gen_Relaxed_default !pgx h;
              go (t + 1) steps' toks' same
            end
          end
        | _ -> fail "history-answer-shape"
      in
      go 0 steps toks true
    | _ -> fail "ok ..."
  end

let judge op args got =
  match op with
  | "hist" -> judge_hist args got
  | "hist4" -> judge_hist4 args got
  | "xcanon" ->
    (* Relaxed::from_parts(n, d).canonicalize() is the canonical rational *)
    judge_exact rat_s (from_parts_spec (z (List.nth args 0)) (z (List.nth args 1)))
      ~gen:(bind (gen_Relaxed_from_parts (z (List.nth args 0)) (z (List.nth args 1))) (fun x -> Ok (gen_Relaxed_canonicalize x)))
      (bind (xfrom_parts_asis (z (List.nth args 0)) (z (List.nth args 1))) (fun x -> Ok (reduce_asis x))) got
  | "rrelax" ->
    judge_exact rat_s (from_parts_spec (z (List.nth args 0)) (z (List.nth args 1)))
      ~gen:(bind (gen_RBig_from_parts (z (List.nth args 0)) (z (List.nth args 1))) (fun x -> Ok (gen_RBig_relax x)))
      (from_parts_asis (z (List.nth args 0)) (z (List.nth args 1))) got
  | _ ->
    let kind = String.sub op 0 1 and name = String.sub op 1 (String.length op - 1) in
    (match kind with
     | "r" -> judge_op false name args got
     | "x" -> judge_op true name args got
     | _ -> fail ("unknown-op-" ^ op))

let () = serve judge
