(* C06 oracle.  Every verdict is taken against the extracted Coq specifications of
   coq/theories/Conv/ConvSpec.v; the as-is models of ConvModel.v give the fidelity column and decide
   whether a wrong answer inside an open finding class is exactly the predicted one. *)
open Common
open Model

let zero = Zar.zero and one = Zar.one
let zi = Zar.of_int
let mode_of = function
  | "Zero" -> MZero | "Away" -> MAway | "Up" -> MUp | "Down" -> MDown
  | "HalfEven" -> MHalfEven | "HalfAway" -> MHalfAway | m -> failwith ("mode " ^ m)
let fmt_of_name = function "f32" -> (f32, p32) | _ -> (f64, p64)
let cmp_s = function Eq -> "Eq" | Lt -> "Lt" | Gt -> "Gt"
let flag_s = function None -> "Exact" | Some NoOp -> "NoOp" | Some AddOne -> "AddOne" | Some SubOne -> "SubOne"
let prim name =
  let sg = name.[0] = 'i' in
  let w = match String.sub name 1 (String.length name - 1) with "size" -> 64 | s -> int_of_string s in
  (sg, zi w)
let reduce (n, d) = if Zar.sign n = 0 then (zero, one) else let g = Zar.gcd n d in (Zar.div n g, Zar.div d g)
let frac b s e = if Zar.sign e >= 0 then (Zar.mul s (Zar.pow b (Zar.to_int e)), one) else (s, Zar.pow b (Zar.to_int (Zar.neg e)))
let conv_s show = function COk v -> "ok " ^ show v | COutOfBounds -> "err OutOfBounds" | CLossOfPrecision -> "err LossOfPrecision"
let is_err = function "err" :: _ -> true | _ -> false
let join = String.concat " "
let same_asis want_asis got = if split_ws want_asis = got then "asis=same" else "asis=diff"

(* spec says "ok ..." exactly, or some refusal (either error kind is a refusal) *)
let expect_conv ?(extra = "") want got =
  match split_ws want with
  | "err" :: _ -> if is_err got then pass ~nt:true ~extra:(extra ^ " cls=refused") () else fail want
  | _ -> expect ~extra:(extra ^ " cls=converted") want got

(* split a token list at "|" *)
let split_bar toks =
  let rec go acc = function [] -> (List.rev acc, []) | "|" :: r -> (List.rev acc, r) | x :: r -> go (x :: acc) r in
  go [] toks

let approx_tokens b = function
  | AExact (s, e) -> let (s, e) = normalize b s e in (s, e, "Exact")
  | AInexact (s, e, r) -> let (s, e) = normalize b s e in (s, e, flag_s (Some r))

let fr_s = function FR (bits, fl) -> "ok " ^ hx bits ^ " " ^ flag_s fl
let is_f32 name = name = "f32"
(* both refusals, whatever the kind: the kind reported for a float with a negative exponent depends on
   the f32 log2 estimate (C12), which the model replaces by the exact logarithm *)
let same_or_both_err want_asis got =
  if split_ws want_asis = got || (is_err (split_ws want_asis) && is_err got) then "asis=same" else "asis=diff"
let iapprox_s = function IExact v -> hx v ^ " Exact" | IInexact (v, r) -> hx v ^ " " ^ flag_s (Some r)

(* a base-2 float s * 2^e with |e| beyond every format: the value (an overflow, or less than a quarter of the smallest
   subnormal) converts like s * 2^(+-6000), which the specification and the models can evaluate *)
let nth_z l i = List.nth l i
let clamp_exp s e =
  if Zar.gt (Zar.abs e) (zi 6000) && Zar.lt (blen (Zar.abs s)) (zi 3000) then Zar.mul (zi (Zar.sign e)) (zi 6000) else e

(* ---------------------------------------------------------------------------------------------
   The ln/exp route of convert_base (bases that are not powers of one another, |exponent| > 38) as it is: C08's model
   Float/LargeExpAsis.v over the C11 as-is models of ln / exp, composed with and_then(into_f32/f64_internal) in
   Conv/ConvLargeRoute.v.  The f32 estimate layer is instantiated exactly as in oracle/driver_c08.ml / driver_c11.ml: an
   f32 is an OCaml float holding a single-precision value (+ - * / in double, rounded to single; log2 = double log2
   rounded to single: libm's log2f differs by one ulp on rare arguments - such a case shows as asis=diff). *)
let r32 x = Int32.float_of_bits (Int32.bits_of_float x)
let f_of_z (v : Zar.t) : Stdlib.Float.t =
  if Zar.numbits v <= 53 then r32 (Zar.to_float v)
  else begin
    let av = Zar.abs v in
    let sh = Zar.numbits av - 30 in
    let top = Zar.shift_right av sh in
    let top = if Zar.equal (Zar.shift_left top sh) av then top else Zar.logor top Zar.one in
    let r = r32 (ldexp (Zar.to_float top) sh) in
    if Zar.sign v < 0 then -. r else r
  end
let two64 = Zar.shift_left Zar.one 64
let two63 = Zar.shift_left Zar.one 63
let f_to_usize x =
  if Stdlib.Float.is_nan x || x <= 0.0 then Zar.zero
  else if x >= 18446744073709551616.0 then Zar.pred two64 else Zar.of_float (Stdlib.Float.trunc x)
let f_to_isize x =
  if Stdlib.Float.is_nan x then Zar.zero
  else if x >= 9223372036854775808.0 then Zar.pred two63
  else if x <= -9223372036854775808.0 then Zar.neg two63 else Zar.of_float (Stdlib.Float.trunc x)
let next_up f =
  let bits = Int32.bits_of_float f in
  let abs = Int32.logand bits 0x7fff_ffffl in
  Int32.float_of_bits (if abs = 0l then 1l else if bits = abs then Int32.add bits 1l else Int32.sub bits 1l)
let next_down f =
  let bits = Int32.bits_of_float f in
  let abs = Int32.logand bits 0x7fff_ffffl in
  Int32.float_of_bits (if abs = 0l then 0x8000_0001l else if bits = abs then Int32.sub bits 1l else Int32.add bits 1l)
let f32o : Stdlib.Float.t f32ops =
  { f_of_Z = f_of_z; f_log2 = (fun x -> r32 (Stdlib.Float.log2 x));
    f_add = (fun a b -> r32 (a +. b)); f_sub = (fun a b -> r32 (a -. b));
    f_mul = (fun a b -> r32 (a *. b)); f_div = (fun a b -> r32 (a /. b));
    f_neg = (fun a -> -. a); f_ltb = (fun a b -> a < b);
    f_to_usize = f_to_usize; f_to_isize = f_to_isize; f_next_up = next_up; f_next_down = next_down;
    f_log10_2 = r32 0.301029995663981195213738894724493027; f_epsilon = ldexp 1.0 (-23); f_neg_inf = neg_infinity }
let rec nat_of_int n acc = if n <= 0 then acc else nat_of_int (n - 1) (S acc)
let large_fuel = nat_of_int 200000 O
exception Budget
let with_budget secs (f : unit -> 'a) : 'a option =
  let old = Sys.signal Sys.sigalrm (Sys.Signal_handle (fun _ -> raise Budget)) in
  let stop () =
    ignore (Unix.setitimer Unix.ITIMER_REAL { Unix.it_interval = 0.0; it_value = 0.0 });
    Sys.set_signal Sys.sigalrm old in
  ignore (Unix.setitimer Unix.ITIMER_REAL { Unix.it_interval = 0.0; it_value = secs });
  match f () with
  | v -> stop (); Some v
  | exception Budget -> stop (); None
  | exception Stack_overflow -> stop (); None
  | exception e -> stop (); raise e
let large_spent = ref 0.0
let large_asis p b m s e : frounded result option =
  if !large_spent > 120.0 then None
  else begin
    let t0 = Unix.gettimeofday () in
    let r = with_budget 2.0 (fun () -> fbig_to_float_large f32o (zi 64) large_fuel p b m s e) in
    large_spent := !large_spent +. (Unix.gettimeofday () -. t0);
    r
  end

let judge op a got =
  let arg i = List.nth a i in
  match op with
  | "p2u" ->
      let (sg, w) = prim (arg 0) and v = z (arg 1) in
      let want = if Zar.sign v < 0 then "err OutOfBounds" else "ok " ^ hx v in
      expect_conv ~extra:(same_asis (conv_s hx (prim_to_ubig sg w v)) got) want got
  | "p2i" ->
      let (sg, w) = prim (arg 0) and v = z (arg 1) in
      expect ~extra:(same_asis ("ok " ^ hx (prim_to_ibig sg w v)) got) ("ok " ^ hx v) got
  | "u2p" | "i2p" ->
      let (sg, w) = prim (arg 0) and v = z (arg 1) in
      let asis = if op = "u2p" then ubig_to_prim (zi 64) sg w v else ibig_to_prim (zi 64) sg w v in
      expect_conv ~extra:(same_asis (conv_s hx asis) got) (conv_s hx (to_prim_spec sg w v)) got
  | "bool" -> expect (join ["ok"; arg 0; arg 0]) got
  | "u2i" -> expect ("ok " ^ arg 0) got
  | "i2u" -> let v = z (arg 0) in
      expect_conv ~extra:(same_asis (conv_s hx (ibig_try_to_ubig v)) got)
        (if Zar.sign v < 0 then "err OutOfBounds" else "ok " ^ hx v) got
  | "f2u" | "f2i" ->
      let (f, p) = fmt_of_name (arg 0) and bits = z (arg 1) in
      let uns = op = "f2u" in
      expect_conv ~extra:(same_asis (conv_s hx (float_try_to_int p uns bits)) got)
        (conv_s hx (float_to_int_spec f uns bits)) got
  | "u2f" | "i2f" ->
      let (f, p) = fmt_of_name (arg 0) and v = z (arg 1) in
      let asis = conv_s hx (int_try_to_float p v) in
      (match exact_to_float f v one with
       | Some b ->
           let want = "ok " ^ hx b in
           if split_ws want = got then pass ~extra:(same_asis asis got ^ " cls=converted") ()
           else if is_err got && split_ws asis = got then known "int_to_float_refuses_representable" want
           else fail want
       | None -> expect_conv ~extra:(same_asis asis got) "err LossOfPrecision" got)
  | "utof" | "itof" ->
      let (f, p) = fmt_of_name (arg 0) and v = z (arg 1) in
      let (b, c) = ieee_rne f v one in
      let (ab, ac) = if op = "utof" then ubig_to_float p (zi 128) v else ibig_to_float p (zi 128) v in
      expect ~extra:(same_asis (join ["ok"; hx ab; cmp_s ac]) got ^ " cls=" ^ cmp_s c) (join ["ok"; hx b; cmp_s c]) got
  | "enc" ->
      let (f, p) = fmt_of_name (arg 0) and m = z (arg 1) and e = z (arg 2) in
      let (n, d) = frac (zi 2) m e in
      let (b, c) = ieee_rne f n d in
      let (ab, ac) = encode_asis p m e in
      expect ~extra:(same_asis (join ["ok"; hx ab; cmp_s ac]) got ^ " cls=" ^ cmp_s c) (join ["ok"; hx b; cmp_s c]) got
  | "dec" ->
      let (f, p) = fmt_of_name (arg 0) and bits = z (arg 1) in
      let show = function DFin (m, e) -> join ["ok"; hx m; hx e] | DInf _ -> "err Infinite" | DNan -> "err Nan" in
      expect ~extra:(same_asis (show (decode_asis p bits)) got) (show (decode_spec f bits)) got
  | "rtof" ->
      let (f, p) = fmt_of_name (arg 0) in
      let (n, d) = reduce (z (arg 1), z (arg 2)) in
      let (b, c) = ieee_rne f n d in
      let (ab, ac) = rat_to_float p n d in
      expect ~extra:(same_asis (join ["ok"; hx ab; cmp_s ac]) got ^ " cls=" ^ cmp_s c) (join ["ok"; hx b; cmp_s c]) got
  | "rtof_fast" ->
      (* bounded error only: the documented contract is "the mantissa can be off by one bit" *)
      let (f, p) = fmt_of_name (arg 0) in
      let nd = (z (arg 1), z (arg 2)) in
      let reduce2 (n, d) = if Zar.sign n = 0 then (zero, one) else
          let k = min (Zar.trailing_zeros n) (Zar.trailing_zeros d) in (Zar.shift_right n k, Zar.shift_right d k) in
      let (n, d) = reduce nd in
      let (b, _) = ieee_rne f n d in
      let (n2, d2) = reduce2 nd in
      let a1 = rat_fast_x p (is_f32 (arg 0)) n d and a2 = rat_fast_x p (is_f32 (arg 0)) n2 d2 in
      let a1' = rat_to_float_fast p n d in
      let want = "ok " ^ hx b ^ " +-1" in
      (match got with
       | ["ok"; g; "|"; h] ->
           let d1 = Zar.abs (Zar.sub (z g) b) and d2 = Zar.abs (Zar.sub (z h) b) in
           let diff = Zar.max d1 d2 in
           let fid = Zar.equal (z g) a1 && Zar.equal (z h) a2 && Zar.equal a1 a1' in
           if Zar.leq diff one then pass ~extra:((if fid then "asis=same" else "asis=diff") ^ " cls=off" ^ Zar.to_string diff) ()
           else if fid && Zar.leq diff (zi 2) then known "rat_to_float_fast_two_ulps" want
           else fail want
       | _ -> fail want)
  | "r2f" ->
      let (f, p) = fmt_of_name (arg 0) in
      let (n, d) = reduce (z (arg 1), z (arg 2)) in
      let asis = conv_s hx (rat_try_x p (is_f32 (arg 0)) n d) in
      let asis = if asis = conv_s hx (rat_try_to_float p n d) then asis else "model-literals-differ" in
      (match exact_to_float f n d with
       | Some b -> expect_conv ~extra:(same_asis asis got) ("ok " ^ hx b) got
       | None -> expect_conv ~extra:(same_asis asis got) "err LossOfPrecision" got)
  | "f2r" ->
      let (f, p) = fmt_of_name (arg 0) in
      let want = match decode_spec f (z (arg 1)) with
        | DFin (m, e) -> let (n, d) = reduce (frac_of m e) in join ["ok"; hx n; hx d]
        | _ -> "err OutOfBounds" in
      let asis = conv_s (fun (n, d) -> hx n ^ " " ^ hx d) (float_try_to_rat p (z (arg 1))) in
      expect_conv ~extra:(same_asis asis got) want got
  | "r2u" | "r2i" ->
      let (n, d) = reduce (z (arg 0), z (arg 1)) in
      let asis = conv_s hx (if op = "r2u" then rat_try_to_ubig n d else rat_try_to_ibig n d) in
      (* the Relaxed form: stored pair (common factors of two removed), canonicalised by the conversion since 4757027 *)
      let (n2, d2) = (let (a, b) = (z (arg 0), z (arg 1)) in if Zar.sign a = 0 then (zero, one) else
          let k = min (Zar.trailing_zeros a) (Zar.trailing_zeros b) in (Zar.shift_right a k, Zar.shift_right b k)) in
      let asis2 = conv_s hx (if op = "r2u" then relaxed_try_to_ubig n2 d2 else relaxed_try_to_ibig n2 d2) in
      let asis = if asis2 = asis then asis else "model-forms-differ" in
      expect_conv ~extra:(same_asis asis got) (conv_s hx (rat_to_int_spec (op = "r2u") n d)) got
  | "r2p" ->
      let (sg, w) = prim (arg 0) in
      let (n, d) = reduce (z (arg 1), z (arg 2)) in
      let want = if Zar.equal d one then conv_s hx (to_prim_spec sg w n) else "err LossOfPrecision" in
      expect_conv ~extra:(same_asis (conv_s hx (rat_try_to_prim (zi 64) sg w n d)) got) want got
  | "i2r" | "u2r" -> expect (join ["ok"; arg 0; "1"; "|"; arg 0; "1"]) got
  | "p2r" -> expect (join ["ok"; arg 1; "1"]) got
  | "rtoint" ->
      let (n, d) = reduce (z (arg 0), z (arg 1)) in
      let (t, (fn, fd)) = rat_trunc_spec n d in
      let want = if Zar.sign fn = 0 then join ["ok"; hx t; "Exact"] else let (fn, fd) = reduce (fn, fd) in join ["ok"; hx t; hx fn; hx fd] in
      let (at, (an, ad)) = rat_to_int_asis n d in
      let asis = if Zar.sign an = 0 then join ["ok"; hx at; "Exact"] else join ["ok"; hx at; hx an; hx ad] in
      expect ~extra:(same_asis asis got ^ (if Zar.sign fn = 0 then " cls=Exact" else " cls=Inexact")) want got
  | "rtofl" ->
      let b = z (arg 0) and m = mode_of (arg 1) and p = z (arg 2) in
      (* RBig stores the reduced fraction, Relaxed only removes common factors of two *)
      let reduce2 (n, d) = if Zar.sign n = 0 then (zero, one) else
          let k = min (Zar.trailing_zeros n) (Zar.trailing_zeros d) in (Zar.shift_right n k, Zar.shift_right d k) in
      let one_form (n, d) g =
        let ((sm, u), c) = rat_to_fbig_spec b p m n d in
        let (ws, we) = normalize b sm u in
        let wflag = flag_s (flag_of_error (Zar.of_int (Zar.sign n)) c) in
        let want = join [hx ws; hx we; wflag; hx p] in
        let (as_, ae, af) = approx_tokens b (rat_to_fbig b p m n d) in
        let asis = join [hx as_; hx ae; af; hx p] in
        match g with
        | [s; e; fl; pr] ->
            let (gs, ge) = normalize b (z s) (z e) in
            let g = [hx gs; hx ge; fl; pr] in
            let fid = split_ws asis = g in
            if split_ws want = g then (0, fid, want, wflag)
            else if rat_to_fbig_twice b p m n d && fid then (1, fid, want, wflag)
            else (2, fid, want, wflag)
        | _ -> (2, false, want, wflag) in
      (match got with
       | "ok" :: rest ->
           let (g1, g2) = split_bar rest in
           let nd = (z (arg 3), z (arg 4)) in
           let (r1, f1, w1, fl) = one_form (reduce nd) g1 and (r2, f2, w2, _) = one_form (reduce2 nd) g2 in
           let want = "ok " ^ w1 ^ " | " ^ w2 in
           let fid = if f1 && f2 then "asis=same" else "asis=diff" in
           (* F37 is repaired: a second rounding (r = 1) is a failure like any other *)
           if r1 <> 0 || r2 <> 0 then fail want
           else pass ~extra:(fid ^ " cls=" ^ fl) ()
       | _ -> fail "ok")
  | "fl2r" ->
      let b = z (arg 0) in
      let want = if arg 1 = "inf" || arg 1 = "-inf" then "err OutOfBounds"
        else let (n, d) = reduce (frac b (z (arg 1)) (z (arg 2))) in join ["ok"; hx n; hx d] in
      let asis =
        if arg 1 = "inf" || arg 1 = "-inf" then conv_s (fun _ -> "") (fbig_try_to_rbig b true zero zero)
        else let (s, e) = normalize b (z (arg 1)) (z (arg 2)) in
          conv_s (fun (n, d) -> hx n ^ " " ^ hx d) (fbig_try_to_rbig b false s e) in
      expect_conv ~extra:(same_asis asis got) want got
  | "fltof" | "reprtof" ->
      let (f, p) = fmt_of_name (arg 0) in
      let b = z (arg 1) in
      let (m, sa, ea) = if op = "fltof" then (mode_of (arg 2), arg 4, arg 5) else (MHalfEven, arg 2, arg 3) in
      let m = if arg 0 = "f64" then MHalfEven else m in
      if sa = "inf" || sa = "-inf" then
        let bits = Zar.add (if sa = "inf" then zero else Zar.shift_left one (if arg 0 = "f32" then 31 else 63))
            (if arg 0 = "f32" then z "7f800000" else z "7ff0000000000000") in
        expect (join ["ok"; hx bits; "NoOp"]) got
      else begin
        let (s, e) = if Zar.equal b (zi 2) then (z sa, clamp_exp (z sa) (z ea)) else (z sa, z ea) in
        let (s, e) = normalize b s e in
        let (n, d) = frac b s e in
        let (bits, c) = ieee_round f m n d in
        let wflag = flag_s (flag_of_error (Zar.of_int (Zar.sign n)) c) in
        let want = join ["ok"; hx bits; wflag] in
        let pow2b = Zar.equal b (Zar.shift_left one (Zar.log2 b)) in
        let large = (not pow2b) && Zar.gt (Zar.abs e) (nth_z convert_small_exp_gen 0) && Zar.sign s <> 0 in
        let model = if large then large_asis p b m s e else Some (fbig_to_float p b m s e) in
        let asis = match model with
          | Some (Ok fr) -> fr_s fr
          | Some (Panic _) -> "panic Undocumented:assertionfailed:self.significand.bit_len()<=" ^ (if arg 0 = "f32" then "24" else "53")
          | Some (Err _) -> "panic Undocumented:assertionfailed:lhs.digits()<=self.precision+rhs.digits()" 
          | Some _ -> "model-undefined"
          | None -> "model-not-evaluated" in
        let fid = if model = None then "" else same_asis asis got in
        let fid = if large then fid ^ " route=large" else fid in
        let fid =
          if Zar.equal b (zi 2) && Zar.sign s <> 0 then begin
            let (s0, e0) = normalize b s e in
            (* base 2 (repaired in the fourth round): the as-is model is ConvModel.fbig2_to_float - 24/53 bits from the
               smallest normal number on, one rounding at the smallest subnormal below it *)
            let long = Zar.gt (blen (Zar.abs s0)) (Zar.add p.mB one) in
            let sub = Zar.leq (Zar.add (blen (Zar.abs s0)) e0) (Zar.add f.emin (Zar.sub f.prec one)) in
            fid ^ " path=" ^ (if long then "round" else "fits") ^ (if sub then "-subnormal" else "-normal")
          end else fid in
        if split_ws want = got then pass ~extra:(fid ^ " cls=" ^ wflag) ()
        else if split_ws asis = got then begin
          (* open class: the result lies in the subnormal range (the division route of convert_base
             for a base that is not a power of two was repaired in the fourth round) *)
          let minnorm_e = Zar.to_int (Zar.add f.emin (Zar.sub f.prec one)) in
          let an = Zar.abs n in
          let below_normal = if minnorm_e >= 0 then Zar.lt an (Zar.mul d (Zar.pow (zi 2) minnorm_e))
            else Zar.lt (Zar.mul an (Zar.pow (zi 2) (- minnorm_e))) d in
          let pow2 = Zar.equal b (Zar.shift_left one (Zar.log2 b)) in
          ignore pow2;
          (* base 2 rounds once since the fourth round; the other bases still round to 24/53 bits in convert_base first *)
          if large then known "fbig_to_float_large_route" want
          else if below_normal && not (Zar.equal b (zi 2)) then known "fbig_to_float_subnormal" want
          else fail want
        end else fail want
      end
  | "fl2f" | "repr2f" ->
      let (f, p) = fmt_of_name (arg 0) in
      let (sa, ea) = if op = "fl2f" then (arg 2, arg 3) else (arg 1, arg 2) in
      if sa = "inf" || sa = "-inf" then expect_conv "err LossOfPrecision" got
      else
        let ea' = clamp_exp (z sa) (z ea) in
        let (n, d) = frac (zi 2) (z sa) ea' in
        let m = if op = "fl2f" && arg 0 = "f32" then mode_of (arg 1) else MHalfEven in
        let asis = if Zar.sign (z sa) = 0 then "ok 0" else conv_s hx (fbig2_try_to_float p m (z sa) ea') in
        (match exact_to_float f n d with
         | Some b -> expect_conv ~extra:(same_asis asis got) ("ok " ^ hx b) got
         | None -> expect_conv ~extra:(same_asis asis got) "err LossOfPrecision" got)
  | "f2fl" ->
      let (f, _) = fmt_of_name (arg 0) in
      let (g1, g2) = split_bar got in
      (match decode_spec f (z (arg 1)) with
       | DFin (m, e) ->
           let (s, e) = normalize (zi 2) m e in
           let n1 = (match g1 with ["ok"; s1; e1; pr] -> let (a, b) = normalize (zi 2) (z s1) (z e1) in ["ok"; hx a; hx b; pr] | x -> x) in
           let n2 = (match g2 with ["ok"; s1; e1] -> let (a, b) = normalize (zi 2) (z s1) (z e1) in ["ok"; hx a; hx b] | x -> x) in
           let asis = match float_try_to_fbig (snd (fmt_of_name (arg 0))) (z (arg 1)) with
             | COk ((a, b), pr) -> join ["ok"; hx a; hx b; hx pr; "|"; "ok"; hx a; hx b] | _ -> "err" in
           expect ~extra:(same_asis asis (n1 @ ["|"] @ n2))
             (join ["ok"; hx s; hx e; hx (blen (Zar.abs m)); "|"; "ok"; hx s; hx e]) (n1 @ ["|"] @ n2)
       | DInf neg -> let i = if neg then "-inf" else "inf" in expect (join ["ok"; i; "0"; "0"; "|"; "ok"; i; "0"]) got
       | DNan -> expect "err OutOfBounds | err OutOfBounds" got)
  | "fl2i" ->
      let b = z (arg 0) in
      let (g1, g2) = split_bar got in
      let (w1, w2) =
        if arg 1 = "inf" || arg 1 = "-inf" then ("err OutOfBounds", "err OutOfBounds")
        else
          let (s, e) = normalize b (z (arg 1)) (z (arg 2)) in
          if Zar.sign e < 0 then ("err LossOfPrecision", "err LossOfPrecision")
          else let v = Zar.mul s (Zar.pow b (Zar.to_int e)) in
            ("ok " ^ hx v, if Zar.sign v < 0 then "err OutOfBounds" else "ok " ^ hx v) in
      let (a1, a2) =
        if arg 1 = "inf" || arg 1 = "-inf" then (conv_s hx (fbig_try_to_ibig b true zero zero), conv_s hx (fbig_try_to_ubig b true zero zero))
        else let (s, e) = normalize b (z (arg 1)) (z (arg 2)) in
          (conv_s hx (fbig_try_to_ibig b false s e), conv_s hx (fbig_try_to_ubig b false s e)) in
      let fid = if split_ws a1 = g1 && split_ws a2 = g2 then "asis=same" else "asis=diff" in
      let v1 = expect_conv ~extra:fid w1 g1 and v2 = expect_conv ~extra:fid w2 g2 in
      if v1.v = "pass" then v2 else v1
  | "fl2p" ->
      let (sg, w) = prim (arg 0) and b = z (arg 1) in
      if arg 2 = "inf" || arg 2 = "-inf" then expect_conv "err OutOfBounds" got
      else
        let (s, e) = normalize b (z (arg 2)) (z (arg 3)) in
        let want = if Zar.sign e < 0 then "err LossOfPrecision" else conv_s hx (to_prim_spec sg w (Zar.mul s (Zar.pow b (Zar.to_int e)))) in
        let asis = conv_s hx (fbig_try_to_prim_x (zi 64) b sg w false s e) in
        expect_conv ~extra:(same_or_both_err asis got) want got
  | "i2fl" ->
      let b = z (arg 0) and v = z (arg 1) in
      let (s, e) = normalize b v zero in
      (match got with
       | ["ok"; s1; e1; _pr; "|"; s2; e2] ->
           let (a1, b1) = normalize b (z s1) (z e1) and (a2, b2) = normalize b (z s2) (z e2) in
           let (ms, me) = int_to_repr b v in
           let fid = if Zar.equal a1 ms && Zar.equal b1 me && Zar.equal (z s1) ms && Zar.equal (z e1) me && Zar.equal (z s2) ms && Zar.equal (z e2) me
             then "asis=same" else "asis=diff" in
           if Zar.equal a1 s && Zar.equal b1 e && Zar.equal a2 s && Zar.equal b2 e then pass ~nt:true ~extra:fid () else fail (join ["ok"; hx s; hx e])
       | _ -> fail (join ["ok"; hx s; hx e]))
  | "fltoint" ->
      let b = z (arg 0) and m = mode_of (arg 1) in
      let (s, e) = normalize b (z (arg 3)) (z (arg 4)) in
      let (n, d) = frac b s e in
      let (r, fl) = int_round_spec m n d in
      let (t, tf) = int_round_spec MZero n d in
      let tflag = match tf with None -> "Exact" | Some _ -> "NoOp" in
      let asis = match to_int_x b m (z (arg 2)) s e with
        | Ok ia -> join ["ok"; iapprox_s ia; "|"; iapprox_s (repr_to_int_x b s e)]
        | _ -> "panic" in
      expect ~extra:(same_asis asis got ^ " cls=" ^ flag_s fl) (join ["ok"; hx r; flag_s fl; "|"; hx t; tflag]) got
  | "cast_i2f" ->
      (* Rust's integer -> float cast against Flocq's binary_normalize mode_NE (ConvCastModel); for a
         non-negative value also the model cast_uint the conversions are proved with *)
      let is32 = is_f32 (arg 0) in
      let (_, p) = fmt_of_name (arg 0) in
      let vals = List.map z (List.tl (List.tl a)) in
      let ref_ v = if is32 then int_to_f32_ref v else int_to_f64_ref v in
      let want = join ("ok" :: List.map (fun v -> hx (ref_ v)) vals) in
      let fid = List.for_all (fun v -> Zar.sign v < 0 || Zar.equal (cast_uint p v) (ref_ v)) vals in
      expect ~extra:((if fid then "asis=same" else "asis=diff") ^ " cls=cast") want got
  | "cast_f2i" ->
      (* Rust's float -> integer cast against Flocq's Btrunc, saturating, NaN -> 0 *)
      let (sg, w) = prim (arg 0) in
      let is32 = is_f32 (arg 1) in
      let (_, p) = fmt_of_name (arg 1) in
      let pats = List.map z (List.tl (List.tl a)) in
      let ref_ b = if is32 then f32_to_int_ref sg w b else f64_to_int_ref sg w b in
      let want = join ("ok" :: List.map (fun b -> hx (ref_ b)) pats) in
      (* cast_back (the model used by to_f32_small / to_f64_small) on finite non-negative patterns of unsigned targets *)
      let fid = sg || List.for_all (fun b -> Zar.geq b (inf_bits p) || Zar.equal (cast_back p w b) (ref_ b)) pats in
      expect ~extra:((if fid then "asis=same" else "asis=diff") ^ " cls=cast") want got
  | _ -> skip "unknown-op"

let () = serve judge
