(* conversions for the fast oracle build: extracted Z = zarith *)
let of_hex (s : string) : Zar.t =
  if String.length s > 0 && s.[0] = '-' then Zar.neg (Zar.of_string_base 16 (String.sub s 1 (String.length s - 1)))
  else Zar.of_string_base 16 s
let to_hex (z : Zar.t) : string = if Zar.sign z < 0 then "-" ^ Zar.format "%x" (Zar.neg z) else Zar.format "%x" z
let of_int (i : int) : Zar.t = Zar.of_int i
let to_int (z : Zar.t) : int = Zar.to_int z
