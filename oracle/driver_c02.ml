(* C02 oracle: judges the implementation's answers against the extracted Coq specifications.
   spec  = Int/DivSpec.v (Z.quot / Z.rem / Euclid), always the verdict
   asis  = sign tables regenerated from div_ops.rs + the word-level models, only for fidelity     *)
open Common
open Model


(* word-level as-is models (Int/DivWordModel.v at w = 64): do they compute the magnitude quotient /
   remainder that the sign tables assume?  Only model fidelity, never the verdict.
   The instance that runs is the fully transcribed one (Int/DivSrcInst.v): num-modular's reciprocal
   division as in barrett.rs (Int/DivNumModular.v) and C01's model of mul::add_signed_mul; the
   exact-arithmetic instance (Int/DivWordInst.v) must agree with it (both are proved = floor division). *)
(* word size of the build under test: 64 (default / release) or 32 (force_bits="32"; the plug-in sets C02_W=32 for that phase) *)
let wb = (match Sys.getenv_opt "C02_W" with Some s -> int_of_string s | None -> 64)
let zw = Zar.of_int wb
let s64_typed_values = w_typed_values zw
let s64_rem_idx = w_rem_idx zw
let s64_repr_div = w_repr_div zw and m_repr_div = wx_repr_div zw
let s64_repr_rem = w_repr_rem zw and m_repr_rem = wx_repr_rem zw
let s64_repr_div_rem = w_repr_div_rem zw and m_repr_div_rem = wx_repr_div_rem zw
let s64_const_rem = w_const_rem zw and m_const_rem = wx_const_rem zw
let s64_const_div_rem = w_const_div_rem zw and m_const_div_rem = wx_const_div_rem zw
let s64_kernel_asis = w_kernel_asis zw and m_kernel_asis = wx_kernel_asis zw
let m_kernel_spec = w_kernel_spec zw
let s64_is_multiple_of_const = w_is_multiple_of_const zw

module Wordlevel = struct
  let b64 = Zar.shift_left Zar.one wb          (* B   *)
  let b128 = Zar.shift_left Zar.one (2 * wb)   (* B^2 *)
  let nw v = (Zar.numbits v + wb - 1) / wb
  let t = Zar.to_int div_threshold_simple
  let is_pow2 v = Zar.sign v > 0 && Zar.popcount v = 1
  let path a b =
    if Zar.sign b = 0 then "zero"
    else if Zar.lt a b128 then (if Zar.lt b b128 then "small-small" else "small-large")
    else if Zar.lt b b64 then (if Zar.equal b Zar.one then "word-one" else if is_pow2 b then "word-pow2" else "word")
    else if Zar.lt b b128 then (if is_pow2 b then "dword-pow2" else "dword")
    else if nw a < nw b then "large-shorter"
    else if nw b <= t || nw a - nw b <= t then "large-simple" else "large-dc"
  let cpath a d =
    if Zar.sign d = 0 then "zero"
    else (if Zar.lt d b64 then "c1" else if Zar.lt d b128 then "c2" else "cL") ^ (if Zar.lt a b128 then "-small" else "-large")
      ^ (if Zar.lt d b128 && Zar.numbits d mod wb = 0 then "-shift0" else "")
  (* magnitude operation each form runs (div_ops.rs) *)
  let mag_ok ty f a b =
    let a = Zar.abs a and b = Zar.abs b in
    if Zar.sign b = 0 then true else
    let q = Zar.div a b and r = Zar.rem a b in
    let is_const = (ty = "uc" || ty = "ic") in
    (* the 12 TypedRepr / TypedReprRef implementations (arms regenerated from div_ops.rs): every ownership
       combination of DivRem, Div, Rem must give these values (the harness checks that all call forms agree) *)
    let typed_ok = is_const ||
      (* all four combinations for moderate sizes, one (chosen by the operands) for long ones *)
      (let sel = if nw a + nw b <= 80 then 4 else (Zar.to_int (Zar.rem (Zar.add a b) (Zar.of_int 4))) in
       let l = s64_typed_values (Zar.of_int sel) a b in
       let rec chk = function
         | [] -> true
         | Ok [x; y] :: Ok [u] :: Ok [v] :: t -> Zar.equal x q && Zar.equal y r && Zar.equal u q && Zar.equal v r && chk t
         | _ -> false in
       List.length l = (if sel = 4 then 12 else 3) && chk l) in
    (* Large dividend, Small divisor, remainder only: rem_by_word / rem_by_dword with the source's index arithmetic *)
    let idx_ok = match f with
      | FRem | FRemEuclid | FIsMultipleOf when not is_const && Zar.geq a b128 && Zar.lt b b128 -> s64_rem_idx a b = Ok r
      | _ -> true in
    (* round 4: the kernels REGENERATED from div/mod.rs, div/simple.rs, divide_conquer.rs and the regenerated helpers of
       div_ops.rs::repr (Large dividend): every one of them must give the quotient / remainder *)
    let gen_ok = is_const || Zar.lt a b128 ||
      (if Zar.lt b b128 then gw_div_rem_small zw a b = (q, r) && Zar.equal (gw_rem_small zw a b) r
       else nw a < nw b ||
         (gw_div_rem_large zw a b = (q, r) && Zar.equal (gw_div_large zw a b) q && Zar.equal (gw_rem_large zw a b) r)) in
    (* round 5: the *_large_dword helpers of div_ops.rs::repr regenerated (Large dividend, Small divisor) and the word / double-word
       ConstDivisor arms of div_const.rs::repr regenerated (owned and reference Rem, DivRem, Div) *)
    let gen5_ok =
      if is_const then Zar.geq b b128 ||
        (gw5_const_rem zw Zar.zero a b = Ok r && gw5_const_rem zw Zar.one a b = Ok r &&
         gw5_const_div_rem zw a b = Ok (q, r) && gw5_const_div zw a b = Ok q)
      else Zar.lt a b128 || Zar.geq b b128 ||
        (match gw5_large_dword zw a b with Ok [q1; r1; q2; r2] -> Zar.equal q1 q && Zar.equal r1 r && Zar.equal q2 q && Zar.equal r2 r | _ -> false) in
    typed_ok && idx_ok && gen_ok && gen5_ok &&
    match f with
    | FDiv when not is_const -> s64_repr_div a b = Ok q && m_repr_div a b = Ok q
    | FDivEuclid when ty = "u" -> s64_repr_div a b = Ok q && m_repr_div a b = Ok q
    | FRem | FRemEuclid | FIsMultipleOf when not is_const -> s64_repr_rem a b = Ok r && m_repr_rem a b = Ok r
    | FRem -> s64_const_rem a b = Ok r && m_const_rem a b = Ok r
    | FDiv | FDivRem when is_const -> s64_const_div_rem a b = Ok (q, r) && m_const_div_rem a b = Ok (q, r)
    | _ -> s64_repr_div_rem a b = Ok (q, r) && m_repr_div_rem a b = Ok (q, r)
  let extra ty f x y =
    let ok = (try mag_ok ty f x y with _ -> false) in
    let p = if ty = "uc" || ty = "ic" then cpath (Zar.abs x) (Zar.abs y) else path (Zar.abs x) (Zar.abs y) in
    (ok, "path=" ^ p)
  let kernel which lhs rhs m got =
    let show3 ((c, q), r) = "ok " ^ hx c ^ " " ^ hx q ^ " " ^ hx r in
    let want = show3 (m_kernel_spec lhs rhs (Zar.of_int m)) in
    let asis = (match s64_kernel_asis (Zar.of_int which) lhs rhs (Zar.of_int m) with Ok x -> show3 x | OutOfFuel -> "outoffuel" | _ -> "other") in
    let asis = (match m_kernel_asis (Zar.of_int which) lhs rhs (Zar.of_int m) with
                | Ok x when show3 x = asis -> asis | _ -> "instances-disagree") in
    (* the generated schoolbook kernel / the generated algorithm switch *)
    let asis = if which = 2 || show3 (gw_kernel zw (Zar.of_int which) lhs rhs (Zar.of_int m)) = asis then asis else "generated-kernel-disagrees" in
    (* round 5: the same with the RECURSION of divide_conquer.rs regenerated (which = 2: the kernel itself, 0: the switch over it) *)
    let asis = if show3 (gw5_kernel zw (Zar.of_int which) lhs rhs (Zar.of_int m)) = asis then asis else "generated-recursion-disagrees" in
    let n = nw rhs in
    let cls = Printf.sprintf "cls=k%d-n%s-q%s" which (if n <= 32 then "le32" else "gt32") (if m - n <= 32 then "le32" else if m >= 2 * n then "ge2n" else "gt32") in
    if Sys.getenv_opt "C02_DEBUG" <> None && split_ws asis <> got then prerr_endline ("asis: " ^ asis);
    expect ~extra:("asis=" ^ (if split_ws asis = got then "same" else "diff") ^ " " ^ cls) want got
end

let form_of = function
  | "div" | "pdiv" -> FDiv | "rem" -> FRem | "div_rem" -> FDivRem
  | "div_euclid" -> FDivEuclid | "rem_euclid" -> FRemEuclid | "div_rem_euclid" -> FDivRemEuclid
  | "is_multiple_of" -> FIsMultipleOf
  | s -> failwith ("form " ^ s)

let show = function
  | Ok l -> "ok " ^ String.concat " " (List.map hx l)
  | Panic DivideBy0 -> "panic DivideBy0"
  | Panic _ -> "panic other"
  | Err _ -> "err"
  | OutOfFuel -> "outoffuel"

let fidelity asis got = "asis=" ^ (if split_ws (show asis) = got then "same" else "diff")

let prim_range ty =
  let p k = Zar.shift_left Zar.one k in
  match ty with
  | "u8" -> (Zar.zero, p 8) | "u16" -> (Zar.zero, p 16) | "u32" -> (Zar.zero, p 32)
  | "u64" | "usize" -> (Zar.zero, p 64) | "u128" -> (Zar.zero, p 128)
  | "i8" -> (Zar.neg (p 7), p 7) | "i16" -> (Zar.neg (p 15), p 15) | "i32" -> (Zar.neg (p 31), p 31)
  | "i64" | "isize" -> (Zar.neg (p 63), p 63) | _ -> (Zar.neg (p 127), p 127)
let fits ty v = let (lo, hi) = prim_range ty in Zar.leq lo v && Zar.lt v hi

let nwords v = (Zar.numbits (Zar.abs v) + wb - 1) / wb
let size_class a b =
  let c n = if n <= 2 then string_of_int n else if n <= 31 then "s" else if n <= 33 then string_of_int n else "L" in
  let na = nwords a and nb = nwords b in
  let ql = if na >= nb then na - nb else -1 in
  "cls=d" ^ c nb ^ "q" ^ (if ql < 0 then "n" else c ql)

let judge op args got =
  let ty, form = match String.index_opt op '.' with
    | Some i -> (String.sub op 0 i, String.sub op (i + 1) (String.length op - i - 1))
    | None -> (op, "") in
  let a i = z (List.nth args i) in
  match ty with
  | "i" | "u" | "ui" | "iu" | "uc" | "ic" ->
      let x = a 0 and y = a 1 in
      let f = form_of form in
      let asis = (match ty with
        | "i" -> ibig_form_asis f x y | "u" -> ubig_form_asis f x y
        | "ui" -> ubig_ibig_form_asis f x y | "iu" -> ibig_ubig_form_asis f x y
        | "uc" -> const_ubig_form_asis f x y | _ -> const_ibig_form_asis f x y) in
      let (wl_ok, path) = Wordlevel.extra ty f x y in
      let fid = if wl_ok then fidelity asis got else "asis=diff" in
      let extra = fid ^ " " ^ size_class x y ^ " " ^ path in
      expect ~nt:(Zar.sign y <> 0 && Zar.sign x <> 0) ~extra (show (form_spec f x y)) got
  | "c" when form = "fields" ->
      (* construction of a ConstDivisor: verdict = zero panics, value() gives the divisor back; fidelity = the stored shift,
         normalised divisor and reciprocal are those of Int/DivConstNew.v (new, from_word, from_dword agree in the harness) *)
      let d = a 0 in
      let asis = show (gw_const_fields zw d) in
      let from_ok = Zar.sign d = 0 ||
        ((Zar.geq d Wordlevel.b64 || gw_const_from zw false d = gw_const_fields zw d) &&
         (Zar.geq d Wordlevel.b128 || gw_const_from zw true d = gw_const_fields zw d)) in
      let fid = "asis=" ^ (if from_ok && split_ws asis = got then "same" else "diff") in
      let cls = "cls=const-new-" ^ (if Zar.sign d = 0 then "zero" else if Zar.lt d Wordlevel.b64 then "single" else if Zar.lt d Wordlevel.b128 then "double" else "large") in
      if Sys.getenv_opt "C02_DEBUG" <> None && split_ws asis <> got then prerr_endline ("asis: " ^ asis);
      (match got with
       | "ok" :: v :: _ when Zar.sign d <> 0 -> if Zar.equal (z v) d then pass ~nt:true ~extra:(fid ^ " " ^ cls) () else fail ("ok " ^ hx d ^ " <fields>")
       | _ -> expect ~extra:(fid ^ " " ^ cls) (if Zar.sign d = 0 then "panic DivideBy0" else "ok " ^ hx d ^ " <fields>") got)
  | "c" -> (* ConstDivisor::new(d).value() = d, zero panics *)
      let d = a 0 in
      expect (if Zar.sign d = 0 then "panic DivideBy0" else "ok " ^ hx d) got
  | "up" | "ipu" | "ipi" ->
      (* primitive-typed operand: verdict = prim_form_spec (truncating division, and the undocumented
         unwrap panic exactly when the result does not fit the fixed output type - class
         prim_result_unrepresentable, finding F02 of C15); fidelity = prim_form_asis (the macro bodies) *)
      let pty = List.nth args 0 in
      let big = a 1 and p = a 2 in
      let k = (match form with "div" -> PDiv | "rem" -> PRem | "div_rem" -> PDivRem | "pdiv" -> PRDiv | s -> failwith ("form " ^ s)) in
      let t = if ty = "up" then BU else BI in
      let (lo, hi) = prim_range pty in
      let bits = Zar.of_int (Zar.numbits (Zar.sub (Zar.sub hi lo) Zar.one)) in
      let pt = { p_signed = Zar.sign lo < 0; p_bits = bits } in
      let showp = function
        | Panic Undocumented -> "panic Undocumented:called`Result::unwrap()`onan`Err`value:OutOfBounds"
        | r -> show r in
      let spec = prim_form_spec k pt big p in
      let cls = (match spec with Panic Undocumented -> "cls=prim-unrepresentable" | Panic _ -> "cls=prim-zero" | _ -> "cls=prim") in
      let fid = "asis=" ^ (if split_ws (showp (prim_form_asis k t pt big p)) = got then "same" else "diff") in
      expect ~extra:(fid ^ " " ^ cls) (showp spec) got
  | "mc" ->
      let x = a 0 and d = a 1 in
      if Zar.sign d = 0 then
        (* const fn: the panic comes from the primitive `%` / a debug assertion (model: Panic Undocumented), any message *)
        (match got with "panic" :: _ -> pass ~nt:false ~extra:"cls=mc-zero" () | _ -> fail "panic <any>")
      else begin
        let showb = function Ok b -> "ok " ^ (if b then "1" else "0") | _ -> "other" in
        let idx_same = Zar.lt (Zar.abs x) Wordlevel.b128 ||
          (match s64_rem_idx (Zar.abs x) d with Ok r -> split_ws (showb (Ok (Zar.sign r = 0))) = got | _ -> false) in
        let fid = "asis=" ^ (if idx_same && split_ws (showb (s64_is_multiple_of_const (Zar.abs x) d)) = got then "same" else "diff") in
        expect ~extra:(fid ^ " cls=mc") (showb (is_multiple_of_spec x d)) got
      end
  | "km" | "mm" ->
      (* scratch memory: the implementation reports (smallest amount with which the kernel completes, amount reserved).
         verdict = the reserved amount is enough (an `ok` answer; running out of scratch is a panic);
         fidelity = both numbers are what Int/DivMemModel.v computes (proved: peak <= reserved for all lengths) *)
      let (peak, reserved, cls) =
        if ty = "km" then begin
          let which = Zar.of_int (int_of_string form) and m = a 2 in
          let n = Zar.of_int (Wordlevel.nw (a 1)) in
          (hook_peak which m n, hook_reserved which m n, "cls=mem-k" ^ form)
        end else (mul_peak_auto (a 2) (a 3), m_mul_reserved (a 2) (a 3), "cls=mem-mul") in
      (match got, peak with
       | [ "ok"; mn; rq ], Ok p ->
           let same = Zar.equal (z mn) p && Zar.equal (z rq) reserved in
           let nz = if Zar.sign p > 0 then "-used" else "-zero" in
           if Zar.leq (z mn) (z rq) then pass ~nt:(Zar.sign p > 0) ~extra:("asis=" ^ (if same then "same" else "diff") ^ " " ^ cls ^ nz) ()
           else fail "ok min<=reserved"
       | _ -> fail "ok <min> <reserved>")
  | "k" -> Wordlevel.kernel (int_of_string form) (a 0) (a 1) (Zar.to_int (a 2)) got
  | _ -> fail ("unknown-op-" ^ op)

let () = serve judge
