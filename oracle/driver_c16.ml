(* C16 oracle: the outcome class of every public operation (ok / err / panic class / hang / crash) is
   judged against the extracted table Cross/PanicSpec.v (documented, may, exp_band, accepts); the
   open finding classes are recognised through the as-is models of Cross/PanicAsis.v.
   This file is the dictionary "harness operation -> call" (trusted, see TRUSTED_BASE).            *)
open Common
open Model

let zi = Zar.of_int
let rec nat_of_int n = if n <= 0 then O else S (nat_of_int (n - 1))
let farey_fuel = nat_of_int 200000

let prim_range ty =
  let bits = match ty with
    | "u8" | "i8" -> 8 | "u16" | "i16" -> 16 | "u32" | "i32" -> 32
    | "u64" | "i64" | "usize" | "isize" -> 64 | _ -> 128 in
  if ty.[0] = 'u' then (Zar.zero, Zar.pred (Zar.shift_left Zar.one bits))
  else (Zar.neg (Zar.shift_left Zar.one (bits - 1)), Zar.pred (Zar.shift_left Zar.one (bits - 1)))

let fv s e = match s with "inf" | "-inf" -> Inf | _ -> Fin (z s, z e)
let one = Fin (Zar.one, Zar.zero)

let reason_of = function
  | "DivideBy0" -> Some (Doc DivideBy0) | "NegativeUBig" -> Some (Doc NegativeUBig)
  | "RootZeroth" -> Some (Doc RootZeroth) | "RootNegative" -> Some (Doc RootNegative)
  | "LogOperand" -> Some (Doc LogOperand) | "DifferentRings" -> Some (Doc DifferentRings)
  | "NonInvertible" -> Some (Doc NonInvertible) | "InvalidRadix" -> Some (Doc InvalidRadix)
  | "OperateWithInf" -> Some (Doc OperateWithInf) | "UnlimitedPrecision" -> Some (Doc UnlimitedPrecision)
  | "PowerNegativeBase" -> Some (Doc PowerNegativeBase) | "AllocateTooMuch" -> Some (Doc AllocateTooMuch)
  | "GcdZeroZero" -> Some (Doc GcdZeroZero) | "ChunkBitsZero" -> Some ChunkBitsZero
  | "PrimOverflow" -> Some PrimOverflow
  | _ -> None

(* None = an outcome no table entry ever accepts (crash, no answer) *)
let outcome_of got = match got with
  | [ "ok" ] -> Some ORet
  | "err" :: _ -> Some ORet
  | [ "panic"; ("ArithOverflow" | "ExponentOverflow") ] -> Some OOverflow
  | [ "panic"; c ] -> (match reason_of c with Some r -> Some (OPanic r) | None -> Some (OPanic (Doc Undocumented)))
  | [ "hang" ] -> Some OHang
  | _ -> None

let rname = function
  | Doc DivideBy0 -> "DivideBy0" | Doc NegativeUBig -> "NegativeUBig" | Doc RootZeroth -> "RootZeroth"
  | Doc RootNegative -> "RootNegative" | Doc LogOperand -> "LogOperand" | Doc DifferentRings -> "DifferentRings"
  | Doc NonInvertible -> "NonInvertible" | Doc InvalidRadix -> "InvalidRadix" | Doc OperateWithInf -> "OperateWithInf"
  | Doc UnlimitedPrecision -> "UnlimitedPrecision" | Doc PowerNegativeBase -> "PowerNegativeBase"
  | Doc AllocateTooMuch -> "AllocateTooMuch" | Doc GcdZeroZero -> "GcdZeroZero" | Doc Undocumented -> "Undocumented"
  | ChunkBitsZero -> "ChunkBitsZero" | PrimOverflow -> "PrimOverflow"

let want c = match documented c with
  | [] -> "ok-or-err"
  | l -> "panic " ^ String.concat "|" (List.map rname l)

let tagname = function
  | TPrimRemNegative -> "prim_rem_negative" | TPrimDivUnfit -> "prim_div_unfit"
  | TFloatOperandExceedsPrecision -> "float_operand_exceeds_precision"
  | TFareyLinear -> "farey_linear_steps" | TWithBasePrecisionZero -> "with_base_precision_zero"

let judge_call ?(alt = None) ?(model_ok = true) ?(path = "") c got =
  match outcome_of got with
  | None -> fail (want c)
  | Some o ->
      let fid = "asis=" ^ (if asis_predicts c o && model_ok then "same" else "diff") in
      let cls = "cls=" ^ (match o with ORet -> (match got with "err" :: _ -> "err" | _ -> "ok")
                                      | OPanic r -> rname r | OOverflow -> "overflow-band" | OHang -> "hang")
                ^ (if path = "" then "" else " path=" ^ path) in
      if accepts c o then
        let nt = (match c, o with KTotal, ORet -> false | _ -> true) && o <> OOverflow in
        pass ~nt ~extra:(fid ^ " " ^ cls) ()
      else
        match Model.known c with
        | Some t when asis_predicts c o -> Common.known (tagname t) (want c)
        | _ -> (match alt with
                | Some (t, c') when accepts c' o -> Common.known (tagname t) (want c)
                | _ -> fail (want c))

let mem x l = List.mem x l

(* gcd / gcd_ext of two values of three or more words run gcd_large / gcd_ext_large: the as-is Lehmer models (C12's
   Int/GrlLehmer.v; termination: Cross/LehmerTermination.v, Cross/LehmerExtTermination.v) must return within the fuel *)
let lehmer_fuel = nat_of_int 6000
let lehmer_judge op x y c got =
  let big v = Zar.numbits (Zar.abs v) > 128 in
  if mem op [ "gcd"; "gcd_rr"; "gcd_ext"; "gcd_ext_rr" ] && big x && big y && Zar.numbits (Zar.abs x) < 40000 && Zar.numbits (Zar.abs y) < 40000 then
    let ext = mem op [ "gcd_ext"; "gcd_ext_rr" ] in
    let ok = if ext then (match lehmer_gcd_ext_asis lehmer_fuel (zi 64) (Zar.abs x) (Zar.abs y) with Ok _ -> true | _ -> false)
             else (match lehmer_gcd_asis lehmer_fuel (zi 64) (Zar.abs x) (Zar.abs y) with Ok _ -> true | _ -> false) in
    judge_call ~model_ok:ok ~path:(if ext then "lehmer-ext" else "lehmer") c got
  else judge_call c got

(* ---------------------------------------------------------------- integers *)
let judge_u op a got =
  let x i = z (List.nth a i) in
  let c =
    if mem op [ "sub"; "sub_rr"; "sub_assign" ] then KUSub (x 0, x 1)
    else if mem op [ "div"; "div_rr"; "rem"; "rem_rv"; "divrem"; "divrem_rr"; "div_euclid"; "rem_euclid"; "divrem_euclid";
                     "div_assign"; "rem_assign"; "divrem_assign"; "is_multiple_of" ] then KDiv (x 1)
    else if mem op [ "gcd"; "gcd_rr"; "gcd_ext"; "gcd_ext_rr" ] then KGcd (x 0, x 1)
    else if op = "nth_root" then KRoot (x 0, x 1)
    else if op = "ilog" then KIlog (x 0, x 1)
    else if mem op [ "in_radix"; "in_radix_fmt" ] then KRadix (x 1)
    else if op = "to_chunks" then KChunks (x 1)
    else if op = "from_chunks" then KChunks (x 2)
    else if mem op [ "sub_p"; "sub_p_rr"; "sub_assign_p" ] then KUSub (x 1, x 2)
    else if op = "p_sub" then KUSub (x 2, x 1)
    else if mem op [ "div_p"; "rem_p"; "rem_p_rr"; "divrem_p"; "div_assign_p"; "divrem_assign_p" ] then KDiv (x 2)
    else if op = "p_div" then KDiv (x 1)
    else KTotal
  in
  if mem op [ "gcd"; "gcd_rr"; "gcd_ext"; "gcd_ext_rr" ] then lehmer_judge op (x 0) (x 1) c got else judge_call c got

let judge_i op a got =
  let x i = z (List.nth a i) in
  let c =
    if mem op [ "div"; "div_rr"; "rem"; "rem_vr"; "divrem"; "divrem_rr"; "div_euclid"; "rem_euclid"; "divrem_euclid";
                "divrem_euclid_rr"; "div_assign"; "rem_assign"; "divrem_assign"; "is_multiple_of"; "div_iu"; "rem_iu";
                "div_ui"; "rem_ui"; "divrem_ui"; "divrem_iu" ] then KDiv (x 1)
    else if mem op [ "gcd"; "gcd_rr"; "gcd_iu"; "gcd_ui"; "gcd_ext"; "gcd_ext_rr"; "gcd_ext_iu" ] then KGcd (x 0, x 1)
    else if op = "sqrt" then KRoot (x 0, zi 2)
    else if op = "nth_root" then KRoot (x 0, x 1)
    else if op = "ilog" then KIlog (x 0, x 1)
    else if mem op [ "in_radix"; "in_radix_fmt" ] then KRadix (x 1)
    else if mem op [ "div_pu"; "div_assign_pu"; "div_pi"; "div_assign_pi" ] then KDiv (x 2)
    else if mem op [ "rem_pu"; "rem_pu_rr"; "divrem_pu"; "divrem_pu_rr"; "divrem_assign_pu"; "rem_pi"; "divrem_pi"; "divrem_assign_pi" ] then
      let lo, hi = prim_range (List.nth a 0) in KPrimRem (lo, hi, x 1, x 2)
    else if mem op [ "pu_div"; "pu_div_rr"; "pi_div" ] then
      let lo, hi = prim_range (List.nth a 0) in KPrimDiv (lo, hi, x 2, x 1)
    else KTotal
  in
  if mem op [ "gcd"; "gcd_rr"; "gcd_ext"; "gcd_ext_rr" ] then lehmer_judge op (x 0) (x 1) c got else judge_call c got

let judge_b op a got =
  let x i = z (List.nth a i) in
  let c =
    if mem op [ "gcd"; "gcd_ext" ] then KGcd (x 1, x 2)
    else if mem op [ "divrem"; "divrem_euclid" ] then let lo, _ = prim_range (List.nth a 0) in KPrimStd (lo, x 1, x 2)
    else KTotal
  in
  judge_call c got

let judge_m op a got =
  let x i = z (List.nth a i) in
  let m = x 0 in
  let c =
    if op = "new" then KDiv m
    else if mem op [ "rem_const"; "div_const"; "divrem_const" ] then KDiv m
    else if mem op [ "div"; "div_assign" ] then KRing (m, m, true, true, x 2)
    else if mem op [ "add2"; "sub2"; "mul2"; "eq2" ] then KRing (m, x 3, false, false, Zar.one)
    else if op = "div2" then KRing (m, x 3, false, true, x 2)
    else KRing (m, m, true, false, Zar.one)
  in
  judge_call c got

(* ---------------------------------------------------------------- floats *)
let base_of = function "2" -> 2 | "3" -> 3 | "a" -> 10 | "10" -> 16 | _ -> failwith "base"

let judge_f op a got =
  let b = zi (base_of (List.nth a 0)) in
  let prec = z (List.nth a 2) in
  let r = List.tl (List.tl (List.tl a)) in
  (* the harness builds every float operand through Repr::new, which strips the factors of the base from the significand
     (3 * 3^-1 is stored as 1 * 3^0): the entry tests of the model (is_one, is_zero) must see the same normal form *)
  let rec strip s e = if Zar.sign s <> 0 && Zar.sign (Zar.rem s b) = 0 then strip (Zar.div s b) (Zar.succ e) else (s, e) in
  let norm v = match v with
    | Fin (s, e) -> if Zar.sign s = 0 then Fin (Zar.zero, Zar.zero) else let (s', e') = strip s e in Fin (s', e')
    | v -> v in
  let x () = norm (fv (List.nth r 0) (List.nth r 1)) in
  let y () = norm (fv (List.nth r 2) (List.nth r 3)) in
  let n2 () = z (List.nth r 2) in
  let k o x y n = KFloat (b, o, prec, x, y, n) in
  let int_prec n = Zar.max prec (Zar.max Zar.one (ndig b n)) in
  (* the unwrap of an exponent conversion is an exponent overflow *)
  let over g = if g = [ "panic"; "UnwrapOutOfBounds" ] then [ "panic"; "ExponentOverflow" ] else g in
  let got = over got in
  let wb nb =
    let nb = zi nb in
    (* infinities are mapped to infinities, whatever the two bases (documented; same-base case repaired by c105b18) *)
    if x () = Inf then judge_call (KWithBase (b, nb, Zar.one, Inf)) got else
    let spec_t = if Zar.sign prec = 0 then Zar.zero else Zar.one in
    let asis_t = if Zar.sign prec = 0 || auto_prec_zero b nb prec then Zar.zero else Zar.one in
    judge_call ~alt:(Some (TWithBasePrecisionZero, KWithBase (b, nb, asis_t, x ()))) (KWithBase (b, nb, spec_t, x ())) got
  in
  if op = "repr_new" || op = "from_parts" then begin
    (* Repr::new: the specification (normal form, or the documented overflow panic when its exponent is not an isize) decides;
       Cross/ReprNew.v repr_new_asis = the code since 064626d *)
    let s0 = z (List.nth r 0) and e0 = z (List.nth r 1) in
    let spec = Zar.to_int (repr_new_spec_code b s0 e0) and asis = Zar.to_int (repr_new_code b s0 e0) in
    let want = if spec = 0 then "ok" else "panic ExponentOverflow" in
    if String.concat " " got = want then
      pass ~nt:true ~extra:(Printf.sprintf "asis=%s cls=%s path=repr-new-%s" (if asis = spec then "same" else "diff")
                              (if spec = 0 then "ok" else "ExponentOverflow") (if spec = 0 then "ok" else "overflow")) ()
    else fail want end
  else
  if mem op [ "add"; "sub"; "mul"; "op_add"; "op_sub"; "op_sub_rr"; "op_mul"; "op_add_assign"; "op_mul_assign"; "sum"; "product" ] then
    judge_call (k FoFinite (x ()) (y ()) Zar.zero) got
  else if mem op [ "sqr"; "cubic"; "v_sqr"; "v_cubic"; "trunc"; "fract"; "ceil"; "floor"; "round"; "split_at_point"; "to_int" ] then
    judge_call (k FoFinite (x ()) one Zar.zero) got
  else if mem op [ "shl"; "shr"; "shl_assign"; "shr_assign" ] then judge_call (k FoFinite (x ()) one (n2 ())) got
  else if mem op [ "op_add_int"; "op_mul_int" ] then judge_call (k FoFinite (x ()) (Fin (n2 (), Zar.zero)) Zar.zero) got
  else if op = "op_sub_i32" then judge_call (k FoFinite (x ()) (Fin (n2 (), Zar.zero)) Zar.zero) got
  else if op = "div" then judge_call (k FoDiv (x ()) (y ()) Zar.zero) got
  (* operator forms: repr_div at Context::max of the operand precisions, operands not shrunk first *)
  else if mem op [ "op_div"; "op_div_rr"; "op_div_assign" ] then judge_call (KFloatOpDiv (b, prec, x (), y ())) got
  else if mem op [ "inv"; "v_inv" ] then judge_call (k FoDiv one (x ()) Zar.zero) got
  (* an integer operand becomes FBig::from_parts(n, 0): precision max(1, digits of n) *)
  else if mem op [ "op_div_int"; "op_div_u8" ] then judge_call (KFloatOpDiv (b, int_prec (n2 ()), x (), Fin (n2 (), Zar.zero))) got
  else if op = "op_int_div" then judge_call (KFloatOpDiv (b, int_prec (n2 ()), Fin (n2 (), Zar.zero), x ())) got
  else if mem op [ "rem"; "op_rem"; "div_euclid"; "rem_euclid"; "divrem_euclid" ] then judge_call (k FoRem (x ()) (y ()) Zar.zero) got
  else if mem op [ "sqrt"; "v_sqrt" ] then judge_call (k FoSqrt (x ()) one Zar.zero) got
  else if mem op [ "exp"; "exp_m1"; "v_exp"; "v_exp_m1" ] then judge_call (k FoExp (x ()) one Zar.zero) got
  else if mem op [ "ln"; "v_ln" ] then judge_call (k FoLn (x ()) one Zar.zero) got
  else if mem op [ "ln_1p"; "v_ln_1p" ] then judge_call (k FoLn1p (x ()) one Zar.zero) got
  else if mem op [ "powi"; "v_powi" ] then judge_call (k FoPowi (x ()) one (n2 ())) got
  else if mem op [ "powf"; "v_powf" ] then judge_call (k FoPowf (x ()) (y ()) Zar.zero) got
  else if mem op [ "with_base2"; "to_binary" ] then wb 2
  else if mem op [ "with_base10"; "to_decimal" ] then wb 10
  else if op = "with_base3" then wb 3
  else if op = "with_base16" then wb 16
  else if op = "with_base_prec10" then judge_call (KWithBase (b, zi 10, n2 (), x ())) got
  else if op = "with_base_prec2" then judge_call (KWithBase (b, zi 2, n2 (), x ())) got
  else if mem op [ "to_f32"; "to_f64" ] then (match x () with Fin (_, e) when Zar.numbits e > 61 -> judge_call (k FoTotal (x ()) one Zar.zero) got | _ -> judge_call (KToPrim (b, x ())) got)
  else if mem op [ "cmp"; "sum" ] then judge_call (k FoTotal (x ()) (y ()) Zar.zero) got
  else if op = "from_parts" then judge_call (k FoTotal (x ()) one Zar.zero) got
  else if op = "ulp" && Zar.sign prec = 0 then judge_call (KToFloat prec) got   (* "Panics if the precision of the number is 0" *)
  else if mem op [ "convert_int"; "from_f32"; "from_f64"; "from_rbig" ] then judge_call (k FoTotal one one Zar.zero) got
  else judge_call (k FoTotal (x ()) one Zar.zero) got

(* ---------------------------------------------------------------- rationals *)
let judge_q relaxed op a got =
  let x i = z (List.nth a i) in
  let c =
    if mem op [ "from_parts"; "from_parts_signed" ] then KDiv (x 1)
    else if mem op [ "div"; "div_rr"; "rem"; "div_assign"; "rem_assign"; "div_euclid"; "rem_euclid"; "divrem_euclid" ] then KDiv (x 2)
    else if mem op [ "div_ibig"; "div_ubig" ] then KDiv (x 2)
    else if mem op [ "ibig_div"; "ubig_div"; "inv" ] then KDiv (x 0)
    else if mem op [ "to_float2"; "to_float10" ] then KToFloat (x 2)
    else if op = "next_up" then KFarey (zi 0, x 0, x 1, x 2)
    else if op = "next_down" then KFarey (zi 1, x 0, x 1, x 2)
    else if op = "nearest" then KFarey (zi 2, x 0, x 1, x 2)
    else KTotal
  in
  match c, outcome_of got with
  | KFarey (kind, xn, xd, limit), Some OHang when farey_asis farey_fuel kind xn xd limit = OHang ->
      Common.known (tagname TFareyLinear) (want c)
  | _ -> judge_call c got

(* ---------------------------------------------------------------- parsers *)
(* text token s<hex of the UTF-8 bytes> -> list of byte values *)
let bytes_of_tok t : Zar.t list =
  let h = String.sub t 1 (String.length t - 1) in
  List.init (String.length h / 2) (fun i -> Zar.of_int (int_of_string ("0x" ^ String.sub h (2 * i) 2)))

let err_name c = match Zar.to_int c with
  | 0 -> "ok" | 1 -> "err NoDigits" | 2 -> "err InvalidDigit" | 3 -> "err UnsupportedRadix" | 4 -> "err InconsistentRadix"
  | _ -> "panic"

(* the index-level as-is models (Cross/ParseIdx.v) predict the exact outcome: ok / the ParseError kind / panic.
   The verdict is the specification's (Ok or Err, never a panic); asis=same|diff is the model fidelity. *)
let parser_model op a =
  let r i = z (List.nth a i) in
  let s i = bytes_of_tok (List.nth a i) in
  match op with
  | "ubig" -> Some (int_radix_code false (zi 10) (s 0))
  | "ibig" -> Some (int_radix_code true (zi 10) (s 0))
  | "ubig_radix" -> Some (int_radix_code false (r 0) (s 1))
  | "ibig_radix" -> Some (int_radix_code true (r 0) (s 1))
  | "ubig_prefix" -> Some (int_default_code false (zi 10) (s 0))
  | "ibig_prefix" -> Some (int_default_code true (zi 10) (s 0))
  | "ubig_default" -> Some (int_default_code false (r 0) (s 1))
  | "ibig_default" -> Some (int_default_code true (r 0) (s 1))
  | "rbig" | "relaxed" -> Some (ratio_radix_code (zi 10) (s 0))
  | "rbig_radix" | "relaxed_radix" -> Some (ratio_radix_code (r 0) (s 1))
  | "rbig_prefix" | "relaxed_prefix" -> Some (ratio_prefix_code (s 0))
  | "fbig" | "repr" -> Some (float_parse_code (r 0) (s 1))
  | _ -> None

let judge_p op a got =
  (* parsers and deserialisers return Ok or Err on every input, whatever the radix argument *)
  let v = judge_call KTotal got in
  if v.v <> "pass" then v
  else
    let cls = (match got with "err" :: _ -> "cls=parse-err" | _ -> "cls=parse-ok") in
    match parser_model op a with
    | None -> { v with extra = "nt=1 " ^ cls }
    | Some code ->
        let want = err_name code in
        let gots = String.concat " " got in
        let wf = utf8_from O (bytes_of_tok (List.nth a (List.length a - 1))) in
        { v with extra = Printf.sprintf "nt=1 asis=%s %s path=%s" (if want = gots && wf then "same" else "diff") cls
                           (if want = "ok" then "model-ok" else "model-" ^ String.concat "" (List.tl (split_ws want))) }

(* ---------------------------------------------------------------- deserialisers *)
let de_kind = function
  | "ubig" -> Some (0, 10) | "ibig" -> Some (1, 10) | "repr" -> Some (2, 10) | "fbig" -> Some (3, 2) | "dbig" -> Some (3, 10)
  | "tbig" -> Some (3, 3) | "hbig" -> Some (3, 16) | "rbig" -> Some (4, 10) | "relaxed" -> Some (5, 10) | _ -> None

(* serde_json::from_slice::<T> is predicted by Cross/SerdeText.v serde_json_de (JSON string layer + visit_str of the type),
   the struct form (postcard) by deserialize T (EvSeq fields); the verdict is the specification's: Ok or Err, never a panic *)
let judge_d name a got =
  let v = judge_call KTotal got in
  if v.v <> "pass" then v
  else
    let ty, fmt = match String.index_opt name '.' with
      | Some i -> (String.sub name 0 i, String.sub name (i + 1) (String.length name - i - 1))
      | None -> (name, "") in
    let code = match de_kind ty, fmt with
      | Some (k, b), "json" -> Some (Zar.to_int (serde_json_code (zi k) (zi b) (bytes_of_tok (List.nth a 0))))
      | Some (k, b), "struct" -> Some (Zar.to_int (struct_code (zi k) (zi b) (List.map z a)))
      | _ -> None in
    let cls = (match got with "err" :: _ -> "cls=de-err" | _ -> "cls=de-ok") in
    match code with
    | None -> { v with extra = "nt=1 " ^ cls }
    | Some c ->
        (* no open finding class here: the model's outcome (proved Ok-or-Err, C16_serde_deserialize_never_panics /
           C16_serde_json_text_never_panics) is the specification of these two routes: an accepted invalid value (zero
           denominator, significand longer than the precision, a JSON number) or a refused valid one is a violation *)
        let want = if c = 0 then "ok" else if c = 1 then "err Deserialize" else "ok-or-err" in
        if c >= 0 && want <> String.concat " " got then fail want
        else { v with extra = Printf.sprintf "nt=1 asis=%s %s path=%s-model-%s" (if c >= 0 then "same" else "diff") cls fmt
                                (if c = 0 then "ok" else if c = 1 then "err" else "panic") }

(* ---------------------------------------------------------------- cost classes (thorough tier: T.<op>) *)
let nb v = Zar.of_int (Zar.numbits (Zar.abs v))
let log2_up_base = function "2" -> 1 | "3" -> 2 | "a" -> 4 | "10" -> 4 | _ -> 6
(* (kind of Cross/CostClasses.v cost_code, a, b, c) of a measured operation *)
let cost_of name a =
  let x i = z (List.nth a i) in
  let fl () = (zi (log2_up_base (List.nth a 0)), x 2) in
  match name with
  | "u.add" | "u.sub" | "i.add" | "i.sub" | "u.cmp" | "i.and" | "i.or" | "u.shr" -> Some (0, Zar.add (nb (x 0)) (nb (x 1)), Zar.zero, Zar.zero)
  | "u.count_ones" | "u.trailing_zeros" | "i.neg" | "i.not" -> Some (0, nb (x 0), Zar.zero, Zar.zero)
  | "u.mul" | "i.mul" -> Some (1, nb (x 0), nb (x 1), Zar.zero)
  | "u.sqr" | "i.sqr" -> Some (1, nb (x 0), nb (x 0), Zar.zero)
  | "u.div" | "u.rem" | "u.divrem" | "i.div" | "i.rem" | "u.gcd" | "u.gcd_ext" | "i.gcd" | "i.gcd_ext" ->
      Some (2, Zar.max (nb (x 0)) (nb (x 1)), Zar.min (nb (x 0)) (nb (x 1)), Zar.zero)
  | "u.sqrt" | "u.cbrt" | "u.sqrt_rem" -> Some (2, nb (x 0), nb (x 0), Zar.zero)
  | "u.fmt" | "i.fmt" -> Some (3, nb (x 0), Zar.zero, Zar.zero)
  | "u.in_radix_fmt" | "i.in_radix_fmt" -> Some (3, nb (x 0), Zar.zero, Zar.zero)
  | "p.ubig" | "p.ibig" -> Some (3, Zar.of_int (4 * (String.length (List.nth a 0) - 1)), Zar.zero, Zar.zero)
  | "u.shl" | "u.set_bit" | "i.shl" -> Some (4, nb (x 0), x 1, Zar.zero)
  | "u.ones" -> Some (4, Zar.zero, x 0, Zar.zero)
  | "u.pow" | "i.pow" -> Some (5, nb (x 0), x 1, Zar.zero)
  | "f.op_add" | "f.op_sub" | "f.op_mul" | "f.op_div" | "f.v_sqrt" | "f.v_inv" | "f.v_sqr" -> let lb, p = fl () in Some (6, lb, p, Zar.zero)
  | "f.v_exp" | "f.v_exp_m1" | "f.v_ln" | "f.v_ln_1p" -> let lb, p = fl () in Some (7, lb, p, Zar.zero)
  | "f.repr_to_int" | "f.try_ibig" | "f.try_rbig" -> let lb, _ = fl () in Some (8, nb (x 3), lb, Zar.max Zar.zero (x 4))
  | "q.next_up" | "q.next_down" | "q.nearest" -> Some (9, Zar.add (nb (x 0)) (nb (x 1)), x 2, Zar.zero)
  | _ -> None

(* time limit in microseconds: scheduling slack + units / divisor of the class (loose constants, support only) *)
let time_slack_us = Zar.of_int 400_000
let class_divisor k = Zar.of_int (match k with 0 | 4 -> 40 | 7 -> 4_000 | 9 -> 20 | _ -> 400_000)
let class_name k = match k with 0 -> "linear" | 1 -> "mul" | 2 -> "div" | 3 -> "radix" | 4 -> "shl" | 5 -> "pow" | 6 -> "float-arith"
                              | 7 -> "float-series" | 8 -> "to-int" | _ -> "farey"

let rec judge op args got =
  let fam, name = match String.index_opt op '.' with
    | Some i -> (String.sub op 0 i, String.sub op (i + 1) (String.length op - i - 1))
    | None -> ("", op) in
  (* ownership forms `<op>@<form>` (vv vr rv rr av ar) share the table entry of <op> *)
  let name = match String.index_opt name '@' with Some i -> String.sub name 0 i | None -> name in
  if got = [ "unknown-op" ] then fail "harness-does-not-know-the-operation"
  else
    match fam with
    | "u" -> judge_u name args got
    | "i" -> judge_i name args got
    | "b" -> judge_b name args got
    | "m" -> judge_m name args got
    | "f" -> judge_f name args got
    | "q" -> judge_q false name args got
    | "r" -> judge_q true name args got
    | "p" -> judge_p name args got
    | "d" -> judge_d name args got
    | "T" ->
        (* T.<op>: the answer of <op> followed by us=<hex microseconds> *)
        let us, got' = (match List.rev got with
          | t :: rest when String.length t > 3 && String.sub t 0 3 = "us=" ->
              (Some (Zar.of_string_base 16 (String.sub t 3 (String.length t - 3))), List.rev rest)
          | _ -> (None, got)) in
        let v = judge name args got' in
        (match us, cost_of name args with
         | Some us, Some (k, a0, b0, c0) when v.v = "pass" ->
             let units = cost_code (zi k) a0 b0 c0 in
             let limit = Zar.add time_slack_us (Zar.div units (class_divisor k)) in
             if Zar.leq us limit then { v with extra = v.extra ^ " path=time-within-" ^ class_name k }
             else fail (Printf.sprintf "time<=%sus(class=%s,units=%s,measured=%sus)" (Zar.to_string limit) (class_name k) (Zar.to_string units) (Zar.to_string us))
         | _ -> v)
    | _ -> fail "unknown-family"

let () = serve judge
