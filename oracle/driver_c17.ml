(* C17 oracle.  A case is a history over a pool of 4 IBig values; the harness reports after every step
   the outcome, the value of the destination slot, the layout (signed capacity, length) of all four
   slots and the allocator ledger (live blocks, live words, error flags).

   VERDICT (against the specification, extracted from Coq):
     - outcome and values = exact integer arithmetic (documented panics only, for the documented inputs)
     - every slot after every step: Model.layout_ok64 cap len value   (<= 2 words inline, heap: len has no
       leading zero word, len <= cap <= max_compact_capacity len, zero is +)
     - ledger: live blocks = number of heap slots, live words = sum of their capacities, no allocator
       error flag; after the final drop of the pool: 0 blocks, 0 words
   FIDELITY (statistic asis=same|diff): the exact capacities predicted by the as-is machine
   Model.step64 (Coq transcription of buffer.rs/repr.rs and of the buffer handling of the operations);
   where a step is not modelled or differs, the machine is re-synchronised with the reported layout
   (OInstall, which itself checks the invariant) and its ghost-heap ledger must equal the allocator's. *)
open Common
open Model

let zi = Zar.of_int
let usz s = Zar.to_int (Zar.of_string_base 16 s)
let isz s = Zar.to_int (z s)
let rec nat_of_int n = if n <= 0 then O else S (nat_of_int (n - 1))
let pow2 n = Zar.shift_left Zar.one n
let b64 = pow2 64
let mask64 = Zar.pred b64
let words_of v =
  let rec go a acc = if Zar.sign a = 0 then List.rev acc else go (Zar.shift_right a 64) (Zar.logand a mask64 :: acc) in
  go (Zar.abs v) []
let sg v = if Zar.sign v < 0 then Negative else Positive
let rec zeros n = if n <= 0 then [] else Zar.zero :: zeros (n - 1)

let statics = [|
  z "0"; z "-1234"; z "ffffffffffffffff0000000000000001"; z "100000000000000000000000000000000";
  z "-deadbeef0123456789abcdeffedcba987654321000000000ffffffff";
  z ("7" ^ String.make 128 'f');
  z ("-1" ^ String.make 176 '0' ^ "0000000000000001") |]
let static k = statics.(if k > 6 then 6 else k)

let huge_bits = 1 lsl 34   (* bit counts from here on ask for more than 2^30 bytes: the harness' allocator refuses *)
exception Pre
exception Perr
exception Pan of string

(* digits of a text in the radix; IBig::from_str_radix: optional sign, digits and '_' separators, at least one digit *)
let digit_of c radix =
  let d = match c with '0' .. '9' -> Char.code c - 48 | 'a' .. 'z' -> Char.code c - 87 | 'A' .. 'Z' -> Char.code c - 55 | _ -> 99 in
  if d < radix then Some d else None
let split_sign text =
  let n = String.length text in
  if n > 0 && text.[0] = '-' then (true, String.sub text 1 (n - 1))
  else if n > 0 && text.[0] = '+' then (false, String.sub text 1 (n - 1)) else (false, text)
let chars_of body = List.init (String.length body) (String.get body)
let parse_text text radix : Zar.t option =
  let neg, body = split_sign text in
  let ok = ref true and any = ref false and acc = ref Zar.zero in
  String.iter (fun c -> if c <> '_' then (match digit_of c radix with
    | Some d -> any := true; acc := Zar.add (Zar.mul !acc (zi radix)) (zi d)
    | None -> ok := false)) body;
  if !ok && !any then Some (if neg then Zar.neg !acc else !acc)
  else if not !any && List.for_all (fun c -> c = '_') (chars_of body) then None else None

let wrap bits signed m =
  let m = Zar.logand m (Zar.pred (pow2 bits)) in
  if signed && Zar.geq m (pow2 (bits - 1)) then Zar.sub m (pow2 bits) else m
let prim_bits ty = match ty with
  | "u8" | "i8" -> 8 | "u16" | "i16" -> 16 | "u32" | "i32" -> 32
  | "u64" | "i64" | "usize" | "isize" -> 64 | _ -> 128
let prim_value ty x =
  let bits = prim_bits ty and signed = ty.[0] = 'i' in
  let m = Zar.logand (Zar.abs x) (Zar.pred (pow2 128)) in
  let v = wrap bits signed m in
  if signed && Zar.sign x < 0 then wrap bits true (Zar.neg v) else v
let small_prim ty x =
  let m = Zar.logand (Zar.abs x) mask64 in
  match ty with
  | "u64" -> m
  | "u8" -> Zar.logand m (zi 255)
  | _ -> let v = wrap 64 true m in if Zar.sign x < 0 then wrap 64 true (Zar.neg v) else v

let taken form a b = match form with
  | "vv" | "av" -> if a = b then [ a ] else [ a; b ]
  | "vr" | "ar" -> [ a ]
  | "rv" -> [ b ]
  | _ -> []

let next_pow2 x = if Zar.leq x Zar.one then Zar.one else pow2 (Zar.numbits (Zar.pred x))

(* the specification of one step on the values; returns (outcome, destination slot or -1) *)
let spec_step (v : Zar.t array) (t : string array) : string * int =
  let s i = usz t.(i) in
  let nonneg l = if List.exists (fun i -> Zar.sign v.(i) < 0) l then raise Pre in
  let binop form d a b f =
    let x = v.(a) and y = v.(b) in
    List.iter (fun i -> v.(i) <- Zar.zero) (taken form a b);
    let r = f x y in
    v.(d) <- r; d in
  let nz f x y = if Zar.sign y = 0 then raise (Pan "DivideBy0") else f x y in
  try
    let d =
      match t.(0) with
      | "fw" | "fle" | "fbe" | "dw" -> v.(s 1) <- z t.(2); s 1
      | "ones" -> v.(s 1) <- Zar.pred (pow2 (s 2)); s 1
      | "prim" -> v.(s 1) <- prim_value t.(2) (z t.(3)); s 1
      | "st" | "scf" -> v.(s 1) <- static (s 2); s 1
      | "sadd" -> v.(s 1) <- Zar.add v.(s 2) (static (s 3)); s 1
      | "smul" -> nonneg [ s 2 ]; v.(s 1) <- Zar.mul v.(s 2) (Zar.abs (static (s 3))); s 1
      | "cl" | "cf" -> v.(s 1) <- v.(s 2); s 1
      | "ucf" -> nonneg [ s 1; s 2 ]; v.(s 1) <- v.(s 2); s 1
      | "dr" -> v.(s 1) <- Zar.zero; s 1
      | "mv" -> let x = v.(s 2) in v.(s 2) <- Zar.zero; v.(s 1) <- x; s 1
      | "sw" -> let x = v.(s 1) in v.(s 1) <- v.(s 2); v.(s 2) <- x; s 1
      | "neg" -> v.(s 1) <- Zar.neg v.(s 1); s 1
      | "negr" -> v.(s 1) <- Zar.neg v.(s 2); s 1
      | "abs" -> v.(s 1) <- Zar.abs v.(s 1); s 1
      | "uadd" | "usub" | "umul" | "udiv" | "urem" | "uand" | "uor" | "uxor" | "ugcd" ->
          let form = t.(1) and d = s 2 and a = s 3 and b = s 4 in
          nonneg [ a; b ];
          binop form d a b (match t.(0) with
            | "uadd" -> Zar.add
            | "usub" -> fun x y -> if Zar.lt x y then raise (Pan "NegativeUBig") else Zar.sub x y
            | "umul" -> Zar.mul | "udiv" -> nz Zar.div | "urem" -> nz Zar.rem
            | "uand" -> Zar.logand | "uor" -> Zar.logor | "uxor" -> Zar.logxor
            | _ -> fun x y -> if Zar.sign x = 0 && Zar.sign y = 0 then raise (Pan "GCD00") else Zar.gcd x y)
      | "iadd" | "isub" | "imul" | "idiv" | "irem" | "iand" | "ior" | "ixor" ->
          let form = t.(1) and d = s 2 and a = s 3 and b = s 4 in
          binop form d a b (match t.(0) with
            | "iadd" -> Zar.add | "isub" -> Zar.sub | "imul" -> Zar.mul
            | "idiv" -> nz Zar.div | "irem" -> nz Zar.rem
            | "iand" -> Zar.logand | "ior" -> Zar.logor | _ -> Zar.logxor)
      | "udivrem" ->
          let d = s 1 and e = s 2 and a = s 3 and b = s 4 in
          if d = e then raise Pre; nonneg [ a; b ];
          if Zar.sign v.(b) = 0 then raise (Pan "DivideBy0");
          let q = Zar.div v.(a) v.(b) and r = Zar.rem v.(a) v.(b) in
          v.(d) <- q; v.(e) <- r; d
      | "shl" when s 4 >= huge_bits && Zar.sign v.(s 3) > 0 ->
          let form = t.(1) and a = s 3 in
          if form <> "r" then v.(a) <- Zar.zero;
          raise (Pan "OOM")
      | ("shl" | "ishl") when s 4 >= huge_bits && Zar.sign v.(s 3) = 0 -> v.(s 2) <- Zar.zero; s 2
      | "shl" | "shr" ->
          let form = t.(1) and d = s 2 and a = s 3 and n = s 4 in
          nonneg [ a ];
          let x = v.(a) in
          if form <> "r" then v.(a) <- Zar.zero;
          v.(d) <- (if t.(0) = "shl" then Zar.shift_left x n else Zar.shift_right x n); d
      | "ishl" | "ishr" ->
          let form = t.(1) and d = s 2 and a = s 3 and n = s 4 in
          let x = v.(a) in
          if form = "v" then v.(a) <- Zar.zero;
          v.(d) <- (if t.(0) = "ishl" then Zar.shift_left x n else Zar.shift_right x n); d
      | "setbit" when s 2 >= huge_bits ->
          (* a growth no allocator can satisfy: the operation must panic (out of memory), the value it was given is dropped *)
          let d = s 1 in
          nonneg [ d ];
          v.(d) <- Zar.zero; raise (Pan "OOM")
      | "setbit" | "clrbit" | "chb" | "npow2" ->
          let d = s 1 and n = s 2 in
          nonneg [ d ];
          let x = v.(d) in
          v.(d) <- (match t.(0) with
            | "setbit" -> Zar.logor x (pow2 n)
            | "clrbit" -> Zar.logand x (Zar.lognot (pow2 n))
            | "chb" -> Zar.logand x (Zar.pred (pow2 n))
            | _ -> next_pow2 x); d
      | "split" ->
          let d = s 1 and e = s 2 and a = s 3 and n = s 4 in
          if d = e then raise Pre; nonneg [ a ];
          let x = v.(a) in
          v.(a) <- Zar.zero; v.(d) <- Zar.logand x (Zar.pred (pow2 n)); v.(e) <- Zar.shift_right x n; d
      | "pow" -> v.(s 1) <- Zar.pow v.(s 2) (s 3); s 1
      | "sqr" -> nonneg [ s 2 ]; v.(s 1) <- Zar.mul v.(s 2) v.(s 2); s 1
      | "sqrt" -> nonneg [ s 2 ]; v.(s 1) <- Zar.sqrt v.(s 2); s 1
      | "isqrt" -> if Zar.sign v.(s 2) < 0 then raise (Pan "RootNegative"); v.(s 1) <- Zar.sqrt v.(s 2); s 1
      | "sqrtrem" ->
          let d = s 1 and e = s 2 and a = s 3 in
          if d = e then raise Pre; nonneg [ a ];
          let x = v.(a) in let q = Zar.sqrt x in
          v.(d) <- q; v.(e) <- Zar.sub x (Zar.mul q q); d
      | "inot" -> let x = v.(s 3) in if t.(1) = "v" then v.(s 3) <- Zar.zero; v.(s 2) <- Zar.lognot x; s 2
      | "pstr" ->
          (match parse_text t.(3) (s 2) with
           | Some x -> v.(s 1) <- x; s 1
           | None -> raise Perr)
      | "addp" -> v.(s 1) <- Zar.add v.(s 1) (small_prim t.(2) (z t.(3))); s 1
      | "subp" -> v.(s 1) <- Zar.sub v.(s 1) (small_prim t.(2) (z t.(3))); s 1
      | "mulp" -> v.(s 1) <- Zar.mul v.(s 1) (small_prim t.(2) (z t.(3))); s 1
      | "ring" ->
          (* arithmetic modulo |v[b]| through ConstDivisor / Reduced / the Reducer interface *)
          let kind = t.(1) and d = s 2 and a = s 3 and b = s 4 and e = s 5 in
          let m = Zar.abs v.(b) in
          if kind = "new0" && Zar.sign m = 0 then raise (Pan "DivideBy0");
          if Zar.leq m Zar.one && kind <> "new0" then raise Pre;
          let emod x = Zar.erem x m in
          let inv x = if Zar.equal (Zar.gcd x m) Zar.one then Zar.invert x m else Zar.zero in
          let sgn x y = if Zar.sign x < 0 then Zar.neg y else y in
          let r = match kind with
            | "new" | "new0" -> v.(b) <- Zar.zero; m
            | "cf" -> emod v.(a)
            | "res" -> emod v.(a)
            | "mul" -> let x = emod v.(a) and y = emod v.(d) in emod (Zar.sub (Zar.add (Zar.mul x y) x) y)
            | "inv" -> inv (emod v.(a))
            | "pow" -> Zar.powm (emod v.(a)) (zi e) m
            | "rem" -> sgn v.(a) (Zar.rem (Zar.abs v.(a)) m)
            | "remv" -> let x = v.(a) in v.(a) <- Zar.zero; sgn x (Zar.rem (Zar.abs x) m)
            | "div" -> sgn v.(a) (Zar.div (Zar.abs v.(a)) m)
            | "rmul" -> let x = emod (Zar.abs v.(a)) in emod (Zar.mul x (Zar.mul x x))
            | "rinv" -> inv (emod (Zar.abs v.(a)))
            | "rpow" -> Zar.powm (emod (Zar.abs v.(a))) (zi e) m
            | "rneg" -> emod (Zar.neg (Zar.mul (zi 3) (emod (Zar.abs v.(a)))))
            | other -> failwith ("unknown ring step " ^ other) in
          v.(d) <- r; d
      | "rt" | "rd" -> s 1
      | other -> failwith ("unknown step " ^ other)
    in
    ("ok", d)
  with
  | Pre -> ("e", -1)
  | Perr -> ("perr", -1)
  | Pan c -> ("p" ^ c, -1)

(* translation of a harness step into operations of the Coq machine (slots 4 and 5 are temporaries) *)
let model_ops1 (v : Zar.t array) (t : string array) : op list option =
  let s i = usz t.(i) in
  let n i = nat_of_int (s i) in
  let tmp = nat_of_int 4 in
  let nonneg l = List.for_all (fun i -> Zar.sign v.(i) >= 0) l in
  let stat k = let x = static k in ByStatic (sg x, words_of x) in
  let forms f form d a b =
    let d = nat_of_int d and na = nat_of_int a and nb = nat_of_int b in
    match form with
    | "vv" | "av" -> if a <> b then [ OBin (f, d, ByVal na, ByVal nb) ] else [ OClone (tmp, ByRef na); OBin (f, d, ByVal na, ByVal tmp) ]
    | "vr" | "ar" -> if a <> b then [ OBin (f, d, ByVal na, ByRef nb) ] else [ OClone (tmp, ByRef na); OBin (f, d, ByVal na, ByRef tmp); ODrop tmp ]
    | "rv" -> if a <> b then [ OBin (f, d, ByRef na, ByVal nb) ] else [ OClone (tmp, ByRef nb); OBin (f, d, ByRef tmp, ByVal nb); ODrop tmp ]
    | _ -> [ OBin (f, d, ByRef na, ByRef nb) ] in
  match t.(0) with
  | "fw" -> let x = z t.(2) in Some [ OCtor (n 1, CWords (sg x, words_of x @ zeros (s 3))) ]
  | "fle" | "fbe" ->
      let x = z t.(2) in
      let nbytes = (Zar.numbits (Zar.abs x) + 7) / 8 + s 3 in
      if nbytes <= 16 then Some [ OCtor (n 1, CDword (sg x, Zar.abs x)) ]
      else let nw = (nbytes - 1) / 8 + 1 in
           let ws = words_of x in
           Some [ OCtor (n 1, CWords (sg x, ws @ zeros (nw - List.length ws))) ]
  | "ones" -> Some [ OCtor (n 1, COnes (zi (s 2))) ]
  | "dw" -> let x = z t.(2) in Some [ OCtor (n 1, CDword (sg x, Zar.abs x)) ]
  | "prim" -> let x = prim_value t.(2) (z t.(3)) in Some [ OCtor (n 1, CDword (sg x, Zar.abs x)) ]
  | "st" -> Some [ OClone (n 1, stat (s 2)) ]
  | "scf" -> Some [ OCloneFrom (n 1, stat (s 2)) ]
  | "sadd" -> Some [ OBin (BIAdd, n 1, ByRef (n 2), stat (s 3)) ]
  | "smul" -> if nonneg [ s 2 ] then Some [ OBin (BMul, n 1, ByRef (n 2), ByStatic (Positive, words_of (static (s 3)))) ] else Some []
  | "cl" -> Some [ OClone (n 1, ByRef (n 2)) ]
  | "cf" | "ucf" ->
      if t.(0) = "ucf" && not (nonneg [ s 1; s 2 ]) then Some []
      else if s 1 = s 2 then Some [ OClone (tmp, ByRef (n 1)); OCloneFrom (n 1, ByRef tmp); ODrop tmp ]
      else Some [ OCloneFrom (n 1, ByRef (n 2)) ]
  | "dr" -> Some [ ODrop (n 1) ]
  | "mv" -> if s 1 = s 2 then Some [] else Some [ OMove (n 1, n 2) ]
  | "sw" -> Some [ OSwap (n 1, n 2) ]
  | "neg" -> Some [ ONeg (n 1) ]
  | "negr" -> Some [ OClone (tmp, ByRef (n 2)); ONeg tmp; OMove (n 1, tmp) ]
  | "abs" -> Some [ OAbs (n 1) ]
  | "uadd" | "usub" | "umul" | "uand" | "uor" | "uxor" | "udiv" | "urem" ->
      if not (nonneg [ s 3; s 4 ]) then Some []
      else Some (forms (match t.(0) with "uadd" -> BAdd | "usub" -> BSub | "umul" -> BMul | "uand" -> BAnd | "uor" -> BOr
                                         | "uxor" -> BXor | "udiv" -> BDiv | _ -> BRem) t.(1) (s 2) (s 3) (s 4))
  | "iadd" | "isub" | "imul" | "idiv" | "irem" ->
      Some (forms (match t.(0) with "iadd" -> BIAdd | "isub" -> BISub | "imul" -> BIMul | "idiv" -> BIDiv | _ -> BIRem) t.(1) (s 2) (s 3) (s 4))
  | "iand" | "ior" | "ixor" ->
      (* the machine has the magnitude routines; the two's-complement sign tables of negative operands are not modelled *)
      if nonneg [ s 3; s 4 ] then Some (forms (match t.(0) with "iand" -> BAnd | "ior" -> BOr | _ -> BXor) t.(1) (s 2) (s 3) (s 4))
      else None
  | "shl" | "shr" ->
      if not (nonneg [ s 3 ]) then Some []
      else let a = if t.(1) = "r" then ByRef (n 3) else ByVal (n 3) in
           Some [ (if t.(0) = "shl" then OShl (n 2, a, zi (s 4)) else OShr (n 2, a, zi (s 4))) ]
  | "setbit" -> if nonneg [ s 1 ] then Some [ OSetBit (n 1, zi (s 2)) ] else Some []
  | "clrbit" -> if nonneg [ s 1 ] then Some [ OClrBit (n 1, zi (s 2)) ] else Some []
  | "addp" | "subp" | "mulp" ->
      let p = small_prim t.(2) (z t.(3)) in
      let f = match t.(0) with "addp" -> BIAdd | "subp" -> BISub | _ -> BIMul in
      Some [ OCtor (tmp, CDword (sg p, Zar.abs p)); OBin (f, n 1, ByVal (n 1), ByVal tmp) ]
  | "rd" -> Some []
  | "ring" when t.(1) = "new" ->
      (* ConstDivisor::new(x) (Buffer::into_boxed_slice), value(), drop *)
      if Zar.leq (Zar.abs v.(s 4)) Zar.one then Some [] else Some [ ODivisor (n 2, n 4) ]
  | _ -> None

(* round 3: steps of the extended machine (Model.op2); everything else is wrapped with O1 *)
let model_ops2 (v : Zar.t array) (t : string array) : op2 list option =
  let s i = usz t.(i) in
  let n i = nat_of_int (s i) in
  let tmp = nat_of_int 4 in
  let nonneg l = List.for_all (fun i -> Zar.sign v.(i) >= 0) l in
  let o1 l = List.map (fun o -> O1 o) l in
  let nbits x = Zar.numbits (Zar.abs x) in
  let ctor_of_bytes d x nbytes =
    (* UBig::from_le_bytes / from_be_bytes of nbytes bytes holding |x| *)
    if nbytes <= 16 then [ OCtor (d, CDword (sg x, Zar.abs x)) ]
    else let nw = (nbytes - 1) / 8 + 1 in
         let ws = words_of x in
         [ OCtor (d, CWords (sg x, ws @ zeros (nw - List.length ws))) ] in
  match t.(0) with
  | "pow" -> Some [ OPow (n 1, n 2, zi (s 3)) ]
  | "sqr" -> if nonneg [ s 2 ] then Some [ OSqr (n 1, n 2) ] else Some []
  | "ugcd" ->
      if not (nonneg [ s 3; s 4 ]) then Some []
      else
        let d = n 2 and a = s 3 and b = s 4 in
        let na = nat_of_int a and nb = nat_of_int b in
        Some (match t.(1) with
          | "vv" | "av" -> if a <> b then [ OGcd (d, ByVal na, ByVal nb) ] else [ O1 (OClone (tmp, ByRef na)); OGcd (d, ByVal na, ByVal tmp) ]
          | "vr" | "ar" -> if a <> b then [ OGcd (d, ByVal na, ByRef nb) ] else [ O1 (OClone (tmp, ByRef na)); OGcd (d, ByVal na, ByRef tmp); O1 (ODrop tmp) ]
          | "rv" -> if a <> b then [ OGcd (d, ByRef na, ByVal nb) ] else [ O1 (OClone (tmp, ByRef nb)); OGcd (d, ByRef tmp, ByVal nb); O1 (ODrop tmp) ]
          | _ -> [ OGcd (d, ByRef na, ByRef nb) ])
  | "udivrem" ->
      if s 1 = s 2 || not (nonneg [ s 3; s 4 ]) then Some [] else Some [ ODivRem (n 1, n 2, n 3, n 4) ]
  | "npow2" -> if nonneg [ s 1 ] then Some [ ONextPow2 (n 1) ] else Some []
  | "chb" -> if nonneg [ s 1 ] then Some [ OClearHigh (n 1, zi (s 2)) ] else Some []
  | "split" -> if s 1 = s 2 || not (nonneg [ s 3 ]) then Some [] else Some [ OSplit (n 1, n 2, n 3, zi (s 4)) ]
  | "ishl" | "ishr" ->
      (* IBig shifts of a non-negative value are the shifts of its magnitude *)
      if not (nonneg [ s 3 ]) then None
      else let a = if t.(1) = "v" then ByVal (n 3) else ByRef (n 3) in
           Some (o1 [ (if t.(0) = "ishl" then OShl (n 2, a, zi (s 4)) else OShr (n 2, a, zi (s 4))) ])
  | "rt" ->
      (* round trips through the conversions: the slot is taken, converted and rebuilt *)
      let d = s 1 in let x = v.(d) in
      (match t.(2) with
       | "parts" -> Some []
       | "words" -> Some (o1 [ OCtor (tmp, CWords (sg x, words_of x)); OMove (n 1, tmp) ])
       | "ule" | "ube" -> Some (o1 (ctor_of_bytes tmp x ((nbits x + 7) / 8) @ [ OMove (n 1, tmp) ]))
       | "ubig" -> if Zar.sign x < 0 then Some [] else Some (o1 [ OClone (tmp, ByRef (n 1)); OMove (n 1, tmp) ])
       | "u128" -> if Zar.sign x >= 0 && nbits x <= 128 then Some (o1 [ OCtor (n 1, CDword (Positive, x)) ]) else Some []
       | "i128" -> if nbits x <= 127 || Zar.equal x (Zar.neg (pow2 127)) then Some (o1 [ OCtor (n 1, CDword (sg x, Zar.abs x)) ]) else Some []
       | _ -> None)
  | _ -> (match model_ops1 v t with Some l -> Some (o1 l) | None -> None)

(* round 4: steps of the machine of StorageOps3.v (Model.op3); everything else is wrapped with O2.  Slots 4, 5, 6 are temporaries. *)
let max_exp_in_word radix =
  let r = zi radix in
  let rec go k pw = if Zar.lt (Zar.mul pw r) b64 then go (k + 1) (Zar.mul pw r) else (k, pw) in
  go 1 r
let fmt_radix x radix =
  let rec go a acc = if Zar.sign a = 0 then acc else
      let q, r = Zar.div_rem a (zi radix) in go q (String.make 1 "0123456789abcdefghijklmnopqrstuvwxyz".[Zar.to_int r] ^ acc) in
  (if Zar.sign x < 0 then "-" else "") ^ (if Zar.sign x = 0 then "0" else go (Zar.abs x) "")
(* the steps of IBig::from_str_radix(text, radix) into slot d *)
let parse_ops d text radix : op3 list option =
  let neg, body = split_sign text in
  let sgn = if neg then Negative else Positive in
  if List.for_all (fun c -> c = '_') (chars_of body) then Some []   (* ParseError::NoDigits before anything happens *)
  else begin
    let body = let i = ref 0 in while !i < String.length body && body.[!i] = '0' do incr i done; String.sub body !i (String.length body - !i) in
    let chars = chars_of body in
    if radix land (radix - 1) = 0 then begin
      let lr = let rec lg k = if 1 lsl k = radix then k else lg (k + 1) in lg 1 in
      let items = List.rev_map (fun c -> if c = '_' then PSep else match digit_of c radix with Some d -> PD (zi d) | None -> PBad) chars in
      Some [ OParse2 (d, sgn, zi lr, items) ]
    end else begin
      let bytes = List.filter (fun c -> c <> '_') chars in
      let dpw, rpw = max_exp_in_word radix in
      let nb = List.length bytes in
      if nb > 256 * dpw then None
      else begin
        (* rchunks(dpw): groups counted from the end, processed most significant first *)
        let arr = Array.of_list bytes in
        let first = if nb mod dpw = 0 then dpw else nb mod dpw in
        let group lo hi =
          let ok = ref true and acc = ref Zar.zero in
          for i = lo to hi - 1 do (match digit_of arr.(i) radix with Some dg -> acc := Zar.add (Zar.mul !acc (zi radix)) (zi dg) | None -> ok := false) done;
          if !ok then Some !acc else None in
        let rec go lo acc = if lo >= nb then List.rev acc else let hi = if lo = 0 then min nb first else lo + dpw in go hi (group lo hi :: acc) in
        Some [ OParseN (d, sgn, rpw, go 0 []) ]
      end
    end
  end
let model_ops (v : Zar.t array) (t : string array) : op3 list option =
  let s i = usz t.(i) in
  let n i = nat_of_int (s i) in
  let t4 = nat_of_int 4 and t5 = nat_of_int 5 and t6 = nat_of_int 6 in
  let nonneg l = List.for_all (fun i -> Zar.sign v.(i) >= 0) l in
  let o1 l = List.map (fun o -> O2 (O1 o)) l in
  let opnd by_val i = if by_val then ByVal (nat_of_int i) else ByRef (nat_of_int i) in
  let forms3 f form d a b =
    let d = nat_of_int d and na = nat_of_int a and nb = nat_of_int b in
    match form with
    | "vv" | "av" -> if a <> b then [ OSBit (f, d, ByVal na, ByVal nb) ] else o1 [ OClone (t4, ByRef na) ] @ [ OSBit (f, d, ByVal na, ByVal t4) ]
    | "vr" | "ar" -> if a <> b then [ OSBit (f, d, ByVal na, ByRef nb) ] else o1 [ OClone (t4, ByRef na) ] @ [ OSBit (f, d, ByVal na, ByRef t4) ] @ o1 [ ODrop t4 ]
    | "rv" -> if a <> b then [ OSBit (f, d, ByRef na, ByVal nb) ] else o1 [ OClone (t4, ByRef nb) ] @ [ OSBit (f, d, ByRef t4, ByVal nb) ] @ o1 [ ODrop t4 ]
    | _ -> [ OSBit (f, d, ByRef na, ByRef nb) ] in
  match t.(0) with
  | "setbit" when s 2 >= huge_bits -> if nonneg [ s 1 ] then Some [ OGrowFail (n 1, zi (s 2)) ] else Some []
  | ("shl" | "ishl") when s 4 >= huge_bits -> if Zar.sign v.(s 3) = 0 && t.(0) = "ishl" then Some [ OIShl (n 2, opnd (t.(1) = "v") (s 3), zi (s 4)) ] else None
  | "sqrt" -> if nonneg [ s 2 ] then Some [ OSqrt (n 1, n 2) ] else Some []
  | "isqrt" -> Some [ OSqrt (n 1, n 2) ]
  | "sqrtrem" -> if s 1 = s 2 || not (nonneg [ s 3 ]) then Some [] else Some [ OSqrtRem (n 1, n 2, n 3) ]
  | "iand" | "ior" | "ixor" ->
      Some (forms3 (match t.(0) with "iand" -> SAnd | "ior" -> SOr | _ -> SXor) t.(1) (s 2) (s 3) (s 4))
  | "inot" -> Some [ ONot (n 2, opnd (t.(1) = "v") (s 3)) ]
  | "ishl" -> Some [ OIShl (n 2, opnd (t.(1) = "v") (s 3), zi (s 4)) ]
  | "ishr" -> Some [ OIShr (n 2, opnd (t.(1) = "v") (s 3), zi (s 4)) ]
  | "pstr" -> parse_ops (n 1) t.(3) (s 2)
  | "rt" when t.(2) = "chunks" -> Some [ OChunks (n 1, zi (s 3)) ]
  | "rt" when t.(2) = "str16" || t.(2) = "str10" || t.(2) = "str7" ->
      let radix = match t.(2) with "str16" -> 16 | "str10" -> 10 | _ -> 7 in
      (match parse_ops (n 1) (fmt_radix v.(s 1) radix) radix with
       | Some l -> Some (o1 [ OMove (t4, n 1) ] @ l @ o1 [ ODrop t4 ])
       | None -> None)
  | "ring" ->
      let kind = t.(1) and d = n 2 and a = n 3 and b = n 4 and e = zi (s 5) in
      let m = Zar.abs v.(s 4) in
      if Zar.leq m Zar.one && kind <> "new0" then Some []
      else
        let cl dst src = O2 (O1 (OClone (dst, ByRef src))) in
        (match kind with
         | "new" | "new0" -> Some [ ORing (RNew, d, t4, t5, b, e) ]
         | "res" -> Some [ cl t6 b; cl t4 a; ORing (RRes, d, t4, t5, t6, e) ]
         | "mul" -> Some [ cl t6 b; cl t4 a; cl t5 d; ORing (RMul, d, t4, t5, t6, e) ]
         | "cf" ->
             Some ([ cl t6 b; cl t4 a ] @ (if Zar.gt (Zar.abs v.(s 2)) Zar.one then [ cl t5 d ] else []) @ [ ORing (RCloneFrom, d, t4, t5, t6, e) ])
         | "rem" -> Some [ cl t6 b; cl t4 a; ORing (RRem, d, t4, t5, t6, e) ]
         | "remv" -> Some [ cl t6 b; O2 (O1 (OMove (t4, a))); ORing (RRem, d, t4, t5, t6, e) ]
         | "div" -> Some [ cl t6 b; cl t4 a; ORing (RDiv, d, t4, t5, t6, e) ]
         | "pow" -> Some [ cl t6 b; cl t4 a; ORing (RPow, d, t4, t5, t6, e) ]
         | _ -> None)
  | _ -> (match model_ops2 v t with Some l -> Some (List.map (fun o -> O2 o) l) | None -> None)

(* round 5: non_power_two::parse as ONE step of the machine of StorageOps5.v (parse_word / parse_chunk / parse_large with the
   radix powers and the divide-and-conquer recursion), the text as its bytes after the underscores were filtered out *)
let parse_ops5 d text radix : op5 list option =
  let wrap = function Some l -> Some (List.map (fun o -> O3 o) l) | None -> None in
  if radix land (radix - 1) = 0 then wrap (parse_ops d text radix)
  else begin
    let neg, body = split_sign text in
    let sgn = if neg then Negative else Positive in
    if List.for_all (fun c -> c = '_') (chars_of body) then Some []
    else begin
      let body = let i = ref 0 in while !i < String.length body && body.[!i] = '0' do incr i done; String.sub body !i (String.length body - !i) in
      let bytes = List.filter (fun c -> c <> '_') (chars_of body) in
      let dpw, rpw = max_exp_in_word radix in
      let bs = List.map (fun c -> match digit_of c radix with Some dg -> Some (zi dg) | None -> None) bytes in
      Some [ OParseL (d, sgn, zi radix, zi dpw, rpw, bs) ]
    end
  end
let model_ops5 (v : Zar.t array) (t : string array) : op5 list option =
  let s i = usz t.(i) in
  let n i = nat_of_int (s i) in
  let t4 = nat_of_int 4 in
  let o1 l = List.map (fun o -> O3 (O2 (O1 o))) l in
  match t.(0) with
  | "pstr" -> parse_ops5 (n 1) t.(3) (s 2)
  | "rt" when t.(2) = "str16" || t.(2) = "str10" || t.(2) = "str7" ->
      let radix = match t.(2) with "str16" -> 16 | "str10" -> 10 | _ -> 7 in
      (match parse_ops5 (n 1) (fmt_radix v.(s 1) radix) radix with
       | Some l -> Some (o1 [ OMove (t4, n 1) ] @ l @ o1 [ ODrop t4 ])
       | None -> None)
  | _ -> (match model_ops v t with Some l -> Some (List.map (fun o -> O3 o) l) | None -> None)

let is_heap cap = abs cap > 2

type rec_ = { outcome : string; dval : string; caps : int array; lens : int array; live : int; words : int; flags : int }

(* scr la lb => ok reserved needed: the words mul::memory_requirement_exact reserves = the regenerated formula, and
   they suffice (VERDICT); the smallest amount that works = the demand of the allocation plans of ScratchModel.v
   and the offset machine runs with that amount and fails with one word less (FIDELITY) *)
let judge_scr args got =
  match args, got with
  | [ la; lb ], [ "ok"; reserved; needed ] ->
      let la = zi (usz la) and lb = zi (usz lb) in
      let reserved = usz reserved and needed = usz needed in
      let want_r = Zar.to_int (scratch_reserved la lb) and want_d = Zar.to_int (scratch_demand la lb) in
      if reserved <> want_r then fail (Printf.sprintf "reserves %d words, memory_requirement formula gives %d" reserved want_r)
      else if needed > reserved then fail (Printf.sprintf "needs %d words, reserves %d" needed reserved)
      else
        let same = needed = want_d && scratch_run la lb (zi want_d) && (want_d = 0 || not (scratch_run la lb (zi (want_d - 1)))) in
        pass ~nt:(want_d > 0) ~extra:(Printf.sprintf "asis=%s cls=scratch path=%s" (if same then "same" else "diff")
                 (if want_r = 0 then "scr-simple" else if Zar.to_int (Zar.min la lb) <= 192 then "scr-karatsuba" else "scr-toom3")) ()
  | _ -> fail ("scratch probe completes: " ^ String.concat " " got)

let judge op args got =
  if op = "scr" then judge_scr args got else
  if op <> "hist" then fail "unknown-op" else
  match got with
  | "ok" :: rest ->
      (* split the history into steps *)
      let steps =
        let rec go cur acc = function
          | [] -> List.rev (if cur = [] then acc else List.rev cur :: acc)
          | ";" :: r -> go [] (if cur = [] then acc else List.rev cur :: acc) r
          | x :: r -> go (x :: cur) acc r in
        go [] [] args in
      let rest = ref rest in
      let take () = match !rest with x :: r -> rest := r; x | [] -> failwith "short answer" in
      let v = Array.make 4 Zar.zero in
      let pool = ref [ zero; zero; zero; zero; zero; zero; zero; zero ] in
      let mem = ref mem0 in
      let diffs = ref 0 and modelled = ref 0 and crossings = ref 0 and heap_seen = ref false in
      (* threshold events of the modelled ARITHMETIC steps of this history (statistic path=...):
         u inline -> heap, d heap -> inline, g reallocation to a larger capacity, s shrink (from_buffer's
         shrink_to_fit), f a step that ends with len = capacity, c with capacity = max_compact_capacity(len) *)
      let events = Hashtbl.create 7 in
      let prev_caps = Array.make 4 1 in
      let problem = ref None in
      let bad i what = if !problem = None then problem := Some (Printf.sprintf "step %d: %s" i what) in
      let gcd_side = ref false in
      let run_op o =
        match step5_64 !gcd_side o !pool !mem with
        | Ok ((p, _), m) -> pool := p; mem := m; true
        | _ -> false in
      let resync_all i caps =
        (* rebuild the machine from the reported layout *)
        pool := [ zero; zero; zero; zero; zero; zero; zero; zero ]; mem := mem0;
        Array.iteri (fun k c ->
          if not (run_op (O3 (O2 (O1 (OInstall (nat_of_int k, sg v.(k), words_of v.(k), zi (abs c))))))) then bad i (Printf.sprintf "slot %d breaks the representation invariant" k)) caps in
      List.iteri (fun i st ->
        let t = Array.of_list st in
        if take () <> "S" then failwith "protocol";
        let outcome = take () in
        let dval = take () in
        let caps = Array.make 4 0 and lens = Array.make 4 0 in
        for k = 0 to 3 do caps.(k) <- isz (take ()); lens.(k) <- usz (take ()) done;
        let live = isz (take ()) in let words = isz (take ()) in let flags = usz (take ()) in
        let before = Array.copy v in
        let prev_heap = Array.map (fun x -> Zar.numbits x > 128) before in
        let ops = model_ops5 before t in
        let want_out, d = spec_step v t in
        (* 1. outcome and value *)
        let out_ok =
          if want_out = "pGCD00" then String.length outcome > 30 && String.sub outcome 0 30 = "pUndocumented:thegreatestcommo"
          else if want_out = "pOOM" then String.length outcome > 1 && outcome.[0] = 'p'   (* any panic; the ledger and the flags decide *)
          else outcome = want_out in
        if not out_ok then bad i (Printf.sprintf "outcome %s, specified %s" outcome want_out);
        if d >= 0 && dval <> hx v.(d) then bad i (Printf.sprintf "value %s, specified %s" dval (hx v.(d)));
        (* 2. representation invariant of every slot *)
        for k = 0 to 3 do
          if not (layout_ok64 (zi caps.(k)) (zi lens.(k)) v.(k)) then
            bad i (Printf.sprintf "slot %d: capacity %d length %d breaks the invariant for %s" k caps.(k) lens.(k) (hx v.(k)));
          if is_heap caps.(k) then heap_seen := true;
          if is_heap caps.(k) <> prev_heap.(k) then incr crossings
        done;
        (* 3. ledger *)
        let hl = ref 0 and hw = ref 0 in
        Array.iter (fun c -> if is_heap c then (incr hl; hw := !hw + abs c)) caps;
        if live <> !hl || words <> !hw then bad i (Printf.sprintf "ledger: %d blocks %d words alive, the pool owns %d blocks %d words" live words !hl !hw);
        if flags <> 0 then bad i (Printf.sprintf "allocator flags %x" flags);
        (* 4. the as-is machine *)
        (match ops with
         | Some l when !problem = None ->
             incr modelled;
             let attempt side =
               gcd_side := side;
               let ok = List.for_all run_op l in
               ok && (let r = ref true in
                 List.iteri (fun k r_ -> if k < 4 then
                   (if not (Zar.equal (rvalue64 r_) v.(k)) || Zar.to_int (signed_cap r_) <> caps.(k) then r := false)) !pool; !r) in
             let saved_pool = !pool and saved_mem = !mem in
             (* the side in which gcd_in_place leaves its result is an input of the machine: either side is admitted *)
             let same = attempt false
                        || (List.exists (function O3 (O2 (OGcd _)) -> true | _ -> false) l && (pool := saved_pool; mem := saved_mem; attempt true)) in
             gcd_side := false;
             if not same then (incr diffs; resync_all i caps)
         | _ -> if !problem = None then resync_all i caps);
        if !problem = None && (Zar.to_int (nlive !mem) <> live || Zar.to_int (nwords !mem) <> words) then
          bad i (Printf.sprintf "ghost heap of the machine: %s blocks %s words, allocator: %d %d" (Zar.to_string (nlive !mem)) (Zar.to_string (nwords !mem)) live words);
        (* round 5: the routes of the parser beyond 256 groups: P one radix power, Q two, R three or more, E the text was invalid *)
        (match ops with
         | Some l ->
             List.iter (function
               | OParseL (_, _, _, dpw, _, bs) ->
                   let nb = List.length bs and cb = 256 * Zar.to_int dpw in
                   if nb > cb then begin
                     Hashtbl.replace events (if nb <= 2 * cb then 'P' else if nb <= 4 * cb then 'Q' else 'R') ();
                     if List.exists (fun b -> b = None) bs then Hashtbl.replace events 'E' ()
                   end
               | _ -> ()) l
         | None -> ());
        let arith = match t.(0) with
          | "uadd" | "usub" | "umul" | "iadd" | "isub" | "imul" | "shl" | "shr" | "setbit" | "clrbit"
          | "uand" | "uor" | "uxor" | "iand" | "ior" | "ixor" | "udiv" | "urem" | "idiv" | "irem"
          | "addp" | "subp" | "mulp" | "sadd" | "smul"
          | "pow" | "sqr" | "ugcd" | "udivrem" | "npow2" | "chb" | "split" | "ishl" | "ishr"
          | "sqrt" | "isqrt" | "sqrtrem" | "inot" | "ring" | "pstr" | "rt" -> ops <> None && ops <> Some []
          | _ -> false in
        if arith then
          for k = 0 to 3 do
            let pc = abs prev_caps.(k) and cc = abs caps.(k) in
            let ev c = Hashtbl.replace events c () in
            if pc <= 2 && cc > 2 then ev 'u'
            else if pc > 2 && cc <= 2 then ev 'd'
            else if pc > 2 && cc > pc then ev 'g'
            else if pc > 2 && cc < pc then ev 's';
            if cc > 2 && (pc <> cc || k = d) then begin
              if lens.(k) = cc then ev 'f';
              if cc = lens.(k) + lens.(k) / 4 + 4 then ev 'c'
            end
          done;
        Array.blit caps 0 prev_caps 0 4) steps;
      (* end of the history *)
      if !problem = None then begin
        if take () <> "E" then failwith "protocol";
        for k = 0 to 3 do
          let x = take () in
          if x <> hx v.(k) then bad (-1) (Printf.sprintf "final value of slot %d is %s, specified %s" k x (hx v.(k)))
        done;
        let live = isz (take ()) in let words = isz (take ()) in let flags = usz (take ()) in
        if live <> 0 || words <> 0 then bad (-1) (Printf.sprintf "leak: %d blocks %d words alive after the pool was dropped" live words);
        if flags <> 0 then bad (-1) (Printf.sprintf "allocator flags %x" flags);
        (match drop_all64 !pool !mem with
         | Ok (_, m) -> if Zar.sign (nlive m) <> 0 || Zar.sign (nwords m) <> 0 then bad (-1) "machine ledger not balanced"
         | _ -> bad (-1) "machine: drop of the pool failed")
      end;
      (match !problem with
       | Some p -> fail p
       | None ->
           let evs = String.concat "" (List.filter_map (fun c -> if Hashtbl.mem events c then Some (String.make 1 c) else None) [ 'u'; 'd'; 'g'; 's'; 'f'; 'c'; 'P'; 'Q'; 'R'; 'E' ]) in
           let extra = Printf.sprintf "asis=%s cls=cross%d path=%s" (if !modelled = 0 then "na" else if !diffs = 0 then "same" else "diff")
               (min !crossings 5) ((if !diffs = 0 then "tracked" else "resync") ^ (if evs = "" then "" else "-" ^ evs)) in
           pass ~nt:!heap_seen ~extra ())
  | _ -> fail ("history completes: " ^ String.concat " " got)

let () = serve judge
