(* C10 oracle: every answer is judged against the extracted Coq specification (int_spec = spec_round
   of the exact value, fract_sig_spec, to_int_spec, with_precision_spec, spec_round for the
   primitives and the rationals); the as-is models (RoundOpsModel.v, RatRoundModel.v) are evaluated
   for the model-fidelity statistic under both admissible digits_ub instances. *)
open Common
open Model

let mode_of = function
  | "Zero" -> MZero | "Away" -> MAway | "Up" -> MUp | "Down" -> MDown
  | "HalfEven" -> MHalfEven | "HalfAway" -> MHalfAway | m -> failwith ("mode " ^ m)
let flag_name = function NoOp -> "NoOp" | AddOne -> "AddOne" | SubOne -> "SubOne"

let fl_str (((s, e), p) : fl) = hx s ^ " " ^ hx e ^ " " ^ hx p
(* (0, e <> 0) is an infinity: the harness prints it as `inf 0` / `-inf 0` *)
let se_str s e =
  if Zar.sign s = 0 && Zar.sign e <> 0 then (if Zar.sign e > 0 then "inf 0" else "-inf 0") else hx s ^ " " ^ hx e
let ia_str = function IExact v -> hx v ^ " Exact" | IInexact (v, r) -> hx v ^ " " ^ flag_name r
let ap_str np = function
  | AExact (s, e) -> se_str s e ^ " Exact " ^ hx np
  | AInexact (s, e, r) -> se_str s e ^ " " ^ flag_name r ^ " " ^ hx np
let res_str f = function Ok v -> "ok " ^ f v | Panic OperateWithInf -> "panic OperateWithInf" | Panic _ -> "panic" | _ -> "other"
let asig = function AExact (s, _) -> s | AInexact (s, _, _) -> s
let aexp = function AExact (_, e) -> e | AInexact (_, e, _) -> e
let is_assert_panic = function
  | [ "panic"; c ] -> String.length c >= 27 && String.sub c 0 27 = "Undocumented:assertionfaile"
  | _ -> false
let directed = function MZero | MAway | MUp | MDown -> true | _ -> false

let got_str got = String.concat " " got

(* usize::MAX of the build under test (64-bit words); the theorems hold for every value of it *)
let umax = Zar.pred (Zar.shift_left Zar.one 64)

(* fidelity: the answer equals the as-is model under one of the two admissible digits_ub instances *)
let fidelity (cands : string list) got =
  if List.mem (got_str got) cands then " asis=same" else " asis=diff"

let legal b sg p = Zar.sign p = 0 || Zar.leq (dlen b sg) p

(* infinities (significand token inf / -inf): the documented panic for every entry point; with_precision and the
   same-base conversion are judged against the as-is models (the property speaks about finite floats only) *)
let judge_inf op args got sg =
  let b = z (List.nth args 0) and m = mode_of (List.nth args 1) and p = z (List.nth args 2) in
  let s = Zar.zero and e = Zar.of_int sg in
  let rf = round_fract b and dub = dub_exact b in
  let asis = match op with
    | "trunc" -> res_str fl_str (trunc_full b dub p s e)
    | "floor" -> res_str fl_str (floor_full b dub rf p s e)
    | "ceil" -> res_str fl_str (ceil_full b dub rf p s e)
    | "round" -> res_str fl_str (round_full b dub rf p s e)
    | "fract" -> res_str fl_str (fract_full b dub p s e)
    | "split" -> res_str (fun (t, f) -> fl_str t ^ " " ^ fl_str f) (split_full b dub p s e)
    | "to_int" -> res_str ia_str (to_int_full b dub rf m p s e)
    | "repr_to_int" -> res_str ia_str (repr_to_int_full b dub s e)
    | "with_precision" -> let np = z (List.nth args 5) in res_str (ap_str np) (with_precision_full b rf m p s e np)
    | "wbp_same" -> let np = z (List.nth args 5) in res_str (ap_str np) (with_same_base_full b rf m s e np)
    | _ -> "unknown-op" in
  let want = match op with "with_precision" | "wbp_same" -> asis | _ -> "panic OperateWithInf" in
  expect ~nt:false ~extra:("cls=inf-" ^ op ^ fidelity [ asis ] got) want got

let judge_float op args got =
  let sigtok = List.nth args 3 in
  if sigtok = "inf" then judge_inf op args got 1 else if sigtok = "-inf" then judge_inf op args got (-1) else
  let b = z (List.nth args 0) and m = mode_of (List.nth args 1) and p = z (List.nth args 2) in
  let etok = List.nth args 4 in
  let two63 = Zar.shift_left Zar.one 63 in
  let e0 = if etok = "min" then Zar.neg two63 else if etok = "max" then Zar.pred two63 else z etok in
  let (s, e) = normalize b (z (List.nth args 3)) e0 in
  if not (legal b s p) then skip "operand-exceeds-precision" else
  let neg = Zar.sign e < 0 in
  let d = dlen b s in
  (* far below one and an exponent whose power cannot be formed: the power-free specification
     (RoundOpsTinyProof: int_spec_tiny, fract_sig_tiny, to_int_spec_tiny under dlen s + 1 <= -e) *)
  let far = Zar.gt (Zar.abs e) (Zar.of_int 3_000_000) in
  let tiny = neg && far && Zar.leq (Zar.add d Zar.one) (Zar.neg e) in
  if far && neg && not tiny then skip "power-too-large" else
  if far && not neg && (op = "to_int" || op = "repr_to_int") then skip "result-too-large" else
  let int_spec b mm s e = if tiny then int_tiny mm s else int_spec b mm s e in
  let fract_sig_spec b s e = if tiny then s else fract_sig_spec b s e in
  let to_int_spec b mm s e = if tiny then to_int_tiny mm s else to_int_spec b mm s e in
  let cls =
    if not neg then "int"
    else if tiny then "tiny"
    else if Zar.lt (Zar.add e d) (Zar.of_int (-1)) then "small"
    else if Zar.leq (Zar.add e d) Zar.zero then "below1"
    else "mixed" in
  let tie = neg && not tiny && Zar.equal (Zar.mul (Zar.of_int 2) (Zar.abs (fract_sig_spec b s e))) (Zar.pow b (Zar.to_int (Zar.neg e))) in
  let extra = "cls=" ^ cls ^ (if tie then "-tie" else "") ^ (if Zar.sign p = 0 then "-unl" else "") in
  let dubs = [ dub_exact b; dub_plus b ] in
  let rf = round_fract b in
  let nt = neg in
  (* expected float (value part) of an integer result *)
  let int_float mm = if neg then normalize b (int_spec b mm s e) Zar.zero else (s, e) in
  let fract_float () = if neg then normalize b (fract_sig_spec b s e) e else (Zar.zero, Zar.zero) in
  (* the precision attached to a result (C10_result_precisions, documented at FBig::round): an integer keeps p; otherwise
     the digits after the radix point are subtracted (saturating) or the result is a shortcut constant with precision 0;
     the fraction carries the digit count -e (the shortcut of split_at_point for |x| < 1 returns the float itself: p) *)
  let below1 = neg && Zar.lt (Zar.add e d) Zar.one in
  let prec_int gp = if not neg then Zar.equal gp p else (Zar.equal gp (sat_sub p (Zar.neg e)) || (below1 && Zar.sign gp = 0)) in
  let prec_fract ~split gp = if not neg then Zar.sign gp = 0 else (Zar.equal gp (Zar.neg e) || (split && below1 && Zar.equal gp p)) in
  let check_fl want_list got_list =
    (* want_list: list of ((sig, exp), precision test); got tokens: triples *)
    let rec go w g = match w, g with
      | [], [] -> true
      | ((ws, we), pt) :: w', gs :: ge :: gp :: g' ->
          z gs = ws && z ge = we && legal b (z gs) (z gp) && Zar.sign (z gp) >= 0 && pt (z gp) && go w' g'
      | _ -> false in
    go want_list got_list in
  let want_fl l = "ok " ^ String.concat " " (List.map (fun ((ws, we), _) -> hx ws ^ " " ^ hx we ^ " <documented-precision>") l) in
  let fl_verdict wants cands =
    match got with
    | "ok" :: rest when check_fl wants rest -> pass ~nt ~extra:(extra ^ fidelity cands got) ()
    | _ -> fail (want_fl wants) in
  let fres f = List.map (fun dub -> res_str fl_str (f dub)) dubs in
  (* model fidelity: the entry-point bodies REGENERATED from round_ops.rs / convert.rs (RoundOpsGen.v; proved equal to the
     hand-written models: C10_entry_point_bodies_generated), with round_fract behind its repaired assertion and deciding
     by the sizes far below one half (no power is formed there) *)
  let chk = round_fract_chk4 umax b (round_fract_sz umax b) in
  ignore rf;
  match op with
  | "trunc" -> fl_verdict [ (int_float MZero, prec_int) ] (fres (fun dub -> trunc_gen b dub p s e))
  | "floor" -> fl_verdict [ (int_float MDown, prec_int) ] (fres (fun dub -> floor_gen b dub chk p s e))
  | "ceil" -> fl_verdict [ (int_float MUp, prec_int) ] (fres (fun dub -> ceil_gen b dub chk p s e))
  | "round" -> fl_verdict [ (int_float MHalfAway, prec_int) ] (fres (fun dub -> round_gen b dub chk p s e))
  | "fract" -> fl_verdict [ (fract_float (), prec_fract ~split:false) ] (fres (fun dub -> fract_gen b dub p s e))
  | "split" ->
      fl_verdict [ (int_float MZero, prec_int); (fract_float (), prec_fract ~split:true) ]
        (List.map (fun dub -> res_str (fun (t, f) -> fl_str t ^ " " ^ fl_str f) (split_at_point_gen b dub p s e)) dubs)
  | "to_int" ->
      let want = "ok " ^ ia_str (to_int_spec b m s e) in
      let cands = List.map (fun dub -> res_str ia_str (to_int_gen b dub chk m p s e)) dubs in
      let huge = if Zar.gt (Zar.abs e) (Zar.of_int 4000) then "-huge" else "" in
      expect ~nt ~extra:(extra ^ huge ^ fidelity cands got) want got
  | "repr_to_int" ->
      let want = "ok " ^ ia_str (to_int_spec b MZero s e) in
      let cands = List.map (fun dub -> res_str ia_str (repr_to_int_gen b dub s e)) dubs in
      expect ~nt ~extra:(extra ^ fidelity cands got) want got
  | "with_precision" ->
      let np = z (List.nth args 5) in
      let want = "ok " ^ ap_str np (norm_approx b (with_precision_spec b m s e np)) in
      let cands = [ res_str (ap_str np) (if with_precision_rounds_gen p np then repr_round_gen b chk np m s e else Ok (AExact (s, e))) ] in
      let rounded = Zar.sign np > 0 && Zar.gt d np in
      expect ~nt:rounded ~extra:("cls=wp-" ^ (if rounded then "round" else "keep") ^ (if Zar.sign p = 0 then "-unl" else "") ^ fidelity cands got) want got
  | "wbp_same" ->
      (* conversion to the same base: one rounding to np digits whatever the old precision (C10_same_base_single_rounding) *)
      let np = z (List.nth args 5) in
      let want = "ok " ^ ap_str np (norm_approx b (with_precision_spec b m s e np)) in
      let cands = [ res_str (ap_str np) (with_same_base_full b rf m s e np) ] in
      let rounded = Zar.sign np > 0 && Zar.gt d np in
      expect ~nt:rounded ~extra:("cls=samebase-" ^ (if rounded then "round" else "keep") ^ fidelity cands got) want got
  | "wr_wp" -> fail "handled-elsewhere"
  | "wp2" ->
      (* two single roundings, the second of the rounded value; for the directed modes the value must also be the
         single rounding of the original (C10_with_precision_twice_directed_eq), for the nearest modes it may differ *)
      let np1 = z (List.nth args 5) and np2 = z (List.nth args 6) in
      let a1 = norm_approx b (with_precision_spec b m s e np1) in
      let a2 = norm_approx b (with_precision_spec b m (asig a1) (aexp a1) np2) in
      let want = "ok " ^ ap_str np1 a1 ^ " " ^ ap_str np2 a2 in
      let cands = [ res_str (fun (x, y) -> ap_str np1 x ^ " " ^ ap_str np2 y) (with_precision_twice b rf m p s e np1 np2) ] in
      let single = norm_approx b (with_precision_spec b m s e (if Zar.sign np2 = 0 || (Zar.sign np1 > 0 && Zar.lt np1 np2) then np1 else np2)) in
      let same = Zar.equal (asig single) (asig a2) && Zar.equal (aexp single) (aexp a2) in
      if directed m && not same then fail "directed-mode-double-rounding-differs-from-single"
      else
        let both = Zar.sign np1 > 0 && Zar.gt d np1 && Zar.sign np2 > 0 && Zar.gt (dlen b (asig a1)) np2 in
        expect ~nt:both ~extra:("cls=twice-" ^ (if directed m then "directed" else "nearest") ^ (if same then "-same" else "-differs") ^ fidelity cands got) want got
  | _ -> fail ("unknown-op-" ^ op)

let judge_wr_wp args got =
  let b = z (List.nth args 0) and m2 = mode_of (List.nth args 2) and p = z (List.nth args 3) in
  let (s, e) = normalize b (z (List.nth args 4)) (z (List.nth args 5)) and np = z (List.nth args 6) in
  if not (legal b s p) then skip "operand-exceeds-precision" else
  let want = "ok " ^ ap_str np (norm_approx b (with_precision_spec b m2 s e np)) in
  let cands = [ res_str (ap_str np) (with_precision_full b (round_fract b) m2 p s e np) ] in
  let rounded = Zar.sign np > 0 && Zar.gt (dlen b s) np in
  expect ~nt:rounded ~extra:("cls=newmode-" ^ (if rounded then "round" else "keep") ^ fidelity cands got) want got

let judge_rat op args got =
  let n0 = z (List.nth args 0) and d0 = z (List.nth args 1) in
  if Zar.sign d0 <= 0 then skip "denominator" else
  let relaxed = op.[0] = 'x' in
  let base = String.sub op 1 (String.length op - 1) in
  let (n, d) = if relaxed then rat_reduce2 n0 d0 else rat_reduce n0 d0 in
  (* specification on the value as given *)
  let t = spec_round MZero n0 d0 in
  let fr = let r = Zar.sub n (Zar.mul t d) in if Zar.sign r = 0 then (Zar.zero, Zar.one) else (r, d) in
  let q2 (a, b) = hx a ^ " " ^ hx b in
  let nt = Zar.sign (Zar.rem n0 d0) <> 0 in
  let tie = Zar.equal (Zar.mul (Zar.of_int 2) (Zar.abs (Zar.rem n d))) d in
  let extra = "cls=" ^ (if relaxed then "relaxed" else "rbig") ^ (if tie then "-tie" else if nt then "-frac" else "-int") in
  let want, asis = match base with
    | "trunc" -> hx t, hx (rat_trunc_gen n d)
    | "floor" -> hx (spec_round MDown n0 d0), hx (rat_floor_gen n d)
    | "ceil" -> hx (spec_round MUp n0 d0), hx (rat_ceil_gen n d)
    | "round" -> hx (spec_round MHalfAway n0 d0), hx (rat_round_gen n d)
    | "fract" -> q2 fr, q2 (rat_fract_gen n d)
    | "split" -> hx t ^ " " ^ q2 fr, (let (a, f) = rat_split_at_point_gen n d in hx a ^ " " ^ q2 f)
    | _ -> failwith ("op " ^ op) in
  expect ~nt ~extra:(extra ^ fidelity [ "ok " ^ asis ] got) ("ok " ^ want) got

let adj_name v =
  if Zar.sign v = 0 then "NoOp" else if Zar.equal v Zar.one then "AddOne"
  else if Zar.equal v Zar.minus_one then "SubOne" else "no-single-step-reaches-" ^ hx v

let judge op args got =
  match op with
  | "round_fract" ->
      let b = z (List.nth args 0) and m = mode_of (List.nth args 1) in
      let i = z (List.nth args 2) and f = z (List.nth args 3) and k = z (List.nth args 4) in
      let bk = Zar.pow b (Zar.to_int k) in
      if Zar.geq (Zar.abs f) bk then skip "outside-precondition" else
      let want = Zar.sub (spec_round m (Zar.add (Zar.mul i bk) f) bk) i in
      let asis = "ok " ^ flag_name (round_fract b m i f k) in
      let c = Zar.compare (Zar.mul (Zar.of_int 2) (Zar.abs f)) bk in
      let cls = if Zar.sign f = 0 then "zero" else if c = 0 then "tie" else if c < 0 then "lt" else "gt" in
      expect ~nt:(Zar.sign f <> 0) ~extra:("cls=prim-" ^ cls ^ fidelity [ asis ] got) ("ok " ^ adj_name want) got
  | "round_ratio" ->
      let m = mode_of (List.nth args 0) in
      let i = z (List.nth args 1) and n = z (List.nth args 2) and d = z (List.nth args 3) in
      if Zar.sign d = 0 || Zar.geq (Zar.abs n) (Zar.abs d) then skip "outside-precondition" else
      let sg = Zar.of_int (Zar.sign d) in
      let want = Zar.sub (spec_round m (Zar.mul sg (Zar.add (Zar.mul i d) n)) (Zar.abs d)) i in
      let asis = "ok " ^ flag_name (round_ratio m i n d) in
      let c = Zar.compare (Zar.mul (Zar.of_int 2) (Zar.abs n)) (Zar.abs d) in
      let cls = if Zar.sign n = 0 then "zero" else if c = 0 then "tie" else if c < 0 then "lt" else "gt" in
      expect ~nt:(Zar.sign n <> 0) ~extra:("cls=ratio-" ^ cls ^ (if Zar.sign d < 0 then "-negden" else "") ^ fidelity [ asis ] got) ("ok " ^ adj_name want) got
  | "round_fract_half" ->
      (* fract = +-(B^k / 2 + delta): the neighbourhood of the tie, for digit counts of 2^24 and more (f32 pre-filter with a
         rounded `precision as f32`: C10_f32_filter_all_digit_counts) *)
      let b = z (List.nth args 0) and m = mode_of (List.nth args 1) in
      let i = z (List.nth args 2) and k = z (List.nth args 3) and dl = z (List.nth args 4) in
      let bk = Zar.pow b (Zar.to_int k) in
      let f0 = Zar.add (Zar.shift_right bk 1) dl in
      let f = if List.nth args 5 = "-" then Zar.neg f0 else f0 in
      if Zar.geq (Zar.abs f) bk then skip "outside-precondition" else
      let want = Zar.sub (spec_round m (Zar.add (Zar.mul i bk) f) bk) i in
      let asis = "ok " ^ flag_name (round_fract b m i f k) in
      let c = Zar.compare (Zar.mul (Zar.of_int 2) (Zar.abs f)) bk in
      let cls = (if c = 0 then "tie" else if c < 0 then "lt" else "gt") ^ (if Zar.geq k (Zar.shift_left Zar.one 24) then "-2p24" else "") in
      expect ~nt:true ~extra:("cls=prim-half-" ^ cls ^ fidelity [ asis ] got) ("ok " ^ adj_name want) got
  | "round_fract_any" ->
      (* the regenerated body behind the regenerated assertion (the harness is built with debug assertions).  The verdict
         comes from round_fract_any4 (sizes first: far below one half no power is formed - C10_round_fract_far_below_half -
         digit counts up to usize::MAX; otherwise |f| < B^k and the specification) *)
      let b = z (List.nth args 0) and m = mode_of (List.nth args 1) in
      let i = z (List.nth args 2) and f = z (List.nth args 3) and k = z (List.nth args 4) in
      let tiny = Zar.leq (Zar.succ (blen f)) (sat_mul umax k (Zar.pred (blen b))) in
      let off _ _ = false and on _ _ = true in
      (* coarse tests: switched off (they never contradict the exact comparison, C03), except far below one half where the
         coarse "less" test is what answers (and B^k cannot be formed) *)
      let model = if round_fract_pre_gen umax b f k then "ok " ^ flag_name (round_fract_gen off (if tiny then on else off) (round_low_part m) b i f k) else "panic-assert" in
      let gots = if is_assert_panic got then [ "panic-assert" ] else got in
      let fid = if got_str gots = model then " asis=same" else " asis=diff" in
      let sizes = if fract_cheap umax b f k then "-sizes" else "-power" in
      (match round_fract_any4 umax b m i f k with
       | Ok r ->
           let cls = "cls=anyfract-" ^ (if tiny then "tiny" else if Zar.sign k = 0 then "prec0" else if Zar.sign f = 0 then "zero" else "inside") ^ sizes in
           let want =
             if tiny then adj_name (adj r)
             else let bk = Zar.pow b (Zar.to_int k) in adj_name (Zar.sub (spec_round m (Zar.add (Zar.mul i bk) f) bk) i) in
           expect ~nt:(Zar.sign f <> 0) ~extra:(cls ^ fid) ("ok " ^ want) got
       | _ -> if is_assert_panic got then pass ~nt:false ~extra:("cls=anyfract-outside" ^ sizes ^ fid) () else fail "panic-debug-assertion")
  | "round_ratio_any" ->
      let m = mode_of (List.nth args 0) in
      let i = z (List.nth args 1) and n = z (List.nth args 2) and d = z (List.nth args 3) in
      let model = if round_ratio_pre_gen n d then "ok " ^ flag_name (round_ratio_gen (round_low_part m) i n d) else "panic-assert" in
      let gots = if is_assert_panic got then [ "panic-assert" ] else got in
      let fid = if got_str gots = model then " asis=same" else " asis=diff" in
      let c = Zar.compare (Zar.abs n) (Zar.abs d) in
      if Zar.sign d = 0 || c > 0 then
        (if is_assert_panic got then pass ~nt:false ~extra:("cls=anyratio-outside" ^ fid) () else fail "panic-assertion")
      else if c = 0 then begin
        (* |num| = |den|: outside the documented precondition |num/den| < 1; since F05 the assertion refuses it
           (C10_round_ratio_repaired: the assertion IS the documented precondition) - an answer here is the old defect
           (the directed modes answered as for a proper fraction) *)
        if is_assert_panic got then pass ~nt:false ~extra:("cls=anyratio-boundary-refused" ^ fid) ()
        else fail ("panic-assertion (|num| = |den| is outside the documented precondition; as-is before F05: " ^ model ^ ")")
      end else
        let sg = Zar.of_int (Zar.sign d) in
        let want = Zar.sub (spec_round m (Zar.mul sg (Zar.add (Zar.mul i d) n)) (Zar.abs d)) i in
        expect ~nt:(Zar.sign n <> 0) ~extra:("cls=anyratio-inside" ^ fid) ("ok " ^ adj_name want) got
  | "wr_wp" -> judge_wr_wp args got
  | _ when op.[0] = 'r' && op <> "round" && op <> "repr_to_int" -> judge_rat op args got
  | _ when op.[0] = 'x' -> judge_rat op args got
  | _ -> judge_float op args got

let () = serve judge
