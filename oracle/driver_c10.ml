(* C10 oracle: every answer is judged against the extracted Coq specification (int_spec = spec_round
   of the exact value, fract_sig_spec, to_int_spec, with_precision_spec, spec_round for the
   primitives and the rationals); the as-is models (RoundOpsModel.v, RatRoundModel.v) are evaluated
   for the model-fidelity statistic under both admissible digits_ub instances. *)
open Common
open Model

let mode_of = function
  | "Zero" -> MZero | "Away" -> MAway | "Up" -> MUp | "Down" -> MDown
  | "HalfEven" -> MHalfEven | "HalfAway" -> MHalfAway | m -> failwith ("mode " ^ m)
let flag_name = function NoOp -> "NoOp" | AddOne -> "AddOne" | SubOne -> "SubOne"

let fl_str (((s, e), p) : fl) = hx s ^ " " ^ hx e ^ " " ^ hx p
let ia_str = function IExact v -> hx v ^ " Exact" | IInexact (v, r) -> hx v ^ " " ^ flag_name r
let ap_str np = function
  | AExact (s, e) -> hx s ^ " " ^ hx e ^ " Exact " ^ hx np
  | AInexact (s, e, r) -> hx s ^ " " ^ hx e ^ " " ^ flag_name r ^ " " ^ hx np
let res_str f = function Ok v -> "ok " ^ f v | Panic _ -> "panic" | _ -> "other"

let got_str got = String.concat " " got

(* fidelity: the answer equals the as-is model under one of the two admissible digits_ub instances *)
let fidelity (cands : string list) got =
  if List.mem (got_str got) cands then " asis=same" else " asis=diff"

let legal b sg p = Zar.sign p = 0 || Zar.leq (dlen b sg) p

let judge_float op args got =
  let b = z (List.nth args 0) and m = mode_of (List.nth args 1) and p = z (List.nth args 2) in
  let (s, e) = normalize b (z (List.nth args 3)) (z (List.nth args 4)) in
  if not (legal b s p) then skip "operand-exceeds-precision" else
  let neg = Zar.sign e < 0 in
  let d = dlen b s in
  let cls =
    if not neg then "int"
    else if Zar.lt (Zar.add e d) (Zar.of_int (-1)) then "small"
    else if Zar.leq (Zar.add e d) Zar.zero then "below1"
    else "mixed" in
  let tie = neg && Zar.equal (Zar.mul (Zar.of_int 2) (Zar.abs (fract_sig_spec b s e))) (Zar.pow b (Zar.to_int (Zar.neg e))) in
  let extra = "cls=" ^ cls ^ (if tie then "-tie" else "") ^ (if Zar.sign p = 0 then "-unl" else "") in
  let dubs = [ dub_exact b; dub_plus b ] in
  let nt = neg in
  (* expected float (value part) of an integer result *)
  let int_float mm = if neg then normalize b (int_spec b mm s e) Zar.zero else (s, e) in
  let fract_float () = if neg then normalize b (fract_sig_spec b s e) e else (Zar.zero, Zar.zero) in
  let check_fl want_list got_list =
    (* want_list: list of (sig, exp); got tokens: triples *)
    let rec go w g = match w, g with
      | [], [] -> true
      | (ws, we) :: w', gs :: ge :: gp :: g' ->
          z gs = ws && z ge = we && legal b (z gs) (z gp) && Zar.sign (z gp) >= 0 && go w' g'
      | _ -> false in
    go want_list got_list in
  let want_fl l = "ok " ^ String.concat " " (List.map (fun (ws, we) -> hx ws ^ " " ^ hx we ^ " <prec>") l) in
  let fl_verdict wants cands =
    match got with
    | "ok" :: rest when check_fl wants rest -> pass ~nt ~extra:(extra ^ fidelity cands got) ()
    | _ -> fail (want_fl wants) in
  let fres f = List.map (fun dub -> res_str fl_str (f dub)) dubs in
  match op with
  | "trunc" -> fl_verdict [ int_float MZero ] (List.map (fun dub -> "ok " ^ fl_str (trunc_asis b dub p s e)) dubs)
  | "floor" -> fl_verdict [ int_float MDown ] (fres (fun dub -> floor_asis b dub false p s e))
  | "ceil" -> fl_verdict [ int_float MUp ] (fres (fun dub -> ceil_asis b dub false p s e))
  | "round" -> fl_verdict [ int_float MHalfAway ] (fres (fun dub -> round_asis b dub false p s e))
  | "fract" -> fl_verdict [ fract_float () ] (List.map (fun dub -> "ok " ^ fl_str (fract_asis b dub false p s e)) dubs)
  | "split" ->
      fl_verdict [ int_float MZero; fract_float () ]
        (List.map (fun dub -> let (t, f) = split_asis b dub p s e in "ok " ^ fl_str t ^ " " ^ fl_str f) dubs)
  | "to_int" ->
      let want = "ok " ^ ia_str (to_int_spec b m s e) in
      let cands = List.map (fun dub -> res_str ia_str (to_int_asis b dub false m p s e)) dubs in
      expect ~nt ~extra:(extra ^ fidelity cands got) want got
  | "repr_to_int" ->
      let want = "ok " ^ ia_str (to_int_spec b MZero s e) in
      let cands = List.map (fun dub -> "ok " ^ ia_str (repr_to_int_asis b dub s e)) dubs in
      expect ~nt ~extra:(extra ^ fidelity cands got) want got
  | "with_precision" ->
      let np = z (List.nth args 5) in
      let want = "ok " ^ ap_str np (norm_approx b (with_precision_spec b m s e np)) in
      let cands = [ "ok " ^ ap_str np (with_precision_asis b false m p s e np) ] in
      let rounded = Zar.sign np > 0 && Zar.gt d np in
      expect ~nt:rounded ~extra:("cls=wp-" ^ (if rounded then "round" else "keep") ^ (if Zar.sign p = 0 then "-unl" else "") ^ fidelity cands got) want got
  | _ -> fail ("unknown-op-" ^ op)

let judge_rat op args got =
  let n0 = z (List.nth args 0) and d0 = z (List.nth args 1) in
  if Zar.sign d0 <= 0 then skip "denominator" else
  let relaxed = op.[0] = 'x' in
  let base = String.sub op 1 (String.length op - 1) in
  let (n, d) = if relaxed then rat_reduce2 n0 d0 else rat_reduce n0 d0 in
  (* specification on the value as given *)
  let t = spec_round MZero n0 d0 in
  let fr = let r = Zar.sub n (Zar.mul t d) in if Zar.sign r = 0 then (Zar.zero, Zar.one) else (r, d) in
  let q2 (a, b) = hx a ^ " " ^ hx b in
  let nt = Zar.sign (Zar.rem n0 d0) <> 0 in
  let tie = Zar.equal (Zar.mul (Zar.of_int 2) (Zar.abs (Zar.rem n d))) d in
  let extra = "cls=" ^ (if relaxed then "relaxed" else "rbig") ^ (if tie then "-tie" else if nt then "-frac" else "-int") in
  let want, asis = match base with
    | "trunc" -> hx t, hx (rat_trunc n d)
    | "floor" -> hx (spec_round MDown n0 d0), hx (rat_floor n d)
    | "ceil" -> hx (spec_round MUp n0 d0), hx (rat_ceil n d)
    | "round" -> hx (spec_round MHalfAway n0 d0), hx (rat_round n d)
    | "fract" -> q2 fr, q2 (rat_fract n d)
    | "split" -> hx t ^ " " ^ q2 fr, (let (a, f) = rat_split n d in hx a ^ " " ^ q2 f)
    | _ -> failwith ("op " ^ op) in
  expect ~nt ~extra:(extra ^ fidelity [ "ok " ^ asis ] got) ("ok " ^ want) got

let adj_name v =
  if Zar.sign v = 0 then "NoOp" else if Zar.equal v Zar.one then "AddOne"
  else if Zar.equal v Zar.minus_one then "SubOne" else "no-single-step-reaches-" ^ hx v

let judge op args got =
  match op with
  | "round_fract" ->
      let b = z (List.nth args 0) and m = mode_of (List.nth args 1) in
      let i = z (List.nth args 2) and f = z (List.nth args 3) and k = z (List.nth args 4) in
      let bk = Zar.pow b (Zar.to_int k) in
      if Zar.geq (Zar.abs f) bk then skip "outside-precondition" else
      let want = Zar.sub (spec_round m (Zar.add (Zar.mul i bk) f) bk) i in
      let asis = "ok " ^ flag_name (round_fract b m i f k) in
      let c = Zar.compare (Zar.mul (Zar.of_int 2) (Zar.abs f)) bk in
      let cls = if Zar.sign f = 0 then "zero" else if c = 0 then "tie" else if c < 0 then "lt" else "gt" in
      expect ~nt:(Zar.sign f <> 0) ~extra:("cls=prim-" ^ cls ^ fidelity [ asis ] got) ("ok " ^ adj_name want) got
  | "round_ratio" ->
      let m = mode_of (List.nth args 0) in
      let i = z (List.nth args 1) and n = z (List.nth args 2) and d = z (List.nth args 3) in
      if Zar.sign d = 0 || Zar.geq (Zar.abs n) (Zar.abs d) then skip "outside-precondition" else
      let sg = Zar.of_int (Zar.sign d) in
      let want = Zar.sub (spec_round m (Zar.mul sg (Zar.add (Zar.mul i d) n)) (Zar.abs d)) i in
      let asis = "ok " ^ flag_name (round_ratio m i n d) in
      let c = Zar.compare (Zar.mul (Zar.of_int 2) (Zar.abs n)) (Zar.abs d) in
      let cls = if Zar.sign n = 0 then "zero" else if c = 0 then "tie" else if c < 0 then "lt" else "gt" in
      expect ~nt:(Zar.sign n <> 0) ~extra:("cls=ratio-" ^ cls ^ (if Zar.sign d < 0 then "-negden" else "") ^ fidelity [ asis ] got) ("ok " ^ adj_name want) got
  | _ when op.[0] = 'r' && op <> "round" && op <> "repr_to_int" -> judge_rat op args got
  | _ when op.[0] = 'x' -> judge_rat op args got
  | _ -> judge_float op args got

let () = serve judge
