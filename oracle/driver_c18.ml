(* C18 oracle: rational approximation.  Verdicts are taken against the extracted Coq specifications
   (Ratio/SimplestSpec.v); the as-is models (Ratio/SimplestModel.v) only give the model-fidelity
   statistic and classify inputs of the listed open findings. *)
open Common
open Model

let fr n d = freduce (z n, z d)
let qs (n, d) = hx n ^ " " ^ hx d
let usz s = Zar.of_string_base 16 s

let mode_of = function
  | "Zero" -> MZero | "Away" -> MAway | "Up" -> MUp | "Down" -> MDown
  | "HalfEven" -> MHalfEven | "HalfAway" -> MHalfAway | s -> failwith ("mode " ^ s)

let reason_str = function
  | DivideBy0 -> "DivideBy0" | UnlimitedPrecision -> "UnlimitedPrecision"
  | Undocumented -> "Undocumented" | _ -> "OtherPanic"

(* render a model result as the answer text the harness would print *)
let res_str f = function
  | Ok v -> "ok " ^ f v
  | Panic r -> "panic " ^ reason_str r
  | Err _ -> "err"
  | OutOfFuel -> "outoffuel"

let optq = function None -> "none" | Some q -> "some " ^ qs q
let approx_str = function
  | AExact q -> "exact " ^ qs q
  | AInexact (q, s) -> "inexact " ^ qs q ^ (match s with Positive -> " pos" | Negative -> " neg")

(* panics whose message is not one of the documented classes are printed by the harness as
   Undocumented:<text>; compare only the class prefix *)
let norm_got got = match got with
  | [ "panic"; c ] when String.length c >= 12 && String.sub c 0 12 = "Undocumented" -> [ "panic"; "Undocumented" ]
  | g -> g

let same_as asis got = split_ws asis = norm_got got
let fid asis got = "asis=" ^ if same_as asis got then "same" else "diff"

(* verdict: want (from the spec) vs got; if they differ and the input lies in a listed class whose
   as-is prediction is exactly what the implementation returned -> known:<tag> *)
let verdict ?(nt = true) ?(cls = "") ~want ~asis ~known_tag got =
  let extra = fid asis got ^ (if cls = "" then "" else " cls=" ^ cls) in
  if split_ws want = norm_got got then pass ~nt ~extra ()
  else match known_tag with
    | Some tag when same_as asis got -> known tag want
    | _ -> fail want

let checked ?(cls = "") (r : bool result) ~asis got =
  match r with
  | Ok true -> pass ~extra:(fid asis got ^ (if cls = "" then "" else " cls=" ^ cls)) ()
  | Ok false -> fail ("spec-check-rejects;asis=" ^ asis)
  | _ -> fail "spec-out-of-fuel"

let parse_q = function
  | [ n; d ] -> Some (z n, z d)
  | _ -> None

let judge op args got =
  let a i = List.nth args i in
  match op with
  | "is_simpler" ->
      let x = fr (a 0) (a 1) and y = fr (a 2) (a 3) in
      (* model fidelity: the hand-written model AND the body regenerated from rational/src/simplify.rs *)
      let a1 = is_simpler_than_asis x y and a2 = is_simpler_than_gen x y in
      let asis = if a1 = a2 then "ok " ^ b2s a1 else "model-and-regenerated-body-differ" in
      verdict ~want:("ok " ^ b2s (simpler x y)) ~asis ~known_tag:None got
  | "simplest_in" ->
      let l = fr (a 0) (a 1) and u = fr (a 2) (a 3) in
      let cls = if feq l u then "equal" else if Zar.sign (fst l) * Zar.sign (fst u) < 0 then "straddle"
        else if Zar.sign (fst l) * Zar.sign (fst u) = 0 then "zero-end" else if flt u l then "swapped" else "ordered" in
      (* model fidelity: the hand-written model AND the whole body regenerated from rational/src/simplify.rs *)
      let a1 = res_str qs (simplest_in_asis l u) and a2 = res_str qs (simplest_in_gen_x l u) in
      let asis = if a1 = a2 then a1 else "model-and-regenerated-body-differ" in
      verdict ~cls ~want:(res_str qs (simplest_in_spec l u)) ~asis ~known_tag:None got
  | "next_up" | "next_down" ->
      let x = fr (a 0) (a 1) and l = usz (a 2) in
      let up = op = "next_up" in
      let a1 = res_str qs ((if up then next_up_asis else next_down_asis) x l)
      and a2 = res_str qs ((if up then next_up_gen_x else next_down_gen_x) x l) in
      let asis = if a1 = a2 then a1 else "model-and-regenerated-body-differ" in
      if Zar.sign l = 0 then verdict ~nt:false ~want:"panic DivideBy0" ~asis ~known_tag:None got
      else begin
        let cls = if Zar.leq (snd x) l then "fits" else "cut" in
        match got with
        | "ok" :: rest -> (match parse_q rest with
            | Some r -> checked ~cls ((if up then next_up_check else next_down_check) x l r) ~asis got
            | None -> fail "malformed")
        | _ -> fail ("ok_<successor>;asis=" ^ asis)
      end
  | "nearest" ->
      let x = fr (a 0) (a 1) and l = usz (a 2) in
      let a1 = res_str approx_str (nearest_asis x l) and a2 = res_str approx_str (nearest_gen_x x l) in
      let asis = if a1 = a2 then a1 else "model-and-regenerated-body-differ" in
      if Zar.sign l = 0 then verdict ~nt:false ~want:"panic DivideBy0" ~asis ~known_tag:None got
      else if Zar.leq (snd x) l then verdict ~cls:"fits" ~want:("ok exact " ^ qs x) ~asis ~known_tag:None got
      else begin
        match got with
        | [ "ok"; "inexact"; n; d; s ] ->
            let sg = if s = "pos" then Positive else Negative in
            checked ~cls:"cut" (nearest_check x l (z n, z d) sg) ~asis got
        | _ -> fail ("ok_inexact_<nearest>;asis=" ^ asis)
      end
  | "from_f32" | "from_f64" ->
      let mb, eb = if op = "from_f32" then (23, 8) else (52, 11) in
      let mb = Zar.of_int mb and eb = Zar.of_int eb in
      let bits = usz (a 0) in
      let spec = simplest_from_ieee_spec mb eb bits in
      (* model fidelity: the bit-level model AND the macro over C06's decoder model *)
      let asis0 = simplest_from_ieee_asis mb eb bits in
      let deep = (if op = "from_f32" then simplest_from_f32_deep else simplest_from_f64_deep) bits in
      let asis = if asis0 = deep then asis0 else Panic Undocumented in
      let e = Zar.logand (Zar.shift_right bits (Zar.to_int mb)) (Zar.pred (Zar.shift_left Zar.one (Zar.to_int eb))) in
      let m = Zar.logand bits (Zar.pred (Zar.shift_left Zar.one (Zar.to_int mb))) in
      let large = known_ieee mb eb bits in   (* class of the repaired finding F04 (ulp >= 2): histogram only *)
      let known_tag = None in
      let cls = if Zar.sign e = 0 then "subnormal" else if Zar.sign m = 0 then "pow2" else if large then "large" else "normal" in
      (* self-check of the interval specification against the shared rounding specification:
         an end point is included iff it rounds to the float, and the specified answer rounds to it *)
      let selfcheck = match ieee_interval_spec mb eb bits with
        | Some (Some (((lo, hi), ilo), ihi)) ->
            let v = ieee_value mb eb bits in
            let rt x = (ieee_round mb eb x = Some v) in
            rt lo = ilo && rt hi = ihi && (match spec with Ok (Some r) -> rt r | _ -> false)
        | _ -> true in
      if not selfcheck then fail "SPEC-SELFCHECK-FAILED(ieee-interval-vs-spec_round)" else
      verdict ~cls ~want:(res_str optq spec) ~asis:(res_str optq asis) ~known_tag got
  | "from_float" ->
      let b = usz (a 0) and md = mode_of (a 1) and p = usz (a 2) in
      if a 3 = "inf" || a 3 = "-inf" then verdict ~nt:false ~want:"ok none" ~asis:"ok none" ~known_tag:None got
      else begin
        let sg0 = z (a 3) and ex0 = z (a 4) in
        let spec0 = simplest_from_float_spec b md p sg0 ex0 in
        let sg, ex = fnormalize b sg0 ex0 in
        let spec = simplest_from_float_spec b md p sg ex in
        (* model fidelity: the value-level model AND the deep model (bounds formed at Repr level through the
           regenerated ulp / with_precision / add_ref_val / try_from inside the regenerated body), with the exact
           digit count and with the worst admissible estimate of Repr::digits_ub *)
        let asis0 = simplest_from_float_asis b md p sg ex in
        let deep = simplest_from_float_deep_x b md p sg0 ex0 and deep1 = simplest_from_float_deep_x1 b md p sg0 ex0 in
        let asis = if asis0 = deep && deep = deep1 then asis0 else Panic Undocumented in
        (* self-check of the interval specification against the shared rounding specification *)
        let v = scaled b sg ex Zar.one in
        let selfcheck =
          if Zar.sign p = 0 || Zar.sign sg = 0 then true
          else begin
            let ((lo, hi), ilo), ihi = float_interval_spec b md p sg ex in
            let rt x = Zar.sign (fst x) <> 0 && round_to_prec b md p x = v in
            rt lo = ilo && rt hi = ihi
            && (match spec with Ok (Some r) -> rt r | _ -> false)
          end in
        if spec0 <> spec then fail "SPEC-SELFCHECK-FAILED(normalisation-dependent)" else
        if not selfcheck then fail "SPEC-SELFCHECK-FAILED(rounding-interval-vs-spec_round)"
        else begin
          let known_tag =
            if Zar.sign sg = 0 then None
            else if known_oddbase b md p then Some "float_odd_base_half_ulp"
            else None in   (* F07 (known_powbase) is repaired: histogram class only *)
          let pow_changed = Zar.sign sg <> 0 && known_powbase p sg && simplest_from_float_r2 b md p sg ex <> asis in
          let cls = a 1 ^ (if Zar.sign p = 0 then "-p0" else if pow_changed then "-pow-F07" else if Zar.equal (Zar.abs sg) Zar.one then "-pow" else "") in
          verdict ~cls ~want:(res_str optq spec) ~asis:(res_str optq asis) ~known_tag got
        end
      end
  | "float_bounds" ->
      (* the bounds simplest_from_float forms, digit for digit (stored Reprs and context precisions) against the deep
         model; the verdict: the two end points are the specified preimage interval of the float *)
      let b = usz (a 0) and md = mode_of (a 1) and p = usz (a 2) in
      let sg0 = z (a 3) and ex0 = z (a 4) in
      let fb ((s, e), pr) = hx s ^ " " ^ hx e ^ " " ^ hx pr in
      let asis = res_str (fun (((((l, r), il), ir), lb), rb) ->
          String.concat " " [ fb l; fb r; b2s il; b2s ir; fb lb; fb rb ]) (float_bounds_deep_x b md p sg0 ex0) in
      let sg, ex = fnormalize b sg0 ex0 in
      let ((lo, hi), ilo), ihi = float_interval_spec b md p sg ex in
      let want = String.concat " " [ "ok"; qs lo; qs hi; b2s ilo; b2s ihi ] in
      let cls = a 1 ^ (if Zar.sign p = 0 then "-p0" else if Zar.equal (Zar.abs sg) Zar.one then "-pow" else "") in
      (match got with
       | [ "ok"; _; _; _; _; _; _; il; ir; lbs; lbe; _; rbs; rbe; _ ] ->
           let gotq = String.concat " " [ "ok"; qs (scaled b (z lbs) (z lbe) Zar.one); qs (scaled b (z rbs) (z rbe) Zar.one); il; ir ] in
           let extra = fid asis got ^ " cls=" ^ cls in
           if gotq = want then pass ~extra ()
           else if known_oddbase b md p && same_as asis got then known "float_odd_base_half_ulp" want
           else fail want
       | _ -> fail (want ^ ";asis=" ^ asis))
  | _ -> fail ("unknown-op-" ^ op)

let () = serve judge
