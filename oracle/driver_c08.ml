(* C08 oracle: every implementation answer is judged against the extracted Coq specifications of
   Float/TextIoSpec.v (grammar, print layout, with_precision, IEEE import) or, for base changes, by
   the extracted contract checker (Float/Contract.v) against the exact rational value.  The as-is
   models (Float/TextIoModel.v, Float/BaseConvModel.v) give the fidelity statistic and decide
   whether a disagreement lies in a listed finding class. *)
open Common
open Model

let zi = Zar.of_int
let mode_of = function
  | "Zero" -> MZero | "Away" -> MAway | "Up" -> MUp | "Down" -> MDown
  | "HalfEven" -> MHalfEven | "HalfAway" -> MHalfAway | m -> failwith ("mode " ^ m)

let bytes_of_tok (s : string) : Zar.t list =
  if s = "-" then [] else
  List.init (String.length s / 2) (fun i -> zi (int_of_string ("0x" ^ String.sub s (2 * i) 2)))
let tok_of_bytes (l : Zar.t list) : string =
  if l = [] then "-" else begin
    let b = Buffer.create (2 * List.length l) in
    List.iter (fun v -> Buffer.add_string b (Printf.sprintf "%02x" (Zar.to_int v))) l;
    Buffer.contents b end
let string_of_bytes l = String.init (List.length l) (fun i -> Char.chr (Zar.to_int (List.nth l i)))

let optz s = if s = "-" then None else Some (z s)

let flags_of (fl : string) (w : Zar.t option) : fmtflags =
  let has c = String.contains fl c in
  let align = if has '<' then Some ALeft else if has '>' then Some ARight else if has '^' then Some ACenter else None in
  { f_plus = has '+'; f_alt = false; f_zero = has '0'; f_align = align; f_width = w;
    f_fill = (match align with Some _ -> [ zi 42 ] | None -> [ zi 32 ]) }

let flag_name = function NoOp -> "NoOp" | AddOne -> "AddOne" | SubOne -> "SubOne"
let flag_of = function
  | "Exact" -> FExact | "NoOp" -> FInexact NoOp | "AddOne" -> FInexact AddOne | "SubOne" -> FInexact SubOne
  | f -> failwith ("flag " ^ f)
let flag_tok = function FExact -> "Exact" | FInexact r -> flag_name r | FUnknown -> "NoFlag"

let digits_len b v = Zar.to_int (dlen b v)

(* as-is models (Float/TextIoModel.v): fidelity statistic only, never the verdict *)
module Asis = struct
  let show_parse = function
    | Ok ((s, e), p) -> "ok " ^ hx s ^ " " ^ hx e ^ " " ^ hx p
    | Err _ -> "err"
    | _ -> "panic"
  let parse (b : Zar.t) (text : Zar.t list) = parse_asis b text
  let print (op : string) b m f s e prec : Zar.t list option =
    match op with
    | "disp" | "disp_repr" -> Some (fmt_round_asis b m f s e prec)
    | _ -> Some (sci_asis b m (op = "uexp" || op = "uexp_repr") f s e prec)
  let with_precision b p0 p m s e =
    let ((s', e'), f) = with_precision_asis b p0 p m s e in
    Printf.sprintf "ok %s %s %s %s" (hx s') (hx e') (flag_tok f) (hx p)
end

(* ---------------------------------------------------------------------------------------------
   The ln/exp route of convert_base as it is (Float/LargeExpAsis.v over the C11 as-is models of
   Float/ElemAsis.v).  The f32 estimate layer (Float/ElemF32.v, abstract in Coq) is instantiated with
   IEEE single arithmetic exactly as in oracle/driver_c11.ml: an f32 is an OCaml float holding a
   single-precision value; + - * / are computed in double and rounded to single (innocuous double
   rounding for these operations); log2 is the double log2 rounded to single (libm's log2f differs
   from it by one ulp on rare arguments: such a case shows as asis=diff, never as a verdict). *)
let r32 x = Int32.float_of_bits (Int32.bits_of_float x)
let f_of_z (v : Zar.t) : Stdlib.Float.t =
  if Zar.numbits v <= 53 then r32 (Zar.to_float v)
  else begin
    let av = Zar.abs v in
    let sh = Zar.numbits av - 30 in
    let top = Zar.shift_right av sh in
    let top = if Zar.equal (Zar.shift_left top sh) av then top else Zar.logor top Zar.one in
    let r = r32 (ldexp (Zar.to_float top) sh) in
    if Zar.sign v < 0 then -. r else r
  end
let two64 = Zar.shift_left Zar.one 64
let two63 = Zar.shift_left Zar.one 63
let f_to_usize x =
  if Stdlib.Float.is_nan x || x <= 0.0 then Zar.zero
  else if x >= 18446744073709551616.0 then Zar.pred two64 else Zar.of_float (Stdlib.Float.trunc x)
let f_to_isize x =
  if Stdlib.Float.is_nan x then Zar.zero
  else if x >= 9223372036854775808.0 then Zar.pred two63
  else if x <= -9223372036854775808.0 then Zar.neg two63 else Zar.of_float (Stdlib.Float.trunc x)
let next_up f =
  let bits = Int32.bits_of_float f in
  let abs = Int32.logand bits 0x7fff_ffffl in
  Int32.float_of_bits (if abs = 0l then 1l else if bits = abs then Int32.add bits 1l else Int32.sub bits 1l)
let next_down f =
  let bits = Int32.bits_of_float f in
  let abs = Int32.logand bits 0x7fff_ffffl in
  Int32.float_of_bits (if abs = 0l then 0x8000_0001l else if bits = abs then Int32.sub bits 1l else Int32.add bits 1l)
let f32 : Stdlib.Float.t f32ops =
  { f_of_Z = f_of_z; f_log2 = (fun x -> r32 (Stdlib.Float.log2 x));
    f_add = (fun a b -> r32 (a +. b)); f_sub = (fun a b -> r32 (a -. b));
    f_mul = (fun a b -> r32 (a *. b)); f_div = (fun a b -> r32 (a /. b));
    f_neg = (fun a -> -. a); f_ltb = (fun a b -> a < b);
    f_to_usize = f_to_usize; f_to_isize = f_to_isize; f_next_up = next_up; f_next_down = next_down;
    f_log10_2 = r32 0.301029995663981195213738894724493027; f_epsilon = ldexp 1.0 (-23); f_neg_inf = neg_infinity }
let rec nat_of_int n acc = if n <= 0 then acc else nat_of_int (n - 1) (S acc)
let fuel = nat_of_int 200000 O
let word_bits = zi 64

(* evaluation of the model under a wall-clock budget; None = not evaluated *)
exception Budget
let with_budget secs (f : unit -> 'a) : 'a option =
  let old = Sys.signal Sys.sigalrm (Sys.Signal_handle (fun _ -> raise Budget)) in
  let stop () =
    ignore (Unix.setitimer Unix.ITIMER_REAL { Unix.it_interval = 0.0; it_value = 0.0 });
    Sys.set_signal Sys.sigalrm old in
  ignore (Unix.setitimer Unix.ITIMER_REAL { Unix.it_interval = 0.0; it_value = secs });
  match f () with
  | v -> stop (); Some v
  | exception Budget -> stop (); None
  | exception Stack_overflow -> stop (); None
  | exception e -> stop (); raise e

let large_budget = try float_of_string (Sys.getenv "VERIF_C08_LARGE_BUDGET") with _ -> 2.0
(* the whole time this process may spend on the model of the ln/exp route (thorough runs hold tens of thousands of
   such cases with precisions of hundreds of digits); afterwards the envelope decides *)
let large_total = try float_of_string (Sys.getenv "VERIF_C08_LARGE_TOTAL") with _ -> 240.0
let large_spent = ref 0.0
(* passes of the retry loop of the repaired ln/exp route the model may take (the guard digits double with every pass) *)
let large_passes = nat_of_int 8 O
(* Some conv = what the as-is model of Context::convert_base predicts on every route; None = not evaluated *)
let full_asis b nb p m s e : conv option =
  match convert_base_asis4 b nb p m s e with
  | CLarge ->
      if Zar.gt p (zi 700) || !large_spent > large_total then None
      else begin
        let t0 = Unix.gettimeofday () in
        let r = with_budget large_budget (fun () -> convert_base_full_asis5 f32 word_bits large_passes fuel b nb p m s e) in
        large_spent := !large_spent +. (Unix.gettimeofday () -. t0);
        (match r with Some CLarge -> None | r -> r)
      end
  | r -> Some r

let threshold_small_exp = threshold_small_exp_gen   (* regenerated from float/src/convert.rs *)
(* the smallest r with n = r^k (k >= 1); two bases have a common root iff these agree *)
let primitive_root (n : Zar.t) : Zar.t =
  let n = Zar.to_int n in
  let rec pw r acc = if acc >= n then acc else pw r (acc * r) in
  let rec go r = if r >= n then n else if pw r r = n then r else go (r + 1) in
  zi (if n < 2 then n else go 2)
let common_root_spec b nb = Zar.equal (primitive_root b) (primitive_root nb)
(* error contract assumed for ln / exp / ln_base at the work precision, in units of the last place (ln_base of a
   power of two is a product, hence more than one unit) *)
let k_contract = zi 4

let judge op args got =
  let arg i = List.nth args i in
  let b = z (arg 0) in
  let m = mode_of (arg 1) in
  let norm s e = normalize b s e in
  match op with
  | "parse" | "parse_native" | "parse_repr" ->
      let text = bytes_of_tok (arg 2) in
      let asis = Asis.show_parse (if op = "parse_repr" then Asis.parse b text else fbig_from_str_asis b text) in
      let got_class = (match got with "err" :: _ -> "err" | _ -> String.concat " " got) in
      let fid = " asis=" ^ (if asis = got_class then "same" else "diff") in
      (match parse_spec b text with
       | Some ((s, e), p) ->
           expect ~extra:("cls=accept" ^ fid) ("ok " ^ hx s ^ " " ^ hx e ^ " " ^ hx p) got
       | None ->
           (match got with
            | "err" :: _ -> pass ~nt:false ~extra:("cls=reject" ^ fid) ()
            | _ -> fail "err"))
  | "disp" | "disp_repr" | "lexp" | "lexp_repr" | "uexp" | "uexp_repr" ->
      let (s, e) = norm (z (arg 2)) (z (arg 3)) in
      let f = flags_of (arg 5) (optz (arg 6)) in
      let prec = optz (arg 7) in
      let m = if String.length op > 5 then MZero else m in   (* Repr prints with mode Zero *)
      let body = match op with
        | "disp" | "disp_repr" -> display_body_spec b m s e prec
        | "lexp" | "lexp_repr" -> sci_body_spec b m false s e prec
        | _ -> sci_body_spec b m true s e prec in
      let neg = Zar.sign s < 0 in
      let want = pad_spec f neg body in
      let rounded = (match prec with
          | Some p -> (match op with
              | "disp" | "disp_repr" -> Zar.sign (Zar.add p e) < 0
              | _ -> Zar.gt (dlen b s) (Zar.succ p))
          | None -> false) in
      let asis = Asis.print op b m f s e prec in
      let fid = match asis with Some t -> " asis=" ^ (if [ "ok"; tok_of_bytes t ] = got then "same" else "diff") | None -> "" in
      let cls = "cls=" ^ (if rounded then "rounded" else "plain") ^ (if f.f_width <> None then "-width" else "") in
      (* the whole text is specified: sign, body, and the padding convention of core::fmt for numbers (pad_spec: the
         zero flag pads with zeros after the sign and overrides fill and alignment; otherwise fill characters
         according to the alignment, right by default) - since the repair F08 *)
      ignore layout_ok;
      expect ~nt:true ~extra:(cls ^ fid) ("ok " ^ tok_of_bytes want) got
  | "bin" | "oct" | "lhex" | "uhex" | "bin_repr" | "oct_repr" | "lhex_repr" | "uhex_repr" ->
      (* the radix-specific formats (impl_fmt_with_base!): {:b} base 2, {:o} base 8, {:x}/{:X} base 16 (positional, own
         marker) and {:x}/{:X} base 2 (hexadecimal form 0x1.8p3); FBig rounds under its mode, a bare Repr under Zero.
         Verdict: Float/RadixFmtModel.radix_spec (digits = spec_round to the requested number of digits - of BITS,
         4 prec + 4, for the hexadecimal form -, padding = core::fmt's convention with the prefix after the sign) *)
      let (s, e) = norm (z (arg 2)) (z (arg 3)) in
      let f = flags_of (arg 5) (optz (arg 6)) in
      let prec = optz (arg 7) in
      let is_repr = String.length op > 5 || op = "bin_repr" || op = "oct_repr" in
      let m = if is_repr then MZero else m in
      let tr = (match String.sub op 0 3 with "bin" -> TBinary | "oct" -> TOctal | "lhe" -> TLowerHex | _ -> TUpperHex) in
      (match radix_format b tr with
       | None -> fail "no-such-format"
       | Some ((upper, hex), mk) ->
           let want = radix_spec b m upper hex mk f s e prec in
           let asis = radix_asis b m upper hex mk f s e prec in
           let fid = " asis=" ^ (if [ "ok"; tok_of_bytes asis ] = got then "same" else "diff") in
           let nd = if hex then dlen (zi 2) s else dlen b s in
           let rounded = (match prec with
               | Some p -> Zar.gt nd (if hex then Zar.add (Zar.mul (zi 4) p) (zi 4) else Zar.succ p)
               | None -> false) in
           let cls = "cls=radix-" ^ (if hex then "hex" else "positional") ^ (if rounded then "-rounded" else "-plain")
                     ^ (if f.f_width <> None then "-width" else "") in
           expect ~nt:true ~extra:(cls ^ fid) ("ok " ^ tok_of_bytes want) got)
  | "dbg" | "dbg_alt" | "dbg_repr" | "dbg_repr_alt" ->
      (* Debug: the exact text of Float/DebugSpec.v (IBig's Debug at its C07 specification: 19 digits at each end
         around ".." from 2^128 on) *)
      let (s, e) = norm (z (arg 2)) (z (arg 3)) in
      let p0 = z (arg 4) in
      let dpw = fst (radix_info (zi 64) (zi 10)) and t128 = Zar.shift_left Zar.one 128 in
      let want = (match op with
          | "dbg" -> fbig_debug_spec dpw t128 b s e p0
          | "dbg_alt" -> fbig_debug_alt_spec dpw t128 b m s e p0
          | "dbg_repr" -> repr_debug_spec dpw t128 b s e
          | _ -> repr_debug_alt_spec dpw t128 b s e) in
      let cls = "cls=debug-" ^ (if Zar.numbits s <= 128 then "all-digits" else "abbreviated") in
      expect ~nt:true ~extra:cls ("ok " ^ tok_of_bytes want) got
  | "rt" | "rt_exp" ->
      let (s, e) = norm (z (arg 2)) (z (arg 3)) in
      let f = flags_of "-" None in
      let text = if op = "rt" then display_spec b m f s e None else sci_spec b m false f s e None in
      (match parse_spec b text with
       | Some ((s', e'), p') when Zar.equal s s' && Zar.equal e e' ->
           expect ~extra:"cls=roundtrip" (Printf.sprintf "ok %s %s %s %s" (tok_of_bytes text) (hx s) (hx e) (hx p')) got
       | _ -> { v = "fail"; extra = "spec-roundtrip-broken" })
  | "with_precision" ->
      let (s, e) = norm (z (arg 2)) (z (arg 3)) in
      let p = z (arg 5) in
      let ((s', e'), f) = with_precision_spec b p m s e in
      let want = Printf.sprintf "ok %s %s %s %s" (hx s') (hx e') (flag_tok f) (hx p) in
      let asis = Asis.with_precision b (z (arg 4)) p m s e in
      let fid = " asis=" ^ (if split_ws asis = got then "same" else "diff") in
      expect ~extra:("cls=" ^ (if f = FExact then "exact" else "rounded") ^ fid) want got
  | "with_base" | "with_base_prec" | "to_decimal" | "to_binary" ->
      let nb, m, si = match op with
        | "to_decimal" -> (zi 10, MHalfAway, 2) | "to_binary" -> (zi 2, MZero, 2) | _ -> (z (arg 2), m, 3) in
      let (s, e) = normalize b (z (arg si)) (z (arg (si + 1))) in
      let p0 = z (arg (si + 2)) in
      let x = float_rat b s e in
      let fixed_p = if op = "with_base_prec" then Some (z (arg (si + 3))) else None in
      let related = power_related b nb in
      let route = if Zar.equal b nb then "same" else if related then "power"
        else if Zar.leq (Zar.abs e) threshold_small_exp then (if Zar.sign e >= 0 then "small-pos" else "small-neg")
        else if common_root_spec b nb then "root" else "large" in
      (match got with
       | [ "ok"; rs; re; rf; rp ] ->
           let rs = z rs and re = z re and rp = z rp in
           (* the precision *)
           let prec_ok = match fixed_p with
             | Some p -> Zar.equal rp p
             | None ->
                 let pmax = if Zar.sign p0 = 0 then Zar.zero else base_prec_spec b nb p0 in
                 Zar.leq rp pmax && Zar.geq rp (Zar.pred pmax) && (Zar.sign pmax = 0 || Zar.sign rp > 0 || Zar.equal pmax Zar.one) in
           if not prec_ok then fail "precision-rule NewB^p'<=B^p, maximal"
           else if Zar.sign rp = 0 then begin
             (* unlimited target precision: only exact results are acceptable *)
             if cmp_kx nb Zar.one x rs re = Eq && rf = "Exact" then pass ~extra:("cls=unlimited-exact path=" ^ route) ()
             else fail "exact-or-panic-UnlimitedPrecision"
           end else begin
             let fl = flag_of rf in
             let full = check_contract nb rp m x rs re fl in
             let exact = cmp_kx nb Zar.one x rs re = Eq in
             let cls = (if exact then "exact" else "inexact") ^ "-" ^ rf in
             let asis = full_asis b nb rp m s e in
             let asis_same = (match asis with
                 | Some (CDone (s', e', f')) -> Some (Zar.equal s' rs && Zar.equal e' re && flag_tok f' = rf)
                 | Some _ -> Some false
                 | None -> None) in
             let fid = (match asis_same with Some true -> " asis=same" | Some false -> " asis=diff" | None -> "") in
             if Zar.sign s <> 0 then begin
               (* every route computes the value exactly and rounds ONCE, or - the ln/exp route since the repair of F05
                  (round 5) - returns an approximant's rounding only when both ends of its error interval round alike
                  and otherwise evaluates the power exactly / takes more digits: the answer must be THE specified float
                  (ConvBaseModel4.convert_base_spec: the p-digit float the mode names for s * B^e, normal form, truthful
                  flag; ConvBaseProof4.convert_base4_spec, LargeExpAsis5Proof.convert_large_loop_returns) *)
               let ((ws, we), wf) = convert_base_spec b nb rp m s e in
               let want = Printf.sprintf "ok %s %s %s %s" (hx ws) (hx we) (flag_tok wf) (hx rp) in
               let sub = if route = "large" then
                   (if large_exact_window nb rp s e then "-window" else "-far") else "" in
               if split_ws want = got && not full then { v = "fail"; extra = "specification-outside-the-contract(check broken)" }
               else expect ~extra:("cls=" ^ cls ^ " path=" ^ route ^ sub ^ fid) want got
             end
             else if full then pass ~extra:("cls=" ^ cls ^ " path=" ^ route ^ fid) ()
             else { v = "fail"; extra = "contract-violated cls=" ^ cls ^ " path=" ^ route }
           end
       | [ "panic"; "UnlimitedPrecision" ] ->
           let target_unlimited = match fixed_p with
             | Some p -> Zar.sign p = 0
             | None -> Zar.sign p0 = 0 || Zar.sign (base_prec_spec b nb p0) = 0 in
           if target_unlimited && not related then pass ~nt:false ~extra:"cls=unlimited-panic" () else fail "no-panic"
       | _ -> fail "ok-sig-exp-flag-prec")
  | "fpc" ->
      (* FBig::from_parts_const: value sign * sig * B^exp normalised, precision = max (digits, min_precision) *)
      let sg = z (arg 2) and e = z (arg 3) and mp = optz (arg 4) in
      let neg = Zar.sign sg < 0 in
      let ((s', e'), p') = from_parts_const_spec b neg (Zar.abs sg) e mp in
      let ((sa, ea), pa) = from_parts_const_asis (zi 64) b neg (Zar.abs sg) e mp in
      let txt s e p = Printf.sprintf "ok %s %s %s" (hx s) (hx e) (hx p) in
      let fid = " asis=" ^ (if split_ws (txt sa ea pa) = got then "same" else "diff") in
      let cls = "cls=fpc-" ^ (if Zar.sign sg = 0 then "zero" else if Zar.numbits sg > 64 then "dword" else "word") in
      expect ~extra:(cls ^ fid) (txt s' e' p') got
  | "wb_prec" ->
      (* FBig::with_base's precision: the implementation reports the two f32 bounds it divides (public API) and the
         precision it chose.  Premise (C12's contract, decided here by C12's bracket test log2_lb_dec): the bounds are
         sound.  Verdict: the documented rule NewB^p' <= B^p, p' maximal or one less.  As-is: with_base_prec_code
         (Float/WithBasePrec.v: IEEE division to nearest even, `as usize`) predicts p' exactly. *)
      let nb = z (arg 2) and p0 = z (arg 3) in
      (match got with
       | "ok" :: lb :: ub :: rest ->
           let lbz = z lb and ubz = z ub in
           let prec = (match List.rev rest with "panic" :: _ -> None | pr :: _ -> Some (z pr) | [] -> None) in
           let pmax = if Zar.sign p0 = 0 then Zar.zero else base_prec_spec b nb p0 in
           if Zar.sign p0 = 0 then
             (* B^0 = 1: lb = 0, the quotient is 0: unlimited target precision (panic unless power related) *)
             (match prec with
              | None -> if power_related b nb || Zar.equal b nb then fail "no-panic" else pass ~nt:false ~extra:"cls=wb-unlimited-panic" ()
              | Some pr -> if Zar.sign pr = 0 then pass ~nt:false ~extra:"cls=wb-unlimited" () else fail "precision-0")
           else
           (match f32_pos_decode lbz, f32_pos_decode ubz with
            | Some (m1, e1), Some (m2, e2) ->
                let dy m e = if Zar.sign e >= 0 then (Zar.mul m (Zar.pow (zi 2) (Zar.to_int e)), 0) else (m, - (Zar.to_int e)) in
                let (lm, lk) = dy m1 e1 and (um, uk) = dy m2 e2 in
                let bp = Zar.pow b (Zar.to_int p0) in
                let rec dec m k p q = function
                  | [] -> None
                  | pr :: more -> (match log2_lb_dec (zi pr) m (nat_of_int k O) p q with Some v -> Some v | None -> dec m k p q more) in
                let lb_ok = dec lm lk bp Zar.one [ 96; 256; 1024; 4096 ] in
                let ub_ok = dec (Zar.neg um) uk Zar.one nb [ 96; 256; 1024; 4096 ] in
                if lb_ok = Some false || ub_ok = Some false then
                  { v = "fail"; extra = "want=log2_bounds-sound(C12) lb=" ^ lb ^ " ub=" ^ ub }
                else begin
                  let sound = if lb_ok = Some true && ub_ok = Some true then "bounds-sound" else "bounds-undecided" in
                  let pred = with_base_prec_code lbz ubz in
                  let l = wb_L m1 e1 e2 and u = wb_U e1 m2 e2 in
                  let x = Zar.div l u in
                  let (fid, path) = (match pred, prec with
                      | Some ((_, _), p'), Some pr ->
                          ((if Zar.equal p' pr then " asis=same" else " asis=diff"),
                           (if Zar.equal p' x then "floor-of-exact-quotient" else if Zar.equal p' (Zar.succ x) then "rounded-up-to-integer" else "other"))
                      | Some ((_, _), p'), None ->
                          ((if Zar.sign p' = 0 then " asis=same" else " asis=diff"), "quotient-below-one")
                      | None, _ -> ("", "undecodable")) in
                  (match prec with
                   | None ->
                       if Zar.sign pmax = 0 || Zar.equal pmax Zar.one then
                         (if power_related b nb || Zar.equal b nb then fail "no-panic"
                          else pass ~nt:false ~extra:("cls=wb-precision-0-panic path=" ^ path ^ fid) ())
                       else fail "precision-rule NewB^p'<=B^p, maximal or one less"
                   | Some pr ->
                       if Zar.gt pr pmax then fail "precision-rule NewB^p'<=B^p"
                       else if Zar.lt pr (Zar.pred pmax) then fail "precision maximal or one less"
                       else pass ~extra:("cls=wb-" ^ (if Zar.equal pr pmax then "maximal" else "one-less") ^ "-" ^ sound ^ " path=" ^ path ^ fid) ())
                end
            | _ -> fail "positive-finite-bounds")
       | _ -> fail "ok-lb-ub-prec")
  | "from_f32" | "from_f64" | "from_f32_repr" | "from_f64_repr" ->
      let bits = z (arg 2) in
      let mw, ew = if op = "from_f32" || op = "from_f32_repr" then (zi 23, zi 8) else (zi 52, zi 11) in
      let repr = (op = "from_f32_repr" || op = "from_f64_repr") in
      let asis = from_ieee_asis (if Zar.equal mw (zi 23) then p32 else p64) bits in
      let fid = " asis=" ^ (match asis, got with
          | Some ((s, e), p), ("ok" :: gs :: ge :: rest) when gs <> "inf" && gs <> "-inf" ->
              if Zar.equal (z gs) s && Zar.equal (z ge) e && (repr || rest = [ hx p ]) then "same" else "diff"
          | None, ("err" :: _) -> "same"
          | None, ("ok" :: ("inf" | "-inf") :: _) -> "same"
          | _ -> "diff") in
      (match ieee_decode mw ew bits with
       | INan -> expect ~nt:false ~extra:("cls=nan" ^ fid) "err OutOfBounds" got
       | IInf neg -> expect ~nt:false ~extra:("cls=inf" ^ fid) (if repr then (if neg then "ok -inf 0" else "ok inf 0") else (if neg then "ok -inf 0 0" else "ok inf 0 0")) got
       | IFinite (_, _) ->
           (match from_ieee_spec mw ew bits with
            | Some ((s, e), p) ->
                expect ~extra:("cls=finite" ^ fid) (if repr then Printf.sprintf "ok %s %s" (hx s) (hx e) else Printf.sprintf "ok %s %s %s" (hx s) (hx e) (hx p)) got
            | None -> fail "spec"))
  | _ -> fail ("unknown-op-" ^ op)

let () = serve judge
