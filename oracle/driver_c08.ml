(* C08 oracle: every implementation answer is judged against the extracted Coq specifications of
   Float/TextIoSpec.v (grammar, print layout, with_precision, IEEE import) or, for base changes, by
   the extracted contract checker (Float/Contract.v) against the exact rational value.  The as-is
   models (Float/TextIoModel.v, Float/BaseConvModel.v) give the fidelity statistic and decide
   whether a disagreement lies in a listed finding class. *)
open Common
open Model

let zi = Zar.of_int
let mode_of = function
  | "Zero" -> MZero | "Away" -> MAway | "Up" -> MUp | "Down" -> MDown
  | "HalfEven" -> MHalfEven | "HalfAway" -> MHalfAway | m -> failwith ("mode " ^ m)

let bytes_of_tok (s : string) : Zar.t list =
  if s = "-" then [] else
  List.init (String.length s / 2) (fun i -> zi (int_of_string ("0x" ^ String.sub s (2 * i) 2)))
let tok_of_bytes (l : Zar.t list) : string =
  if l = [] then "-" else begin
    let b = Buffer.create (2 * List.length l) in
    List.iter (fun v -> Buffer.add_string b (Printf.sprintf "%02x" (Zar.to_int v))) l;
    Buffer.contents b end
let string_of_bytes l = String.init (List.length l) (fun i -> Char.chr (Zar.to_int (List.nth l i)))

let optz s = if s = "-" then None else Some (z s)

let flags_of (fl : string) (w : Zar.t option) : fmtflags =
  let has c = String.contains fl c in
  let align = if has '<' then Some ALeft else if has '>' then Some ARight else if has '^' then Some ACenter else None in
  { f_plus = has '+'; f_alt = false; f_zero = has '0'; f_align = align; f_width = w;
    f_fill = (match align with Some _ -> [ zi 42 ] | None -> [ zi 32 ]) }

let flag_name = function NoOp -> "NoOp" | AddOne -> "AddOne" | SubOne -> "SubOne"
let flag_of = function
  | "Exact" -> FExact | "NoOp" -> FInexact NoOp | "AddOne" -> FInexact AddOne | "SubOne" -> FInexact SubOne
  | f -> failwith ("flag " ^ f)
let flag_tok = function FExact -> "Exact" | FInexact r -> flag_name r | FUnknown -> "NoFlag"

let digits_len b v = Zar.to_int (dlen b v)

(* Debug output is only compared at the level of its shape: "<sig> * <B> ^ <exp>[ (prec: <p>)]",
   the significand possibly abbreviated as "<head>..<tail>" by the integer Debug printer *)
let check_debug ~alt ~repr b s e p (text : string) : bool =
  let dec = Zar.to_string s in
  let sig_ok shown =
    match Str.bounded_split_delim (Str.regexp_string "..") shown 2 with
    | [ full ] -> full = dec
    | [ head; tail ] ->
        let n = String.length dec and h = String.length head and t = String.length tail in
        h + t <= n && String.sub dec 0 h = head && String.sub dec (n - t) t = tail
    | _ -> false in
  if alt then begin
    (* pretty form: check the fields that carry the value *)
    let contains sub = try ignore (Str.search_forward (Str.regexp_string sub) text 0); true with Not_found -> false in
    contains (Printf.sprintf "exponent: %s ^ %s" (Zar.to_string b) (Zar.to_string e))
    && (repr || contains (Printf.sprintf "precision: %s" (Zar.to_string p)))
    && contains "significand: "
  end else begin
    let tail = Printf.sprintf " * %s ^ %s" (Zar.to_string b) (Zar.to_string e) ^ (if repr then "" else Printf.sprintf " (prec: %s)" (Zar.to_string p)) in
    let n = String.length text and t = String.length tail in
    n > t && String.sub text (n - t) t = tail && sig_ok (String.sub text 0 (n - t))
  end

(* as-is models (Float/TextIoModel.v): fidelity statistic only, never the verdict *)
module Asis = struct
  let show_parse = function
    | Ok ((s, e), p) -> "ok " ^ hx s ^ " " ^ hx e ^ " " ^ hx p
    | Err _ -> "err"
    | _ -> "panic"
  let parse (b : Zar.t) (text : Zar.t list) = parse_asis b text
  let print (op : string) b m f s e prec : Zar.t list option =
    match op with
    | "disp" | "disp_repr" -> Some (fmt_round_asis b m f s e prec)
    | _ when f.f_width = None ->
        let upper = (op = "uexp" || op = "uexp_repr") in
        Some ((if Zar.sign s < 0 then [ zi 45 ] else if f.f_plus then [ zi 43 ] else []) @ sci_body_asis b m upper s e prec)
    | _ -> None
  let with_precision b p0 p m s e =
    let ((s', e'), f) = with_precision_asis b p0 p m s e in
    Printf.sprintf "ok %s %s %s %s" (hx s') (hx e') (flag_tok f) (hx p)
end

let threshold_small_exp = zi 38
(* error contract assumed for ln / exp / ln_base at the work precision, in units of the last place (ln_base of a
   power of two is a product, hence more than one unit) *)
let k_contract = zi 4

let judge op args got =
  let arg i = List.nth args i in
  let b = z (arg 0) in
  let m = mode_of (arg 1) in
  let norm s e = normalize b s e in
  match op with
  | "parse" | "parse_native" | "parse_repr" ->
      let text = bytes_of_tok (arg 2) in
      let asis = Asis.show_parse (Asis.parse b text) in
      let got_class = (match got with "err" :: _ -> "err" | _ -> String.concat " " got) in
      let fid = " asis=" ^ (if asis = got_class then "same" else "diff") in
      (match parse_spec b text with
       | Some ((s, e), p) ->
           expect ~extra:("cls=accept" ^ fid) ("ok " ^ hx s ^ " " ^ hx e ^ " " ^ hx p) got
       | None ->
           (match got with
            | "err" :: _ -> pass ~nt:false ~extra:("cls=reject" ^ fid) ()
            | _ -> fail "err"))
  | "disp" | "disp_repr" | "lexp" | "lexp_repr" | "uexp" | "uexp_repr" ->
      let (s, e) = norm (z (arg 2)) (z (arg 3)) in
      let f = flags_of (arg 5) (optz (arg 6)) in
      let prec = optz (arg 7) in
      let m = if String.length op > 5 then MZero else m in   (* Repr prints with mode Zero *)
      let body = match op with
        | "disp" | "disp_repr" -> display_body_spec b m s e prec
        | "lexp" | "lexp_repr" -> sci_body_spec b m false s e prec
        | _ -> sci_body_spec b m true s e prec in
      let neg = Zar.sign s < 0 in
      let want = pad_spec f neg body in
      let rounded = (match prec with
          | Some p -> (match op with
              | "disp" | "disp_repr" -> Zar.sign (Zar.add p e) < 0
              | _ -> Zar.gt (dlen b s) (Zar.succ p))
          | None -> false) in
      let asis = Asis.print op b m f s e prec in
      let fid = match asis with Some t -> " asis=" ^ (if [ "ok"; tok_of_bytes t ] = got then "same" else "diff") | None -> "" in
      let cls = "cls=" ^ (if rounded then "rounded" else "plain") ^ (if f.f_width <> None then "-width" else "") in
      (* padding (width, fill, alignment, zero flag) is outside the property: the verdict is on sign + body *)
      (match got with
       | [ "ok"; t ] ->
           let g = bytes_of_tok t in
           if layout_ok f neg body g then
             pass ~nt:true ~extra:(cls ^ (if f.f_width <> None then " path=" ^ (if g = want then "padding-as-core-fmt" else "padding-differs") else "") ^ fid) ()
           else fail ("ok " ^ tok_of_bytes want)
       | _ -> fail ("ok " ^ tok_of_bytes want))
  | "dbg" | "dbg_alt" | "dbg_repr" | "dbg_repr_alt" ->
      let (s, e) = norm (z (arg 2)) (z (arg 3)) in
      (match got with
       | [ "ok"; t ] ->
           let text = string_of_bytes (bytes_of_tok t) in
           let alt = (op = "dbg_alt" || op = "dbg_repr_alt") and repr = (op = "dbg_repr" || op = "dbg_repr_alt") in
           if check_debug ~alt ~repr b s e (z (arg 4)) text then pass ~nt:false ~extra:"cls=debug-shape" () else fail "debug-shape"
       | _ -> fail "ok-text")
  | "rt" | "rt_exp" ->
      let (s, e) = norm (z (arg 2)) (z (arg 3)) in
      let f = flags_of "-" None in
      let text = if op = "rt" then display_spec b m f s e None else sci_spec b m false f s e None in
      (match parse_spec b text with
       | Some ((s', e'), p') when Zar.equal s s' && Zar.equal e e' ->
           expect ~extra:"cls=roundtrip" (Printf.sprintf "ok %s %s %s %s" (tok_of_bytes text) (hx s) (hx e) (hx p')) got
       | _ -> { v = "fail"; extra = "spec-roundtrip-broken" })
  | "with_precision" ->
      let (s, e) = norm (z (arg 2)) (z (arg 3)) in
      let p = z (arg 5) in
      let ((s', e'), f) = with_precision_spec b p m s e in
      let want = Printf.sprintf "ok %s %s %s %s" (hx s') (hx e') (flag_tok f) (hx p) in
      let asis = Asis.with_precision b (z (arg 4)) p m s e in
      let fid = " asis=" ^ (if split_ws asis = got then "same" else "diff") in
      expect ~extra:("cls=" ^ (if f = FExact then "exact" else "rounded") ^ fid) want got
  | "with_base" | "with_base_prec" | "to_decimal" | "to_binary" ->
      let nb, m, si = match op with
        | "to_decimal" -> (zi 10, MHalfAway, 2) | "to_binary" -> (zi 2, MZero, 2) | _ -> (z (arg 2), m, 3) in
      let (s, e) = normalize b (z (arg si)) (z (arg (si + 1))) in
      let p0 = z (arg (si + 2)) in
      let x = float_rat b s e in
      let fixed_p = if op = "with_base_prec" then Some (z (arg (si + 3))) else None in
      let related = power_related b nb in
      let route = if Zar.equal b nb then "same" else if related then "power"
        else if Zar.leq (Zar.abs e) threshold_small_exp then (if Zar.sign e >= 0 then "small-pos" else "small-neg") else "large" in
      (match got with
       | [ "ok"; rs; re; rf; rp ] ->
           let rs = z rs and re = z re and rp = z rp in
           (* the precision *)
           let prec_ok = match fixed_p with
             | Some p -> Zar.equal rp p
             | None ->
                 let pmax = if Zar.sign p0 = 0 then Zar.zero else base_prec_spec b nb p0 in
                 Zar.leq rp pmax && Zar.geq rp (Zar.pred pmax) && (Zar.sign pmax = 0 || Zar.sign rp > 0 || Zar.equal pmax Zar.one) in
           if not prec_ok then fail "precision-rule NewB^p'<=B^p, maximal"
           else if Zar.sign rp = 0 then begin
             (* unlimited target precision: only exact results are acceptable *)
             if cmp_kx nb Zar.one x rs re = Eq && rf = "Exact" then pass ~extra:("cls=unlimited-exact path=" ^ route) ()
             else fail "exact-or-panic-UnlimitedPrecision"
           end else begin
             let fl = flag_of rf in
             let full = check_contract nb rp m x rs re fl in
             let exact = cmp_kx nb Zar.one x rs re = Eq in
             let cls = (if exact then "exact" else "inexact") ^ "-" ^ rf in
             let fid = (match convert_base_asis b nb rp m s e with
                 | CDone (s', e', f') -> " asis=" ^ (if Zar.equal s' rs && Zar.equal e' re && flag_tok f' = rf then "same" else "diff")
                 | _ -> "") in
             if full then pass ~extra:("cls=" ^ cls ^ " path=" ^ route ^ fid) ()
             else if route = "large" && Zar.leq (dlen nb rs) (Zar.succ rp) then begin
               (* open finding: the ln/exp route is not faithful.  No as-is model of the series exists; the class is
                  the input route + an answer of the right shape inside the accuracy the STRUCTURE of the route
                  guarantees when ln and exp err by at most k_contract units in the last place of the work precision
                  (Float/LargeExpRoute.v convert_large_route_error, decided by large_route_check,
                  large_route_check_sound); where the theorem guarantees nothing (precision too small for the
                  size of the exponent: None) any answer of the right shape is in the class *)
               let (n, dv) = (match x with XRat (n, d) -> (n, d) | _ -> (Zar.zero, Zar.one)) in
               let within = if check_within_ulp nb rp x rs re then "within-1ulp" else "off-by-1ulp-or-more" in
               match large_route_check k_contract b nb rp e n dv rs re with
               | Some true ->
                   { (known "convert_base_large_exp_not_faithful" "contract") with
                     extra = "want=contract cls=large-" ^ within ^ " path=large-inside-proved-bound" }
               | None ->
                   { (known "convert_base_large_exp_not_faithful" "contract") with
                     extra = "want=contract cls=large-" ^ within ^ " path=large-no-accuracy-guaranteed" }
               | Some false -> { v = "fail"; extra = "outside-the-proved-bound-of-the-ln/exp-route cls=" ^ cls ^ " path=" ^ route }
             end
             else { v = "fail"; extra = "contract-violated cls=" ^ cls ^ " path=" ^ route }
           end
       | "panic" :: cl :: _ when route = "large" && Zar.sign (match fixed_p with Some p -> p | None -> p0) > 0
                                   && String.length cl >= 12 && String.sub cl 0 12 = "Undocumented" ->
           (* repr_div's debug assertion inside the ln/exp route *)
           { (known "convert_base_large_exp_not_faithful" "contract") with extra = "want=contract cls=large-debug-assertion path=" ^ route }
       | [ "panic"; "UnlimitedPrecision" ] ->
           let target_unlimited = match fixed_p with
             | Some p -> Zar.sign p = 0
             | None -> Zar.sign p0 = 0 || Zar.sign (base_prec_spec b nb p0) = 0 in
           if target_unlimited && not related then pass ~nt:false ~extra:"cls=unlimited-panic" () else fail "no-panic"
       | _ -> fail "ok-sig-exp-flag-prec")
  | "from_f32" | "from_f64" | "from_f32_repr" | "from_f64_repr" ->
      let bits = z (arg 2) in
      let mw, ew = if op = "from_f32" || op = "from_f32_repr" then (zi 23, zi 8) else (zi 52, zi 11) in
      let repr = (op = "from_f32_repr" || op = "from_f64_repr") in
      let asis = from_ieee_asis (if Zar.equal mw (zi 23) then p32 else p64) bits in
      let fid = " asis=" ^ (match asis, got with
          | Some ((s, e), p), ("ok" :: gs :: ge :: rest) when gs <> "inf" && gs <> "-inf" ->
              if Zar.equal (z gs) s && Zar.equal (z ge) e && (repr || rest = [ hx p ]) then "same" else "diff"
          | None, ("err" :: _) -> "same"
          | None, ("ok" :: ("inf" | "-inf") :: _) -> "same"
          | _ -> "diff") in
      (match ieee_decode mw ew bits with
       | INan -> expect ~nt:false ~extra:("cls=nan" ^ fid) "err OutOfBounds" got
       | IInf neg -> expect ~nt:false ~extra:("cls=inf" ^ fid) (if repr then (if neg then "ok -inf 0" else "ok inf 0") else (if neg then "ok -inf 0 0" else "ok inf 0 0")) got
       | IFinite (_, _) ->
           (match from_ieee_spec mw ew bits with
            | Some ((s, e), p) ->
                expect ~extra:("cls=finite" ^ fid) (if repr then Printf.sprintf "ok %s %s" (hx s) (hx e) else Printf.sprintf "ok %s %s %s" (hx s) (hx e) (hx p)) got
            | None -> fail "spec"))
  | _ -> fail ("unknown-op-" ^ op)

let () = serve judge
