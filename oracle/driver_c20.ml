(* C20 oracle.  The answer of the harness carries the token trees the macro front end received, the
   shape of the emitted token stream (which generator, which arrays), the value built from it by the
   real constructors, and what the run-time parser makes of the same text.
   spec  = Macro/LitModel.v *_tokens_spec (literal grammar) + Int/IoSpec.v from_str_*_spec (meaning
           of the digits) for integers and ratios; for floats the run-time parse of the same text
           (value and precision), which is what the property names as the reference
   asis  = *_tokens_asis (the token loops), gen_*_asis (the three generators) and eval_* (the
           constructors the emitted code calls)
   round 3, model fidelity (asis=same|diff on every case):
     lexer    - Macro/LitLexModel.v lex on the source text of the case vs the token trees the front end received
     pipeline - Macro/LitRefModel.v macro_{int,fbin,fdec,rat}_asis (token loop -> C07 / C08 / C04 as-is parser models ->
                generator -> constructor) vs the value the implementation built (or its refusal)
     run-time - int_runtime / rat_runtime (the run-time parser models on the text sign + value) vs the harness' `rt` *)
open Common
open Model

let unhex s =
  let n = String.length s / 2 in
  List.init n (fun i -> Zar.of_int (int_of_string ("0x" ^ String.sub s (2 * i) 2)))
let text_of_bytes l = String.concat "" (List.map (fun c -> String.make 1 (Char.chr (Zar.to_int c))) l)
let bytes_of_text s = List.init (String.length s) (fun i -> Zar.of_int (Char.code s.[i]))

let tok_of s =
  let k = match s.[0] with 'L' | 'l' -> TLit | 'I' | 'i' -> TIdent | 'P' | 'p' -> TPunct | _ -> TGroup in
  { tk = k; ttext = unhex (String.sub s 1 (String.length s - 1)) }

let rec take n l = if n = 0 then ([], l) else match l with x :: r -> let a, b = take (n - 1) r in (x :: a, b) | [] -> ([], [])

let sg = function Negative -> "-" | Positive -> "+"
let list_hex l = if l = [] then "-" else String.concat "," (List.map hx l)
let words_str q =
  hx q.q_max ^ String.concat "" (List.map (fun (l, d) -> " " ^ hx l ^ " " ^ list_hex d) q.q_sel)
let ishape_str signed_ = function
  | IC32 (s, u) -> Printf.sprintf "c32 %s %s %s" (if signed_ then "I" else "U") (sg s) (hx u)
  | IBytes (s, bs) -> Printf.sprintf "bytes %s %s %s %s" (if signed_ then "I" else "U") (sg s) (hx (Zar.of_int (List.length bs))) (list_hex bs)
  | IStatic (s, q) -> Printf.sprintf "static %s %s %s" (if signed_ then "I" else "U") (sg s) (words_str q)
let ishape_cls = function IC32 _ -> "c32" | IBytes _ -> "bytes" | IStatic _ -> "static"
let fshape_str static_ = function
  | FC32 (s, u, e, p) -> Printf.sprintf "fc32 %d %s %s %s %s" (if static_ then 1 else 0) (sg s) (hx u) (hx e) (hx p)
  | FStatic (s, q, e) -> Printf.sprintf "fstatic %s %s from_repr_const %s" (sg s) (hx e) (words_str q)
  | FHeap (i, e, p) -> Printf.sprintf "fheap %s %s %s" (hx e) (hx p) (ishape_str true i)
let fshape_cls = function FC32 _ -> "fc32" | FStatic _ -> "fstatic" | FHeap _ -> "fheap"
let rshape_str relaxed = function
  | RC32 (s, n, d) -> Printf.sprintf "rc32 %s %s %s %s" (if relaxed then "Re" else "RB") (sg s) (hx n) (hx d)
  | RParts (n, d) -> Printf.sprintf "rparts %s n %s d %s" (if relaxed then "Re" else "RB") (ishape_str true n) (ishape_str false d)
  | RStatic (s, qn, qd) -> Printf.sprintf "rstatic %s %s %s %s" (if relaxed then "Re" else "RB") (sg s) (words_str qn) (words_str qd)
let rshape_cls = function RC32 _ -> "rc32" | RParts _ -> "rparts" | RStatic _ -> "rstatic"

let w64 = Zar.of_int 64
let has flags c = String.contains flags c
let join l = String.concat " " l
let bits_cls m = let b = Zar.numbits m in
  if b = 0 then "0" else if b < 32 then "lt32" else if b = 32 then "32" else if b = 33 then "33" else if b <= 64 then "le64"
  else if b <= 128 then "le128" else if b <= 192 then "le192" else "gt192"

(* expected outcome of a macro invocation *)
type exp = Reject | Accept of string * string * string * string   (* answer up to "rt", run-time answer, class, canonical run-time text *)
let starts_with p s = String.length s >= String.length p && String.sub s 0 (String.length p) = p

let drop_plus s = String.concat "" (String.split_on_char '+' s)

(* the source text as the harness assembles it from the pieces of the case *)
let source_of pieces =
  let b = Buffer.create 64 in
  List.iter (fun t ->
    let k = t.[0] in
    let text = text_of_bytes (unhex (String.sub t 1 (String.length t - 1))) in
    if Char.uppercase_ascii k = k && Buffer.length b > 0 then Buffer.add_char b ' ';
    Buffer.add_string b text) pieces;
  Buffer.contents b

let tok_eq a b = a.tk = b.tk && List.length a.ttext = List.length b.ttext && List.for_all2 Zar.equal a.ttext b.ttext

(* lexer model vs the tokens of the front end: Some true / Some false / None (text outside the modelled alphabet) *)
let lexer_fidelity pieces (got_toks : token list option) =
  match lex (bytes_of_text (source_of pieces)), got_toks with
  | LexUnmodelled, _ -> None
  | LexOk ts, Some g -> Some (List.length ts = List.length g && List.for_all2 tok_eq ts g)
  | LexErr, None -> Some true
  | _, _ -> Some false

let w64z = Zar.of_int 64
let after key l = let rec go = function [] -> [] | x :: r -> if x = key then r else go r in go l
let between a b l = let rec upto = function [] -> [] | x :: r -> if x = b then [] else x :: upto r in upto (after a l)

(* the end-to-end as-is models against the implementation's value / refusal / run-time answer *)
let pipeline_fidelity op flags case_radix case_rt toks tail =
  let radix_of b = (match b with None -> 0 | Some bt -> (try int_of_string (text_of_bytes bt) with _ -> -1)) in
  let static_ = String.contains flags 's' in
  let is_reject = (match tail with "reject" :: _ -> true | _ -> false) in
  let value = between "val" "rt" tail in
  let rt = after "rt" tail in
  match op with
  | "int" ->
    let signed_ = String.contains flags 'i' in
    let m = macro_int_asis w64z w64z signed_ static_ toks in
    let main = (match m with None -> is_reject | Some zv -> (not is_reject) && value = [ hx zv ]) in
    (* the run-time parser model on sign + value, when the harness parsed the same text *)
    let rtok = (match int_tokens_asis signed_ toks, rt with
      | Some ((neg, v), b), [ r ] when r <> "na" && value_text_ok v && ((b <> None && case_radix <> 0 && radix_of b = case_radix) || (b = None && case_radix = 0))
             && case_rt = Some ((if neg then "-" else "") ^ text_of_bytes v) ->
        (match int_runtime w64z signed_ neg v b with Some zv -> r = hx zv | None -> r = "err")
      | _ -> true) in
    main && rtok
  | "fbin" | "fdec" ->
    let m = if op = "fbin" then macro_fbin_asis w64z static_ toks else macro_fdec_asis w64z static_ toks in
    (match m with
     | None -> is_reject
     | Some ((a, e), p) -> (not is_reject) && value = [ hx a; hx e; hx p ])
  | "rat" ->
    let m = macro_rat_asis w64z w64z static_ toks in
    let main = (match m with
      | None -> is_reject
      | Some (_, (a, c)) -> (not is_reject) && value = [ hx a; hx c ]) in
    let rtok = (match rat_tokens_asis toks, rt with
      | Some o, (_ :: _ as r) when r <> [ "na" ] && rat_texts_ok o ->
        let ((((rel, nneg), n), d), b) = o in
        let canon = (if nneg then "-" else "") ^ text_of_bytes n ^
                    (match d with None -> "" | Some (dneg, dt) -> "/" ^ (if dneg then "-" else "") ^ text_of_bytes dt) in
        if rel <> String.contains flags 'x' || radix_of b <> case_radix || (b <> None && case_radix = 0) || case_rt <> Some canon then true
        else (match rat_runtime w64z o with Some (a, c) -> r = [ hx a; hx c ] | None -> r = [ "err" ])
      | _ -> true) in
    main && rtok
  | _ -> true

let with_asis (v : verdict) fid = { v with extra = v.extra ^ (if fid then " asis=same" else " asis=diff") }

let rec judge op args got =
  let v = judge0 op args got in
  match args with
  | flags :: radix :: rttext :: pieces ->
    let case_radix = (try int_of_string ("0x" ^ radix) with _ -> -1) in
    let case_rt = if rttext = "-" then None else Some (drop_plus (text_of_bytes (unhex (String.sub rttext 1 (String.length rttext - 1))))) in
    (match got with
     | [ "lexerr" ] ->
       (match lexer_fidelity pieces None with None -> v | Some f -> with_asis v f)
     | "toks" :: n :: rest ->
       (try
          let n = int_of_string ("0x" ^ n) in
          let tks, tail = take n rest in
          let toks = List.map tok_of tks in
          let lf = (match lexer_fidelity pieces (Some toks) with None -> true | Some f -> f) in
          let pf = pipeline_fidelity op flags case_radix case_rt toks tail in
          let v = with_asis v (lf && pf) in
          let lexcls = (match lexer_fidelity pieces (Some toks) with None -> " path=lexer:unmodelled-text" | Some _ -> " path=lexer:modelled") in
          { v with extra = v.extra ^ lexcls ^ (if lf then "" else " lexer=diff") ^ (if pf then "" else " pipeline=diff") }
        with _ -> with_asis v false)
     | _ -> v)
  | _ -> v

and judge0 op args got =
  match args with
  | flags :: radix :: rttext :: _pieces ->
    begin match got with
    | [ "lexerr" ] -> pass ~nt:false ~extra:"cls=lexerr" ()
    | "toks" :: n :: rest ->
      let n = int_of_string ("0x" ^ n) in
      let tks, tail = take n rest in
      let toks = List.map tok_of tks in
      let tail_s = join tail in
      let static_ = has flags 's' in
      let case_rt = if rttext = "-" then None else Some (text_of_bytes (unhex (String.sub rttext 1 (String.length rttext - 1)))) in
      let case_radix = int_of_string ("0x" ^ radix) in
      let is_reject = (match tail with "reject" :: _ -> true | _ -> false) in
      (* compare with an expectation; the run-time text of the case must be the canonical one *)
      (* the grammar's reading: the macro builds the value and the run-time parser agrees on the same text *)
      let matches_spec e = match e with
        | Reject -> is_reject
        | Accept (t, v, _, _) -> tail_s = t ^ " rt " ^ v in
      (* the token loop's reading of a text outside the grammar: whatever the run-time parser says *)
      let matches_asis e = match e with
        | Reject -> is_reject
        | Accept (t, _, _, _) -> starts_with (t ^ " rt ") tail_s in
      let rt_consistent e = match e, case_rt with
        | Accept (_, _, _, canon), Some t -> canon = drop_plus t
        | Accept _, None -> false
        | Reject, _ -> true in
      let want e = match e with Reject -> "reject" | Accept (t, v, _, _) -> t ^ " rt " ^ v in
      let verdict ?(extra = "") spec asis tag =
        if not (rt_consistent spec) then fail "case-run-time-text-is-not-the-text-of-the-tokens"
        else if matches_spec spec then pass ~extra:(Printf.sprintf "cls=%s %s" (match spec with Reject -> "reject" | Accept (_, _, c, _) -> c) extra) ()
        else if spec <> asis && matches_asis asis then known tag (want spec)
        else fail (want spec) in
      begin match op with
      | "int" ->
        let signed_ = has flags 'i' in
        let expect_of r = match r with
          | None -> Reject
          | Some ((neg, v), b) ->
            (match macro_uint_value v b with
             | None -> Reject
             | Some (m, r) ->
               let s = if neg then Negative else Positive in
               let sh = gen_int_asis static_ s m in
               let value = int_spec s m in
               let built = eval_ishape w64 sh in
               let canon = (if neg then "-" else "") ^ text_of_bytes v in
               let want_radix = (match b with None -> 0 | Some _ -> Zar.to_int r) in
               if built <> Some value then Accept ("model-generator-does-not-build-the-value", "", "bad", canon)
               else if want_radix <> case_radix then Accept ("case-radix-differs-from-the-tokens", "", "bad", canon)
               else Accept (Printf.sprintf "ok %s val %s" (ishape_str signed_ sh) (hx value), hx value,
                            ishape_cls sh ^ "/" ^ bits_cls m, canon)) in
        let spec = expect_of (int_tokens_spec signed_ toks) and asis = expect_of (int_tokens_asis signed_ toks) in
        verdict spec asis "int-tokens-outside-grammar"
      | "rat" ->
        let expect_of r = match r with
          | None -> Reject
          | Some o ->
            let ((((rel, nneg), n), d), b) = o in
            (match macro_rat_value o with
             | None -> Reject
             | Some ((rel', num), den) ->
               let sh = gen_ratio_asis static_ num den in
               let built = eval_rshape w64 rel sh in
               let canon = (if nneg then "-" else "") ^ text_of_bytes n ^
                           (match d with None -> "" | Some (dneg, dt) -> "/" ^ (if dneg then "-" else "") ^ text_of_bytes dt) in
               let want_radix = (match b with None -> 0 | Some bt -> int_of_string (text_of_bytes bt)) in
               if built <> Some (num, den) then Accept ("model-generator-does-not-build-the-value", "", "bad", canon)
               else if want_radix <> case_radix || rel <> has flags 'x' then Accept ("case-radix-or-type-differs-from-the-tokens", "", "bad", canon)
               else
                 let v = hx num ^ " " ^ hx den in
                 Accept (Printf.sprintf "ok %s val %s" (rshape_str rel sh) v, v,
                         rshape_cls sh ^ "/" ^ bits_cls (Zar.abs num) ^ "/" ^ bits_cls den, canon)) in
        let spec = expect_of (rat_tokens_spec toks) and asis = expect_of (rat_tokens_asis toks) in
        verdict spec asis "rat-tokens-outside-grammar"
      | "fbin" | "fdec" ->
        let dec = (op = "fdec") in
        let base = Zar.of_int (if dec then 10 else 2) in
        let fsign, canon =
          if dec then (None, text_of_bytes (join_tokens toks))
          else let s, body = fbin_text_split toks in (Some s, (if s = Negative then "-" else "") ^ text_of_bytes body) in
        if case_rt <> Some canon then fail "case-run-time-text-is-not-the-text-of-the-tokens"
        else begin
          (* reference: what the run-time parser makes of the same text *)
          let rec after key = function [] -> [] | x :: r -> if x = key then r else after key r in
          let rt = after "rt" tail in
          (* fbig! strips one sign itself; a second one is outside the grammar (model: fbin_text_asis = None) *)
          let second_sign = (not dec) && fbin_text_asis toks = None && fbin_text_spec toks = None in
          match rt with
          | _ when second_sign -> if is_reject then pass ~extra:"cls=reject" () else fail "reject"
          | [ "err" ] -> if is_reject then pass ~extra:"cls=reject" () else fail "reject"
          | [ sig_; e; p ] ->
            let sigz = z sig_ and ez = z e and pz = z p in
            let s = (match fsign with Some s -> s | None -> if Zar.sign sigz < 0 then Negative else Positive) in
            let mag = Zar.abs sigz in
            let sh = gen_float_asis static_ s mag ez pz in
            let spec_val = Printf.sprintf "%s %s %s" (hx sigz) (hx ez) (hx pz) in
            let render v = Printf.sprintf "ok %s val %s rt %s" (fshape_str static_ sh) v spec_val in
            let cls = "cls=" ^ fshape_cls sh ^ "/" ^ bits_cls mag in
            if tail_s = render spec_val then pass ~extra:cls ()
            else begin
              match eval_fshape base w64 sh with
              | Some ((a, e'), p') ->
                let asis_val = Printf.sprintf "%s %s %s" (hx a) (hx e') (hx p') in
                let zero_cls = Zar.sign mag = 0 && Zar.sign pz <> 0 in
                let static_cls = static_ && Zar.numbits mag > 32 && Zar.sign pz <> 0 in
                if tail_s = render asis_val && asis_val <> spec_val && zero_cls then known "zero-float-precision" (render spec_val)
                else if tail_s = render asis_val && asis_val <> spec_val && static_cls then known "static-float-precision" (render spec_val)
                else fail (render spec_val)
              | None -> fail (render spec_val)
            end
          | _ -> fail "run-time-answer-unreadable"
        end
      | _ -> fail ("unknown-op-" ^ op)
      end
    | _ -> fail "answer-unreadable"
    end
  | _ -> fail "case-unreadable"

let () = serve judge
