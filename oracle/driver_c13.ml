(* C13 oracle: judges the implementation's answers against the extracted Coq specifications.
   spec = Int/ModRingSpec.v (a mod m mathematics, proved executable power / inverse)
   asis = Int/ModRingModel.v instantiated at 64-bit words (Int/ModRingInst.v), used for the
          model-fidelity statistic and to classify known findings.                                *)
open Common
open Model

(* round 5: the word size of the build that answered (token wb=<bits> of every `ok` answer; panics carry none: the
   environment variable C13_W set by the plug-in for the other build, default 64).  Every as-is run below is the
   word-size-parametrised instance (ModRingWInst.v, proved = specification for every w >= 8: C13_wrun_..., C13_whrun_...). *)
let wr = ref 64
let env_w = match Sys.getenv_opt "C13_W" with Some s -> (try int_of_string s with _ -> 64) | None -> 64
let zw () = Zar.of_int !wr
let run_reduce m x = grun_reduce (zw ()) m x
let run_bin o i1 i2 m1 m2 x y = grun_bin (zw ()) o i1 i2 m1 m2 x y
let run_un o m x = grun_un (zw ()) o m x
let run_pow m x e = grun_pow (zw ()) m x e
let run_inv m x = grun_inv (zw ()) m x
let run_eq i1 i2 m1 m2 x y = grun_eq (zw ()) i1 i2 m1 m2 x y
let run_rd st o m x y = grun_rd (zw ()) st o m x y
let run_rd_inv m x = grun_rd_inv (zw ()) m x
let run_rd_check st m t = grun_rd_check (zw ()) st m t
let rd_check_spec m t = grd_check_spec (zw ()) m t
let run_rd_modulus m = grun_rd_modulus (zw ()) m
let i_new id m = gi_new (zw ()) id m
let hrun_reduce m x = ghrun_reduce (zw ()) m x
let hrun_bin o m x y = ghrun_bin (zw ()) o m x y
let hrun_un o m x = ghrun_un (zw ()) o m x
let hrun_pow m x e = ghrun_pow (zw ()) m x e
let hrun_inv m x = ghrun_inv (zw ()) m x
let hrun_eq m x y = ghrun_eq (zw ()) m x y
let hrun_transform m x = ghrun_transform (zw ()) m x
let hrun_inv_src m x = ghrun_inv_src (zw ()) m x
let hrun_div_src m x y = ghrun_div_src (zw ()) m x y
let hrun_gcd_probe m x = ghrun_gcd_probe (zw ()) m x
let hrun_rd_lin o m x y = ghrun_rd_lin (zw ()) o m x y
let run_clone_from m1 m2 x y c = grun_clone_from (zw ()) m1 m2 x y c

let reason_s = function
  | DivideBy0 -> "DivideBy0" | NegativeUBig -> "NegativeUBig" | DifferentRings -> "DifferentRings"
  | NonInvertible -> "NonInvertible" | Undocumented -> "Undocumented" | _ -> "Other"

(* render a model result the way the harness answers *)
let render (f : 'a -> string) (r : 'a result) : string =
  match r with
  | Ok v -> "ok " ^ f v
  | Panic p -> "panic " ^ reason_s p
  | Err _ -> "err"
  | OutOfFuel -> "outoffuel"

let opt_s f = function None -> "none" | Some v -> "some " ^ f v
let triple_s ((res, chk), raw) = hx res ^ " " ^ b2s chk ^ " " ^ hx raw

(* an "Undocumented:..." panic of the implementation is compared by class only *)
let norm_got got =
  match got with
  | [ "panic"; c ] when String.length c >= 12 && String.sub c 0 12 = "Undocumented" -> [ "panic"; "Undocumented" ]
  | _ -> got

let fid asis got = "asis=" ^ if split_ws asis = norm_got got then "same" else "diff"

(* round 3: TWO as-is models must reproduce the answer - the value-level instance (ModRingInst.v) and the second
   instance (ModRingConvInst.v: multi-word rings on word lists with the real kernels of C01 / C02, one- and two-word
   rings with num-modular as transcribed); path= says which half of the second instance ran *)
let fid2 asis asis2 got =
  "asis=" ^ (if split_ws asis = norm_got got && split_ws asis2 = norm_got got then "same" else "diff")

let path_s m = if Zar.geq m (Zar.shift_left Zar.one (2 * !wr)) then "path=words" else "path=nm"

(* round 4: a THIRD as-is run for inverse and division of the multi-word ring - word lists + real kernels + the extended gcd
   of the source (gcd_ext_word / gcd_ext_dword transcribed, C12's as-is Lehmer gcd_ext_in_place, logarithmic fuels);
   asis=same needs all three.  path=...+gcd-<branch> says which gcd branch ran on (modulus, residue); a Panic / OutOfFuel of the gcd model
   (a debug assertion of the gcd code - proved impossible, C13_gcd_ext_src) is reported as asis=diff *)
let fid3 asis asis2 asis3 probe_ok got =
  "asis=" ^ (if probe_ok && split_ws asis = norm_got got && split_ws asis2 = norm_got got && split_ws asis3 = norm_got got then "same" else "diff")

let gcd_probe m x =
  if Zar.lt m (Zar.shift_left Zar.one (2 * !wr)) then (true, "gcd-invm")
  else match hrun_gcd_probe m x with
    | Ok (((br, _), _), _) ->
        (true, "gcd-" ^ (match Zar.to_int br with 0 -> "zero" | 1 -> "word" | 2 -> "dword" | _ -> "lehmer"))
    | Panic _ -> (false, "gcd-model-panic")
    | _ -> (false, "gcd-model-outoffuel")

let kind_s m =
  match i_new Zar.zero m with
  | Ok r -> (match r_kind r with KSingle -> "single" | KDouble -> "double" | KLarge -> "large")
            ^ (if Zar.sign (r_shift r) = 0 then "-aligned" else "-shifted") ^ (if !wr = 64 then "" else "@w" ^ string_of_int !wr)
  | _ -> "invalid"

let binop_of = function "add" -> OAdd | "sub" -> OSub | "mul" -> OMul | _ -> ODiv
let unop_of = function "neg" -> ONeg | "dbl" -> ODbl | _ -> OSqr

let rec judge op args got =
  (* the word-size token: last token of an `ok` answer *)
  match List.rev got with
  | t :: rest when String.length t > 3 && String.sub t 0 3 = "wb=" ->
      wr := (try int_of_string (String.sub t 3 (String.length t - 3)) with _ -> env_w);
      let r = judge0 op args (List.rev rest) in
      r
  | _ -> wr := env_w; judge0 op args got

and judge0 op args got =
  let a i = z (List.nth args i) in
  let s i = List.nth args i in
  let zero = Zar.zero and one = Zar.one in
  let verdict ?(nt = true) m want asis =
    expect ~nt ~extra:(fid asis got ^ " cls=" ^ kind_s m) want got in
  let verdict2 ?(nt = true) m want asis asis2 =
    expect ~nt ~extra:(fid2 asis asis2 got ^ " cls=" ^ kind_s m ^ " " ^ path_s m) want got in
  match op with
  | "reduce" ->
      let m = a 2 and x = a 3 in
      let x = if s 0 = "bool" then (if Zar.sign x = 0 then zero else one) else x in
      verdict2 m ("ok " ^ hx (reduce_spec m x) ^ " " ^ hx m)
        (render (fun (v, md) -> hx v ^ " " ^ hx md) (run_reduce m x))
        (render (fun (v, md) -> hx v ^ " " ^ hx md) (hrun_reduce m x))
  | "div" ->
      let m = a 2 and x = a 3 and y = a 4 in
      let (pok, ps) = gcd_probe m y in
      let r = render (fun v -> hx v ^ " " ^ hx m) in
      expect ~extra:(fid3 (r (run_bin ODiv zero zero m m x y)) (r (hrun_bin ODiv m x y)) (r (hrun_div_src m x y)) pok got
                     ^ " cls=" ^ kind_s m ^ " " ^ path_s m ^ "+" ^ ps)
        (r (bin_spec ODiv m x y)) got
  | "add" | "sub" | "mul" ->
      let m = a 2 and x = a 3 and y = a 4 in
      let o = binop_of op in
      verdict2 m (render (fun v -> hx v ^ " " ^ hx m) (bin_spec o m x y))
        (render (fun v -> hx v ^ " " ^ hx m) (run_bin o zero zero m m x y))
        (render (fun v -> hx v ^ " " ^ hx m) (hrun_bin o m x y))
  | "neg" ->
      let m = a 2 and x = a 3 in
      verdict2 m ("ok " ^ hx (un_spec ONeg m x)) (render hx (run_un ONeg m x)) (render hx (hrun_un ONeg m x))
  | "dbl" | "sqr" ->
      let m = a 1 and x = a 2 in
      let o = unop_of op in
      verdict2 m ("ok " ^ hx (un_spec o m x)) (render hx (run_un o m x)) (render hx (hrun_un o m x))
  | "pow" ->
      let m = a 1 and x = a 2 and e = a 3 in
      (* the word-list instance multiplies and divides lists word by word: its cost grows with n^2 * bits of the exponent;
         beyond the budget (about 64 words x 480 bits) only the value-level instance is evaluated *)
      let n = (Zar.numbits m + !wr - 1) / !wr in
      if n * n * Zar.numbits e > 2_000_000 then
        expect ~extra:(fid (render hx (run_pow m x e)) got ^ " cls=" ^ kind_s m ^ " path=words-skipped") ("ok " ^ hx (powm m x e)) got
      else
      verdict2 m ("ok " ^ hx (powm m x e)) (render hx (run_pow m x e)) (render hx (hrun_pow m x e))
  | "inv" ->
      let m = a 1 and x = a 2 in
      (* the specification is the predicate inv_ok (the inverse is unique, so this also fixes the value) *)
      let asis = render (opt_s hx) (run_inv m x) in
      let asis2 = render (opt_s hx) (hrun_inv m x) in
      let asis3 = render (opt_s hx) (hrun_inv_src m x) in
      let (pok, ps) = gcd_probe m x in
      let ok = (match got with
        | [ "ok"; "none" ] -> inv_ok m x None
        | [ "ok"; "some"; v ] -> inv_ok m x (Some (z v))
        | _ -> false) in
      if ok then pass ~extra:(fid3 asis asis2 asis3 pok got ^ " cls=" ^ kind_s m ^ " " ^ path_s m ^ "+" ^ ps) ()
      else fail ("ok " ^ opt_s hx (inv_spec m x))
  | "eq" ->
      let m = a 1 and x = a 2 and y = a 3 in
      verdict2 m ("ok " ^ b2s (Zar.equal (reduce_spec m x) (reduce_spec m y))) (render b2s (run_eq zero zero m m x y))
        (render b2s (hrun_eq m x y))
  | "cl" ->
      let m = a 1 and x = a 2 in
      verdict2 m ("ok " ^ hx (dbl_spec m x)) (render hx (run_un ODbl m x)) (render hx (hrun_un ODbl m x))
  | "clx" ->
      (* clone / clone_from into a destination of another ring: the destination IS the source afterwards *)
      let m1 = a 1 and m2 = a 2 and x = a 3 and y = a 4 and c = a 5 in
      let want = "ok " ^ hx m1 ^ " " ^ hx (reduce_spec m1 x) ^ " 1 " ^ hx (reduce_spec m1 (Zar.add x c)) in
      let asis = render (fun (((md, rs), e), sv) -> hx md ^ " " ^ hx rs ^ " " ^ b2s e ^ " " ^ hx sv) (run_clone_from m1 m2 x y c) in
      expect ~extra:(fid asis got ^ " cls=" ^ kind_s m1 ^ ">" ^ kind_s m2) want got
  | "mix" ->
      (* two ConstDivisor instances, whatever their moduli: the documented panic *)
      let m1 = a 1 and m2 = a 2 and x = a 3 and y = a 4 in
      let w = s 0 in
      let base = (match String.index_opt w '_' with Some i -> String.sub w 0 i | None -> w) in
      let asis = if base = "eq" then render b2s (run_eq one (Zar.of_int 2) m1 m2 x y)
                 else render hx (run_bin (binop_of base) one (Zar.of_int 2) m1 m2 x y) in
      (* division computes the inverse first: a non-invertible divisor is reported before the ring check *)
      let want = if base = "div" && inv_spec m2 y = None then "panic NonInvertible" else "panic DifferentRings" in
      verdict m1 want asis
  | "new0" ->
      (* ConstDivisor::new(0) / from_word(0) / from_dword(0): the documented panic; the model: new_ring of 0 *)
      expect ~extra:(fid (render (fun _ -> "ring") (i_new zero zero)) got ^ " cls=zero") "panic DivideBy0" got
  | "r_modulus" -> let m = a 0 in verdict m ("ok " ^ hx m) (render hx (run_rd_modulus m))
  | "r_check" ->
      let m = a 0 and t = a 1 in
      let want = render b2s (rd_check_spec m t) in
      let asis = render b2s (run_rd_check true m t) in
      verdict m want asis
  | "r_is_zero" -> let m = a 0 and x = a 1 in
      expect ~extra:("cls=" ^ kind_s m) ("ok " ^ b2s (Zar.sign (reduce_spec m x) = 0)) got
  | "r_transform" | "r_add" | "r_sub" | "r_mul" | "r_dbl" | "r_neg" | "r_sqr" | "r_pow" ->
      let m = a 0 and x = a 1 in
      let y = if List.length args > 2 then a 2 else zero in
      let o, res = (match op with
        | "r_transform" -> RTransform, reduce_spec m x
        | "r_add" -> RAdd, add_spec m x y | "r_sub" -> RSub, sub_spec m x y | "r_mul" -> RMul, mul_spec m x y
        | "r_dbl" -> RDbl, dbl_spec m x | "r_neg" -> RNeg, neg_spec m x | "r_sqr" -> RSqr, sqr_spec m x
        | _ -> RPow, powm m x y) in
      let asis = render triple_s (run_rd true o m x y) in
      (* the raw form of transform as the second instance computes it (word lists / num-modular transcribed) *)
      let raw2_ok = (match op, got with
        | "r_transform", [ "ok"; _; _; raw ] -> (match hrun_transform m x with Ok t -> hx t = raw | _ -> false)
        (* round 4: reduce_once / reduce_negate on word lists (C01's borrow kernels) in the multi-word ring *)
        | ("r_add" | "r_sub" | "r_dbl" | "r_neg"), [ "ok"; _; _; raw ] -> (match hrun_rd_lin o m x y with Ok t -> hx t = raw | _ -> false)
        | _ -> true) in
      let f = if raw2_ok then fid asis got else "asis=diff" in
      (* demanded: the residue, and that the result is a valid reduced form; the raw form is observed only *)
      (match got with
       | [ "ok"; r; "1"; _ ] when r = hx res -> pass ~extra:(f ^ " cls=" ^ kind_s m ^ (match op with "r_transform" | "r_add" | "r_sub" | "r_dbl" | "r_neg" -> " " ^ path_s m | _ -> "")) ()
       | _ -> fail ("ok " ^ hx res ^ " 1 <raw>"))
  | "r_inv" ->
      let m = a 0 and x = a 1 in
      let asis = render (opt_s triple_s) (run_rd_inv m x) in
      let ok = (match got with
        | [ "ok"; "none" ] -> inv_ok m x None
        | [ "ok"; "some"; v; "1"; _ ] -> inv_ok m x (Some (z v))
        | _ -> false) in
      if ok then pass ~extra:(fid asis got ^ " cls=" ^ kind_s m) () else fail ("ok " ^ opt_s hx (inv_spec m x) ^ " 1 <raw>")
  | _ -> fail ("unknown-op-" ^ op)

let () = serve judge
