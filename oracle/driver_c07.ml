(* C07 oracle: judges the implementation's answers against the extracted Coq specifications
   (Int/IoSpec.v); the as-is models (Int/IoModel.v, word size 64) give the fidelity statistic and
   decide whether a disagreement lies in a listed finding class.                                   *)
open Common

(* the word size of the answering build: every `ok` answer of the harness ends in `wb=<bits>` (CONFIGS default / w32);
   the word-level and value-level as-is models are run at exactly that size *)
let wcur = ref (Zar.of_int 64)
let zi = Zar.of_int

(* text / bytes: "x" ^ hex *)
let bytes_of_tok (s : string) : Zar.t list =
  let n = (String.length s - 1) / 2 in
  List.init n (fun i -> zi (int_of_string ("0x" ^ String.sub s (1 + 2 * i) 2)))
let tok_of_bytes (l : Zar.t list) : string =
  let b = Buffer.create (2 * List.length l + 1) in
  Buffer.add_char b 'x';
  List.iter (fun v -> Buffer.add_string b (Printf.sprintf "%02x" (Zar.to_int v))) l;
  Buffer.contents b

let kind_of (s : string) : Model.fkind =
  match s with
  | "disp" -> Model.KDisplay | "bin" -> Model.KBinary | "oct" -> Model.KOctal
  | "lhex" -> Model.KLowerHex | "uhex" -> Model.KUpperHex
  | _ -> Model.KInRadix (Zar.of_string_base 16 (String.sub s 1 (String.length s - 1)))

(* ".[fill][align][+][#][0][w]" ; fill S = U+00DF *)
let flags_of (spec : string) (width : Zar.t) : Model.fmtflags =
  let has c = String.contains spec c in
  let n = String.length spec in
  let fill, align =
    let al c = match c with '<' -> Some Model.ALeft | '>' -> Some Model.ARight | '^' -> Some Model.ACenter | _ -> None in
    if n >= 3 && al spec.[2] <> None then
      ((match spec.[1] with 'S' -> [ zi 0xc3; zi 0x9f ] | c -> [ zi (Char.code c) ]), al spec.[2])
    else if n >= 2 && al spec.[1] <> None then ([ zi 32 ], al spec.[1])
    else ([ zi 32 ], None)
  in
  (* a '0' that is the fill character is not the zero flag: look after the alignment *)
  let rest = match align with
    | None -> spec
    | Some _ -> let i = (if n >= 3 && (spec.[2] = '<' || spec.[2] = '>' || spec.[2] = '^') then 3 else 2) in String.sub spec i (n - i) in
  let hasr c = String.contains rest c in
  ignore has;
  { Model.f_plus = hasr '+'; f_alt = hasr '#'; f_zero = hasr '0'; f_align = align;
    f_width = (if hasr 'w' then Some width else None); f_fill = fill }

let res_text = function
  | Model.Ok l -> "ok " ^ tok_of_bytes l
  | Model.Panic Model.InvalidRadix -> "panic InvalidRadix"
  | Model.Panic _ -> "panic Undocumented"
  | Model.Err _ -> "err"
  | Model.OutOfFuel -> "outoffuel"

let err_name e = match Zar.to_int e with 1 -> "NoDigits" | 2 -> "InvalidDigit" | 3 -> "UnsupportedRadix" | _ -> "?"

let same b = "asis=" ^ if b then "same" else "diff"

(* magnitudes up to this many bits (texts up to a third as many bytes) are also run through the word-level models *)
let words_limit = try int_of_string (Sys.getenv "C07_WORDS_LIMIT") with _ -> 70000

let judge op args got =
  let arg i = List.nth args i in
  let bits = List.fold_left (fun acc t -> if String.length t > 3 && String.sub t 0 3 = "wb=" then int_of_string (String.sub t 3 (String.length t - 3)) else acc) 64 got in
  wcur := Zar.of_int bits;
  let got = List.filter (fun t -> not (String.length t > 3 && String.sub t 0 3 = "wb=") && t <> "dbg") got in
  let wtag = " wb=" ^ string_of_int bits in
  ignore wtag;
  match op with
  | "fmt" ->
      let ty = arg 0 and k = kind_of (arg 1) and width = Zar.of_string_base 16 (arg 3) in
      let f = flags_of (arg 2) width in
      let v0 = z (arg 4) in
      let v = if ty = "u" then Zar.abs v0 else v0 in
      let spec = Model.fmt_spec k f v and asis = Model.fmt_asis !wcur k f v in
      (* the same entry point read through the regenerated trait tables (IoFmt3Model) *)
      let asis_t = Model.fmt_tables_asis !wcur (if ty = "u" then Zar.zero else Zar.one) k f v in
      (* ... and over the word-level converters (IoBigModel: word loops, C01's pow/sqr/mul and C02's div_rem models);
         the list-based kernels are slow, very long values are left to the value-level model *)
      let words_ok t = if Zar.numbits v > words_limit then true else res_text (Model.fmt_words_asis !wcur k f v) = t in
      (* DigitWriter + SWAR (IoWriter.dw_text: 8-byte chunks, the DigitCase of the regenerated tables, the digits cut into
         write calls of 19): the digit characters at the end of an unpadded text *)
      let writer_ok o =
        if f.Model.f_width <> None || Zar.numbits v > words_limit then true else begin
          let case_id = (match k with
            | Model.KInRadix r -> Some (r, Model.inradix_case r f.Model.f_alt)
            | _ -> (match Model.trait_id k with
                    | Some t -> (match Model.trait_lookup t (if ty = "u" then Zar.zero else Zar.one) Model.gen_fmt_traits with
                                 | Some ((r, _), c) -> Some (r, c) | None -> None)
                    | None -> None)) in
          match case_id with
          | None -> false
          | Some (r, c) ->
              let ds = Model.digits_asis !wcur r (Zar.abs v) in
              let chars = tok_of_bytes (Model.dw_text (zi 8) (Model.case_offset c) (zi 19) ds) in
              let cl = String.length chars - 1 and ol = String.length o in
              ol - cl >= 1 && String.sub o (ol - cl) cl = String.sub chars 1 cl
        end in
      (* the printer read through the REGENERATED dispatch functions (IoDispatch4Model.digits_gen) *)
      let gen_ok () = let r = Model.kind_radix k in
        not (Model.radix_valid r) ||
        (let ds = Model.digits_asis !wcur r (Zar.abs v) in
         let prefix = if f.Model.f_alt then Model.kind_prefix k else [] in
         Model.digits_gen !wcur r (Zar.abs v) = ds
         (* ... and the layout regenerated from format_prepared's output statements, on these digits *)
         && Model.format_prepared_gen f (Zar.sign v < 0) prefix ds = Model.format_prepared_asis f (Zar.sign v < 0) prefix ds) in
      (match spec with
       | Model.Ok l ->
           let t = tok_of_bytes l in
           let fid = same (match got with "ok" :: o :: _ -> res_text asis = "ok " ^ o && res_text asis_t = "ok " ^ o && words_ok ("ok " ^ o) && writer_ok o && gen_ok () | _ -> false) in
           let cls = "cls=" ^ arg 1 ^ (if Zar.sign v < 0 then "-neg" else "") ^ (if bits = 64 then "" else "-w" ^ string_of_int bits) in
           (match got with
            | [ "ok"; o; r; p ] when o = t && r = t && (p = "na" || p = t) -> pass ~extra:(fid ^ " " ^ cls) ()
            | [ "ok"; o; r; p ] when o = t && r = t -> fail ("spec-differs-from-primitive " ^ t)
            | [ "ok"; o; r; _ ] when o = r -> fail ("spec-differs-from-pad_integral " ^ t)
            | _ -> fail ("ok " ^ t))
       | other -> expect ~extra:(same (res_text asis = String.concat " " got && res_text asis_t = String.concat " " got)) (res_text other) got)
  | "dbg" ->
      (* Debug: sign, all digits below 2^128, else 19 leading digits ".." 19 trailing digits; `#` adds the counts;
         width / fill / alignment / 0 are ignored *)
      let ty = arg 0 and sp = arg 1 in
      let v0 = z (arg 3) in
      let v = if ty = "u" then Zar.abs v0 else v0 in
      let plus = String.contains sp '+' and alt = String.contains sp '#' in
      let dpw = fst (Model.radix_info !wcur (zi 10)) in
      let t = tok_of_bytes (Model.debug_spec dpw (Zar.shift_left Zar.one (2 * bits)) plus alt v) in
      let asis = res_text (Model.debug_asis !wcur Model.gen_dbg_lits (Model.ilog_exact (zi 10)) plus alt v) in
      (* ... and with C12's log_word_base model inside (IoDebugLwbModel), run from a lowered estimate *)
      let asis_lwb = res_text (Model.debug_lwb_asis !wcur Model.gen_dbg_lits Model.est_under plus alt v) in
      let cls = "cls=dbg-" ^ (if Zar.numbits v <= bits then "word" else if Zar.numbits v <= 2 * bits then "dword" else "large") ^ (if alt then "-alt" else "")
                ^ (if bits = 64 then "" else "-w" ^ string_of_int bits) in
      (match got with
       (* the primitive's `{:?}` shows all digits: comparable only below a double word of the answering build *)
       | [ "ok"; o; p ] when o = t && (p = "na" || p = t || Zar.numbits v > 2 * bits) -> pass ~extra:(same (asis = "ok " ^ o && asis_lwb = "ok " ^ o) ^ " " ^ cls) ()
       | [ "ok"; o; _ ] when o = t -> fail ("spec-differs-from-primitive " ^ t)
       | _ -> fail ("ok " ^ t))
  | "serde" ->
      let v0 = z (arg 1) in
      let v = if arg 0 = "u" then Zar.abs v0 else v0 in
      (match Model.fmt_spec Model.KDisplay (flags_of "." Zar.zero) v with
       | Model.Ok l -> expect ~extra:"cls=serde" ("ok " ^ tok_of_bytes ([ zi 34 ] @ l @ [ zi 34 ]) ^ " " ^ hx v) got
       | _ -> fail "spec-undefined")
  | "deser" ->
      let signed = arg 0 = "i" and text = bytes_of_tok (arg 1) in
      let spec = Model.from_str_prefix_gen Model.body_spec signed (zi 10) text in
      let asis = Model.from_str_prefix_gen (Model.body_asis !wcur) signed (zi 10) text in
      let show = function Model.Ok (v, _) -> "ok " ^ hx v | Model.Err _ -> "err" | _ -> "other" in
      let g = (match got with "err" :: _ -> "err" | l -> String.concat " " l) in
      if show spec = g then pass ~extra:(same (show asis = g) ^ " cls=deser-" ^ (match spec with Model.Ok _ -> "valid" | _ -> "error")) () else fail (show spec)
  | "tostr" ->
      let v0 = z (arg 1) in
      let v = if arg 0 = "u" then Zar.abs v0 else v0 in
      let f = flags_of "." Zar.zero in
      expect (res_text (Model.fmt_spec Model.KDisplay f v)) got
  | "parse" | "numtr" ->
      let api = (if op = "numtr" then arg 0 ^ "r" else arg 0) and radix = Zar.of_string_base 16 (arg 1) and text = bytes_of_tok (arg 2) in
      let signed = api.[0] = 'i' in
      let with_radix = api.[1] = 'p' || api.[1] = 'd' in
      let r = if api.[1] = 'r' || api.[1] = 'd' then radix else zi 10 in
      let show = function
        | Model.Ok (v, rr) -> if with_radix then "ok " ^ hx v ^ " " ^ hx rr else "ok " ^ hx v
        | Model.Err e -> "err " ^ err_name e
        | Model.Panic _ -> "panic" | Model.OutOfFuel -> "outoffuel" in
      let lift = function Model.Ok v -> Model.Ok (v, r) | Model.Err e -> Model.Err e | Model.Panic p -> Model.Panic p | Model.OutOfFuel -> Model.OutOfFuel in
      let run body =
        if with_radix then Model.from_str_prefix_gen body signed r text
        else lift (Model.from_str_radix_gen body signed r text) in
      let spec = run Model.body_spec and asis = run (Model.body_asis !wcur) in
      let gots = String.concat " " got in
      let words_ok = List.length text > words_limit / 3 || show (run (Model.body_words_asis !wcur)) = gots in
      (* the parser read through the REGENERATED dispatch functions (IoDispatch4Model.body_gen) *)
      let gen_ok = show (run (Model.body_gen !wcur)) = gots in
      let fid = same (show asis = gots && words_ok && gen_ok) in
      let cls = "cls=" ^ (if op = "numtr" then "numtraits-" else "") ^ (match spec with Model.Ok _ -> "valid" | Model.Err e -> err_name e | _ -> "other")
                ^ (if bits = 64 then "" else "-w" ^ string_of_int bits) in
      (match spec with
       | Model.Ok _ -> if show spec = gots then pass ~extra:(fid ^ " " ^ cls) () else fail (show spec)
       | Model.Err _ -> (match got with "err" :: _ -> pass ~extra:(fid ^ " " ^ cls) () | _ -> fail (show spec))
       | _ -> fail "spec-undefined")
  | "roundtrip" ->
      let v = z (arg 1) in
      expect ("ok " ^ hx v ^ " " ^ hx (Zar.abs v)) got
  | "to_bytes" ->
      let signed = arg 0 = "i" and le = arg 1 = "le" in
      let v0 = z (arg 2) in
      let v = if signed then v0 else Zar.abs v0 in
      let spec_le = if signed then Model.to_signed_le_bytes_spec v else Model.to_le_bytes_spec v in
      (* the as-is model of the function actually called: the big-endian functions have their own models *)
      let asis_own = (match signed, le with
        | true, true -> Model.to_signed_le_bytes_asis !wcur v | false, true -> Model.to_le_bytes_asis !wcur v
        | true, false -> Model.to_signed_be_bytes_asis !wcur v | false, false -> Model.to_be_bytes_asis !wcur v) in
      let ord l = if le then l else List.rev l in
      let want = "ok " ^ tok_of_bytes (ord spec_le) ^ " " ^ hx v in
      (match got with
       | [ "ok"; b; back ] ->
           let bs = bytes_of_tok b in
           let dec = (match signed, le with
             | true, true -> Model.le_signed_value bs | true, false -> Model.be_signed_value bs
             | false, true -> Model.le_value bs | false, false -> Model.be_value bs) in
           let fid = same (tok_of_bytes asis_own = b) in
           let minimal = signed || b = tok_of_bytes (ord spec_le) in
           if Zar.equal dec v && back = hx v && minimal then pass ~extra:fid () else fail want
       | _ -> fail want)
  | "from_bytes" ->
      let signed = arg 0 = "i" and le = arg 1 = "le" in
      let bs = bytes_of_tok (arg 2) in
      let spec = (match signed, le with
        | true, true -> Model.le_signed_value bs | true, false -> Model.be_signed_value bs
        | false, true -> Model.le_value bs | false, false -> Model.be_value bs) in
      let asis = (match signed, le with
        | true, true -> Model.from_signed_le_bytes_asis !wcur bs | false, true -> Model.from_le_bytes_asis !wcur bs
        | true, false -> Model.from_signed_be_bytes_asis !wcur bs | false, false -> Model.from_be_bytes_asis !wcur bs) in
      expect ~extra:(same (Zar.equal asis spec)) ("ok " ^ hx spec) got
  | "to_chunks" ->
      let v = z (arg 0) and cb = Zar.of_string_base 16 (arg 1) in
      if Zar.sign cb <= 0 then (match got with "panic" :: _ -> pass ~nt:false () | _ -> fail "panic")
      else begin
        let cs = Model.to_chunks_spec v cb in
        let want = "ok " ^ hx v ^ " " ^ hx (zi (List.length cs)) ^ String.concat "" (List.map (fun c -> " " ^ hx c) cs) in
        let asis = (match Model.to_chunks_asis !wcur v cb with
          | Model.Ok l -> "ok " ^ hx (Model.from_chunks_asis !wcur cb l) ^ " " ^ hx (zi (List.length l)) ^ String.concat "" (List.map (fun c -> " " ^ hx c) l)
          | _ -> "panic") in
        (* the word loops of words_to_chunks (IoToChunksModel: slices, mask, C09's shr_in_place on the allocated buffers) *)
        let words = (match Model.to_chunks_words_z !wcur v cb with
          | Model.Ok l -> "ok " ^ hx (Model.from_chunks_asis !wcur cb l) ^ " " ^ hx (zi (List.length l)) ^ String.concat "" (List.map (fun c -> " " ^ hx c) l)
          | _ -> "panic") in
        expect ~extra:(same (asis = String.concat " " got && words = String.concat " " got) ^ " cls=to_chunks-w" ^ string_of_int bits) want got
      end
  | "from_chunks" ->
      let cb = Zar.of_string_base 16 (arg 0) in
      let cs = List.map z (List.tl args) in
      let spec = Model.from_chunks_spec cb cs in
      (* the word loops of chunks_to_words (IoChunksW: shl_in_place + add_in_place on the allocated buffers) *)
      let words_ok = (match Model.from_chunks_words_z !wcur cb cs with Model.Ok v -> Zar.equal v spec | _ -> false) in
      expect ~extra:(same (Zar.equal (Model.from_chunks_asis !wcur cb cs) spec && words_ok)) ("ok " ^ hx spec) got
  | _ -> fail ("unknown-op-" ^ op)

let () = serve judge
