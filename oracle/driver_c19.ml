(* C19 oracle.  The same expected answer judges every build configuration (64/32-bit words, debug /
   release, std / no_std): none of the specifications mentions a word size.
   spec  = Serde/WireModel.v (wire formats), Serde/CfgValueSpec.v, and the specifications of the
           properties whose operations are replayed (BitsSpec, IoSpec, GrlSpec, Float.Contract)
   asis  = Serde/WireModel.v as-is models for WORD_BYTES = 8 and 4 (fidelity statistic)
   log2_bounds answers are judged as BOUNDS (they legitimately differ between std and no_std).    *)
open Common
open Model

let zi = Zar.of_int
let usz s = Zar.of_string_base 16 s
let bits v = Zar.numbits v
let rec nat_of_int n = if n <= 0 then O else S (nat_of_int (n - 1))

let bytes_of_tok (s : string) : Zar.t list =
  let n = (String.length s - 1) / 2 in
  List.init n (fun i -> zi (int_of_string ("0x" ^ String.sub s (1 + 2 * i) 2)))
let tok_of_bytes (l : Zar.t list) : string =
  let b = Buffer.create (2 * List.length l + 1) in
  Buffer.add_char b 'x';
  List.iter (fun v -> Buffer.add_string b (Printf.sprintf "%02x" (Zar.to_int v))) l;
  Buffer.contents b
let str_of_bytes (l : Zar.t list) : string = String.concat "" (List.map (fun v -> String.make 1 (Char.chr (Zar.to_int v))) l)
let bytes_of_str (s : string) : Zar.t list = List.init (String.length s) (fun i -> zi (Char.code s.[i]))
let json_of (text : Zar.t list) : Zar.t list = (zi 34 :: text) @ [ zi 34 ]
let same b = "asis=" ^ if b then "same" else "diff"
let hsz v = hx v

(* words of a magnitude for a word size *)
let words_of w v = to_words (zi w) (nat_of_int ((bits v + w - 1) / w)) v

(* --------------------------------------------------------------------------------- log2 bounds *)
let neg_inf = "ff800000"
let pos_inf = "7f800000"
let judge_log2 ~cls (p : Zar.t) (q : Zar.t) got =
  match got with
  | [ "ok"; "bounds"; lb; ub ] ->
      let lbv = f32_decode (usz lb) and ubv = f32_decode (usz ub) in
      let size_ok v = Zar.to_int (log2_bound_k v) <= 14 && (bits p + bits q) * (1 lsl Zar.to_int (log2_bound_k v)) <= 40_000_000 in
      let one lower v =
        let rec go = function
          | [] -> if size_ok v then log2_bound_exact lower v p q else zi 2
          | pr :: rest -> let r = log2_bound_check (zi pr) lower v p q in if Zar.equal r (zi 2) then go rest else r
        in
        go [ 96; 320; 1200 ]
      in
      let l = one true lbv and u = one false ubv in
      if Zar.equal l Zar.zero || Zar.equal u Zar.zero then
        fail (Printf.sprintf "lb<=log2(x)<=ub_violated_%s%s" (if Zar.equal l Zar.zero then "L" else "") (if Zar.equal u Zar.zero then "U" else ""))
      else if Zar.equal l (zi 2) || Zar.equal u (zi 2) then skip "log2-undecided"
      else pass ~extra:("cls=log2-" ^ cls) ()
  | _ -> fail "ok lb ub"
let judge_log2_value ~cls (num : Zar.t) (den : Zar.t) got =
  if Zar.sign num = 0 then expect ~nt:false ("ok bounds " ^ neg_inf ^ " " ^ neg_inf) got
  else judge_log2 ~cls (Zar.abs num) den got
let float_value v =
  match v with
  | FFin (m, e) -> if Zar.sign e >= 0 then Some (Zar.mul m (Zar.pow (zi 2) (Zar.to_int e)), Zar.one) else Some (m, Zar.pow (zi 2) (- Zar.to_int e))
  | _ -> None

(* --------------------------------------------------------------------------------- floats *)
let mode_of = function
  | "Zero" -> MZero | "Away" -> MAway | "Up" -> MUp | "Down" -> MDown
  | "HalfEven" -> MHalfEven | "HalfAway" -> MHalfAway | m -> failwith ("mode " ^ m)
let frac b s e = if Zar.sign e >= 0 then (Zar.mul s (Zar.pow b (Zar.to_int e)), Zar.one) else (s, Zar.pow b (Zar.to_int (Zar.neg e)))
let norm (n, d) = if Zar.sign d < 0 then (Zar.neg n, Zar.neg d) else (n, d)
let fadd (a, b) (c, d) = (Zar.add (Zar.mul a d) (Zar.mul c b), Zar.mul b d)
let fmul (a, b) (c, d) = (Zar.mul a c, Zar.mul b d)
let fneg (a, b) = (Zar.neg a, b)
let fdiv (a, b) (c, d) = norm (Zar.mul a d, Zar.mul b c)
let flag_of = function
  | "Exact" -> FExact | "NoOp" -> FInexact NoOp | "AddOne" -> FInexact AddOne | "SubOne" -> FInexact SubOne
  | f -> failwith ("flag " ^ f)

(* tokens of a float value as the harness prints it *)
let show_repr (s, e) = if Zar.sign s = 0 && Zar.sign e > 0 then "inf 0" else if Zar.sign s = 0 && Zar.sign e < 0 then "-inf 0" else hx s ^ " " ^ hx e
(* the case's float operand: inf / -inf / sig exp, normalised as Repr::new does *)
let repr_arg b sg ex =
  match sg with
  | "inf" -> (Zar.zero, Zar.one) | "-inf" -> (Zar.zero, Zar.minus_one)
  | _ -> fnormalize b (z sg) (z ex)

(* --------------------------------------------------------------------------------- decoders *)
let consumed input rest = hx (zi (List.length input - List.length rest))

let plain_json_string (bs : Zar.t list) : Zar.t list option =
  (* exactly "<printable ASCII without quote and backslash>" *)
  match bs with
  | q :: rest when Zar.equal q (zi 34) && rest <> [] ->
      let r = List.rev rest in
      if Zar.equal (List.hd r) (zi 34) then
        let body = List.rev (List.tl r) in
        if List.for_all (fun c -> let c = Zar.to_int c in c >= 0x20 && c <= 0x7e && c <> 34 && c <> 92) body then Some body else None
      else None
  | _ -> None

let judge op args got =
  let arg i = List.nth args i in
  let a i = z (arg i) in
  let n i = usz (arg i) in
  let gots = String.concat " " got in
  match op with
  (* ---------------------------------------------------------------- integers (value level) *)
  | "add" -> expect ("ok " ^ hx (Zar.add (a 0) (a 1))) got
  | "sub" -> expect ("ok " ^ hx (Zar.sub (a 0) (a 1))) got
  | "mul" -> expect ("ok " ^ hx (Zar.mul (a 0) (a 1))) got
  | "sqr" -> expect ("ok " ^ hx (Zar.mul (a 0) (a 0))) got
  | "pow" -> expect ("ok " ^ hx (Zar.pow (a 0) (Zar.to_int (n 1)))) got
  | "usub" -> if Zar.lt (a 0) (a 1) then expect ~nt:false "panic NegativeUBig" got else expect ("ok " ^ hx (Zar.sub (a 0) (a 1))) got
  | "divrem" -> if Zar.sign (a 1) = 0 then expect ~nt:false "panic DivideBy0" got
      else let (q, r) = cv_divrem (a 0) (a 1) in expect ("ok " ^ hx q ^ " " ^ hx r) got
  | "diveuc" -> if Zar.sign (a 1) = 0 then expect ~nt:false "panic DivideBy0" got
      else let (q, r) = cv_diveuc (a 0) (a 1) in expect ("ok " ^ hx q ^ " " ^ hx r) got
  | "and" -> expect ("ok " ^ hx (Zar.logand (a 0) (a 1))) got
  | "or" -> expect ("ok " ^ hx (Zar.logor (a 0) (a 1))) got
  | "xor" -> expect ("ok " ^ hx (Zar.logxor (a 0) (a 1))) got
  | "not" -> expect ("ok " ^ hx (Zar.lognot (a 0))) got
  | "shl" -> expect ("ok " ^ hx (Zar.shift_left (a 0) (Zar.to_int (n 1)))) got
  | "shr" -> expect ("ok " ^ hx (Zar.shift_right (a 0) (Zar.to_int (n 1)))) got
  | "bitlen" -> expect ("ok " ^ hx (cv_bitlen (a 0))) got
  | "tz" -> expect ("ok " ^ hopt (trailing_zeros_spec (a 0))) got
  | "ones" -> expect ("ok " ^ hx (count_ones_spec (a 0))) got
  | "cmp" -> expect ("ok " ^ Zar.to_string (cv_cmp (a 0) (a 1))) got
  | "gcd" -> if Zar.sign (a 0) = 0 && Zar.sign (a 1) = 0 then (match got with "panic" :: _ -> pass ~nt:false () | _ -> fail "panic (gcd of 0 and 0)")
      else expect ("ok " ^ hx (Zar.gcd (a 0) (a 1))) got
  | "gcdext" -> (match got with
      | [ "ok"; g; s; t ] -> if cv_gcdext_ok (a 0) (a 1) (z g) (z s) (z t) then pass () else fail "g=gcd_and_s*a+t*b=g"
      | _ -> if Zar.sign (a 0) = 0 && Zar.sign (a 1) = 0 then (match got with "panic" :: _ -> pass ~nt:false () | _ -> fail "panic") else fail "ok g s t")
  | "sqrt" -> expect ("ok " ^ hx (Zar.sqrt (a 0))) got
  | "nthroot" -> if Zar.sign (n 1) = 0 then expect ~nt:false "panic RootZeroth" got
      else (match got with
        | [ "ok"; r ] -> if bits (z r) <= bits (a 0) && cv_root_ok (a 0) (n 1) (z r) then pass () else fail "r^n<=x<(r+1)^n"
        | _ -> fail "ok root")
  | "ilog" -> if Zar.sign (a 0) = 0 || Zar.leq (a 1) Zar.one then expect ~nt:false "panic LogOperand" got
      else (match got with
        | [ "ok"; e ] -> if Zar.leq (usz e) (zi (bits (a 0))) && cv_ilog_ok (a 0) (a 1) (usz e) then pass () else fail "b^e<=x<b^(e+1)"
        | _ -> fail "ok floor-log")
  | "modpow" -> if Zar.sign (a 0) = 0 then expect ~nt:false "panic DivideBy0" got
      else expect ("ok " ^ hx (cv_powmod (a 0) (Zar.erem (a 1) (a 0)) (a 2))) got
  | "modmul" -> if Zar.sign (a 0) = 0 then expect ~nt:false "panic DivideBy0" got
      else expect ("ok " ^ hx (Zar.erem (Zar.mul (a 1) (a 2)) (a 0))) got
  | "tostr" ->
      let r = n 0 and v = a 1 in
      let ds = List.map (digit_char false) (digits_spec r (Zar.abs v)) in
      let text = if Zar.sign v < 0 then zi 45 :: ds else ds in
      expect ("ok " ^ tok_of_bytes text) got
  | "fromstr" ->
      let r = n 0 and text = bytes_of_tok (arg 1) in
      if List.exists (fun c -> Zar.to_int c >= 0x80) text then (match got with "err" :: _ -> pass ~nt:false () | _ -> fail "err")
      else (match from_str_radix_spec true r text with
        | Ok v -> expect ~extra:"cls=parse-valid" ("ok " ^ hx v ^ " 1") got
        | Err _ -> expect ~extra:"cls=parse-invalid" "err parse" got
        | _ -> fail "spec-undefined")
  | "tobytes" ->
      let v = a 0 in
      let ule = sle_bytes (Zar.abs v) and ile = to_signed_le_bytes_spec v in
      expect (Printf.sprintf "ok %s %s %s %s" (tok_of_bytes ule) (tok_of_bytes (List.rev ule)) (tok_of_bytes ile) (tok_of_bytes (List.rev ile))) got
  | "frombytes" ->
      let bs = bytes_of_tok (arg 0) in
      let fid = same (Zar.equal (ubig_de_asis (zi 8) bs) (sle_value bs) && Zar.equal (ubig_de_asis (zi 4) bs) (sle_value bs)) in
      expect ~extra:fid (Printf.sprintf "ok %s %s %s %s 1" (hx (sle_value bs)) (hx (sle_value (List.rev bs))) (hx (le_signed_value bs)) (hx (le_signed_value (List.rev bs)))) got
  | "tof64" ->
      let v = a 0 in
      let fl e = match Zar.sign e with 0 -> "Exact" | 1 -> "Pos" | _ -> "Neg" in
      let (b64, e64) = cv_int_to_float (zi 53) (zi 11) v and (b32, e32) = cv_int_to_float (zi 24) (zi 8) v in
      expect (Printf.sprintf "ok %s %s %s %s" (hx b64) (fl e64) (hx b32) (fl e32)) got
  (* ---------------------------------------------------------------- log2 bounds: judged as bounds *)
  | "log2b" -> (
      match arg 0 with
      | "ubig" | "ibig" -> judge_log2_value ~cls:(Printf.sprintf "int-w%d" (min 9 ((bits (a 1) + 63) / 64))) (a 1) Zar.one got
      | "u8" | "u16" | "u32" | "u64" | "u128" | "i64" -> judge_log2_value ~cls:(arg 0) (a 1) Zar.one got
      | "f32" | "f64" -> (
          let v = if arg 0 = "f32" then f32_decode (n 1) else f64_decode (n 1) in
          match v with
          | FNan -> (match got with "panic" :: _ -> pass ~nt:false ~extra:"cls=log2-nan" () | _ -> fail "panic (NaN has no logarithm)")
          | FInf _ -> expect ~nt:false ("ok bounds " ^ pos_inf ^ " " ^ pos_inf) got
          | FFin (_, _) -> (match float_value v with Some (p, q) -> judge_log2_value ~cls:(arg 0) p q got | None -> fail "spec"))
      | "rbig" | "relaxed" -> judge_log2_value ~cls:"ratio" (a 1) (a 2) got
      | "fbig" ->
          let base = n 1 and sg = z (arg 2) and ex = z (arg 3) in
          let bp = Zar.pow base (abs (Zar.to_int ex)) in
          if Zar.sign ex >= 0 then judge_log2_value ~cls:("fbig" ^ Zar.to_string base) (Zar.mul sg bp) Zar.one got
          else judge_log2_value ~cls:("fbig" ^ Zar.to_string base) sg bp got
      | t -> fail ("unknown-log2b-type-" ^ t))
  (* ---------------------------------------------------------------- floats *)
  | "fadd" | "fsub" | "fmul" | "fdiv" | "fsqrt" ->
      let b = n 0 and m = mode_of (arg 1) and p = n 2 in
      let x1 = frac b (a 3) (a 4) in
      let x2 () = frac b (a 5) (a 6) in
      if op = "fdiv" && Zar.sign (fst (x2 ())) = 0 then expect ~nt:false "panic DivideBy0" got
      else if op = "fsqrt" && Zar.sign (fst x1) < 0 then expect ~nt:false "panic RootNegative" got
      else
        let x = match op with
          | "fadd" -> let (nn, d) = fadd x1 (x2 ()) in XRat (nn, d)
          | "fsub" -> let (nn, d) = fadd x1 (fneg (x2 ())) in XRat (nn, d)
          | "fmul" -> let (nn, d) = fmul x1 (x2 ()) in XRat (nn, d)
          | "fdiv" -> let (nn, d) = fdiv x1 (x2 ()) in XRat (nn, d)
          | _ -> let (nn, d) = x1 in XSqrt (nn, d) in
        (match got with
         | [ "ok"; s; e; f; prec ] ->
             if s = "inf" || s = "-inf" then fail "finite-result"
             else if not (Zar.equal (usz prec) p) then fail ("precision-" ^ hx p)
             else if check_contract b p m x (z s) (z e) (flag_of f) then pass ~extra:("cls=float-" ^ f) ()
             else fail "rounding-contract"
         | _ -> fail "ok-sig-exp-flag-prec")
  | "fexp" | "fln" | "fpowi" -> (
      (* no executable specification here (C11): the answers are compared between the configurations only *)
      match got with
      | "ok" :: _ | "panic" :: _ -> skip "cross-config-only"
      | _ -> fail "ok-or-panic")
  | "ftostr" ->
      let b = n 0 in
      let (s, e) = fnormalize b (a 3) (a 4) in
      (match got with
       | [ "ok"; _; s'; e' ] -> if s' ^ " " ^ e' = show_repr (s, e) then pass () else fail ("ok text " ^ show_repr (s, e))
       | _ -> fail ("ok text " ^ show_repr (s, e)))
  | "ffromstr" -> (
      let b = n 0 in
      match got with
      | [ "ok"; s; e; p; lay ] -> if lay = "1" && (s = "inf" || s = "-inf" || fbig_canonb b (z s) (z e) (usz p)) then pass () else fail "canonical-float"
      | "err" :: _ -> pass ~nt:false ()
      | _ -> fail "ok-or-err")
  (* ---------------------------------------------------------------- rationals *)
  | "qadd" | "qsub" | "qmul" | "qdiv" ->
      let (n1, d1) = (a 0, a 1) and (n2, d2) = (a 2, a 3) in
      if op = "qdiv" && Zar.sign n2 = 0 then expect ~nt:false "panic DivideBy0" got
      else
        let (nn, dd) = match op with
          | "qadd" -> fadd (n1, d1) (n2, d2) | "qsub" -> fadd (n1, d1) (fneg (n2, d2))
          | "qmul" -> fmul (n1, d1) (n2, d2) | _ -> fdiv (n1, d1) (n2, d2) in
        let (cn, cd) = rat_reduce nn dd in
        expect (Printf.sprintf "ok %s %s 1" (hx cn) (hx cd)) got
  | "qnext" ->
      let lim = a 2 in
      if Zar.sign lim = 0 then expect ~nt:false "panic DivideBy0" got
      else (
        let x = rat_reduce (a 0) (a 1) in
        match got with
        | [ "ok"; un; ud; "1"; dn; dd; "1" ] ->
            let okb = function Ok true -> true | _ -> false in
            if okb (next_up_check x lim (z un, z ud)) && okb (next_down_check x lim (z dn, z dd)) then pass ~extra:"cls=farey" ()
            else fail "farey-neighbours"
        | _ -> fail "ok up down")
  | "ftof64" -> (
      (* open finding F06: where the internal base-2 conversion hands over more bits than the target
         precision (flag read by the harness through the public API, predicted by the as-is model
         FloatToIeeeAsis.wide_class) debug builds panic on a debug assertion and release builds
         round twice; outside the class the answers are compared between the builds *)
      let b = n 0 and m = mode_of (arg 1) in
      let (s, e) = fnormalize b (a 3) (a 4) in
      let pow2 = Zar.equal b (zi 2) || Zar.equal b (zi 8) || Zar.equal b (zi 16) in
      let w64 = (not pow2) && wide_class (zi 53) MHalfEven b s e and w32 = (not pow2) && wide_class (zi 24) m b s e in
      match got with
      | [ "ok"; flags; a64; _; a32; _ ] when String.length flags = 7 && String.sub flags 0 5 = "wide=" ->
          let g64 = flags.[5] = '1' and g32 = flags.[6] = '1' in
          let fid = same (g64 = w64 && g32 = w32) in
          if (a64 = "panic" && not g64) || (a32 = "panic" && not g32) then fail "no-panic-outside-the-class"
          else if g64 || g32 then { (known "fbig_to_float_wide_significand" "debug=release") with extra = fid ^ " cls=f06" }
          else { (skip "cross-config-only") with extra = "why=cross-config-only " ^ fid }
      | _ -> fail "ok wide=XY f64 flag f32 flag")
  | "qtof64" -> (
      (* conversions with debug assertions in their code (DESIGN 5.1 #13, #14): compared between the builds *)
      match got with
      | "ok" :: _ | "panic" :: _ -> skip "cross-config-only"
      | _ -> fail "ok-or-panic")
  | "qfromstr" -> (
      match got with
      | [ "ok"; nn; dd; lay ] -> if lay = "1" && rat_canonb (z nn) (z dd) then pass () else fail "canonical-rational"
      | "err" :: _ -> pass ~nt:false ()
      | _ -> fail "ok-or-err")
  (* ---------------------------------------------------------------- serialization round trips *)
  | "ser_ubig" ->
      let v = a 0 in
      let pc = w_ubig_enc v and js = json_of (dec_text v) in
      let body k w = bytes_enc (ubig_ser_asis (zi k) (words_of w v)) in
      let fid = same (body 8 64 = pc && body 4 32 = pc) in
      expect ~extra:(fid ^ " cls=ser-int") (Printf.sprintf "ok %s %s %s %s 1" (tok_of_bytes pc) (hx v) (tok_of_bytes js) (hx v)) got
  | "ser_ibig" ->
      let v = a 0 in
      let pc = w_ibig_enc v and js = json_of (dec_text v) in
      let sg = if Zar.sign v < 0 then Negative else Positive in
      let body k w = bytes_enc (ibig_ser_asis (zi k) sg (words_of w (Zar.abs v))) in
      let fid = same (body 8 64 = pc && body 4 32 = pc) in
      expect ~extra:(fid ^ " cls=ser-int") (Printf.sprintf "ok %s %s %s %s 1" (tok_of_bytes pc) (hx v) (tok_of_bytes js) (hx v)) got
  | "ser_fbig" -> (
      let b = n 0 and p = n 2 in
      let (s, e) = repr_arg b (arg 3) (arg 4) in
      let pc = w_fbig_enc s e p in
      let shown = show_repr (s, e) in
      match got with
      | [ "ok"; pc'; s1; e1; p1; l1; _; s2; e2; p2; l2 ] ->
          if pc' = tok_of_bytes pc && s1 ^ " " ^ e1 = shown && p1 = hx p && l1 = "1" && s2 ^ " " ^ e2 = shown && l2 = "1"
          then pass ~extra:("cls=ser-float path=" ^ (if p2 = hx p then "json-precision-kept" else "json-precision-changed")) ()
          else fail (Printf.sprintf "ok %s %s %s 1 <text> %s <prec> 1" (tok_of_bytes pc) shown (hx p) shown)
      | _ -> fail (Printf.sprintf "ok %s %s %s 1 <text> %s <prec> 1" (tok_of_bytes pc) shown (hx p) shown))
  | "ser_repr" -> (
      let b = n 0 in
      let (s, e) = repr_arg b (arg 1) (arg 2) in
      let pc = w_repr_enc s e in
      let shown = show_repr (s, e) in
      match got with
      | [ "ok"; pc'; s1; e1; l1; _; s2; e2; l2 ] when pc' = tok_of_bytes pc && s1 ^ " " ^ e1 = shown && l1 = "1" && s2 ^ " " ^ e2 = shown && l2 = "1" ->
          pass ~extra:"cls=ser-float" ()
      | _ -> fail (Printf.sprintf "ok %s %s 1 <text> %s 1" (tok_of_bytes pc) shown shown))
  | "ser_rbig" | "ser_relaxed" ->
      let (cn, cd) = if op = "ser_rbig" then rat_reduce (a 0) (a 1) else rat_reduce2 (a 0) (a 1) in
      let pc = w_rat_enc cn cd and js = json_of (rat_text cn cd) in
      let v = hx cn ^ " " ^ hx cd ^ " 1" in
      expect ~extra:"cls=ser-ratio" (Printf.sprintf "ok %s %s %s %s" (tok_of_bytes pc) v (tok_of_bytes js) v) got
  (* ---------------------------------------------------------------- arbitrary bytes into the binary decoders *)
  | "de_ubig" | "de_ibig" -> (
      let input = bytes_of_tok (arg 0) in
      let signed_ = op = "de_ibig" in
      match (if signed_ then w_ibig_dec input else w_ubig_dec input) with
      | None -> expect ~extra:"cls=de-err" "err decode" got
      | Some (v, rest) ->
          let again = if signed_ then w_ibig_enc v else w_ubig_enc v in
          let fid = (match bytes_dec input with
            | Some (bs, _) ->
                let f k = if signed_ then ibig_de_asis (zi k) bs else ubig_de_asis (zi k) bs in
                same (Zar.equal (f 8) v && Zar.equal (f 4) v)
            | None -> "") in
          expect ~extra:(fid ^ " cls=de-ok") (Printf.sprintf "ok %s %s 1 %s 1" (consumed input rest) (hx v) (tok_of_bytes again)) got)
  | "de_rbig" | "de_relaxed" -> (
      let input = bytes_of_tok (arg 0) in
      let dec fixed = if op = "de_rbig" then w_rbig_dec fixed input else w_relaxed_dec fixed input in
      let show = function
        | Ok ((nn, dd), rest) -> Printf.sprintf "ok %s %s %s 1 %s 1" (consumed input rest) (hx nn) (hx dd) (tok_of_bytes (w_rat_enc nn dd))
        | Err _ -> "err decode"
        | Panic _ -> "panic Undocumented"
        | OutOfFuel -> "outoffuel" in
      let want = show (dec true) in
      let cls = (match dec true with Ok _ -> "cls=de-ok" | Err e -> if Zar.equal e (zi 2) then "cls=de-zero-denominator" else "cls=de-err" | _ -> "cls=de-other") in
      let g = (match got with "panic" :: _ -> "panic Undocumented" | _ -> gots) in
      if g = want then pass ~extra:cls () else fail want)
  | "de_repr" -> (
      let b = n 0 and input = bytes_of_tok (arg 1) in
      match w_repr_dec true b input with
      | None -> expect ~extra:"cls=de-err" "err decode" got
      | Some ((s, e), rest) ->
          expect ~extra:"cls=de-ok" (Printf.sprintf "ok %s %s 1 %s 1" (consumed input rest) (show_repr (s, e)) (tok_of_bytes (w_repr_enc s e))) got)
  | "de_fbig" -> (
      let b = n 0 and input = bytes_of_tok (arg 2) in
      match w_fbig_dec true b input with
      | None -> expect ~extra:"cls=de-err" "err decode" got
      | Some (((s, e), p), rest) ->
          expect ~extra:"cls=de-ok" (Printf.sprintf "ok %s %s %s 1 %s 1" (consumed input rest) (show_repr (s, e)) (hx p) (tok_of_bytes (w_fbig_enc s e p))) got)
  (* ---------------------------------------------------------------- arbitrary token streams into the text decoders *)
  | "dej_ubig" | "dej_ibig" -> (
      let input = bytes_of_tok (arg 0) in
      let signed_ = op = "dej_ibig" in
      let generic () = (match got with
        | [ "ok"; v; lay; again; sm ] ->
            let v' = z v in
            if lay = "1" && sm = "1" && (signed_ || Zar.sign v' >= 0) && again = tok_of_bytes (json_of (dec_text v')) then pass ~extra:"cls=dej-other-ok" ()
            else fail "canonical-value"
        | "err" :: _ -> pass ~nt:false ~extra:"cls=dej-other-err" ()
        | _ -> fail "err-or-canonical-value") in
      match plain_json_string input with
      | Some body -> (
          match from_str_prefix_spec signed_ (zi 10) body with
          | Ok (v, _) -> expect ~extra:"cls=dej-literal" (Printf.sprintf "ok %s 1 %s 1" (hx v) (tok_of_bytes (json_of (dec_text v)))) got
          | Err _ -> expect ~extra:"cls=dej-bad-literal" "err decode" got
          | _ -> fail "spec-undefined")
      | None -> generic ())
  | "dej_rbig" | "dej_relaxed" -> (
      match got with
      | [ "ok"; nn; dd; lay; again; sm ] ->
          let nn = z nn and dd = z dd in
          let canon = if op = "dej_rbig" then rat_canonb nn dd else relaxed_canonb nn dd || (Zar.sign nn = 0 && Zar.equal dd Zar.one) in
          if lay = "1" && sm = "1" && canon && again = tok_of_bytes (json_of (rat_text nn dd)) then pass ~extra:"cls=dej-ok" () else fail "canonical-rational"
      | "err" :: _ -> pass ~nt:false ~extra:"cls=dej-err" ()
      | _ -> fail "err-or-canonical-value")
  | "dej_fbig" -> (
      let b = n 0 in
      match got with
      | [ "ok"; s; e; p; lay; _; sm ] ->
          if lay = "1" && sm = "1" && (s = "inf" || s = "-inf" || fbig_canonb b (z s) (z e) (usz p)) then pass ~extra:"cls=dej-ok" () else fail "canonical-float"
      | "err" :: _ -> pass ~nt:false ~extra:"cls=dej-err" ()
      | _ -> fail "err-or-canonical-value")
  | "config" -> (match got with [ "ok"; "config"; _; _ ] -> pass ~nt:false () | _ -> fail "ok word-bits debug-assertions")
  | _ -> fail ("unknown-op-" ^ op)

let () = serve judge
