(* C19 oracle.  The same expected answer judges every build configuration (64/32-bit words, debug /
   release, std / no_std): none of the specifications mentions a word size.
   spec  = Serde/WireModel.v (wire formats), Serde/CfgValueSpec.v, and the specifications of the
           properties whose operations are replayed (BitsSpec, IoSpec, GrlSpec, Float.Contract)
   asis  = Serde/WireModel.v as-is models for WORD_BYTES = 8 and 4 (fidelity statistic)
   log2_bounds answers are judged as BOUNDS (they legitimately differ between std and no_std).    *)
open Common
open Model

let zi = Zar.of_int
let usz s = Zar.of_string_base 16 s
let bits v = Zar.numbits v
let rec nat_of_int n = if n <= 0 then O else S (nat_of_int (n - 1))

let bytes_of_tok (s : string) : Zar.t list =
  let n = (String.length s - 1) / 2 in
  List.init n (fun i -> zi (int_of_string ("0x" ^ String.sub s (1 + 2 * i) 2)))
let tok_of_bytes (l : Zar.t list) : string =
  let b = Buffer.create (2 * List.length l + 1) in
  Buffer.add_char b 'x';
  List.iter (fun v -> Buffer.add_string b (Printf.sprintf "%02x" (Zar.to_int v))) l;
  Buffer.contents b
let str_of_bytes (l : Zar.t list) : string = String.concat "" (List.map (fun v -> String.make 1 (Char.chr (Zar.to_int v))) l)
let bytes_of_str (s : string) : Zar.t list = List.init (String.length s) (fun i -> zi (Char.code s.[i]))
let json_of (text : Zar.t list) : Zar.t list = (zi 34 :: text) @ [ zi 34 ]
let same b = "asis=" ^ if b then "same" else "diff"
let hsz v = hx v

(* ---------------------------------------------------------------- round 3: the word size of the answering build
   every `ok` answer carries `wb=<bits>` as its second token (harness main); the word-level as-is models are run
   at exactly that word size *)
let cur_wb = ref 0
let wz () = zi !cur_wb
let ok_text = function Ok t -> Some t | _ -> None
let nat_len l = List.length l
let cmp_tok (c : comparison) (sgn : int) =
  (* the harness prints Exact | Pos | Neg = sign of (rounded - exact) ... as the Inexact(_, sign) of to_f64 *)
  match c with Eq -> "Exact" | Gt -> "Pos" | Lt -> "Neg"
let flag_tok = function None -> "Exact" | Some NoOp -> "NoOp" | Some AddOne -> "AddOne" | Some SubOne -> "SubOne"

(* words of a magnitude for a word size *)
let words_of w v = to_words (zi w) (nat_of_int ((bits v + w - 1) / w)) v

(* --------------------------------------------------------------------------------- log2 bounds *)
let neg_inf = "ff800000"
let pos_inf = "7f800000"
let judge_log2 ~cls (p : Zar.t) (q : Zar.t) got =
  match got with
  | [ "ok"; "bounds"; lb; ub ] ->
      let lbv = f32_decode (usz lb) and ubv = f32_decode (usz ub) in
      let size_ok v = Zar.to_int (log2_bound_k v) <= 14 && (bits p + bits q) * (1 lsl Zar.to_int (log2_bound_k v)) <= 40_000_000 in
      let one lower v =
        let rec go = function
          | [] -> if size_ok v then log2_bound_exact lower v p q else zi 2
          | pr :: rest -> let r = log2_bound_check (zi pr) lower v p q in if Zar.equal r (zi 2) then go rest else r
        in
        go [ 96; 320; 1200 ]
      in
      let l = one true lbv and u = one false ubv in
      if Zar.equal l Zar.zero || Zar.equal u Zar.zero then
        fail (Printf.sprintf "lb<=log2(x)<=ub_violated_%s%s" (if Zar.equal l Zar.zero then "L" else "") (if Zar.equal u Zar.zero then "U" else ""))
      else if Zar.equal l (zi 2) || Zar.equal u (zi 2) then skip "log2-undecided"
      else pass ~extra:("cls=log2-" ^ cls) ()
  | _ -> fail "ok lb ub"
let judge_log2_value ~cls (num : Zar.t) (den : Zar.t) got =
  if Zar.sign num = 0 then expect ~nt:false ("ok bounds " ^ neg_inf ^ " " ^ neg_inf) got
  else judge_log2 ~cls (Zar.abs num) den got
let float_value v =
  match v with
  | FFin (m, e) -> if Zar.sign e >= 0 then Some (Zar.mul m (Zar.pow (zi 2) (Zar.to_int e)), Zar.one) else Some (m, Zar.pow (zi 2) (- Zar.to_int e))
  | _ -> None

(* --------------------------------------------------------------------------------- floats *)
let mode_of = function
  | "Zero" -> MZero | "Away" -> MAway | "Up" -> MUp | "Down" -> MDown
  | "HalfEven" -> MHalfEven | "HalfAway" -> MHalfAway | m -> failwith ("mode " ^ m)
let frac b s e = if Zar.sign e >= 0 then (Zar.mul s (Zar.pow b (Zar.to_int e)), Zar.one) else (s, Zar.pow b (Zar.to_int (Zar.neg e)))
let norm (n, d) = if Zar.sign d < 0 then (Zar.neg n, Zar.neg d) else (n, d)
let fadd (a, b) (c, d) = (Zar.add (Zar.mul a d) (Zar.mul c b), Zar.mul b d)
let fmul (a, b) (c, d) = (Zar.mul a c, Zar.mul b d)
let fneg (a, b) = (Zar.neg a, b)
let fdiv (a, b) (c, d) = norm (Zar.mul a d, Zar.mul b c)
let flag_of = function
  | "Exact" -> FExact | "NoOp" -> FInexact NoOp | "AddOne" -> FInexact AddOne | "SubOne" -> FInexact SubOne
  | f -> failwith ("flag " ^ f)

(* tokens of a float value as the harness prints it *)
let show_repr (s, e) = if Zar.sign s = 0 && Zar.sign e > 0 then "inf 0" else if Zar.sign s = 0 && Zar.sign e < 0 then "-inf 0" else hx s ^ " " ^ hx e
(* the case's float operand: inf / -inf / sig exp, normalised as Repr::new does *)
let repr_arg b sg ex =
  match sg with
  | "inf" -> (Zar.zero, Zar.one) | "-inf" -> (Zar.zero, Zar.minus_one)
  | _ -> fnormalize b (z sg) (z ex)

(* --------------------------------------------------------------------------------- decoders *)
let consumed input rest = hx (zi (List.length input - List.length rest))

let plain_json_string (bs : Zar.t list) : Zar.t list option =
  (* exactly "<printable ASCII without quote and backslash>" *)
  match bs with
  | q :: rest when Zar.equal q (zi 34) && rest <> [] ->
      let r = List.rev rest in
      if Zar.equal (List.hd r) (zi 34) then
        let body = List.rev (List.tl r) in
        if List.for_all (fun c -> let c = Zar.to_int c in c >= 0x20 && c <= 0x7e && c <> 34 && c <> 92) body then Some body else None
      else None
  | _ -> None


(* ---------------------------------------------------------------- exp / ln / powi against the specification of C11
   The extracted checkers of Float/ElemEncl.v (certified interval enclosures of the true value: accept = the answer is
   within one unit in the last place and an Exact flag is truthful) and the entry logic of Float/ElemEntry.v, imported
   read-only.  As in oracle/driver_c11.ml this file only chooses working precisions (heuristics: a bad choice can only
   give VUndecided, never a wrong verdict) and escalates them. *)
let log2f x = log x /. log 2.0
let nbits v = Zar.numbits v
let iceil x = int_of_float (ceil x)
let pos_of i = zi (max 2 i)
let alog2 b s e = float_of_int (nbits s) -. 0.5 +. Zar.to_float e *. log2f (Zar.to_float b)
let aln b s e =
  let l2 = alog2 b s e in
  if abs_float l2 < 900.0 then begin
    let ef = Zar.to_int e in
    let num, den = if ef >= 0 then (Zar.mul s (Zar.pow b ef), Zar.one) else (s, Zar.pow b (- ef)) in
    let d = Zar.sub num den in
    if Zar.sign d = 0 then 0.0
    else
      let rel = (float_of_int (nbits d) -. float_of_int (nbits den)) in
      if rel < -20.0 then (if Zar.sign d > 0 then 1.0 else -1.0) *. (2.0 ** rel)
      else l2 *. log 2.0
  end else l2 *. log 2.0
let schedule prt =
  let rec go q acc = if q >= prt then List.rev (zi prt :: acc) else go (2 * q) (zi q :: acc) in
  go 110 []
let margins = [ 48; 160; 600 ]
let rec first_decided = function
  | [] -> VUndecided
  | f :: rest -> (match f () with VUndecided -> first_decided rest | v -> v)
let bits_of b p = iceil (Zar.to_float p *. log2f (Zar.to_float b)) + 2
let elem_attempts op b p s e n rs re fexact : ((unit -> verdict) * (unit -> verdict)) list =
  let bits = bits_of b p in
  let rbits = nbits rs + 8 in
  match op with
  | "fexp" ->
      let lx = alog2 b s e in
      let attempt mg =
        let tiny = lx < -. float_of_int (bits + 24) in
        let prt = if tiny then 40 else bits + mg + iceil (abs_float lx) + 8 in
        let pra = max prt (bits + mg) + rbits + nbits s + iceil (max 0.0 (-. lx)) + 64 in
        ((fun () -> check_exp (pos_of prt) (pos_of pra) b p s e rs re fexact),
         (fun () -> loose_exp (pos_of prt) (pos_of pra) b p s e rs re)) in
      List.map attempt margins
  | "fln" ->
      let lt = (let v = aln b s e in if v = 0.0 then 0.0 else log2f (abs_float v)) in
      let attempt (mg, from_result) =
        let slack = bits + mg + iceil (max 0.0 (-. lt)) + 8 in
        let prt = slack + 40 + iceil (max 0.0 lt) in
        let pra = prt + rbits + nbits s + 64 in
        let steps = if from_result then [ zi prt ] else schedule prt in
        ((fun () -> check_ln (pos_of prt) (pos_of pra) (zi slack) from_result steps b p s e rs re fexact),
         (fun () -> loose_ln (pos_of prt) (pos_of pra) (zi slack) (schedule prt) b p s e rs re)) in
      List.map attempt ((if bits >= 24 then [ (48, true) ] else []) @ [ (48, false); (200, false); (800, false) ])
  | _ ->
      let an = Zar.abs n in
      let exact_ok = Zar.equal (Zar.abs s) Zar.one || (Zar.numbits an < 40 && Zar.to_float an *. float_of_int (nbits s) < 1.0e5) in
      let attempt mg =
        let pra = bits + mg + rbits + 4 * nbits an + nbits s + 64 in
        ((fun () -> check_powi (pos_of pra) exact_ok b p s e n rs re fexact),
         (fun () -> loose_powi (pos_of pra) b p s e n rs re)) in
      List.map attempt margins
let panic_name = function EPUnlimited -> "UnlimitedPrecision" | EPNegBase -> "PowerNegativeBase" | EPLogDomain -> "LogNonPositive"
let judge_elem op b m p s0 e0 n got =
  let (s, e) = normalize b s0 e0 in
  let entry = (match op with "fexp" -> exp_entry p s false | "fln" -> ln_entry b p s e false | _ -> powi_entry b p m s e n) in
  if op = "fpowi" && Zar.sign s = 0 && Zar.sign n < 0 then
    (match got with "panic" :: _ -> pass ~nt:false ~extra:"cls=elem-out-of-domain" () | _ -> pass ~nt:false ~extra:"cls=elem-out-of-domain-value" ())
  else
  match entry with
  | EPanic r -> expect ~nt:false ~extra:("cls=elem-panic-" ^ panic_name r) ("panic " ^ panic_name r) got
  | _ -> (
    match got with
    | [ "ok"; rs; re; f; _ ] ->
        if rs = "inf" || rs = "-inf" then fail "finite-result"
        else
          let rs = z rs and re = z re in
          let fexact = (f = "Exact") in
          let cls = (match entry with EExact _ -> "entry-exact" | ERound _ -> "entry-round" | _ -> "computed") ^ "-" ^ f in
          if Zar.gt (dlen b rs) p then fail ("at-most-" ^ hx p ^ "-digits")
          else begin
            let att = elem_attempts op b p s e n rs re fexact in
            let directed = (match m with MHalfEven | MHalfAway -> false | _ -> true) in
            match first_decided (List.map fst att) with
            | VAccept -> pass ~extra:("cls=elem-" ^ cls) ()
            | VReject ->
                if directed && entry = ECompute && not fexact && first_decided (List.map snd att) = VAccept
                then known "directed_faithful" ("within-1ulp cls=" ^ cls)
                else { v = "fail"; extra = "not-within-1ulp-or-untruthful-Exact cls=" ^ cls }
            | VUndecided -> skip ("undecided-" ^ cls)
          end
    | [ "panic"; c ] -> fail ("value-not-panic-" ^ c)
    | _ -> fail "ok-sig-exp-flag-prec")

let judge0 op args got =
  let arg i = List.nth args i in
  let a i = z (arg i) in
  let n i = usz (arg i) in
  let gots = String.concat " " got in
  match op with
  (* ---------------------------------------------------------------- integers (value level) *)
  | "add" -> expect ("ok " ^ hx (Zar.add (a 0) (a 1))) got
  | "sub" -> expect ("ok " ^ hx (Zar.sub (a 0) (a 1))) got
  | "mul" -> expect ("ok " ^ hx (Zar.mul (a 0) (a 1))) got
  | "sqr" -> expect ("ok " ^ hx (Zar.mul (a 0) (a 0))) got
  | "pow" -> expect ("ok " ^ hx (Zar.pow (a 0) (Zar.to_int (n 1)))) got
  | "usub" -> if Zar.lt (a 0) (a 1) then expect ~nt:false "panic NegativeUBig" got else expect ("ok " ^ hx (Zar.sub (a 0) (a 1))) got
  | "divrem" -> if Zar.sign (a 1) = 0 then expect ~nt:false "panic DivideBy0" got
      else let (q, r) = cv_divrem (a 0) (a 1) in expect ("ok " ^ hx q ^ " " ^ hx r) got
  | "diveuc" -> if Zar.sign (a 1) = 0 then expect ~nt:false "panic DivideBy0" got
      else let (q, r) = cv_diveuc (a 0) (a 1) in expect ("ok " ^ hx q ^ " " ^ hx r) got
  | "and" -> expect ("ok " ^ hx (Zar.logand (a 0) (a 1))) got
  | "or" -> expect ("ok " ^ hx (Zar.logor (a 0) (a 1))) got
  | "xor" -> expect ("ok " ^ hx (Zar.logxor (a 0) (a 1))) got
  | "not" -> expect ("ok " ^ hx (Zar.lognot (a 0))) got
  | "shl" -> expect ("ok " ^ hx (Zar.shift_left (a 0) (Zar.to_int (n 1)))) got
  | "shr" -> expect ("ok " ^ hx (Zar.shift_right (a 0) (Zar.to_int (n 1)))) got
  | "bitlen" -> expect ("ok " ^ hx (cv_bitlen (a 0))) got
  | "tz" -> expect ("ok " ^ hopt (trailing_zeros_spec (a 0))) got
  | "ones" -> expect ("ok " ^ hx (count_ones_spec (a 0))) got
  | "cmp" -> expect ("ok " ^ Zar.to_string (cv_cmp (a 0) (a 1))) got
  | "gcd" -> if Zar.sign (a 0) = 0 && Zar.sign (a 1) = 0 then (match got with "panic" :: _ -> pass ~nt:false () | _ -> fail "panic (gcd of 0 and 0)")
      else expect ("ok " ^ hx (Zar.gcd (a 0) (a 1))) got
  | "gcdext" -> (match got with
      | [ "ok"; g; s; t ] -> if cv_gcdext_ok (a 0) (a 1) (z g) (z s) (z t) then pass () else fail "g=gcd_and_s*a+t*b=g"
      | _ -> if Zar.sign (a 0) = 0 && Zar.sign (a 1) = 0 then (match got with "panic" :: _ -> pass ~nt:false () | _ -> fail "panic") else fail "ok g s t")
  | "sqrt" -> expect ("ok " ^ hx (Zar.sqrt (a 0))) got
  | "nthroot" -> if Zar.sign (n 1) = 0 then expect ~nt:false "panic RootZeroth" got
      else (match got with
        | [ "ok"; r ] -> if bits (z r) <= bits (a 0) && cv_root_ok (a 0) (n 1) (z r) then pass () else fail "r^n<=x<(r+1)^n"
        | _ -> fail "ok root")
  | "ilog" -> if Zar.sign (a 0) = 0 || Zar.leq (a 1) Zar.one then expect ~nt:false "panic LogOperand" got
      else (match got with
        | [ "ok"; e ] -> if Zar.leq (usz e) (zi (bits (a 0))) && cv_ilog_ok (a 0) (a 1) (usz e) then pass () else fail "b^e<=x<b^(e+1)"
        | _ -> fail "ok floor-log")
  | "modpow" -> if Zar.sign (a 0) = 0 then expect ~nt:false "panic DivideBy0" got
      else expect ("ok " ^ hx (cv_powmod (a 0) (Zar.erem (a 1) (a 0)) (a 2))) got
  | "modmul" -> if Zar.sign (a 0) = 0 then expect ~nt:false "panic DivideBy0" got
      else expect ("ok " ^ hx (Zar.erem (Zar.mul (a 1) (a 2)) (a 0))) got
  | "modsqr" -> if Zar.sign (a 0) = 0 then expect ~nt:false "panic DivideBy0" got
      else expect ("ok " ^ hx (Zar.erem (Zar.mul (a 1) (a 1)) (a 0))) got
  | "hist" ->
      (* a history with state: after every clone_from the destination holds the source (also as an FBig significand and an RBig
         numerator), at the end its text, its JSON round trip and a canonical layout *)
      let vs = List.map z (List.tl args) in
      let last = List.nth vs (List.length vs - 1) in
      let cls v = let nb = Zar.numbits v in (if Zar.sign v < 0 then "n" else "p") ^ (if nb = 0 then "0" else if nb <= 64 then "a" else if nb <= 128 then "b" else "c") in
      let steps = String.concat "" (List.map (fun v -> " " ^ hx v ^ " 1") vs) in
      expect ~extra:("cls=hist-" ^ String.concat "" (List.map cls (List.map z args)))
        (Printf.sprintf "ok%s %s %s 1" steps (tok_of_bytes (dec_text last)) (hx last)) got
  | "cdivrem" -> if Zar.sign (a 1) = 0 then expect ~nt:false "panic DivideBy0" got
      else
        let (q, r) = cv_divrem (a 0) (a 1) in
        let (uq, ur) = cv_divrem (Zar.abs (a 0)) (a 1) in
        (* which arm of the prepared division this is in a build with 64-bit words / 32-bit words: divisor length class
           and whether the top word of the divisor has leading zeros (the normalising shift is undone afterwards) *)
        let cls w = let l = (bits (a 1) + w - 1) / w in
          (if l <= 1 then "word" else if l = 2 then "dword" else "large") ^ (if bits (a 1) mod w = 0 then "-shift0" else "-shifted") in
        expect ~extra:(Printf.sprintf "cls=const-w64-%s-w32-%s" (cls 64) (cls 32)) (Printf.sprintf "ok %s %s %s %s" (hx q) (hx r) (hx uq) (hx ur)) got
  | "tostr" ->
      let r = n 0 and v = a 1 in
      let ds = List.map (digit_char false) (digits_spec r (Zar.abs v)) in
      let text = if Zar.sign v < 0 then zi 45 :: ds else ds in
      expect ("ok " ^ tok_of_bytes text) got
  | "fromstr" ->
      let r = n 0 and text = bytes_of_tok (arg 1) in
      if List.exists (fun c -> Zar.to_int c >= 0x80) text then (match got with "err" :: _ -> pass ~nt:false () | _ -> fail "err")
      else (match from_str_radix_spec true r text with
        | Ok v -> expect ~extra:"cls=parse-valid" ("ok " ^ hx v ^ " 1") got
        | Err _ -> expect ~extra:"cls=parse-invalid" "err parse" got
        | _ -> fail "spec-undefined")
  | "tobytes" ->
      let v = a 0 in
      let ule = sle_bytes (Zar.abs v) and ile = to_signed_le_bytes_spec v in
      expect (Printf.sprintf "ok %s %s %s %s" (tok_of_bytes ule) (tok_of_bytes (List.rev ule)) (tok_of_bytes ile) (tok_of_bytes (List.rev ile))) got
  | "frombytes" ->
      let bs = bytes_of_tok (arg 0) in
      let fid = same (Zar.equal (ubig_de_asis (zi 8) bs) (sle_value bs) && Zar.equal (ubig_de_asis (zi 4) bs) (sle_value bs)) in
      expect ~extra:fid (Printf.sprintf "ok %s %s %s %s 1" (hx (sle_value bs)) (hx (sle_value (List.rev bs))) (hx (le_signed_value bs)) (hx (le_signed_value (List.rev bs)))) got
  | "tof64" ->
      let v = a 0 in
      let fl e = match Zar.sign e with 0 -> "Exact" | 1 -> "Pos" | _ -> "Neg" in
      let (b64, e64) = cv_int_to_float (zi 53) (zi 11) v and (b32, e32) = cv_int_to_float (zi 24) (zi 8) v in
      expect (Printf.sprintf "ok %s %s %s %s" (hx b64) (fl e64) (hx b32) (fl e32)) got
  (* ---------------------------------------------------------------- log2 bounds: judged as bounds *)
  | "log2b" -> (
      match arg 0 with
      | "ubig" | "ibig" -> judge_log2_value ~cls:(Printf.sprintf "int-w%d" (min 9 ((bits (a 1) + 63) / 64))) (a 1) Zar.one got
      | "u8" | "u16" | "u32" | "u64" | "u128" | "i64" -> judge_log2_value ~cls:(arg 0) (a 1) Zar.one got
      | "f32" | "f64" -> (
          let v = if arg 0 = "f32" then f32_decode (n 1) else f64_decode (n 1) in
          match v with
          | FNan -> (match got with "panic" :: _ -> pass ~nt:false ~extra:"cls=log2-nan" () | _ -> fail "panic (NaN has no logarithm)")
          | FInf _ -> expect ~nt:false ("ok bounds " ^ pos_inf ^ " " ^ pos_inf) got
          | FFin (_, _) -> (match float_value v with Some (p, q) -> judge_log2_value ~cls:(arg 0) p q got | None -> fail "spec"))
      | "rbig" | "relaxed" -> judge_log2_value ~cls:"ratio" (a 1) (a 2) got
      | "fbig" ->
          let base = n 1 and sg = z (arg 2) and ex = z (arg 3) in
          let bp = Zar.pow base (abs (Zar.to_int ex)) in
          if Zar.sign ex >= 0 then judge_log2_value ~cls:("fbig" ^ Zar.to_string base) (Zar.mul sg bp) Zar.one got
          else judge_log2_value ~cls:("fbig" ^ Zar.to_string base) sg bp got
      | t -> fail ("unknown-log2b-type-" ^ t))
  (* ---------------------------------------------------------------- floats *)
  | "fcmp" ->
      (* exact comparison of s1 * b^e1 with s2 * b^e2 on integers; both call directions must answer it *)
      let b = n 0 in
      let s1 = a 2 and e1 = a 3 and s2 = a 4 and e2 = a 5 in
      let m = Zar.min e1 e2 in
      let v1 = Zar.mul s1 (Zar.pow b (Zar.to_int (Zar.sub e1 m))) and v2 = Zar.mul s2 (Zar.pow b (Zar.to_int (Zar.sub e2 m))) in
      let c = Zar.compare v1 v2 in
      let w x = if x < 0 then "lt" else if x > 0 then "gt" else "eq" in
      expect ~nt:true ("ok " ^ w c ^ " " ^ w (-c)) got
  | "fadd" | "fsub" | "fmul" | "fdiv" | "fsqrt" ->
      let b = n 0 and m = mode_of (arg 1) and p = n 2 in
      let x1 = frac b (a 3) (a 4) in
      let x2 () = frac b (a 5) (a 6) in
      if op = "fdiv" && Zar.sign (fst (x2 ())) = 0 then expect ~nt:false "panic DivideBy0" got
      else if op = "fsqrt" && Zar.sign (fst x1) < 0 then expect ~nt:false "panic RootNegative" got
      else
        let x = match op with
          | "fadd" -> let (nn, d) = fadd x1 (x2 ()) in XRat (nn, d)
          | "fsub" -> let (nn, d) = fadd x1 (fneg (x2 ())) in XRat (nn, d)
          | "fmul" -> let (nn, d) = fmul x1 (x2 ()) in XRat (nn, d)
          | "fdiv" -> let (nn, d) = fdiv x1 (x2 ()) in XRat (nn, d)
          | _ -> let (nn, d) = x1 in XSqrt (nn, d) in
        (* round 4: the digit-exact as-is models of C03 (Float/LongModel.v, every Repr::new of the code inside; proved = one
           rounding of the exact result + normal form for operands that fit the precision, for ANY digit estimate): every
           build is compared with the model token for token, and a result that is not in normal form is a failure *)
        let (n1s, n1e) = fnormalize b (a 3) (a 4) in
        let (n2s, n2e) = if op = "fsqrt" then (Zar.zero, Zar.zero) else fnormalize b (a 5) (a 6) in
        let raw ap = (match ap with
          | AExact (s, e) -> hx s ^ " " ^ hx e ^ " Exact"
          | AInexact (s, e, r) -> hx s ^ " " ^ hx e ^ " " ^ (match r with NoOp -> "NoOp" | AddOne -> "AddOne" | SubOne -> "SubOne")) in
        let model = (match op with
          | "fadd" -> Some (raw (ctx_add_n_x b p m n1s n1e n2s n2e))
          | "fsub" -> Some (raw (ctx_sub_n_x b p m n1s n1e n2s n2e))
          | "fmul" -> Some (raw (ctx_mul_n b p m n1s n1e n2s n2e))
          | "fdiv" -> (match ctx_div_n_x b p m n1s n1e n2s n2e with Ok ap -> Some (raw ap) | _ -> None)
          | _ -> (match ctx_sqrt_n b p m n1s n1e with Ok ap -> Some (raw ap) | _ -> None)) in
        (match got with
         | [ "ok"; s; e; f; prec ] ->
             let fid = (match model with Some t -> same (t = s ^ " " ^ e ^ " " ^ f) | None -> same false) in
             if s = "inf" || s = "-inf" then fail "finite-result"
             else if not (Zar.equal (usz prec) p) then fail ("precision-" ^ hx p)
             else if not (is_normal b (z s) (z e)) then fail "result-in-normal-form"
             else if check_contract b p m x (z s) (z e) (flag_of f) then pass ~extra:(fid ^ " cls=float-" ^ f ^ " path=float-model-" ^ op) ()
             else fail "rounding-contract"
         | _ -> fail "ok-sig-exp-flag-prec")
  | "fx" -> (
      (* round 4: float operations with exponents anywhere in isize (release vs debug: overflow checks).  As-is: C03's
         digit-exact models, which only ever ADD exponents (no power of the base of that size is formed); specification: the
         rounding contract after translating the exponents next to zero (rounding to p digits commutes with scaling by powers
         of the base; for + and - of operands further apart than every digit involved the small operand only decides the
         direction, so the distance is cut to p + both lengths + 16).  Class float_exponent_range_unchecked (OPEN): the
         exponents of a product do not add up within isize - no representable result; Serde/ExpRangeModel.v predicts a panic
         for builds with overflow checks and the wrapped exponent for builds without *)
      let sub = arg 0 in
      let b = n 1 and m = mode_of (arg 2) and p = n 3 in
      let s1 = a 4 and e1 = a 5 in
      let (s2, e2) = if sub = "sqrt" then (Zar.zero, Zar.zero) else (a 6, a 7) in
      let raw ap = (match ap with
        | AExact (s, e) -> hx s ^ " " ^ hx e ^ " Exact"
        | AInexact (s, e, r) -> hx s ^ " " ^ hx e ^ " " ^ (match r with NoOp -> "NoOp" | AddOne -> "AddOne" | SubOne -> "SubOne")) in
      let cls = sub = "mul" && mul_exp_range_class e1 e2 in
      match got with
      | "ok" :: xr :: rest when xr = "xr=" ^ b2s cls ->
          let g = String.concat " " rest in
          if cls then begin
            let show = function Ok ap -> raw ap ^ " " ^ hx p | Panic _ -> "panic" | _ -> "?" in
            if g = show (ctx_mul_build true b p m s1 e1 s2 e2) then { (known "float_exponent_range_unchecked" "a documented panic in every build") with extra = "asis=same cls=exp-range-checked-build" }
            else if g = show (ctx_mul_build false b p m s1 e1 s2 e2) then { (known "float_exponent_range_unchecked" "a documented panic in every build") with extra = "asis=same cls=exp-range-wrapping-build" }
            else if g = "panic" then
              (* a build without overflow checks whose wrapped exponent then trips the CHECKED addition of Repr::new (064626d) *)
              { (known "float_exponent_range_unchecked" "a documented panic in every build") with extra = "cls=exp-range-late-panic" }
            else fail "panic-or-the-wrapped-exponent-of-the-as-is-model"
          end else begin
            let lim = zi (Zar.numbits s1 + Zar.numbits s2 + Zar.to_int p + 16) in
            (* translated operands (t1, t2), and k with: true exponent = translated exponent + k *)
            let (t1, t2, k, model) = (match sub with
              | "mul" -> (Zar.zero, Zar.zero, Zar.add e1 e2, Some (raw (ctx_mul_n b p m s1 e1 s2 e2)))
              | "sqrt" -> let e' = Zar.erem e1 (zi 2) in
                  (e', Zar.zero, Zar.div (Zar.sub e1 e') (zi 2), (match ctx_sqrt_n b p m s1 e1 with Ok ap -> Some (raw ap) | _ -> None))
              | _ ->
                  let d = Zar.sub e1 e2 in
                  let (t1, t2, k) =
                    if Zar.gt d lim then (lim, Zar.zero, Zar.sub e1 lim)
                    else if Zar.lt d (Zar.neg lim) then (Zar.zero, lim, Zar.sub e2 lim)
                    else let mn = Zar.min e1 e2 in (Zar.sub e1 mn, Zar.sub e2 mn, mn) in
                  (* a zero result is stored as (0, 0) whatever the exponents of the operands were *)
                  let sh s e = if Zar.sign s = 0 then e else Zar.add e k in
                  let shift ap = (match ap with AExact (s, e) -> AExact (s, sh s e) | AInexact (s, e, r) -> AInexact (s, sh s e, r)) in
                  let f = if sub = "add" then ctx_add_n_x else ctx_sub_n_x in
                  (t1, t2, k, Some (raw (shift (f b p m s1 t1 s2 t2))))) in
            let x = (match sub with
              | "mul" -> XRat (Zar.mul s1 s2, Zar.one)
              | "sqrt" -> let (nn, d) = frac b s1 t1 in XSqrt (nn, d)
              | "add" -> let (nn, d) = fadd (frac b s1 t1) (frac b s2 t2) in XRat (nn, d)
              | _ -> let (nn, d) = fadd (frac b s1 t1) (fneg (frac b s2 t2)) in XRat (nn, d)) in
            if sub = "sqrt" && Zar.sign s1 < 0 then (if g = "panic" then pass ~nt:false () else fail "panic RootNegative")
            else match rest with
            | [ s; e; f; prec ] ->
                let fid = (match model with Some t -> same (t = s ^ " " ^ e ^ " " ^ f) | None -> same false) in
                if s = "inf" || s = "-inf" then fail "finite-result"
                else if not (Zar.equal (usz prec) p) then fail ("precision-" ^ hx p)
                else if not (is_normal b (z s) (z e)) then fail "result-in-normal-form"
                else if check_contract b p m x (z s) (if Zar.sign (z s) = 0 then z e else Zar.sub (z e) k) (flag_of f) then
                  pass ~extra:(fid ^ " cls=float-extreme-exponent-" ^ sub ^ (if Zar.gt (Zar.abs (Zar.sub e1 e2)) (Zar.pow (zi 2) 63) then "-far" else "")) ()
                else fail "rounding-contract"
            | _ -> fail (match model with Some t -> "ok xr=0 " ^ t | None -> "ok xr=0 sig exp flag prec")
          end
      | _ -> fail ("ok xr=" ^ b2s cls ^ " ..."))
  | "fexp" | "fln" | "fpowi" ->
      (* judged against the specification of C11 in every build (round 2: only diffed between the builds) *)
      judge_elem op (n 0) (mode_of (arg 1)) (n 2) (a 3) (a 4) (if op = "fpowi" then a 5 else Zar.zero) got
  | "ftostr" ->
      let b = n 0 in
      let (s, e) = fnormalize b (a 3) (a 4) in
      (match got with
       | [ "ok"; _; s'; e' ] -> if s' ^ " " ^ e' = show_repr (s, e) then pass () else fail ("ok text " ^ show_repr (s, e))
       | _ -> fail ("ok text " ^ show_repr (s, e)))
  | "ffromstr" -> (
      let b = n 0 in
      match got with
      | [ "ok"; s; e; p; lay ] -> if lay = "1" && (s = "inf" || s = "-inf" || fbig_canonb b (z s) (z e) (usz p)) then pass () else fail "canonical-float"
      | "err" :: _ -> pass ~nt:false ()
      | _ -> fail "ok-or-err")
  (* ---------------------------------------------------------------- rationals *)
  | "qadd" | "qsub" | "qmul" | "qdiv" ->
      let (n1, d1) = (a 0, a 1) and (n2, d2) = (a 2, a 3) in
      if op = "qdiv" && Zar.sign n2 = 0 then expect ~nt:false "panic DivideBy0" got
      else
        let (nn, dd) = match op with
          | "qadd" -> fadd (n1, d1) (n2, d2) | "qsub" -> fadd (n1, d1) (fneg (n2, d2))
          | "qmul" -> fmul (n1, d1) (n2, d2) | _ -> fdiv (n1, d1) (n2, d2) in
        let (cn, cd) = rat_reduce nn dd in
        expect (Printf.sprintf "ok %s %s 1" (hx cn) (hx cd)) got
  | "qnext" ->
      let lim = a 2 in
      if Zar.sign lim = 0 then expect ~nt:false "panic DivideBy0" got
      else (
        let x = rat_reduce (a 0) (a 1) in
        match got with
        | [ "ok"; un; ud; "1"; dn; dd; "1" ] ->
            let okb = function Ok true -> true | _ -> false in
            if okb (next_up_check x lim (z un, z ud)) && okb (next_down_check x lim (z dn, z dd)) then pass ~extra:"cls=farey" ()
            else fail "farey-neighbours"
        | _ -> fail "ok up down")
  | "ftof64" -> (
      (* FBig::to_f64 (always HalfEven, 53 bits) / to_f32 (own mode, 24 bits) against the specification of C06 ieee_round of the
         exact value.  Two OPEN classes (both also open in C06): the internal base-2 conversion hands over more bits than the
         target precision (flag read by the harness through the public API, predicted by FloatToIeeeAsis.wide_class):
         debug builds panic on a debug assertion, release builds round twice; and results in the subnormal range
         (rounded at 53 / 24 bits first, then again by the encoder).  Outside the classes every build must return
         the specification's bits and flag. *)
      let b = n 0 and m = mode_of (arg 1) in
      let (s, e) = fnormalize b (a 3) (a 4) in
      (* base 2 with an exponent next to the ends of isize: far beyond every threshold of both formats (2^+-5000 with at most
         1000 bits of significand), the answers are those of the capped exponent; no power of that size is formed here *)
      let e = if Zar.equal b (zi 2) && Zar.numbits s < 1000 && Zar.gt (Zar.abs e) (zi 5000) then (if Zar.sign e > 0 then zi 5000 else zi (-5000)) else e in
      let pow2 = Zar.equal b (zi 2) || Zar.equal b (zi 8) || Zar.equal b (zi 16) in
      (* finding fbig_to_float_wide_significand is FIXED (344196e: the division route rounds once to the precision,
         Conv/ConvModel.v div_round_once; Conv/ConvDivRoute.v div_round_once_fits): no conversion is wide any more, in any
         build; Serde/FloatToIeeeAsis.wide_class is the class of the code before the repair and is not consulted *)
      ignore pow2;
      let w64 = false and w32 = false in
      let (nn, dd) = frac b s e in
      let part (f : fmt) (pp : enc_params) mm =
        let (bits, c) = ieee_round f mm nn dd in
        let want = hx bits ^ " " ^ flag_tok (flag_of_error (zi (Zar.sign nn)) c) in
        let asis = (match fbig_to_float pp b mm s e with Ok (FR (ab, fl)) -> hx ab ^ " " ^ flag_tok fl | Panic _ -> "panic -" | _ -> "?") in
        let minnorm_e = Zar.to_int (Zar.add f.emin (Zar.sub f.prec Zar.one)) in
        let an = Zar.abs nn in
        let below_normal = Zar.sign nn <> 0 && (if minnorm_e >= 0 then Zar.lt an (Zar.mul dd (Zar.pow (zi 2) minnorm_e))
          else Zar.lt (Zar.mul an (Zar.pow (zi 2) (- minnorm_e))) dd) in
        (want, asis, below_normal) in
      match got with
      | [ "ok"; flags; a64; f64'; a32; f32' ] when String.length flags = 7 && String.sub flags 0 5 = "wide=" ->
          let g64 = flags.[5] = '1' and g32 = flags.[6] = '1' in
          let (want64, asis64, sub64) = part f64 p64 MHalfEven and (want32, asis32, sub32) = part f32 p32 m in
          let got64 = a64 ^ " " ^ f64' and got32 = a32 ^ " " ^ f32' in
          let large_ = (not pow2) && Zar.gt (Zar.abs e) (zi 38) in
          let fid = same (g64 = w64 && g32 = w32 && (large_ || ((g64 || got64 = asis64) && (g32 || got32 = asis32)))) in
          let want = Printf.sprintf "ok wide=%s%s %s %s" (b2s w64) (b2s w32) want64 want32 in
          (* one part: `Pass | `Known tag | `Fail *)
          (* |exponent| > THRESHOLD_SMALL_EXP = 38 in a base that is not a power of two: the conversion goes through the
             ln/exp route of convert_base, which is not faithful (open class convert_base_large_exp_not_faithful of C08, no
             exact as-is model): an answer that differs from the specification there is left undecided (the builds are
             still diffed against each other) *)
          let large = (not pow2) && Zar.gt (Zar.abs e) (zi 38) in
          (* one part: `Pass | `Known tag | `Skip | `Fail *)
          let judge_part wide_flag gotp wantp asisp sub =
            if wide_flag then `Fail       (* a wide hand-over would trip the debug assertion again *)
            else if gotp = wantp then `Pass
            else if sub && gotp = asisp then `Known "fbig_to_float_subnormal"
            else if large then `Skip
            else `Fail in
          if (a64 = "panic" && not g64) || (a32 = "panic" && not g32) then fail "no-panic-outside-the-class"
          else (match judge_part g64 got64 want64 asis64 sub64, judge_part g32 got32 want32 asis32 sub32 with
            | `Fail, _ | _, `Fail -> fail want
            | `Known t, _ | _, `Known t -> { (known t want) with extra = fid ^ " cls=" ^ t }
            | `Skip, _ | _, `Skip -> { (skip "large-exponent-route-cross-config-only") with extra = "why=large-exponent-route-cross-config-only " ^ fid }
            | `Pass, `Pass -> pass ~extra:(fid ^ " cls=fbig-to-float" ^ (if g64 || g32 then "-wide-but-right" else "")) ())
      | _ -> fail "ok wide=XY f64 flag f32 flag")
  | "qtof64" ->
      (* RBig::to_f64 / to_f32 against the IEEE round-to-nearest-even of the exact quotient (Conv/ConvSpec.v ieee_rne,
         = binary_normalize of Flocq by C06_spec_is_flocq_f32/f64); as-is: Conv/ConvModel.v rat_to_float (= spec by C06_rat_to_f64) *)
      let (nn, dd) = rat_reduce (a 0) (a 1) in
      let (b64, c64) = ieee_rne f64 nn dd and (b32, c32) = ieee_rne f32 nn dd in
      let fid = same (rat_to_float p64 nn dd = (b64, c64) && rat_to_float p32 nn dd = (b32, c32)) in
      expect ~extra:(fid ^ " cls=rat-to-float") (Printf.sprintf "ok %s %s %s %s" (hx b64) (cmp_tok c64 0) (hx b32) (cmp_tok c32 0)) got
  | "qfromstr" -> (
      match got with
      | [ "ok"; nn; dd; lay ] -> if lay = "1" && rat_canonb (z nn) (z dd) then pass () else fail "canonical-rational"
      | "err" :: _ -> pass ~nt:false ()
      | _ -> fail "ok-or-err")
  (* ---------------------------------------------------------------- serialization round trips *)
  | "ser_ubig" ->
      let v = a 0 in
      let text = (match json_int_text v with Ok t -> t | _ -> failwith "json_int_text") in
      let pc = w_ubig_enc v and js = json_of text in
      let body k w = bytes_enc (ubig_ser_asis (zi k) (words_of w v)) in
      let jfid w = json_int_text_asis (zi w) v = Ok text && json_int_de_asis (zi w) false text = Ok v in
      let fid = same (body 8 64 = pc && body 4 32 = pc && jfid 64 && jfid 32 && json_int_de false text = Ok v && text = dec_text v) in
      expect ~extra:(fid ^ " cls=ser-int") (Printf.sprintf "ok %s %s %s %s 1" (tok_of_bytes pc) (hx v) (tok_of_bytes js) (hx v)) got
  | "ser_ibig" ->
      let v = a 0 in
      let text = (match json_int_text v with Ok t -> t | _ -> failwith "json_int_text") in
      let pc = w_ibig_enc v and js = json_of text in
      let sg = if Zar.sign v < 0 then Negative else Positive in
      let body k w = bytes_enc (ibig_ser_asis (zi k) sg (words_of w (Zar.abs v))) in
      let jfid w = json_int_text_asis (zi w) v = Ok text && json_int_de_asis (zi w) true text = Ok v in
      let fid = same (body 8 64 = pc && body 4 32 = pc && jfid 64 && jfid 32 && json_int_de true text = Ok v && text = dec_text v) in
      expect ~extra:(fid ^ " cls=ser-int") (Printf.sprintf "ok %s %s %s %s 1" (tok_of_bytes pc) (hx v) (tok_of_bytes js) (hx v)) got
  | "ser_fbig" | "ser_repr" -> (
      (* binary form: exact expectation; text form: Serde/JsonTokenModel.v json_float_ser (Display, and a finite number
         that is displayed like an infinity token gets the scale "@0": repair of finding fbig_json_inf_collision), read
         back through the token model (lexer of the JSON string, infinity tokens, from_str_native): the value must come
         back in EVERY base (Serde/JsonTokenProofs.v json_float_ser_roundtrip) *)
      let fb = op = "ser_fbig" in
      let b = n 0 in
      let p = if fb then n 2 else Zar.zero in
      let (s, e) = if fb then repr_arg b (arg 3) (arg 4) else repr_arg b (arg 1) (arg 2) in
      let pc = if fb then w_fbig_enc s e p else w_repr_enc s e in
      let shown = show_repr (s, e) in
      let text = json_float_ser b s e in
      let js = tok_of_bytes (json_of text) in
      let asis_back = (match json_tok_float b (json_of text) with Ok (s', e') -> Some (show_repr (s', e')) | _ -> None) in
      let escaped = text <> json_float_text b s e in
      let want = Printf.sprintf "ok %s %s%s 1 %s %s <prec> 1" (tok_of_bytes pc) shown (if fb then " " ^ hx p else "") js shown in
      let split = (match got, fb with
        | [ "ok"; pc'; s1; e1; p1; l1; j; s2; e2; p2; l2 ], true -> Some (pc', s1 ^ " " ^ e1, p1 = hx p, l1, j, s2 ^ " " ^ e2, p2, l2)
        | [ "ok"; pc'; s1; e1; l1; j; s2; e2; l2 ], false -> Some (pc', s1 ^ " " ^ e1, true, l1, j, s2 ^ " " ^ e2, "", l2)
        | _ -> None) in
      match split with
      | None -> fail want
      | Some (pc', v1, p1ok, l1, j, v2, p2, l2) ->
          let bin_ok = pc' = tok_of_bytes pc && v1 = shown && p1ok && l1 = "1" in
          let fid = same (j = js && Some v2 = asis_back) in
          if not bin_ok || l2 <> "1" || j <> js then fail want
          else if v2 = shown then
            pass ~extra:(fid ^ " cls=ser-float" ^ (if escaped then "-escaped" else "")
                         ^ (if fb then " path=" ^ (if p2 = hx p then "json-precision-kept" else "json-precision-changed") else "")) ()
          else fail want)
  | "ser_rbig" | "ser_relaxed" ->
      let (cn, cd) = if op = "ser_rbig" then rat_reduce (a 0) (a 1) else rat_reduce2 (a 0) (a 1) in
      let text = (match json_rat_text cn cd with Ok t -> t | _ -> failwith "json_rat_text") in
      let pc = w_rat_enc cn cd and js = json_of text in
      let v = hx cn ^ " " ^ hx cd ^ " 1" in
      let fid = same (json_rat_de (op = "ser_relaxed") text = Ok (cn, cd) && text = rat_text cn cd) in
      expect ~extra:(fid ^ " cls=ser-ratio") (Printf.sprintf "ok %s %s %s %s" (tok_of_bytes pc) v (tok_of_bytes js) v) got
  (* ---------------------------------------------------------------- arbitrary bytes into the binary decoders *)
  | "de_ubig" | "de_ibig" -> (
      let input = bytes_of_tok (arg 0) in
      let signed_ = op = "de_ibig" in
      match (if signed_ then w_ibig_dec input else w_ubig_dec input) with
      | None -> expect ~extra:"cls=de-err" "err decode" got
      | Some (v, rest) ->
          let again = if signed_ then w_ibig_enc v else w_ubig_enc v in
          let fid = (match bytes_dec input with
            | Some (bs, _) ->
                let f k = if signed_ then ibig_de_asis (zi k) bs else ubig_de_asis (zi k) bs in
                same (Zar.equal (f 8) v && Zar.equal (f 4) v)
            | None -> "") in
          expect ~extra:(fid ^ " cls=de-ok") (Printf.sprintf "ok %s %s 1 %s 1" (consumed input rest) (hx v) (tok_of_bytes again)) got)
  | "de_rbig" | "de_relaxed" -> (
      let input = bytes_of_tok (arg 0) in
      let dec fixed = if op = "de_rbig" then w_rbig_dec fixed input else w_relaxed_dec fixed input in
      let show = function
        | Ok ((nn, dd), rest) -> Printf.sprintf "ok %s %s %s 1 %s 1" (consumed input rest) (hx nn) (hx dd) (tok_of_bytes (w_rat_enc nn dd))
        | Err _ -> "err decode"
        | Panic _ -> "panic Undocumented"
        | OutOfFuel -> "outoffuel" in
      let want = show (dec true) in
      let cls = (match dec true with Ok _ -> "cls=de-ok" | Err e -> if Zar.equal e (zi 2) then "cls=de-zero-denominator" else "cls=de-err" | _ -> "cls=de-other") in
      let g = (match got with "panic" :: _ -> "panic Undocumented" | _ -> gots) in
      if g = want then pass ~extra:cls () else fail want)
  | "de_repr" -> (
      let b = n 0 and input = bytes_of_tok (arg 1) in
      match w_repr_dec true b input with
      | None -> expect ~extra:"cls=de-err" "err decode" got
      | Some ((s, e), rest) ->
          expect ~extra:"cls=de-ok" (Printf.sprintf "ok %s %s 1 %s 1" (consumed input rest) (show_repr (s, e)) (tok_of_bytes (w_repr_enc s e))) got)
  | "de_fbig" -> (
      let b = n 0 and input = bytes_of_tok (arg 2) in
      match w_fbig_dec true b input with
      | None -> expect ~extra:"cls=de-err" "err decode" got
      | Some (((s, e), p), rest) ->
          expect ~extra:"cls=de-ok" (Printf.sprintf "ok %s %s %s 1 %s 1" (consumed input rest) (show_repr (s, e)) (hx p) (tok_of_bytes (w_fbig_enc s e p))) got)
  (* ---------------------------------------------------------------- arbitrary token streams into the text decoders *)
  (* round 4: Serde/JsonTokenModel.v decides EVERY token stream (lexer of serde_json for the one token kind that reaches
     visit_str, error for every other kind - numbers, null, booleans, arrays, maps never reach a Visitor of the library) *)
  | "dej_ubig" | "dej_ibig" -> (
      let input = bytes_of_tok (arg 0) in
      let signed_ = op = "dej_ibig" in
      let plain = plain_json_string input <> None in
      let kind = (match json_str_token input with Ok _ -> if plain then "plain" else "escaped-or-blank" | _ -> "rejected-token") in
      let fid = (match json_str_token input with
        | Ok body when !cur_wb > 0 -> same (json_int_de_asis (wz ()) signed_ body = json_int_de signed_ body) ^ " "
        | _ -> "asis=same ") in
      match json_tok_int signed_ input with
      | Ok v -> expect ~extra:(fid ^ "cls=dej-literal path=json-" ^ kind) (Printf.sprintf "ok %s 1 %s 1" (hx v) (tok_of_bytes (json_of (dec_text v)))) got
      | Err _ -> expect ~extra:(fid ^ "cls=dej-bad-literal path=json-" ^ kind) "err decode" got
      | _ -> fail "spec-undefined")
  | "dej_rbig" | "dej_relaxed" -> (
      let input = bytes_of_tok (arg 0) in
      let kind = (match json_str_token input with Ok _ -> if plain_json_string input <> None then "plain" else "escaped-or-blank" | _ -> "rejected-token") in
      match json_tok_rat (op = "dej_relaxed") input with
      | Ok (nn, dd) ->
          let again = (match json_rat_text nn dd with Ok t -> tok_of_bytes (json_of t) | _ -> "?") in
          expect ~extra:("asis=same cls=dej-literal path=json-" ^ kind) (Printf.sprintf "ok %s %s 1 %s 1" (hx nn) (hx dd) again) got
      | Err _ -> expect ~extra:("asis=same cls=dej-bad-literal path=json-" ^ kind) "err decode" got
      | _ -> fail "spec-undefined")
  | "dej_fbig" -> (
      let b = n 0 in
      let input = bytes_of_tok (arg 2) in
      let kind = (match json_str_token input with Ok _ -> if plain_json_string input <> None then "plain" else "escaped-or-blank" | _ -> "rejected-token") in
      match json_tok_float b input, got with
      | Ok (s, e), [ "ok"; s'; e'; p; lay; again; sm ] ->
          let value_ok = s' ^ " " ^ e' = show_repr (s, e) && lay = "1" && (Zar.sign s = 0 || fbig_canonb b s e (usz p)) in
          let text_ok = again = tok_of_bytes (json_of (json_float_ser b s e)) in
          if value_ok && text_ok && sm = "1" then pass ~extra:("asis=same cls=dej-literal path=json-" ^ kind) ()
          else fail ("ok " ^ show_repr (s, e) ^ " <prec> 1 <text> 1")
      | Ok (s, e), _ -> fail ("ok " ^ show_repr (s, e) ^ " <prec> 1 <text> 1")
      | Err _, _ -> expect ~extra:("asis=same cls=dej-bad-literal path=json-" ^ kind) "err decode" got
      | _, _ -> fail "spec-undefined")
  | "kmul" -> (
      (* one multiplication kernel on the word slices of the answering build (verif_hooks::mul_kernel); the word-level
         as-is model of C01 (Int/RingMulW.v: schoolbook chunks, Karatsuba, Toom-3 slice by slice) is run on the SAME
         slices at the SAME word size; both must give c + (+-) a * b *)
      let which = Zar.to_int (n 0) and positive = arg 1 = "1" in
      let c = a 2 and x = a 3 and y = a 4 in
      let want = Zar.add c (if positive then Zar.mul x y else Zar.neg (Zar.mul x y)) in
      match got with
      | [ "ok"; total; lens ] when String.length lens > 4 && String.sub lens 0 4 = "len=" ->
          let w = !cur_wb in
          let (la, lb) = (match String.split_on_char ',' (String.sub lens 4 (String.length lens - 4)) with
            | [ x; y ] -> (int_of_string ("0x" ^ x), int_of_string ("0x" ^ y)) | _ -> failwith "len=") in
          let fid =
            if w = 0 then "" else begin
              let wl v = (Zar.numbits v + w - 1) / w in
              let (x, y) = if wl x >= wl y then (x, y) else (y, x) in
              let ws v k = to_words (zi w) (nat_of_int k) v in
              let kernel = (match which with
                | 1 -> simple_add_signed_mul_w | 2 -> karatsuba_add_signed_mul_w | 3 -> toom3_add_signed_mul_w | _ -> add_signed_mul_w) in
              let r = kernel (zi w) x2by1 wr_T_simple wr_T_kara wr_CHUNK (ws c (la + lb)) (if positive then Positive else Negative) (ws x la) (ws y lb) in
              (match r with
               | Ok (r, carry) -> same (Zar.equal (Zar.add (value (zi w) r) (Zar.mul carry (Zar.pow (zi 2) (w * (la + lb))))) (z total))
               | _ -> same false) ^ Printf.sprintf " path=k%d-w%d" which w
            end in
          if Zar.equal (z total) want then pass ~extra:(fid ^ " cls=kernel") () else fail ("ok " ^ hx want)
      | _ -> fail ("ok " ^ hx want))
  | "mulparams" ->
      let rec int_of_nat = function O -> 0 | S k -> 1 + int_of_nat k in
      (match got with
       | [ "ok"; t1; t2; _; _ ] when Zar.to_int (usz t1) = int_of_nat wr_T_simple && Zar.to_int (usz t2) = int_of_nat wr_T_kara -> pass ~nt:false ()
       | _ -> fail "thresholds-of-the-regenerated-Params.v")
  | "config" -> (
      (* the regenerated cfg_if! chain of integer/src/arch/mod.rs (coq/gen/ArchGen.v), run on the cfg values of the
         answering build, must select an architecture whose Word has exactly the width the build reports *)
      let chars_of (t : string) = t in   (* Coq strings are extracted to native strings (ExtrOcamlNativeString) *)
      let kv t = (match String.index_opt t '=' with Some i -> String.sub t (i + 1) (String.length t - i - 1) | None -> "") in
      match got with
      | [ "ok"; "config"; wb; _; fb; arch; pw ] ->
          let c = (if kv fb = "-" then [] else [ (KForceBits, chars_of (kv fb)) ]) @ [ (KTargetArch, chars_of (kv arch)); (KPointerWidth, chars_of (kv pw)) ] in
          (match arch_word_bits c with
           | Some w when Zar.equal w (usz wb) -> pass ~nt:true ~extra:("cls=arch-w" ^ Zar.to_string w) ()
           | Some w -> fail ("word-bits-" ^ Zar.to_string w)
           | None -> fail "architecture-in-the-table")
      | _ -> fail "ok config word-bits debug-assertions fb= arch= pw=")
  | _ -> fail ("unknown-op-" ^ op)

(* ---------------------------------------------------------------- word-level as-is runs at the word size of the build
   (Serde/WordRuns.v: each run = specification for EVERY word size; here: the answer of the model at w = 64 / 32 against
   the answer of the build with that word size).  Some true = same, Some false = diff, None = no word-level run *)
let rec int_of_nat = function O -> 0 | S k -> 1 + int_of_nat k
let fuel_grl = nat_of_int 200000
let wl_fidelity op args (got : string list) : (bool * string) option =
  let w = !cur_wb in
  if w <> 64 && w <> 32 then None else
  let wz = zi w in
  let arg i = List.nth args i in
  let a i = z (arg i) and n i = usz (arg i) in
  let gots = String.concat " " got in
  let okz = function Ok v -> "ok " ^ hx v | Panic _ -> "panic" | _ -> "?" in
  let words v = (Zar.numbits (Zar.abs v) + w - 1) / w in
  (* which kernel the size dispatch of mul enters first at this word size *)
  let mul_path x y =
    let l = min (words x) (words y) in
    if l <= 2 && max (words x) (words y) <= 2 then "inline" else if l <= int_of_nat wr_T_simple then "schoolbook"
    else if l <= int_of_nat wr_T_kara then "karatsuba" else "toom3" in
  let big v = Zar.numbits (Zar.abs v) > 40000 in
  match op with
  | "mul" when not (big (a 0) || big (a 1)) -> Some (okz (wr_mul wz (a 0) (a 1)) = gots, Printf.sprintf "w%d-%s" w (mul_path (a 0) (a 1)))
  | "sqr" when not (big (a 0)) -> Some (okz (wr_sqr wz (a 0)) = gots, Printf.sprintf "w%d-%s" w (mul_path (a 0) (a 0)))
  | "add" -> Some (okz (wr_add wz (a 0) (a 1)) = gots, Printf.sprintf "w%d" w)
  | "sub" -> Some (okz (wr_sub wz (a 0) (a 1)) = gots, Printf.sprintf "w%d" w)
  | "pow" when Zar.numbits (a 0) * Zar.to_int (n 1) < 20000 -> Some (okz (wr_pow wz (a 0) (n 1)) = gots, Printf.sprintf "w%d" w)
  | "divrem" when not (big (a 0)) ->
      let t = (match wr_divrem wz (a 0) (a 1) with Ok (q, r) -> "ok " ^ hx q ^ " " ^ hx r | Panic _ -> "panic DivideBy0" | _ -> "?") in
      let lb = words (a 1) in
      Some (t = gots, Printf.sprintf "w%d-%s" w (if lb <= 1 then "by-word" else if lb = 2 then "by-dword" else if lb <= 32 then "schoolbook" else "divide-conquer"))
  | "and" -> Some ("ok " ^ hx (wr_and wz (a 0) (a 1)) = gots, Printf.sprintf "w%d" w)
  | "or" -> Some ("ok " ^ hx (wr_or wz (a 0) (a 1)) = gots, Printf.sprintf "w%d" w)
  | "xor" -> Some ("ok " ^ hx (wr_xor wz (a 0) (a 1)) = gots, Printf.sprintf "w%d" w)
  | "shl" -> Some ("ok " ^ hx (wr_shl wz (a 0) (n 1)) = gots, Printf.sprintf "w%d" w)
  | "shr" -> Some ("ok " ^ hx (wr_shr wz (a 0) (n 1)) = gots, Printf.sprintf "w%d" w)
  | "bitlen" -> Some ("ok " ^ hx (wr_bitlen wz (a 0)) = gots, Printf.sprintf "w%d" w)
  | "tz" -> Some ("ok " ^ hopt (wr_tz wz (a 0)) = gots, Printf.sprintf "w%d" w)
  | "ones" -> Some ("ok " ^ hx (wr_ones wz (a 0)) = gots, Printf.sprintf "w%d" w)
  | "tostr" when not (big (a 1)) ->
      let t = (match wr_tostr wz (n 0) (a 1) with Ok t -> "ok " ^ tok_of_bytes t | _ -> "?") in
      let pow2 = Zar.equal (n 0) (Zar.shift_left Zar.one (Zar.log2 (n 0))) in
      Some (t = gots, Printf.sprintf "w%d-%s" w (if pow2 then "pow2" else if words (a 1) <= 2 then "prepared" else if words (a 1) <= 16 then "medium" else "large"))
  | "fromstr" ->
      let text = bytes_of_tok (arg 1) in
      if List.exists (fun c -> Zar.to_int c >= 0x80) text || List.length text > 12000 then None
      else
        let t = (match wr_fromstr wz (n 0) text with Ok v -> "ok " ^ hx v ^ " 1" | Err _ -> "err parse" | _ -> "?") in
        Some (t = gots, Printf.sprintf "w%d" w)
  | "tobytes" ->
      let v = a 0 in
      let ule = to_le_bytes_asis wz (Zar.abs v) and ile = to_signed_le_bytes_asis wz v in
      Some (Printf.sprintf "ok %s %s %s %s" (tok_of_bytes ule) (tok_of_bytes (List.rev ule)) (tok_of_bytes ile) (tok_of_bytes (List.rev ile)) = gots, Printf.sprintf "w%d" w)
  | "sqrt" when not (big (a 0)) -> Some (okz (wr_sqrt wz (a 0)) = gots, Printf.sprintf "w%d-%s" w (if words (a 0) <= 2 then "dword" else "large"))
  | "modmul" when Zar.sign (a 0) > 0 && not (big (a 0)) ->
      Some (okz (ws_modmul wz (a 0) (a 1) (a 2)) = gots, Printf.sprintf "w%d-%s" w (if words (a 0) <= 1 then "single" else if words (a 0) = 2 then "double" else "large"))
  | "modsqr" when Zar.sign (a 0) > 0 && not (big (a 0)) ->
      Some (okz (ws_modmul wz (a 0) (a 1) (a 1)) = gots, Printf.sprintf "w%d-%s" w (if words (a 0) <= 1 then "single" else if words (a 0) = 2 then "double" else "large"))
  | "modpow" when Zar.sign (a 0) > 0 && words (a 0) <= 40 ->
      Some (okz (ws_modpow wz (a 0) (a 1) (a 2)) = gots, Printf.sprintf "w%d-%s" w (if words (a 0) <= 1 then "single" else if words (a 0) = 2 then "double" else "large"))
  (* round 4: gcd / gcd_ext / nth_root / ilog with the dispatch of THIS word size (Serde/WordRunsModel2.v) *)
  | "gcd" when not (big (a 0) || big (a 1)) ->
      let t = (match wr_gcd fuel_grl wz (a 0) (a 1) with Ok g -> "ok " ^ hx g | Panic _ -> "panic" | _ -> "?") in
      let g0 = (match got with "panic" :: _ -> "panic" | _ -> gots) in
      Some (t = g0, Printf.sprintf "w%d-gcd%s" w (Zar.to_string (wr_gcd_path wz (a 0) (a 1))))
  | "gcdext" when not (big (a 0) || big (a 1)) ->
      let t = (match wr_gcdext fuel_grl wz (a 0) (a 1) with Ok ((g, s), t) -> "ok " ^ hx g ^ " " ^ hx s ^ " " ^ hx t | Panic _ -> "panic" | _ -> "?") in
      let g0 = (match got with "panic" :: _ -> "panic" | _ -> gots) in
      Some (t = g0, Printf.sprintf "w%d-gcdext%s" w (Zar.to_string (wr_gcd_path wz (a 0) (a 1))))
  | "nthroot" when not (big (a 0)) ->
      let t = (match wr_nthroot fuel_grl wz (a 0) (n 1) with Ok r -> "ok " ^ hx r | Panic RootZeroth -> "panic RootZeroth" | _ -> "?") in
      Some (t = gots, Printf.sprintf "w%d-root%s" w (if Zar.equal (n 1) (zi 2) then (if words (a 0) <= 2 then "2-dword" else "2-large") else "n"))
  | "ilog" when not (big (a 0)) ->
      let t = (match wr_ilog fuel_grl wz (a 0) (a 1) with Ok e -> "ok " ^ hx e | Panic LogOperand -> "panic LogOperand" | _ -> "?") in
      Some (t = gots, Printf.sprintf "w%d-ilog%s" w (Zar.to_string (wr_ilog_path wz (a 0) (a 1))))
  | "tof64" ->
      let v = a 0 in
      let (b64, c64) = wr_tof64 wz v and (b32, c32) = wr_tof32 wz v in
      Some (Printf.sprintf "ok %s %s %s %s" (hx b64) (cmp_tok c64 0) (hx b32) (cmp_tok c32 0) = gots, Printf.sprintf "w%d-%s" w (if words v <= 2 then "dword" else "large"))
  | _ -> None

let judge op args got =
  let got = (match got with
    | "ok" :: t :: rest when String.length t > 3 && String.sub t 0 3 = "wb=" ->
        cur_wb := (try int_of_string ("0x" ^ String.sub t 3 (String.length t - 3)) with _ -> 0); "ok" :: rest
    | _ -> cur_wb := 0; got) in
  let v = judge0 op args got in
  match (match got with "ok" :: _ | "panic" :: _ | "err" :: _ -> wl_fidelity op args got | _ -> None) with
  | None -> v
  | Some (same_, path) -> { v with extra = v.extra ^ " asis=" ^ (if same_ then "same" else "diff") ^ " path=" ^ path }

let () = serve judge
