(* C05 oracle.  Verdicts are taken against the specification (order / equality of the mathematical
   values: Zar.compare on integers, fcmp_spec / qcmp_spec extracted from Coq for floats / rationals).
   The extracted as-is models (Int/ReprOrdModel, Float/FloatOrdModel, Ratio/RatioOrdModel) are run on the
   representation the implementation reports (layout hook + words) for the model-fidelity statistic
   and to recognise the one open finding class.                                                        *)
open Common
open Model

(* word size of the build that answered: 64, or 32 when the answer carries the token W20 (force_bits="32" run) *)
let wr = ref (Zar.of_int 64)
let usz s = Zar.of_string_base 16 s
let cc = function Lt -> 'L' | Eq -> 'E' | Gt -> 'G'
let bc b = if b then '1' else '0'
let zcmp a b = let c = Zar.compare a b in if c < 0 then Lt else if c = 0 then Eq else Gt
let str cs = String.init (List.length cs) (List.nth cs)

let rec take n l = if n = 0 then [] else match l with [] -> [] | x :: r -> x :: take (n - 1) r
let rec drop n l = if n = 0 then l else match l with [] -> [] | _ :: r -> drop (n - 1) r

exception Bad of string

(* the eight derived answers eq ne cmp pcmp lt le gt ge from one comparison and one equality *)
let ord8 e c = [ bc e; bc (not e); cc c; cc c; bc (c = Lt); bc (c <> Gt); bc (c = Gt); bc (c <> Lt) ]

(* ---------------------------------------------------------------- integers *)
type ival = { iv : Zar.t; r : repr; hash : string; cap : Zar.t; n : Zar.t; inl : bool }

(* the calls Hash::hash makes, as the extracted model (Int/HashSeqModel.v over the REGENERATED step list of
   DashuGen.HashGen) predicts them for a little-endian target with words of !wr bits; printed in the notation of the
   recording hasher of the harness: i<isize> u<usize> b<bytes of one write> *)
let call_token = function
  | HWriteIsize n -> "i" ^ hx n
  | HWriteUsize n -> "u" ^ hx n
  | HWrite bs -> "b" ^ String.concat "" (List.map (fun b -> Printf.sprintf "%02x" (Zar.to_int b)) bs)
let calls_token cs = String.concat "." (List.map call_token cs)
let hash_token (r : repr) = calls_token (hash_fields true !wr r repr_hash_steps_gen)

let read_int what expected toks =
  match toks with
  | [ sv; scap; sn; sinl; h ] ->
      let v = z sv and cap = z scap and n = usz sn and inl = (sinl = "1") in
      (match expected with Some e when not (Zar.equal e v) -> raise (Bad (what ^ "-value-" ^ hx e)) | _ -> ());
      if not (layout_ok !wr v cap n inl) then raise (Bad (what ^ "-layout"));
      let r = repr_of_layout cap inl (words_of !wr n (Zar.abs v)) in
      if not (canonicalb !wr r) then raise (Bad (what ^ "-noncanonical"));
      if not (Zar.equal (rvalue !wr r) v) then raise (Bad (what ^ "-model-value"));
      { iv = v; r; hash = h; cap; n; inl }
  | _ -> raise (Bad (what ^ "-shape"))

let lenclass x = let n = Zar.to_int x.n in if n >= 4 then "4+" else string_of_int n

let judge_int signed args got =
  let k = Zar.to_int (usz (List.hd args)) in
  let triples = List.tl args in
  match got with
  | "ok" :: toks when List.length toks = 5 * k + k * (k - 1) ->
      let vals = List.init k (fun i -> read_int ("v" ^ string_of_int i) (Some (z (List.nth triples (3 * i)))) (take 5 (drop (5 * i) toks))) in
      let pairs = drop (5 * k) toks in
      let same = ref true in
      (* hashing: model fidelity per value, spec per pair of equal values *)
      List.iter (fun x -> if hash_token x.r <> x.hash then same := false) vals;
      let idx = ref 0 in
      let bad = ref None in
      for i = 0 to k - 1 do
        for j = 0 to k - 1 do
          if i <> j then begin
            let a = List.nth vals i and b = List.nth vals j in
            let g = List.nth pairs !idx in
            incr idx;
            let e = Zar.equal a.iv b.iv and c = zcmp a.iv b.iv in
            let ac = zcmp (Zar.abs a.iv) (Zar.abs b.iv) in
            let ae = Zar.equal (Zar.abs a.iv) (Zar.abs b.iv) in
            let want = str (ord8 e c @ [ cc ac; bc ae ] @ (if signed then [ cc ac; cc ac; bc ae; bc ae ] else [])) in
            let me = repr_eq a.r b.r in
            (* as-is = the bodies REGENERATED from integer/src/cmp.rs (DashuGen.HashGen; proved equal to the hand models) *)
            let mc = if signed then ibig_cmp_gen !wr a.r b.r else typed_cmp_gen (as_typed !wr a.r) (as_typed !wr b.r) in
            let mac = abs_cmp !wr a.r b.r and mae = abs_eq a.r b.r in
            let asis = str (ord8 me mc @ [ cc mac; bc mae ] @ (if signed then [ cc mac; cc mac; bc mae; bc mae ] else [])) in
            if asis <> g then same := false;
            if want <> g && !bad = None then bad := Some (Printf.sprintf "pair%d%d=%s" i j want);
            if e && a.hash <> b.hash && !bad = None then bad := Some (Printf.sprintf "hash%d%d-differs-for-equal-values" i j)
          end
        done
      done;
      let cls = String.concat "-" (List.map lenclass vals) ^ (if List.exists (fun x -> List.exists (fun y -> x != y && Zar.equal x.iv y.iv) vals) vals then ":eq" else ":ne") in
      let routes = String.concat "+" (List.init k (fun i -> List.nth triples (3 * i + 1))) in
      let extra = Printf.sprintf "asis=%s cls=%s path=%s" (if !same then "same" else "diff") cls routes in
      (match !bad with None -> pass ~extra () | Some wnt -> { (fail wnt) with extra = "want=" ^ wnt ^ " " ^ extra })
  | _ -> fail "ok-with-all-fields"

(* ---------------------------------------------------------------- floats *)
type fval = { f : frepr; prec : Zar.t; dub : Zar.t }

let base_of = function "2" -> 2 | "3" -> 3 | "a" -> 10 | "10" -> 16 | s -> raise (Bad ("base-" ^ s))

let parse_frepr ssig sexp =
  match ssig with
  | "inf" -> { fsig = Zar.zero; fexp = Zar.one }
  | "-inf" -> { fsig = Zar.zero; fexp = Zar.minus_one }
  | _ -> { fsig = z ssig; fexp = z sexp }

(* value expected from a route, as (source base, sig, exp), when the route is exact *)
(* A route either keeps the source value exactly, or (base conversions, with_base_and_precision; since
   the repairs 84cc580 / c323a19 / 034e0cf of Context::convert_base they round to the precision of the
   result) may round it.  For the latter the result must still be the source value whenever that value
   fits into the reported precision of the result (judged for the same-base routes only). *)
type exactness = Exact | MayRound

let rec strip b m = if Zar.sign m <> 0 && Zar.sign (Zar.rem m b) = 0 then strip b (Zar.div m b) else m

(* is [a] a proper power of [b]?  (ilog_exact of the code: the lossless shortcuts of convert_base) *)
let power_of a b = let rec go x = x = a || (x < a && go (x * b)) in b >= 2 && a > b && go (b * b)

(* can sig * sb^exp be written with at most [precd] digits in base bb?  None: not decided here.
   Decided for the same base and for the two lossless shortcuts of Context::convert_base (one base a proper power of the
   other: the value is carried over exactly, then rounded to the precision - so it must come back unchanged whenever it
   fits).  Whether a conversion between unrelated bases is correctly rounded is C06/C08's property, not judged here. *)
let representable sb (e : frepr) bb precd =
  let bz = Zar.of_int bb in
  if sb = bb then Some (Zar.sign precd = 0 || Zar.leq (ndigits bz (strip bz e.fsig)) precd)
  else if power_of sb bb || power_of bb sb then begin
    (* sig * sb^exp = num / den with den | bb^t *)
    let sz = Zar.of_int sb in
    let ex = Zar.to_int e.fexp in
    let num = if ex >= 0 then Zar.mul e.fsig (Zar.pow sz ex) else e.fsig in
    let den = if ex >= 0 then Zar.one else Zar.pow sz (- ex) in
    let rec go r t = if Zar.equal r Zar.one then t else go (Zar.div r (Zar.gcd r bz)) (t + 1) in
    let t = go den 0 in
    let m = Zar.div (Zar.mul num (Zar.pow bz t)) den in
    Some (Zar.sign precd = 0 || Zar.leq (ndigits bz (strip bz m)) precd)
  end else None

let conv_route route =
  match String.index_opt route '_' with
  | Some i ->
      let api = String.sub route 0 i in
      if api = "wb" || api = "wbp" || api = "tb" || api = "td" then
        Some (api, int_of_string ("0x" ^ String.sub route (i + 1) (String.length route - i - 1)))
      else None
  | None -> None

let expected_value bb ssig sexp prec route p =
  let fits b = (* the source has at most prec digits, so no rounding on the way *)
    Zar.sign prec = 0 || Zar.leq (ndigits (Zar.of_int b) (z ssig)) prec in
  if ssig = "inf" || ssig = "-inf" then Some (bb, parse_frepr ssig sexp, Exact)
  else
    let src ?(ex = Exact) b = Some (b, { fsig = z ssig; fexp = z sexp }, ex) in
    match route with
    | "repr" | "parts" | "parts_scaled" | "repr_scaled" | "clone" | "negneg" | "shlr" | "rounding"
    | "fromint" -> src bb
    | "withprec_up" ->
        (* with_precision(prec + p): from unlimited precision (prec = 0) this is a rounding to p digits *)
        if Zar.sign prec <> 0 || Zar.leq (ndigits (Zar.of_int bb) (z ssig)) (usz p) then src bb else None
    | "withprec" | "addsub0" | "mul1" | "muldiv0" | "convint"
    | "mulfac" | "muldivx" | "divself" | "sqrsqrt" | "powi1" | "addtrunc" | "addfloor" | "subceil" | "addround" | "splitpoint"
    | "addfract" | "fromstr" | "ratfloat" -> if fits bb then src bb else None
    | "fromf64" | "fromf32" | "reprf64" | "reprf32" | "fromubig" | "fromu64" | "fromi64" -> src bb
    (* really rounded results: the value is not predicted, the invariants and every comparison are judged *)
    | "same_p" -> src ~ex:MayRound bb
    | "from10" | "from10_p" -> src ~ex:MayRound 10
    | "from2" | "from2_p" -> src ~ex:MayRound 2
    | "from16_p" -> src ~ex:MayRound 16
    (* really rounded results (route names r_...): the value is not predicted, the invariants and every comparison are judged *)
    | _ when String.length route > 2 && String.sub route 0 2 = "r_" -> None
    | _ -> (match conv_route route with
            | Some (_, sb) -> src ~ex:MayRound sb
            | None -> raise (Bad ("route-" ^ route)))

let judge_flt args got =
  let bb = base_of (List.nth args 0) in
  let bz = Zar.of_int bb in
  let k = Zar.to_int (usz (List.nth args 1)) in
  let a6 = drop 2 args in
  match got with
  | "ok" :: toks when List.length toks = 7 * k + k * (k - 1) ->
      let vals = List.init k (fun i ->
        let t = take 7 (drop (7 * i) toks) in
        let q = take 6 (drop (6 * i) a6) in
        match t, q with
        | [ ssig; sexp; sprec; sdub; scap; sn; sinl ], [ _mode; asig; aexp; aprec; route; p ] ->
            let f = parse_frepr ssig sexp in
            let what = "v" ^ string_of_int i in
            (* invariants of the representation: normalised, canonical significand *)
            if not (normalizedb bz f) then raise (Bad (what ^ "-not-normalised"));
            if not (layout_ok !wr f.fsig (z scap) (usz sn) (sinl = "1")) then raise (Bad (what ^ "-significand-layout"));
            (match expected_value bb asig aexp (usz aprec) route p with
             | Some (sb, e, ex) ->
                 let inf_e = f_is_inf e and inf_f = f_is_inf f in
                 if inf_e || inf_f then begin
                   if not (inf_e && inf_f && Zar.sign e.fexp = Zar.sign f.fexp) then raise (Bad (what ^ "-value"))
                 end else if not (xval_eq (Zar.of_int sb) e.fsig e.fexp bz f.fsig f.fexp) then begin
                   match ex with
                   | Exact -> raise (Bad (what ^ "-value"))
                   | MayRound ->
                       if representable sb e bb (usz sprec) = Some true then raise (Bad (what ^ "-value-changed-though-representable"))
                 end
             | None -> ());
            (* hypothesis of C05_float_cmp on the estimate the code really used: |sig| < B^(digits_ub + 1) *)
            let dub = usz sdub in
            if Zar.sign f.fsig <> 0 && not (Zar.lt (Zar.abs f.fsig) (Zar.pow bz (Zar.to_int dub + 1))) then
              raise (Bad (what ^ "-digits_ub-not-a-bound"));
            { f; prec = usz sprec; dub }
        | _ -> raise (Bad "shape")) in
      let pairs = drop (7 * k) toks in
      let same = ref true and bad = ref None and idx = ref 0 in
      for i = 0 to k - 1 do
        for j = 0 to k - 1 do
          if i <> j then begin
            let a = List.nth vals i and b = List.nth vals j in
            let g = List.nth pairs !idx in
            incr idx;
            let e = feq_spec bz a.f b.f and c = fcmp_spec bz a.f b.f and ac = fabs_cmp_spec bz a.f b.f in
            let o8 = ord8 e c in
            (* eq ne pcmp lt le gt ge | cmp abs_cmp | repr.cmp repr== *)
            let want = str ([ List.nth o8 0; List.nth o8 1; List.nth o8 3 ] @ drop 4 o8 @ [ cc c; cc ac; cc c; bc e ]) in
            (* the as-is model runs on the estimates the implementation reported *)
            let dub s = if Zar.equal s a.f.fsig then a.dub else if Zar.equal s b.f.fsig then b.dub else ndigits bz s in
            (* as-is = the bodies REGENERATED from float/src/cmp.rs (DashuGen.CmpGen; proved equal to the hand models) *)
            let me = fbig_eq_gen a.f b.f in
            let mc = repr_cmp_same_base_gen bz dub false a.f b.f in
            let mac = repr_cmp_same_base_gen bz dub true a.f b.f in
            let mrc = mc in
            let mre = Zar.equal a.f.fsig b.f.fsig && Zar.equal a.f.fexp b.f.fexp in
            let asis = str ([ bc me; bc (not me); cc mc; bc (mc = Lt); bc (mc <> Gt); bc (mc = Gt); bc (mc <> Lt) ] @ [ cc mc; cc mac; cc mrc; bc mre ]) in
            if asis <> g then same := false;
            if want <> g && !bad = None then begin
              (* does the answer match the code of the pinned tree (finding F02, repaired)? say so in the verdict *)
              let pr = Some (a.prec, b.prec) in
              let pc = repr_cmp_same_base_pinned bz dub false a.f b.f pr and pac = repr_cmp_same_base_pinned bz dub true a.f b.f pr in
              let pinned = str ([ bc me; bc (not me); cc pc; bc (pc = Lt); bc (pc <> Gt); bc (pc = Gt); bc (pc <> Lt) ] @ [ cc pc; cc pac; cc mrc; bc mre ]) in
              let tag = if pinned = g && (excess_digits bz a.f a.prec || excess_digits bz b.f b.prec) then "_regression-of-F02-precision-shortcut" else "" in
              bad := Some (Printf.sprintf "pair%d%d=%s%s" i j want tag)
            end
          end
        done
      done;
      let cls = Printf.sprintf "base%d:%s" bb
        (if List.exists (fun x -> f_is_inf x.f) vals then "inf" else if List.exists (fun x -> excess_digits bz x.f x.prec) vals then "excess" else
         if List.exists (fun x -> Zar.sign x.prec = 0) vals then "unlimited" else "limited") in
      let routes = String.concat "+" (List.init k (fun i -> List.nth a6 (6 * i + 4))) in
      let extra = Printf.sprintf "asis=%s cls=%s path=%s" (if !same then "same" else "diff") cls routes in
      (match !bad with
       | Some wnt -> { (fail wnt) with extra = "want=" ^ wnt ^ " " ^ extra }
       | None -> pass ~extra ())
  | _ -> fail "ok-with-all-fields"

(* ---------------------------------------------------------------- rationals *)
let judge_rat is_rbig args got =
  let k = Zar.to_int (usz (List.hd args)) in
  let a4 = List.tl args in
  match got with
  | "ok" :: toks when List.length toks = 9 * k + k * (k - 1) ->
      let vals = List.init k (fun i ->
        let t = take 9 (drop (9 * i) toks) in
        let what = "v" ^ string_of_int i in
        match t with
        | [ sn; sd; c1; n1; i1; c2; n2; i2; h ] ->
            let q = { qnum = z sn; qden = z sd } in
            let en = z (List.nth a4 (4 * i)) and ed = z (List.nth a4 (4 * i + 1)) in
            if Zar.sign q.qden <= 0 then raise (Bad (what ^ "-denominator"));
            if not (qeq_spec q { qnum = en; qden = ed }) then raise (Bad (what ^ "-value"));
            if is_rbig && not (reducedb q) then raise (Bad (what ^ "-not-reduced"));
            let ni = read_int (what ^ "-num") None [ sn; c1; n1; i1; "" ] in
            let di = read_int (what ^ "-den") None [ sd; c2; n2; i2; "" ] in
            if is_rbig && h <> calls_token (rbig_hash true !wr ni.r di.r) then raise (Bad (what ^ "-hash-input"));
            (q, h)
        | _ -> raise (Bad "shape")) in
      let pairs = drop (9 * k) toks in
      let same = ref true and bad = ref None and idx = ref 0 in
      for i = 0 to k - 1 do
        for j = 0 to k - 1 do
          if i <> j then begin
            let (a, ha) = List.nth vals i and (b, hb) = List.nth vals j in
            let g = List.nth pairs !idx in
            incr idx;
            let e = qeq_spec a b and c = qcmp_spec a b in
            let ac = qcmp_spec (qabs a) (qabs b) and ae = qeq_spec (qabs a) (qabs b) in
            let want = str (ord8 e c @ [ cc ac; bc ae ] @ (if is_rbig then [ cc ac; cc ac ] else [])) in
            (* as-is = the bodies REGENERATED from rational/src/cmp.rs *)
            let me = if is_rbig then rbig_eq_gen a b else q_repr_eq_gen false a b in
            let mc = q_repr_cmp_gen false a b and mac = q_repr_cmp_gen true a b in
            let mae = if is_rbig then rbig_abs_eq_gen a b else q_repr_eq_gen true a b in
            let asis = str (ord8 me mc @ [ cc mac; bc mae ] @ (if is_rbig then [ cc mac; cc mac ] else [])) in
            if asis <> g then same := false;
            if want <> g && !bad = None then bad := Some (Printf.sprintf "pair%d%d=%s" i j want);
            if is_rbig && e && ha <> hb && !bad = None then bad := Some (Printf.sprintf "hash%d%d-differs-for-equal-values" i j)
          end
        done
      done;
      let routes = String.concat "+" (List.init k (fun i -> List.nth a4 (4 * i + 2))) in
      let anyeq = List.exists (fun (x, _) -> List.exists (fun (y, _) -> x != y && qeq_spec x y) vals) vals in
      let extra = Printf.sprintf "asis=%s cls=%s path=%s" (if !same then "same" else "diff") (if anyeq then "eq" else "ne") routes in
      (match !bad with None -> pass ~extra () | Some wnt -> { (fail wnt) with extra = "want=" ^ wnt ^ " " ^ extra })
  | _ -> fail "ok-with-all-fields"

(* ---------------------------------------------------------------- round 3: single operations, the digit estimate *)
let zero_cap = Zar.zero
let rec nat_of_int n acc = if n <= 0 then acc else nat_of_int (n - 1) (S acc)
let fuel = nat_of_int 100000 O

(* what the Repr-level model predicts of a result: value, length in words, inline or heap *)
let shape (r : repr) = (rvalue !wr r, rlen r, (match r with Inline _ -> true | Heap _ -> false))

let judge_iop args got =
  match args with
  | [ op; sa; sb ] ->
      let a = z sa and b = z sb in
      let ra = store_fit !wr zero_cap a and rb = store_fit !wr zero_cap b in
      let rua = store_fit !wr zero_cap (Zar.abs a) and rub = store_fit !wr zero_cap (Zar.abs b) in
      let divf f = (match ibig_divform !wr f zero_cap ra rb with Ok rs -> `Vals rs | Panic _ -> `Panic | _ -> `Other),
                   (match form_spec f a b with Ok vs -> `Vals vs | Panic _ -> `Panic | _ -> `Other) in
      let one r v = (`Vals [ r ], `Vals [ v ]) in
      let bitf f o spec = one (ibig_bit !wr f o zero_cap ra rb) (spec a b) in
      let own = function "vv" -> VV | "vr" -> VR | "rv" -> RV | "rr" -> RR | s -> raise (Bad ("form-" ^ s)) in
      let shamt () = if Zar.sign b < 0 || Zar.numbits b > 20 then raise (Bad "shift-amount") else Zar.to_int b in
      let model, spec =
        match op with
        | "div" -> divf FDiv | "rem" -> divf FRem | "divrem" -> divf FDivRem
        | "diveu" -> divf FDivEuclid | "remeu" -> divf FRemEuclid | "divremeu" -> divf FDivRemEuclid
        | "udivrem" | "udiv" | "urem" ->
            if Zar.sign b = 0 then
              ((match ubig_div_rem !wr zero_cap rua rub with Panic _ -> `Panic | _ -> `Other), `Panic)
            else begin
              let q = Zar.div (Zar.abs a) (Zar.abs b) and r = Zar.rem (Zar.abs a) (Zar.abs b) in
              match op with
              | "udivrem" -> ((match ubig_div_rem !wr zero_cap rua rub with Ok (x, y) -> `Vals [ x; y ] | _ -> `Other), `Vals [ q; r ])
              | "udiv" -> ((match ubig_div !wr zero_cap rua rub with Ok x -> `Vals [ x ] | _ -> `Other), `Vals [ q ])
              | _ -> ((match ubig_rem !wr zero_cap rua rub with Ok x -> `Vals [ x ] | _ -> `Other), `Vals [ r ])
            end
        (* round 4: the remaining producers; the model may run out of fuel or hit a debug assertion of its own (never
           observed): then it is `Other` and counts as asis=diff, the verdict is still taken against the specification *)
        | "gcd" | "ugcd" ->
            if Zar.sign a = 0 && Zar.sign b = 0 then
              ((match repr_gcd !wr fuel zero_cap ra rb with Panic _ -> `Panic | _ -> `Other), `AnyPanic)
            else ((match repr_gcd !wr fuel zero_cap (if op = "gcd" then ra else rua) (if op = "gcd" then rb else rub) with Ok r -> `Vals [ r ] | _ -> `Other),
                  `Vals [ Zar.gcd a b ])
        | "gcdext" | "ugcdext" ->
            if Zar.sign a = 0 && Zar.sign b = 0 then
              ((match repr_gcd_ext !wr fuel zero_cap ra rb with Panic _ -> `Panic | _ -> `Other), `AnyPanic)
            else
              let xa = if op = "gcdext" then ra else rua and xb = if op = "gcdext" then rb else rub in
              ((match repr_gcd_ext !wr fuel zero_cap xa xb with Ok rs -> `Vals rs | _ -> `Other), `Bezout (rvalue !wr xa, rvalue !wr xb))
        | "sqrt" ->
            if Zar.sign a < 0 then ((match repr_sqrt !wr fuel zero_cap ra with Panic RootNegative -> `Panic | _ -> `Other), `PanicClass "RootNegative")
            else ((match repr_sqrt !wr fuel zero_cap ra with Ok r -> `Vals [ r ] | _ -> `Other), `Vals [ Zar.sqrt a ])
        | "sqrtrem" ->
            let x = Zar.abs a in
            let r = Zar.sqrt x in
            ((match repr_sqrt_rem !wr fuel zero_cap rua with Ok rs -> `Vals rs | _ -> `Other), `Vals [ r; Zar.sub x (Zar.mul r r) ])
        | "nthroot" | "unthroot" ->
            let x = if op = "nthroot" then a else Zar.abs a in
            let rx = if op = "nthroot" then ra else rua in
            if Zar.sign b = 0 then ((match repr_nth_root !wr fuel zero_cap rx b with Panic RootZeroth -> `Panic | _ -> `Other), `PanicClass "RootZeroth")
            else if Zar.sign x < 0 && Zar.is_even b then
              ((match repr_nth_root !wr fuel zero_cap rx b with Panic RootNegative -> `Panic | _ -> `Other), `PanicClass "RootNegative")
            else begin
              let n = shamt () in
              let rt = Zar.root (Zar.abs x) n in
              ((match repr_nth_root !wr fuel zero_cap rx b with Ok r -> `Vals [ r ] | _ -> `Other), `Vals [ if Zar.sign x < 0 then Zar.neg rt else rt ])
            end
        | "pow" | "upow" ->
            let x = if op = "pow" then a else Zar.abs a in
            let rx = if op = "pow" then ra else rua in
            let e = shamt () in
            (* [cap]: the model's flag "the buffer of the power has room for the final shift" changes the capacity only *)
            ((match repr_ipow !wr false zero_cap rx b with Ok r -> `Vals [ r ] | _ -> `Other), `Vals [ Zar.pow x e ])
        | "not" -> one (ibig_not !wr false zero_cap ra) (Zar.lognot a)
        | "notref" -> one (ibig_not !wr true zero_cap ra) (Zar.lognot a)
        | "shr" -> one (ibig_shift !wr HShr zero_cap ra b) (Zar.shift_right a (shamt ()))
        | "shrref" -> one (ibig_shift !wr HShrRef zero_cap ra b) (Zar.shift_right a (shamt ()))
        | "shl" -> one (ibig_shift !wr (HShl false) zero_cap ra b) (Zar.shift_left a (shamt ()))
        | "shlref" -> one (ibig_shift !wr (HShl true) zero_cap ra b) (Zar.shift_left a (shamt ()))
        | _ -> (
            match String.index_opt op '_' with
            | Some i -> (
                let f = String.sub op 0 i and o = own (String.sub op (i + 1) (String.length op - i - 1)) in
                match f with
                | "and" -> bitf SAnd o Zar.logand
                | "or" -> bitf SOr o Zar.logor
                | "xor" -> bitf SXor o Zar.logxor
                | _ -> raise (Bad ("iop-" ^ op)))
            | None -> raise (Bad ("iop-" ^ op)))
      in
      let cls = "iop-" ^ (match String.index_opt op '_' with Some i -> String.sub op 0 i | None -> op) in
      (match spec, got with
       | `AnyPanic, "panic" :: _ -> pass ~extra:(Printf.sprintf "asis=%s cls=%s:panic" (if model = `Panic then "same" else "diff") cls) ()
       | `AnyPanic, _ -> fail "panic-gcd-of-zeros"
       | `PanicClass k, "panic" :: c :: _ ->
           if c = k then pass ~extra:(Printf.sprintf "asis=%s cls=%s:panic" (if model = `Panic then "same" else "diff") cls) () else fail ("panic-" ^ k)
       | `PanicClass k, _ -> fail ("panic-" ^ k)
       | `Bezout (xa, xb), "ok" :: toks when List.length toks = 12 ->
           (* specification of gcd_ext: g = gcd, s * a + t * b = g (the cofactors are not unique: judged by the identity) *)
           let outs = List.init 3 (fun i ->
             match take 4 (drop (4 * i) toks) with
             | [ sv; scap; sn; sinl ] -> read_int ("out" ^ string_of_int i) None [ sv; scap; sn; sinl; "" ]
             | _ -> raise (Bad "shape")) in
           let g = List.nth outs 0 and sx = List.nth outs 1 and tx = List.nth outs 2 in
           let same = (match model with
             | `Vals rs -> List.length rs = 3 &&
                 List.for_all2 (fun r o -> let (v, n, inl) = shape r in Zar.equal v o.iv && Zar.equal n o.n && inl = o.inl && canonicalb !wr r) rs outs
             | _ -> false) in
           let extra = Printf.sprintf "asis=%s cls=%s:%s" (if same then "same" else "diff") cls (String.concat "-" (List.map lenclass outs)) in
           if not (Zar.equal g.iv (Zar.gcd xa xb)) then { (fail "gcd") with extra = "want=gcd-" ^ hx (Zar.gcd xa xb) ^ " " ^ extra }
           else if not (Zar.equal (Zar.add (Zar.mul sx.iv xa) (Zar.mul tx.iv xb)) g.iv) then { (fail "bezout") with extra = "want=s*a+t*b=g " ^ extra }
           else pass ~extra ()
       | `Bezout _, _ -> fail "ok-g-s-t"
       | `Panic, "panic" :: c :: _ ->
           let same = (model = `Panic) in
           if c = "DivideBy0" then pass ~extra:(Printf.sprintf "asis=%s cls=%s:panic" (if same then "same" else "diff") cls) ()
           else fail "panic-DivideBy0"
       | `Panic, _ -> fail "panic-DivideBy0"
       | `Vals vs, "ok" :: toks when List.length toks = 4 * List.length vs ->
           let outs = List.mapi (fun i v ->
             match take 4 (drop (4 * i) toks) with
             | [ sv; scap; sn; sinl ] -> read_int ("out" ^ string_of_int i) (Some v) [ sv; scap; sn; sinl; "" ]
             | _ -> raise (Bad "shape")) vs in
           (* model fidelity: the composed Repr-level model predicts value, length and inline/heap of every output *)
           let same = (match model with
             | `Vals rs -> List.length rs = List.length outs &&
                 List.for_all2 (fun r o -> let (v, n, inl) = shape r in Zar.equal v o.iv && Zar.equal n o.n && inl = o.inl && canonicalb !wr r) rs outs
             | _ -> false) in
           let lens = String.concat "-" (List.map lenclass outs) in
           pass ~extra:(Printf.sprintf "asis=%s cls=%s:%s" (if same then "same" else "diff") cls lens) ()
       | `Vals _, _ -> fail "ok-with-every-output"
       | _ -> fail "spec")
  | _ -> fail "iop-args"

(* ipar <u|i> radix x<hex text>: from_str_radix; specification = C07's from_str_radix_spec evaluated through the word-level
   model (proved equal: C05_parse_is_spec), the Repr-level model predicts value, length and inline flag *)
let unhex s =
  let n = (String.length s - 1) / 2 in
  List.init n (fun i -> Zar.of_int (int_of_string ("0x" ^ String.sub s (1 + 2 * i) 2)))
let judge_ipar args got =
  match args with
  | [ ty; sr; stext ] ->
      let r = usz sr and text = unhex stext in
      let m = repr_parse !wr (ty = "i") zero_cap r text in
      (match m, got with
       | Ok x, [ "ok"; sv; scap; sn; sinl ] ->
           let o = read_int "out" (Some (rvalue !wr x)) [ sv; scap; sn; sinl; "" ] in
           let (v, n, inl) = shape x in
           let same = Zar.equal v o.iv && Zar.equal n o.n && inl = o.inl && canonicalb !wr x in
           pass ~extra:(Printf.sprintf "asis=%s cls=ipar-%s:%s" (if same then "same" else "diff") ty (lenclass o)) ()
       | Ok x, _ -> fail ("ok-" ^ hx (rvalue !wr x))
       | Err _, "err" :: _ -> pass ~nt:false ~extra:(Printf.sprintf "asis=same cls=ipar-%s:err" ty) ()
       | Err _, _ -> fail "err"
       | _, _ -> fail "model-ok-or-err")
  | _ -> fail "ipar-args"

let dub_base = function "2" -> 2 | "3" -> 3 | "7" -> 7 | "a" -> 10 | "10" -> 16 | "64" -> 100 | "ffff" -> 65535 | s -> raise (Bad ("base-" ^ s))

let judge_dub args got =
  match args, got with
  | [ sb; _ssig ], [ "ok"; ss; slb; sub; sblb; sbub; sdub; sdlb ] ->
      let bb = dub_base sb in
      let bz = Zar.of_int bb in
      let s = z ss in
      let dub = usz sdub and dlb = usz sdlb in
      if Zar.sign s = 0 then (if Zar.sign dub = 0 && Zar.sign dlb = 0 then pass ~nt:false ~extra:"asis=same cls=dub-zero" () else fail "0-0")
      else begin
        let lb = f_of_bits (usz slb) and ub = f_of_bits (usz sub) and blb = f_of_bits (usz sblb) and bub = f_of_bits (usz sbub) in
        (* as-is: the arms regenerated from float/src/repr.rs, on Flocq's binary32, fed with the reported estimates *)
        let m = digits_ub_est bz lb ub blb bub in
        let same = Zar.equal m dub && Zar.equal (digits_lb_est bz lb ub blb bub) dlb in
        (* the hypotheses of C05_digits_ub_contract on the reported estimates (C12 judges log2_bounds itself) *)
        let chk lower bits p = 
          let rec go = function
            | [] -> 2
            | pr :: rest -> let r = Zar.to_int (log2_bound_check (Zar.of_int pr) lower (f32_decode (usz bits)) p Zar.one) in if r = 2 then go rest else r in
          go [ 96; 320; 1200 ] in
        let hu = chk false sub (Zar.abs s) in
        let hb = if bb = 2 || bb = 10 then 1 else chk true sblb bz in
        let hyp = if hu = 0 || hb = 0 then "violated" else if hu = 2 || hb = 2 then "undecided" else "ok" in
        let nd = ndigits bz s in
        (* specification: an over-estimate of the digit count (|s| < B^digits_ub, the strong form of the hypothesis of the
           comparison theorems) resp. an under-estimate *)
        let extra = Printf.sprintf "asis=%s cls=dub-base%d:hyp-%s:slack%s" (if same then "same" else "diff") bb hyp (Zar.to_string (Zar.sub dub nd)) in
        if not (Zar.lt (Zar.abs s) (Zar.pow bz (Zar.to_int dub))) then { (fail "digits_ub>=digits") with extra = "want=digits_ub>=" ^ Zar.to_string nd ^ " " ^ extra }
        else if Zar.gt dlb nd then { (fail "digits_lb<=digits") with extra = "want=digits_lb<=" ^ Zar.to_string nd ^ " " ^ extra }
        else if hyp = "violated" then { (fail "log2_bounds-enclose") with extra = "want=log2_bounds-enclose " ^ extra }
        else pass ~extra ()
      end
  | _ -> fail "ok-sig-4-estimates-ub-lb"

(* Context::op on Reprs: the Repr returned = Repr::new of the pair of C03's as-is model (fprod_asis), flag included *)
let mode_of = function
  | "Zero" -> MZero | "Away" -> MAway | "Up" -> MUp | "Down" -> MDown
  | "HalfEven" -> MHalfEven | "HalfAway" -> MHalfAway | m -> raise (Bad ("mode-" ^ m))
let fop_of = function
  | "add" -> FoAdd | "sub" -> FoSub | "mul" -> FoMul | "div" -> FoDiv | "inv" -> FoInv | "sqrt" -> FoSqrt
  | "sqr" -> FoSqr | "cubic" -> FoCubic | o -> raise (Bad ("fop-" ^ o))
let flag_name = function None -> "Exact" | Some NoOp -> "NoOp" | Some AddOne -> "AddOne" | Some SubOne -> "SubOne"
let reason_name = function
  | DivideBy0 -> "DivideBy0" | UnlimitedPrecision -> "UnlimitedPrecision" | RootNegative -> "RootNegative"
  | _ -> "other"

let judge_fprod args got =
  match args with
  | [ sb; sm; sop; sp; s1; e1; s2; e2 ] ->
      let bb = base_of sb in
      let bz = Zar.of_int bb in
      let m = mode_of sm and o = fop_of sop and p = usz sp in
      let s1 = z s1 and e1 = z e1 and s2 = z s2 and e2 = z e2 in
      (match got with
       | [ "ok"; ssig; sexp; flag; _prec; sdx; sdy; sly; scap; sn; sinl ] ->
           let f = parse_frepr ssig sexp in
           (* the invariants == relies on *)
           if not (normalizedb bz f) then fail "normalised-result"
           else if not (layout_ok !wr f.fsig (z scap) (usz sn) (sinl = "1")) then fail "canonical-significand"
           else begin
             let dx = usz sdx and dy = usz sdy and ly = usz sly in
             let du s = if Zar.equal s s1 then dx else if Zar.equal s s2 then dy else ndigits bz s in
             let dl s = if Zar.equal s s2 then ly else Zar.pred (ndigits bz s) in
             let same =
               (match fprod_asis bz du dl o p m s1 e1 s2 e2 with
                | Ok ((ms, me), mf) -> Zar.equal ms f.fsig && Zar.equal me f.fexp && flag_name mf = flag
                | _ -> false) in
             pass ~extra:(Printf.sprintf "asis=%s cls=fprod-%s:base%d:%s" (if same then "same" else "diff") sop bb (if flag = "Exact" then "exact" else "rounded")) ()
           end
       | "panic" :: c :: _ ->
           (* documented panics only: precision 0 for div / inv / sqrt, zero divisor, negative radicand *)
           let du s = ndigits bz s and dl s = Zar.pred (ndigits bz s) in
           (match fprod_asis bz du dl o p m s1 e1 s2 e2 with
            | Panic r when reason_name r = c -> pass ~nt:false ~extra:(Printf.sprintf "asis=same cls=fprod-%s:panic-%s" sop c) ()
            | Panic r -> fail ("panic-" ^ reason_name r)
            | _ -> fail "ok-result")
       | _ -> fail "ok-sig-exp-flag-prec-estimates-layout")
  | _ -> fail "fprod-args"

let judge op args got =
  try
    (* the word-size mark of the integer-level ops *)
    let got =
      match List.rev got with
      | "W20" :: rest -> wr := Zar.of_int 32; List.rev rest
      | "W40" :: rest -> wr := Zar.of_int 64; List.rev rest
      | _ -> wr := Zar.of_int 64; got in
    match op with
    | "ipar" -> judge_ipar args got
    | "fprod" -> judge_fprod args got
    | "iop" -> judge_iop args got
    | "dub" -> judge_dub args got
    | "uint" -> judge_int false args got
    | "int" -> judge_int true args got
    | "flt" -> judge_flt args got
    | "rbig" -> judge_rat true args got
    | "rlx" -> judge_rat false args got
    | _ -> fail ("unknown-op-" ^ op)
  with Bad s -> fail s

let () = serve judge
