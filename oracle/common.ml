(* Thin driver shared by all oracles.  Input line:  <id> <op> <args...> => <implementation answer>
   Output line: <id> pass|fail|known:<tag>|skip [k=v ...]                                         *)
let split_ws s = List.filter (fun x -> x <> "") (String.split_on_char ' ' s)

let z = Zconv.of_hex
let hx = Zconv.to_hex
let hopt = function None -> "none" | Some v -> "some " ^ hx v
let b2s b = if b then "1" else "0"

(* split tokens at "=>" *)
let rec split_arrow acc = function
  | [] -> (List.rev acc, [])
  | "=>" :: rest -> (List.rev acc, rest)
  | x :: rest -> split_arrow (x :: acc) rest

type verdict = { v : string; extra : string }

let pass ?(nt = true) ?(extra = "") () = { v = "pass"; extra = (if nt then "nt=1 " else "nt=0 ") ^ extra }
let fail want = { v = "fail"; extra = "want=" ^ String.concat "_" (split_ws want) }
let known tag want = { v = "known:" ^ tag; extra = "want=" ^ String.concat "_" (split_ws want) }
let skip why = { v = "skip"; extra = "why=" ^ why }

(* compare the implementation's answer with the expected answer text *)
let expect ?(nt = true) ?(extra = "") (want : string) (got : string list) : verdict =
  if split_ws want = got then pass ~nt ~extra () else fail want

let serve (judge : string -> string list -> string list -> verdict) =
  try
    while true do
      let line = input_line stdin in
      match split_ws line with
      | id :: op :: rest ->
          let args, got = split_arrow [] rest in
          let r =
            try judge op args got
            with
            | Stack_overflow -> skip "oracle-stack-overflow"
            | Out_of_memory -> skip "oracle-out-of-memory"
            | e -> { v = "fail"; extra = "oracle-exception=" ^ String.concat "_" (split_ws (Printexc.to_string e)) }
          in
          print_string id; print_char ' '; print_string r.v; print_char ' '; print_string r.extra; print_newline ()
      | _ -> ()
    done
  with End_of_file -> ()
