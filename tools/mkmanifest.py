#!/usr/bin/env python3
"""Regenerates MANIFEST.json from the property plug-ins in props/*.py (run after adding a plug-in)."""
import json
import os
import subprocess
import sys

sys.path.insert(0, os.path.dirname(os.path.abspath(__file__)))
import core

ROOT = core.ROOT
ids = [json.loads(l)["id"] for l in open(os.path.join(ROOT, "properties.jsonl"))]
checks = []
na = []
for pid in ids:
    p = os.path.join(ROOT, "props", pid + ".py")
    if not os.path.exists(p):
        na.append({"property_id": pid, "reason": "no check is registered for this property yet; the machinery for it is not built (see DESIGN.md section 4 for the planned proof)"})
        continue
    m = core.load_plugin(pid)
    if getattr(m, "NOT_APPLICABLE", None):
        na.append({"property_id": pid, "reason": m.NOT_APPLICABLE})
        continue
    if not getattr(m, "READY", False):
        na.append({"property_id": pid, "reason": "check under construction: not registered until it passes on the unchanged tree"})
        continue
    checks.append({
        "property_id": pid,
        "quick_cmd": "./check %s --tier quick" % pid,
        "thorough_cmd": "./check %s --tier thorough" % pid,
        "evidence_file": "/verif/evidence/%s.json" % pid,
        "replay_cmd_template": "./check %s --replay {path}" % pid,
        "engine": "coq-proof+correspondence",
        "level_claimed": {"category": "proof", "text": m.LEVEL_TEXT, "design_ref": "DESIGN.md section 4, " + pid},
        "level_note": m.LEVEL_NOTE,
        "technique": m.TECHNIQUE,
    })
import glob
allf = []
for fp in sorted(glob.glob(os.path.join(ROOT, "findings", "C*.json"))):
    allf += json.load(open(fp)).get("findings", [])
with open(os.path.join(ROOT, "KNOWN_FINDINGS.json"), "w") as f:
    json.dump({"comment": "GENERATED union of findings/C*.json by tools/mkmanifest.py. Genuine defects of cmpute/dashu found by the checks. status=open: recorded, suppressed only for the exact class named; status=fixed: repaired by a 'fix:' commit in /repo, suppresses nothing. Never written at run time.", "findings": allf}, f, indent=1)
hooks = subprocess.run(["git", "-C", "/repo", "log", "--format=%H %s"], capture_output=True, text=True).stdout.splitlines()
hook_commits = [l.split()[0] for l in hooks if "verif hooks" in l]
manifest = {
    "version": 1,
    "setup_cmd": "./setup.sh",
    "hooks": {
        "guard": "--cfg dashu_verif (RUSTFLAGS)",
        "enable": 'RUSTFLAGS="--cfg dashu_verif" cargo build (done by tools/core.py harness_build for the harness crate that depends on /repo by path)',
        "baseline_off_cmd": "cd /repo && CARGO_NET_OFFLINE=true cargo test --workspace --no-fail-fast --offline",
        "source_commits": hook_commits,
        "add_only": True,
    },
    "engines": [{
        "name": "coq-proof+correspondence",
        "path": "/verif/tools/check.py",
        "serves_properties": [c["property_id"] for c in checks],
        "kind_free_text": "Coq 8.16 theorems about executable Gallina models (coq/), fragments regenerated from the Rust source by tools/translate.py, and a correspondence run of the Rust implementation (harness/) against the OCaml extraction of the same Gallina definitions (oracle/)",
    }],
    "checks": checks,
    "not_applicable": na,
    "notes": "Every check: ./check <id> [--tier quick|thorough]. Known findings: KNOWN_FINDINGS.json. Design, trusted base and seeded-change results: DESIGN.md.",
}
with open(os.path.join(ROOT, "MANIFEST.json"), "w") as f:
    json.dump(manifest, f, indent=1)
print("MANIFEST.json: %d checks, %d not claimed" % (len(checks), len(na)))
