#!/bin/sh
# run every registered quick check once on /repo (sequentially); one line per property
cd "$(dirname "$0")/.."
for p in ${PROPS:-C01 C02 C03 C04 C05 C06 C07 C08 C09 C10 C12 C13 C14 C15 C16 C17 C18 C19 C20 C11}; do
  t0=$(date +%s)
  ./check $p --tier ${TIER:-quick} > /tmp/runall_$p.out 2> /tmp/runall_$p.err
  rc=$?
  t1=$(date +%s)
  echo "$p exit=$rc secs=$((t1-t0)) $(grep -E '^(OK|VIOLATION|KNOWN-FINDING)' /tmp/runall_$p.out | cut -c1-150 | tr '\n' ';' | cut -c1-400)"
done
