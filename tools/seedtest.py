#!/usr/bin/env python3
"""Run checks against a seeded change:  tools/seedtest.py seeded/<name> [--checks C01,C05] [--tier quick]
Applies seeded/<name>/patch.diff to a scratch worktree of /repo (outside /repo and /verif), runs the
check of the property named in meta.json (plus --checks) with VERIF_REPO pointing at the worktree,
writes seeded/<name>/result.json, and removes the worktree and its build output."""
import argparse
import json
import os
import shutil
import subprocess
import sys
import time

sys.path.insert(0, os.path.dirname(os.path.abspath(__file__)))
ROOT = os.path.dirname(os.path.dirname(os.path.abspath(__file__)))


def sh(cmd, **kw):
    return subprocess.run(cmd, shell=True, capture_output=True, text=True, **kw)


def main():
    ap = argparse.ArgumentParser()
    ap.add_argument("seed_dir")
    ap.add_argument("--checks", default="")
    ap.add_argument("--tier", default="quick")
    a = ap.parse_args()
    d = os.path.abspath(a.seed_dir)
    name = os.path.basename(d.rstrip("/"))
    meta = json.load(open(os.path.join(d, "meta.json")))
    props = [meta["property"]] + [c for c in a.checks.split(",") if c and c != meta["property"]]
    wt = "/tmp/wt_seed_%s" % name
    sh("git -C /repo worktree remove --force %s; git -C /repo branch -D wt_seed_%s" % (wt, name))
    r = sh("git -C /repo worktree add %s -b wt_seed_%s HEAD" % (wt, name))
    if r.returncode != 0:
        print(r.stderr)
        return 2
    # a private copy of the Coq tree (sources, compiled files, certificate caches): the fragments regenerated from the
    # patched sources must not be seen by anybody else's build
    coqcopy = "/tmp/coqseed_%s" % name
    sh("rsync -a --delete %s/ %s/" % (os.path.join(ROOT, "coq"), coqcopy))
    res = {"seed": name, "repo_head": sh("git -C /repo rev-parse --short HEAD").stdout.strip(), "tier": a.tier, "checks": {}}
    try:
        r = sh("git -C %s apply %s" % (wt, os.path.join(d, "patch.diff")))
        if r.returncode != 0:
            # /repo has moved on since the seed was made (fix: / hook commits): merge the change into the new text
            r = sh("git -C %s apply --3way %s" % (wt, os.path.join(d, "patch.diff")))
            res["applied_with_3way_merge"] = r.returncode == 0
        if r.returncode != 0:
            # last resort: the tree the seed was made for (its confirmed base commit); hooks added later are then missing,
            # which only matters for checks whose harness needs them
            base = (meta.get("confirmed_by_coordinator") or {}).get("repo_head")
            ok = False
            if base:
                sh("git -C %s reset -q --hard" % wt)
                sh("git -C %s checkout -q --detach %s" % (wt, base))
                r2 = sh("git -C %s apply %s" % (wt, os.path.join(d, "patch.diff")))
                ok = r2.returncode == 0
                res["run_on_base_commit"] = base
            if not ok:
                res["error"] = "patch does not apply: " + r.stderr[-500:]
                print(res["error"])
                return 2
        for pid in props:
            t0 = time.time()
            env = dict(os.environ, VERIF_REPO=wt, VERIF_COQ=coqcopy)
            p = subprocess.run([os.path.join(ROOT, "check"), pid, "--tier", a.tier], cwd=ROOT, env=env, capture_output=True, text=True)
            viol = [l for l in p.stdout.splitlines() if l.startswith("VIOLATION")]
            res["checks"][pid] = {"exit": p.returncode, "violations": viol[:5], "wall_s": round(time.time() - t0, 1),
                                  "caught": p.returncode == 1 and bool(viol)}
            print(pid, "exit", p.returncode, "caught" if res["checks"][pid]["caught"] else "MISSED", viol[:2])
            # keep the first replay beside the seed for the record
            if viol:
                rp = viol[0].split("replay=")[1].split()[0]
                if os.path.exists(rp):
                    shutil.copy(rp, os.path.join(d, "replay_%s.json" % pid))
    finally:
        import hashlib
        sys.path.insert(0, os.path.join(ROOT, "tools"))
        os.environ["VERIF_REPO"] = wt
        import importlib
        import core
        importlib.reload(core)
        for cfg in core.CONFIGS:
            shutil.rmtree(os.path.join(core.CACHE, "target", core.sha(wt, cfg)), ignore_errors=True)
            shutil.rmtree(os.path.join(core.CACHE, "harness", core.sha(wt, cfg)), ignore_errors=True)
        sh("git -C /repo worktree remove --force %s; git -C /repo branch -D wt_seed_%s" % (wt, name))
        shutil.rmtree(coqcopy, ignore_errors=True)
    # keep the verdicts of earlier runs of OTHER checks; a re-run of the same check replaces its entry, the previous
    # verdict moving to "earlier" (the tables in DESIGN.md say "MISSED at first, caught after strengthening")
    rp = os.path.join(d, "result.json")
    if os.path.exists(rp):
        try:
            old = json.load(open(rp))
            for pid, v in old.get("checks", {}).items():
                if pid not in res["checks"]:
                    res["checks"][pid] = v
                elif v.get("caught") != res["checks"][pid].get("caught"):
                    res["checks"][pid].setdefault("earlier", []).append({"caught": v.get("caught"), "repo_head": old.get("repo_head"), "verif": old.get("verif_head")})
                    res["checks"][pid]["earlier"] += v.get("earlier", [])
        except Exception:
            pass
    res["verif_head"] = sh("git -C %s rev-parse --short HEAD" % ROOT).stdout.strip()
    json.dump(res, open(rp, "w"), indent=1)
    return 0


if __name__ == "__main__":
    sys.exit(main())
