#!/usr/bin/env python3
"""Translator: re-reads table-like fragments of the Rust sources on every run and emits Gallina.

    tools/translate.py --repo /repo --out coq/gen

It understands a deliberately tiny expression grammar - what the listed fragments use today:
blocks with `let` (tuple patterns, `mut`), assignments inside one-armed `if`, `match` on idents /
tuples / calls with `|` alternatives and `_`, `if`/`else if`/`else`, early `return`, method-call
chains, paths, tuples, unary `! - & *`, binary `* / % + - == != >= <= > < && ||`.
Each fragment is printed as `FRAGMENT <name> ok|unparsed <reason>`.  An unparsed fragment is not an
alarm: its Gallina falls back to the committed copy marked `(* STALE *)` and the evidence says so.
"""
import argparse
import os
import re
import sys

# ------------------------------------------------------------------------------------------------
# tokenizer
# ------------------------------------------------------------------------------------------------
TOK = re.compile(
    r"\s*(?:(//[^\n]*)|(/\*.*?\*/)|(\$?[A-Za-z_][A-Za-z0-9_]*!?)|(\d[\d_]*(?:\.\d+)?(?:[a-z]\w*)?)"
    r"|(=>|==|!=|>=|<=|&&|\|\||::|->|<<|>>|[-+*/%!&|(){}\[\],;=<>.:#?]))",
    re.S,
)


def tokenize(src):
    pos = 0
    out = []
    while pos < len(src):
        m = TOK.match(src, pos)
        if not m:
            if src[pos:].strip() == "":
                break
            raise SyntaxError("cannot tokenize at %r" % src[pos : pos + 30])
        pos = m.end()
        if m.group(1) or m.group(2):
            continue
        t = m.group(3) or m.group(4) or m.group(5)
        out.append(t)
    return out


# ------------------------------------------------------------------------------------------------
# parser -> AST (tuples)
# ------------------------------------------------------------------------------------------------
class P:
    def __init__(self, toks):
        self.t = toks
        self.i = 0

    def peek(self, k=0):
        return self.t[self.i + k] if self.i + k < len(self.t) else None

    def eat(self, x=None):
        tok = self.peek()
        if tok is None or (x is not None and tok != x):
            raise SyntaxError("expected %r, found %r at %d: ...%s" % (x, tok, self.i, " ".join(self.t[max(0, self.i - 6) : self.i + 4])))
        self.i += 1
        return tok

    def at(self, x):
        return self.peek() == x

    # block := '{' stmt* expr? '}'
    def block(self):
        self.eat("{")
        stmts = []
        final = None
        while not self.at("}"):
            if self.at("let"):
                self.eat()
                if self.at("mut"):
                    self.eat()
                pat = self.pattern()
                if self.at(":"):
                    self.eat()
                    self.skip_type()
                self.eat("=")
                e = self.expr()
                self.eat(";")
                stmts.append(("let", pat, e))
                continue
            if self.at("return"):
                self.eat()
                e = self.expr()
                if self.at(";"):
                    self.eat()
                stmts.append(("return", e))
                continue
            if self.peek() in ("debug_assert!", "debug_assert_eq!", "assert!", "debug_assert_zero!") :
                self.eat()
                self.skip_parens()
                if self.at(";"):
                    self.eat()
                continue
            e = self.expr()
            if self.at("=") and e[0] == "var":
                self.eat()
                rhs = self.expr()
                self.eat(";")
                stmts.append(("assign", e[1], rhs))
                continue
            if self.at(";"):
                self.eat()
                stmts.append(("expr", e))
                continue
            if self.at("}"):
                final = e
            else:
                # expression statements ending in a block need no semicolon (if / match)
                if e[0] in ("if", "match"):
                    stmts.append(("expr", e))
                else:
                    raise SyntaxError("unexpected token %r after expression" % self.peek())
        self.eat("}")
        if final is None and stmts and stmts[-1][0] == "expr":
            final = stmts.pop()[1]
        return ("block", stmts, final)

    def skip_parens(self):
        self.eat("(")
        d = 1
        while d:
            t = self.eat()
            if t == "(":
                d += 1
            elif t == ")":
                d -= 1

    def skip_type(self):
        while self.peek() not in ("=", ";", ",", ")"):
            self.eat()

    def pattern(self):
        alts = [self.pattern1()]
        while self.at("|"):
            self.eat()
            alts.append(self.pattern1())
        return alts[0] if len(alts) == 1 else ("por", alts)

    def pattern1(self):
        if self.at("("):
            self.eat()
            ps = []
            while not self.at(")"):
                if self.at("mut"):
                    self.eat()
                ps.append(self.pattern())
                if self.at(","):
                    self.eat()
            self.eat(")")
            return ("ptuple", ps)
        if self.at("&"):
            self.eat()
            return self.pattern1()
        tok = self.eat()
        if tok == "_":
            return ("pwild",)
        if tok == "mut":
            tok = self.eat()
        path = [tok]
        while self.at("::"):
            self.eat()
            path.append(self.eat())
        name = path[-1]
        if self.at("("):
            self.eat()
            args = []
            while not self.at(")"):
                args.append(self.pattern())
                if self.at(","):
                    self.eat()
            self.eat(")")
            return ("pctor", name, args)
        if re.match(r"^\d", name) or name in ("true", "false"):
            return ("plit", name)
        if name[0].isupper():
            return ("pctor", name, [])
        return ("pvar", name)

    PREC = [("||",), ("&&",), ("==", "!=", "<", ">", "<=", ">="), ("|",), ("&",), ("<<", ">>"), ("+", "-"), ("*", "/", "%")]

    def expr(self, lvl=0, nostruct=False):
        if lvl == len(self.PREC):
            return self.unary(nostruct)
        lhs = self.expr(lvl + 1, nostruct)
        while self.peek() in self.PREC[lvl]:
            # `|` in match-arm patterns never reaches here; closures are not supported
            op = self.eat()
            rhs = self.expr(lvl + 1, nostruct)
            lhs = ("bin", op, lhs, rhs)
        return lhs

    def unary(self, nostruct):
        if self.peek() in ("!", "-", "&", "*"):
            op = self.eat()
            if op == "&" and self.at("mut"):
                self.eat()
            e = self.unary(nostruct)
            if op in ("&", "*"):
                return e
            return ("un", op, e)
        return self.postfix(nostruct)

    def postfix(self, nostruct):
        e = self.primary(nostruct)
        while True:
            if self.at("."):
                self.eat()
                name = self.eat()
                if self.at("::"):  # turbofish
                    self.eat()
                    self.eat("<")
                    while not self.at(">"):
                        self.eat()
                    self.eat(">")
                if self.at("("):
                    args = self.args()
                    e = ("call", name, [e] + args)
                else:
                    e = ("field", e, name)
            elif self.at("?"):
                self.eat()
            elif self.at("as"):
                self.eat()
                self.eat()
            else:
                return e

    def args(self):
        self.eat("(")
        a = []
        while not self.at(")"):
            a.append(self.expr())
            if self.at(","):
                self.eat()
        self.eat(")")
        return a

    def primary(self, nostruct):
        t = self.peek()
        if t == "(":
            self.eat()
            es = []
            trailing = False
            while not self.at(")"):
                es.append(self.expr())
                if self.at(","):
                    self.eat()
                    trailing = True
            self.eat(")")
            if len(es) == 1 and not trailing:
                return es[0]
            return ("tuple", es)
        if t == "{":
            return self.block()
        if t == "if":
            self.eat()
            c = self.expr(nostruct=True)
            th = self.block()
            el = None
            if self.at("else"):
                self.eat()
                el = self.primary(nostruct) if self.at("if") else self.block()
            return ("if", c, th, el)
        if t == "match":
            self.eat()
            scrut = self.expr(nostruct=True)
            self.eat("{")
            arms = []
            while not self.at("}"):
                pat = self.pattern()
                self.eat("=>")
                body = self.expr()
                if self.at(","):
                    self.eat()
                arms.append((pat, body))
            self.eat("}")
            return ("match", scrut, arms)
        if t is None:
            raise SyntaxError("unexpected end")
        self.eat()
        if re.match(r"^\d", t):
            return ("num", int(re.sub(r"[_a-z].*$", "", t.replace("_", ""))) if re.match(r"^\d[\d_]*([iu]\w+)?$", t) else t)
        path = [t]
        while self.at("::"):
            self.eat()
            if self.at("<"):
                while not self.at(">"):
                    self.eat()
                self.eat(">")
                continue
            path.append(self.eat())
        name = path[-1]
        if self.at("("):
            args = self.args()
            return ("app", "::".join(path), args)
        if name in ("true", "false"):
            return ("bool", name)
        if len(path) > 1 or name[0].isupper():
            return ("path", "::".join(path))
        return ("var", name)


def parse_block(src):
    p = P(tokenize(src))
    b = p.block()
    return b


def parse_expr_or_block(src):
    src = src.strip()
    p = P(tokenize("{" + src + "}"))
    return p.block()


# ------------------------------------------------------------------------------------------------
# source extraction
# ------------------------------------------------------------------------------------------------
def balanced(src, start, open_ch="{", close_ch="}"):
    """src[start] == open_ch; returns index after the matching close"""
    d = 0
    i = start
    while i < len(src):
        c = src[i]
        if c == "/" and src[i : i + 2] == "//":
            i = src.index("\n", i)
            continue
        if c == open_ch:
            d += 1
        elif c == close_ch:
            d -= 1
            if d == 0:
                return i + 1
        i += 1
    raise SyntaxError("unbalanced")


def macro_body(src, name):
    m = re.search(r"macro_rules!\s+" + re.escape(name) + r"\s*\{", src)
    if not m:
        raise LookupError("macro %s not found" % name)
    end = balanced(src, m.end() - 1)
    inner = src[m.end() : end - 1]
    a = inner.index("=>")
    b0 = inner.index("{", a)
    b1 = balanced(inner, b0)
    body = inner[b0 + 1 : b1 - 1].strip()
    # `{{ ... }}` double braces -> a block
    if body.startswith("{") and balanced(body, 0) == len(body):
        return body
    return "{" + body + "}"


def fn_body(src, header_regex):
    m = re.search(header_regex, src, flags=re.S)
    if not m:
        raise LookupError("fn matching %s not found" % header_regex)
    b0 = src.index("{", m.end() - 1)
    b1 = balanced(src, b0)
    return src[b0:b1]


def const_value(src, name):
    m = re.search(r"const\s+" + re.escape(name) + r"\s*:\s*\w+\s*=\s*([^;]+);", src)
    if not m:
        raise LookupError("const %s not found" % name)
    return m.group(1).strip()


# ------------------------------------------------------------------------------------------------
# Gallina printer
# ------------------------------------------------------------------------------------------------
class Unsupported(Exception):
    pass


class Gen:
    """prints an AST as Gallina under a dictionary of variables (name -> (coq name, type))"""

    def __init__(self, env, methods, paths, apps):
        self.env = dict(env)
        self.methods = methods
        self.paths = paths
        self.apps = apps

    def ty(self, e):
        k = e[0]
        if k == "var":
            if e[1] not in self.env:
                raise Unsupported("unknown variable " + e[1])
            return self.env[e[1]][1]
        if k == "num":
            return "Z"
        if k == "bool":
            return "bool"
        if k == "path":
            if e[1] in self.paths:
                return self.paths[e[1]][1]
            raise Unsupported("unknown path " + e[1])
        if k == "un":
            t = self.ty(e[2])
            return t
        if k == "bin":
            if e[1] in ("==", "!=", "<", ">", "<=", ">=", "&&", "||"):
                return "bool"
            return self.ty(e[2])
        if k == "call":
            name = e[1]
            if name not in self.methods:
                raise Unsupported("unknown method ." + name)
            return self.methods[name][1]
        if k == "app":
            if e[1] not in self.apps:
                raise Unsupported("unknown function " + e[1])
            r = self.apps[e[1]][1]
            return self.ty(e[2][0]) if r == "same" else r
        if k == "tuple":
            return "tuple"
        if k == "block":
            return self.ty_block(e)
        if k == "if":
            return self.ty(e[2])
        if k == "match":
            return self.ty(e[2][0][1])
        raise Unsupported("type of " + k)

    def ty_block(self, b):
        saved = dict(self.env)
        try:
            for s in b[1]:
                if s[0] == "let":
                    self.bind(s[1], s[2])
            if b[2] is None:
                for s in reversed(b[1]):
                    if s[0] == "return":
                        return self.ty(s[1])
                raise Unsupported("block without value")
            return self.ty(b[2])
        finally:
            self.env = saved

    def bind(self, pat, e):
        if pat[0] == "pvar":
            self.env[pat[1]] = (pat[1].lstrip("_") or "u", self.ty(e))
        elif pat[0] == "ptuple":
            if e[0] == "tuple":
                for p, x in zip(pat[1], e[1]):
                    self.bind(p, x)
            else:
                # e.g. let (q, r) = a.div_rem(b): all components Z
                for p in pat[1]:
                    if p[0] == "pvar":
                        self.env[p[1]] = (p[1], "Z")
        elif pat[0] == "pwild":
            pass
        else:
            raise Unsupported("let pattern")

    def pat(self, p):
        k = p[0]
        if k == "pwild":
            return "_"
        if k == "pvar":
            return p[1]
        if k == "plit":
            return p[1]
        if k == "pctor":
            if p[1] not in self.paths and ("::" + p[1]) not in self.paths:
                nm = p[1]
            nm = self.paths.get(p[1], (p[1],))[0]
            if p[2]:
                return "(%s %s)" % (nm, " ".join(self.pat(x) for x in p[2]))
            return nm
        if k == "ptuple":
            return "(" + ", ".join(self.pat(x) for x in p[1]) + ")"
        if k == "por":
            return " | ".join(self.pat(x) for x in p[1])
        raise Unsupported("pattern " + k)

    def ex(self, e):
        k = e[0]
        if k == "var":
            if e[1] not in self.env:
                raise Unsupported("unknown variable " + e[1])
            return self.env[e[1]][0]
        if k == "num":
            return str(e[1])
        if k == "bool":
            return e[1]
        if k == "path":
            if e[1] in self.paths:
                return self.paths[e[1]][0]
            raise Unsupported("unknown path " + e[1])
        if k == "un":
            t = self.ty(e[2])
            x = self.ex(e[2])
            if e[1] == "!":
                if t == "bool":
                    return "(negb %s)" % x
                if t == "Z":
                    return "(Z.lnot %s)" % x
                raise Unsupported("! on " + t)
            if e[1] == "-":
                if t == "sign":
                    return "(sign_neg %s)" % x
                if t == "Z":
                    return "(- %s)" % x
                raise Unsupported("- on " + t)
        if k == "bin":
            op = e[1]
            ta = self.ty(e[2])
            a, b = self.ex(e[2]), self.ex(e[3])
            if op == "*" and ta == "sign":
                tb = self.ty(e[3])
                if tb == "sign":
                    return "(sign_mul %s %s)" % (a, b)
                if tb == "ordering":
                    return "(sign_mul_ord %s %s)" % (a, b)
            if ta == "Z" or ta == "mag":
                m = {"*": "(%s * %s)", "+": "(%s + %s)", "-": "(%s - %s)", "/": "(%s / %s)", "%": "(%s mod %s)",
                     "==": "(%s =? %s)", "!=": "(negb (%s =? %s))", "<": "(%s <? %s)", ">": "(%s >? %s)",
                     "<=": "(%s <=? %s)", ">=": "(%s >=? %s)",
                     ">>": "(Z.shiftr %s %s)", "<<": "(Z.shiftl %s %s)"}
                if op in m:
                    return m[op] % (a, b)
            if ta == "bool" and op in ("&&", "||"):
                return ("(%s && %s)" if op == "&&" else "(%s || %s)") % (a, b)
            if ta in ("sign", "ordering", "rounding") and op in ("==", "!="):
                r = "(%s_eqb %s %s)" % (ta, a, b)
                return r if op == "==" else "(negb %s)" % r
            raise Unsupported("binary %s on %s" % (op, ta))
        if k == "call":
            name = e[1]
            if name not in self.methods:
                raise Unsupported("unknown method ." + name)
            tmpl = self.methods[name][0]
            args = [self.ex(x) for x in e[2]]
            return tmpl.format(*args)
        if k == "app":
            if e[1] not in self.apps:
                raise Unsupported("unknown function " + e[1])
            tmpl = self.apps[e[1]][0]
            return tmpl.format(*[self.ex(x) for x in e[2]])
        if k == "tuple":
            return "(" + ", ".join(self.ex(x) for x in e[1]) + ")"
        if k == "block":
            return self.block(e)
        if k == "if":
            c = self.ex(e[1])
            if e[3] is None:
                raise Unsupported("if without else in value position")
            return "(if %s then %s else %s)" % (c, self.ex(e[2]), self.ex(e[3]))
        if k == "match":
            scrut = self.ex(e[1])
            arms = []
            for p, b in e[2]:
                saved = dict(self.env)
                self.bind_pat_vars(p)
                arms.append("| %s => %s" % (self.pat(p), self.ex(b)))
                self.env = saved
            return "(match %s with %s end)" % (scrut, " ".join(arms))
        raise Unsupported("expression " + k)

    def bind_pat_vars(self, p):
        if p[0] == "pvar":
            self.env[p[1]] = (p[1], "Z")
        elif p[0] in ("ptuple", "por"):
            for x in p[1]:
                self.bind_pat_vars(x)
        elif p[0] == "pctor":
            for x in p[2]:
                self.bind_pat_vars(x)

    def block(self, b):
        saved = dict(self.env)
        try:
            return self.stmts(list(b[1]), b[2])
        finally:
            self.env = saved

    def assigned_vars(self, blk):
        vs = []
        for s in blk[1]:
            if s[0] == "assign":
                if s[1] not in vs:
                    vs.append(s[1])
            else:
                raise Unsupported("statement other than assignment in one-armed if")
        if blk[2] is not None:
            raise Unsupported("value in one-armed if")
        return vs

    def stmts(self, stmts, final):
        if not stmts:
            if final is None:
                raise Unsupported("block without value")
            return self.ex(final)
        s = stmts[0]
        rest = stmts[1:]
        if s[0] == "let":
            rhs = self.ex(s[2])
            self.bind(s[1], s[2])
            if s[1][0] == "pwild" or (s[1][0] == "pvar" and s[1][1].startswith("_")):
                return self.stmts(rest, final)
            if s[1][0] == "ptuple":
                return "(let '%s := %s in %s)" % (self.pat(s[1]), rhs, self.stmts(rest, final))
            return "(let %s := %s in %s)" % (self.env[s[1][1]][0], rhs, self.stmts(rest, final))
        if s[0] == "return":
            return self.ex(s[1])
        if s[0] == "assign":
            rhs = self.ex(s[2])
            return "(let %s := %s in %s)" % (self.env[s[1]][0], rhs, self.stmts(rest, final))
        if s[0] == "expr":
            e = s[1]
            if e[0] == "if" and e[3] is None:
                # either an early return or conditional assignments
                blk = e[2]
                if blk[1] and blk[1][-1][0] == "return" or (len(blk[1]) == 0 and False):
                    c = self.ex(e[1])
                    th = self.block(("block", blk[1], None))
                    return "(if %s then %s else %s)" % (c, th, self.stmts(rest, final))
                vs = self.assigned_vars(blk)
                c = self.ex(e[1])
                names = [self.env[v][0] for v in vs]
                saved = dict(self.env)
                inner = ""
                close = ""
                for st in blk[1]:
                    inner += "(let %s := %s in " % (self.env[st[1]][0], self.ex(st[2]))
                    close += ")"
                tup = "(" + ", ".join(names) + ")" if len(names) > 1 else names[0]
                self.env = saved
                thn = inner + tup + close
                if len(names) > 1:
                    return "(let '%s := (if %s then %s else %s) in %s)" % (tup, c, thn, tup, self.stmts(rest, final))
                return "(let %s := (if %s then %s else %s) in %s)" % (tup, c, thn, tup, self.stmts(rest, final))
            if e[0] == "if" and e[3] is not None and final is None and not rest:
                return self.ex(e)
            if e[0] == "match" and final is None and not rest:
                return self.ex(e)
            raise Unsupported("expression statement")
        raise Unsupported("statement " + s[0])


# ------------------------------------------------------------------------------------------------
# dictionaries
# ------------------------------------------------------------------------------------------------
# magnitude methods: each entry is itself justified by a theorem about the magnitude kernel
# (coq/theories/Int) and by the correspondence run of C01/C02/C09.
INT_METHODS = {
    "add": ("({0} + {1})", "Z"),
    "sub_signed": ("({0} - {1})", "Z"),
    "mul": ("({0} * {1})", "Z"),
    "div_rem": ("(({0} / {1}), ({0} mod {1}))", "tuple"),
    "is_zero": ("({0} =? 0)", "bool"),
    "add_one": ("({0} + 1)", "Z"),
    "sub_one": ("({0} - 1)", "Z"),
    "into_typed": ("{0}", "Z"),
    "as_ref": ("{0}", "Z"),
    "with_sign": ("(signed {1} {0})", "Z"),
    "bitand": ("(Z.land {0} {1})", "Z"),
    "bitor": ("(Z.lor {0} {1})", "Z"),
    "bitxor": ("(Z.lxor {0} {1})", "Z"),
    "and_not": ("(Z.ldiff {0} {1})", "Z"),
    "are_low_bits_nonzero": ("(low_bits_nonzero {0} {1})", "bool"),
}
INT_PATHS = {
    "Positive": ("Positive", "sign"),
    "Negative": ("Negative", "sign"),
    "true": ("true", "bool"),
    "false": ("false", "bool"),
}
INT_APPS = {
    "IBig": ("{0}", "Z"),
    "UBig": ("{0}", "Z"),
    "IBig::from": ("(Z.b2z {0})", "Z"),
}
INT_ENV = {"$sign0": ("s0", "sign"), "$sign1": ("s1", "sign"), "$mag0": ("m0", "Z"), "$mag1": ("m1", "Z")}

ROUND_METHODS = {
    "is_zero": ("({0} =? 0)", "bool"),
    "sign": ("(sign_of {0})", "sign"),
    "bit": ("(Z.testbit {0} {1})", "bool"),
}
ROUND_PATHS = {
    "Sign::Positive": ("Positive", "sign"),
    "Sign::Negative": ("Negative", "sign"),
    "Positive": ("Positive", "sign"),
    "Negative": ("Negative", "sign"),
    "Rounding::NoOp": ("NoOp", "rounding"),
    "Rounding::AddOne": ("AddOne", "rounding"),
    "Rounding::SubOne": ("SubOne", "rounding"),
    "NoOp": ("NoOp", "rounding"),
    "AddOne": ("AddOne", "rounding"),
    "SubOne": ("SubOne", "rounding"),
    "Ordering::Less": ("Lt", "ordering"),
    "Ordering::Equal": ("Eq", "ordering"),
    "Ordering::Greater": ("Gt", "ordering"),
    "Less": ("Lt", "ordering"),
    "Equal": ("Eq", "ordering"),
    "Greater": ("Gt", "ordering"),
    "IBig::ZERO": ("0", "Z"),
}
ROUND_APPS = {"low_half_test": ("half", "ordering")}


def emit_sign_tables(repo, frags):
    out = ["(** GENERATED by tools/translate.py from the Rust sources - do not edit. *)",
           "From Dashu Require Import Base.Prelude.", "Open Scope Z_scope.", "",
           "(** [low_bits_nonzero m n]: are the low n bits of the magnitude m not all zero (proved for the kernel in Int/Bits.v) *)",
           "Definition low_bits_nonzero (m n : Z) : bool := negb (m mod 2 ^ n =? 0).", ""]
    bits = open(os.path.join(repo, "integer/src/bits.rs")).read()
    addo = open(os.path.join(repo, "integer/src/add_ops.rs")).read()
    mulo = open(os.path.join(repo, "integer/src/mul_ops.rs")).read()
    divo = open(os.path.join(repo, "integer/src/div_ops.rs")).read()
    shifto = open(os.path.join(repo, "integer/src/shift_ops.rs")).read()
    macros = [
        (bits, "impl_ibig_bitand"), (bits, "impl_ibig_bitor"), (bits, "impl_ibig_bitxor"),
        (bits, "impl_ubig_ibig_bitand"), (bits, "impl_ibig_ubig_bitand"),
        (addo, "impl_ibig_add"), (addo, "impl_ibig_sub"), (mulo, "impl_ibig_mul"),
        (divo, "impl_ibig_div"), (divo, "impl_ibig_rem"), (divo, "impl_ibig_divrem"),
        (divo, "impl_ibig_div_euclid"), (divo, "impl_ibig_rem_euclid"), (divo, "impl_ibig_divrem_euclid"),
        (divo, "impl_ubig_ibig_rem"), (divo, "impl_ubig_ibig_divrem"),
    ]
    for src, name in macros:
        coqname = name.replace("impl_", "") + "_gen"
        try:
            body = macro_body(src, name)
            ast = parse_block(body)
            g = Gen(INT_ENV, INT_METHODS, INT_PATHS, INT_APPS)
            term = g.block(ast)
            out.append("Definition %s (s0 : sign) (m0 : Z) (s1 : sign) (m1 : Z) :=\n  %s.\n" % (coqname, term))
            frags.append((coqname, "ok"))
        except (Unsupported, SyntaxError, LookupError, ValueError) as ex:
            frags.append((coqname, "unparsed %s" % str(ex).replace("\n", " ")[:120]))
            out.append("(* UNPARSED %s: %s *)\n" % (coqname, str(ex).replace("*)", "* )")[:200]))
    # Not for IBig / Shr<usize> for IBig: bodies of trait methods, variables sign/mag/rhs
    for coqname, src, hdr, env in [
        ("ibig_not_gen", bits, r"impl Not for IBig \{.*?fn not\(self\) -> IBig ", {"sign": ("s", "sign"), "mag": ("m", "Z")}),
        ("ibig_not_ref_gen", bits, r"impl Not for &IBig \{.*?fn not\(self\) -> IBig ", {"sign": ("s", "sign"), "mag": ("m", "Z")}),
        ("ibig_shr_gen", shifto, r"impl Shr<usize> for IBig \{.*?fn shr\(self, rhs: usize\) -> IBig ", {"sign": ("s", "sign"), "mag": ("m", "Z"), "rhs": ("n", "Z")}),
        ("ibig_shr_ref_gen", shifto, r"impl Shr<usize> for &IBig \{.*?fn shr\(self, rhs: usize\) -> IBig ", {"sign": ("s", "sign"), "mag": ("m", "Z"), "rhs": ("n", "Z")}),
    ]:
        try:
            body = fn_body(src, hdr)
            ast = parse_block(body)
            # drop the destructuring `let (sign, mag) = self.into_sign_repr();`
            stm = [s for s in ast[1] if not (s[0] == "let" and s[1][0] == "ptuple")]
            methods = dict(INT_METHODS)
            g = Gen(env, methods, INT_PATHS, INT_APPS)
            g.methods = methods
            term = g.block(("block", stm, ast[2]))
            # `mag >> rhs` on a magnitude
            params = "(s : sign) (m : Z)" + (" (n : Z)" if "rhs" in env else "")
            out.append("Definition %s %s :=\n  %s.\n" % (coqname, params, term))
            frags.append((coqname, "ok"))
        except (Unsupported, SyntaxError, LookupError, ValueError) as ex:
            frags.append((coqname, "unparsed %s" % str(ex).replace("\n", " ")[:120]))
            out.append("(* UNPARSED %s: %s *)\n" % (coqname, str(ex).replace("*)", "* )")[:200]))
    return "\n".join(out) + "\n"


def emit_round_tables(repo, frags):
    src = open(os.path.join(repo, "float/src/round.rs")).read()
    out = ["(** GENERATED by tools/translate.py from float/src/round.rs - do not edit. *)",
           "From Dashu Require Import Base.Prelude.", "Open Scope Z_scope.", "",
           "Inductive rounding := NoOp | AddOne | SubOne.",
           "Definition sign_eqb (a b : sign) : bool := match a, b with Positive, Positive | Negative, Negative => true | _, _ => false end.",
           ""]
    for mode in ["Zero", "Away", "Up", "Down", "HalfAway", "HalfEven"]:
        coqname = "round_low_part_%s_gen" % mode
        try:
            m = re.search(r"impl Round for mode::%s \{" % mode, src)
            if not m:
                raise LookupError("impl Round for mode::%s" % mode)
            sub = src[m.start() : balanced(src, m.end() - 1)]
            body = fn_body(sub, r"fn round_low_part<[^{]*?-> Rounding ")
            ast = parse_block(body)
            env = {"integer": ("i", "Z"), "_integer": ("i", "Z"), "low_sign": ("ls", "sign"),
                   "low_half_test": ("half", "ordering"), "_low_half_test": ("half", "ordering")}
            g = Gen(env, ROUND_METHODS, ROUND_PATHS, ROUND_APPS)
            term = g.block(ast)
            out.append("Definition %s (i : Z) (ls : sign) (half : comparison) : rounding :=\n  %s.\n" % (coqname, term))
            frags.append((coqname, "ok"))
        except (Unsupported, SyntaxError, LookupError, ValueError) as ex:
            frags.append((coqname, "unparsed %s" % str(ex).replace("\n", " ")[:120]))
            out.append("(* UNPARSED %s: %s *)\n" % (coqname, str(ex).replace("*)", "* )")[:200]))
    return "\n".join(out) + "\n"


def emit_params(repo, frags):
    out = ["(** GENERATED by tools/translate.py: size thresholds and constants read from the sources. *)",
           "From Coq Require Import ZArith.", "Open Scope Z_scope.", ""]
    items = [
        ("mul_threshold_simple", "integer/src/mul/mod.rs", "THRESHOLD_SIMPLE"),
        ("mul_threshold_karatsuba", "integer/src/mul/mod.rs", "THRESHOLD_KARATSUBA"),
        ("karatsuba_min_len", "integer/src/mul/karatsuba.rs", "MIN_LEN"),
        ("toom3_min_len", "integer/src/mul/toom_3.rs", "MIN_LEN"),
        ("mul_simple_chunk_len", "integer/src/mul/simple.rs", "CHUNK_LEN"),
        ("sqr_max_len_simple", "integer/src/sqr/mod.rs", "MAX_LEN_SIMPLE"),
        ("div_threshold_simple", "integer/src/div/mod.rs", "THRESHOLD_SIMPLE"),
        ("fmt_chunk_len", "integer/src/fmt/non_power_two.rs", "CHUNK_LEN"),
        ("parse_chunk_len", "integer/src/parse/non_power_two.rs", "CHUNK_LEN"),
    ]
    for coqname, rel, cname in items:
        try:
            src = open(os.path.join(repo, rel)).read()
            v = const_value(src, cname)
            if not re.match(r"^\d[\d_]*$", v):
                raise ValueError("not a literal: " + v)
            out.append("Definition %s : Z := %s." % (coqname, v.replace("_", "")))
            frags.append((coqname, "ok"))
        except (LookupError, ValueError, OSError) as ex:
            frags.append((coqname, "unparsed %s" % str(ex)[:100]))
            out.append("(* UNPARSED %s *)" % coqname)
    return "\n".join(out) + "\n"


def emit_float_add_params(repo, frags):
    """constants and conditions of float/src/add.rs and float/src/root.rs that the addition / sqrt theorems depend on:
    the far-apart test, the precision of its stand-in, the extra digit on subtraction, the sqrt scaling exponent"""
    out = ["(** GENERATED by tools/translate.py from float/src/add.rs and float/src/root.rs. *)",
           "From Coq Require Import ZArith.", "Open Scope Z_scope.", ""]

    def put(name, text):
        out.append(text)
        frags.append((name, "ok"))

    def fail(name, why):
        frags.append((name, "unparsed %s" % why[:100]))
        out.append("(* UNPARSED %s *)" % name)

    try:
        src = open(os.path.join(repo, "float/src/add.rs")).read()
    except OSError as ex:
        src = ""
    for tag, fn, big, small_est in (("ls", "repr_add_large_small", "ldigits", "rdigits_est"),
                                    ("sl", "repr_add_small_large", "rdigits", "ldigits_est")):
        try:
            body = fn_body(src, r"fn\s+" + fn + r"\b[^{]*")
        except (LookupError, ValueError) as ex:
            for nm in ("far_cond_%s_gen" % tag, "far_low_prec_%s_gen" % tag, "rnd_precision_%s_gen" % tag):
                fail(nm, str(ex))
            continue
        m = re.search(r"let\s+rnd_precision\s*=\s*self\.precision\s*\+\s*is_sub\s+as\s+usize\s*;", body)
        if m:
            put("rnd_precision_%s_gen" % tag,
                "Definition rnd_precision_%s_gen (p : Z) (is_sub : bool) : Z := p + (if is_sub then 1 else 0)." % tag)
        else:
            fail("rnd_precision_%s_gen" % tag, "rnd_precision is not `self.precision + is_sub as usize`")
        m = re.search(r"self\.is_limited\(\)\s*&&\s*%s\s*\+\s*(\d+)\s*<\s*ediff\s*&&\s*%s\s*\+\s*(\d+)\s*\+\s*rnd_precision\s*<\s*%s\s*\+\s*ediff"
                      % (small_est, small_est, big), body)
        if not m:
            # shape since /repo abdd8e0: the second comparison is formed in u128 so that it cannot overflow
            # (same meaning on Z):  && ((est + 1 + rnd_precision) as u128) < big as u128 + ediff as u128
            m = re.search(r"self\.is_limited\(\)\s*&&\s*%s\s*\+\s*(\d+)\s*<\s*ediff\s*&&\s*\(\s*\(\s*%s\s*\+\s*(\d+)\s*\+\s*rnd_precision\s*\)\s*as\s+u128\s*\)\s*<\s*%s\s+as\s+u128\s*\+\s*ediff\s+as\s+u128"
                          % (small_est, small_est, big), body)
        if m:
            put("far_cond_%s_gen" % tag,
                "Definition far_cond_%s_gen (est ediff rp big : Z) : bool := (est + %s <? ediff) && (est + %s + rp <? big + ediff)."
                % (tag, m.group(1), m.group(2)))
        else:
            fail("far_cond_%s_gen" % tag, "far-apart condition has another shape")
        m = re.search(r"let\s+low_prec\s*=\s*if\s+%s\s*>=\s*rnd_precision\s*\{\s*(\d+)\s*\}\s*else\s*\{\s*\(rnd_precision\s*-\s*%s\)\s*\+\s*(\d+)\s*\}\s*;"
                      % (big, big), body)
        if m:
            put("far_low_prec_%s_gen" % tag,
                "Definition far_low_prec_%s_gen (rp d : Z) : Z := if d >=? rp then %s else rp - d + %s."
                % (tag, m.group(1), m.group(2)))
        else:
            fail("far_low_prec_%s_gen" % tag, "low_prec of the stand-in has another shape")
    try:
        rsrc = open(os.path.join(repo, "float/src/root.rs")).read()
        m = re.search(r"let\s+shift\s*=\s*self\.precision\s+as\s+isize\s*\*\s*(\d+)\s*-\s*\(\(digits\s*\+\s*x\.exponent\)\s*&\s*1\)\s*-\s*digits\s*;", rsrc)
        if not m:
            # shape since /repo abdd8e0: the parity of digits + exponent is taken as (digits ^ exponent) & 1 so that the sum is
            # never formed (it overflows next to isize::MAX); the lowest bit of a xor is the lowest bit of the sum
            m = re.search(r"let\s+shift\s*=\s*self\.precision\s+as\s+isize\s*\*\s*(\d+)\s*-\s*\(\(digits\s*\^\s*x\.exponent\)\s*&\s*1\)\s*-\s*digits\s*;", rsrc)
        if m:
            put("sqrt_shift_gen", "Definition sqrt_shift_gen (p digits e : Z) : Z := p * %s - ((digits + e) mod 2) - digits." % m.group(1))
        else:
            fail("sqrt_shift_gen", "sqrt scaling exponent has another shape")
    except OSError as ex:
        fail("sqrt_shift_gen", str(ex))
    return "\n".join(out) + "\n"


def emit_float_div_params(repo, frags):
    """float/src/round.rs round_fract: the two fudge literals and the order of the coarse / exact decisions of the
    closure `test`; float/src/div.rs: the pre-shrinking test of Context::div and the scaling shifts of repr_div"""
    out = ["(** GENERATED by tools/translate.py from float/src/round.rs and float/src/div.rs. *)",
           "From Coq Require Import ZArith QArith.", "Open Scope Z_scope.", ""]

    def put(name, text):
        out.append(text)
        frags.append((name, "ok"))

    def fail(name, why):
        frags.append((name, "unparsed %s" % why[:100]))
        out.append("(* UNPARSED %s *)" % name)

    def dec_q(lit):
        ip, fp = lit.split(".")
        return "%d # %d" % (int(ip + fp), 10 ** len(fp))

    ords = {"Greater": "Gt", "Less": "Lt", "Equal": "Eq"}
    try:
        src = open(os.path.join(repo, "float/src/round.rs")).read()
        body = fn_body(src, r"fn\s+round_fract\b[^{]*")
        m = re.search(r"if\s+lb\s*\+\s*(\d+\.\d+)\s*>\s*b_ub\s*\*\s*precision\s+as\s+f32\s*\{\s*Ordering::(\w+)\s*\}\s*"
                      r"else\s+if\s+ub\s*\+\s*(\d+\.\d+)\s*<\s*b_lb\s*\*\s*precision\s+as\s+f32\s*\{\s*Ordering::(\w+)\s*\}\s*"
                      r"else\s*\{\s*\(fmag\s*<<\s*1\)\.cmp\(&UBig::from_word\(B\)\.pow\(precision\)\)\s*\}", body)
        if m and m.group(2) in ords and m.group(4) in ords:
            put("filter_c_gt_gen", "Definition filter_c_gt_gen : Q := %s." % dec_q(m.group(1)))
            put("filter_c_lt_gen", "Definition filter_c_lt_gen : Q := %s." % dec_q(m.group(3)))
            put("half_test_gen",
                "Definition half_test_gen (coarse_gt coarse_lt : bool) (exact : comparison) : comparison :=\n"
                "  if coarse_gt then %s else if coarse_lt then %s else exact." % (ords[m.group(2)], ords[m.group(4)]))
        else:
            for nm in ("filter_c_gt_gen", "filter_c_lt_gen", "half_test_gen"):
                fail(nm, "the closure `test` of round_fract has another shape")
    except (LookupError, ValueError, OSError) as ex:
        for nm in ("filter_c_gt_gen", "filter_c_lt_gen", "half_test_gen"):
            fail(nm, str(ex))
    try:
        src = open(os.path.join(repo, "float/src/div.rs")).read()
        body = fn_body(src, r"pub\s+fn\s+div\s*<[^{]*")
        m = re.search(r"if\s+!lhs\.is_zero\(\)\s*&&\s*lhs\.digits_ub\(\)\s*([<>]=?)\s*rhs\.digits_lb\(\)\s*\+\s*self\.precision\s*\{"
                      r"[^}]*?Self::new\(rhs\.digits\(\)\s*\+\s*self\.precision\)\s*\.repr_round_ref\(lhs\)", body, flags=re.S)
        if m:
            put("div_shrink_cond_gen", "Definition div_shrink_cond_gen (lhs_zero : bool) (ub lb p : Z) : bool := negb lhs_zero && (ub %s? lb + p)." % m.group(1))
            put("div_shrink_prec_gen", "Definition div_shrink_prec_gen (rd p : Z) : Z := rd + p.")
        else:
            why = "pre-shrinking of Context::div has another shape"
            if "digits_ub" not in body:
                why = ("retired: Context::div no longer shrinks an over-long dividend (repair da565f6 divides by rhs * B^shift "
                       "instead); the frozen copy describes the code before the repair and is used only by the pre-repair theorems")
            fail("div_shrink_cond_gen", why)
            fail("div_shrink_prec_gen", why)
        body = fn_body(src, r"fn\s+repr_div\s*<[^{]*")
        m1 = re.search(r"let\s+shift\s*=\s*ddigits\s*\+\s*self\.precision\s*-\s*rdigits\s*;", body)
        m2 = re.search(r"let\s+ndigits\s*=\s*digit_len::<B>\(&q\)\s*\+\s*ddigits\s*;\s*if\s+ndigits\s*([<>]=?)\s*ddigits\s*\+\s*self\.precision\s*\{", body)
        m3 = re.search(r"let\s+shift\s*=\s*ddigits\s*\+\s*self\.precision\s*-\s*ndigits\s*;", body)
        if m1 and m2 and m3:
            put("div_shift_gen",
                "Definition div_shift_gen (q_zero : bool) (dd p rd qd : Z) : Z :=\n"
                "  if q_zero then dd + p - rd else let nd := qd + dd in if nd %s? dd + p then dd + p - nd else 0." % m2.group(1))
        else:
            fail("div_shift_gen", "scaling shifts of repr_div have another shape")
    except (LookupError, ValueError, OSError) as ex:
        for nm in ("div_shrink_cond_gen", "div_shrink_prec_gen", "div_shift_gen"):
            if not any(f[0] == nm for f in frags):
                fail(nm, str(ex))
    return "\n".join(out) + "\n"


def emit_log2_tab(repo, frags):
    """the 128-entry fixed-point table of the no_std log2 estimator (base/src/math/log.rs)"""
    out = ["(** GENERATED by tools/translate.py from base/src/math/log.rs. *)",
           "From Coq Require Import ZArith List.", "Import ListNotations.", "Open Scope Z_scope.", ""]
    try:
        src = open(os.path.join(repo, "base/src/math/log.rs")).read()
        m = re.search(r"const\s+LOG2_TAB\s*:\s*\[u8;\s*(\d+)\]\s*=\s*\[(.*?)\];", src, flags=re.S)
        if not m:
            raise LookupError("const LOG2_TAB: [u8; N] = [...] not found")
        vals = [v.strip() for v in m.group(2).replace("\n", " ").split(",") if v.strip()]
        nums = [int(v.replace("_", ""), 0) for v in vals]
        if len(nums) != int(m.group(1)):
            raise ValueError("length %d differs from the declared %s" % (len(nums), m.group(1)))
        out.append("Definition LOG2_TAB_gen : list Z := [%s]." % "; ".join(str(n) for n in nums))
        frags.append(("LOG2_TAB_gen", "ok"))
    except (LookupError, ValueError, OSError) as ex:
        frags.append(("LOG2_TAB_gen", "unparsed %s" % str(ex)[:100]))
        out.append("(* UNPARSED LOG2_TAB_gen *)")
    return "\n".join(out) + "\n"


def emit_conv_params(repo, frags):
    """C06: the literals of the float conversions - FloatEncoding::encode/decode for f32/f64 (base/src/bit.rs), to_f32/to_f64_nontrivial
    (integer/src/convert.rs), Repr::to_f32/to_f64 (rational/src/convert.rs), into_f32/f64_internal (float/src/convert.rs) -
    as tuples of numbers; Conv/ConvParamsProof.v proves them equal to the constants of the as-is models."""
    out = ["(** GENERATED by tools/translate.py from base/src/bit.rs, integer/src/convert.rs, rational/src/convert.rs, float/src/convert.rs. *)",
           "From Coq Require Import ZArith List.", "Import ListNotations.", "Open Scope Z_scope.", ""]

    def put(name, nums):
        out.append("Definition %s : list Z := [%s].\n" % (name, "; ".join("(%d)" % n if n < 0 else "%d" % n for n in nums)))
        frags.append((name, "ok"))

    def fail(name, why):
        frags.append((name, "unparsed %s" % str(why)[:100]))
        out.append("(* UNPARSED %s *)\n" % name)

    def lit(x):
        return int(x.replace("_", ""), 0)

    def read(rel):
        try:
            return open(os.path.join(repo, rel)).read()
        except OSError:
            return ""

    def grab(name, body, pats):
        """every pattern must match exactly as written; its groups are integer literals"""
        nums = []
        for pat in pats:
            m = re.search(pat, body, flags=re.S)
            if not m:
                fail(name, "shape changed at /%s/" % pat[:60])
                return
            nums += [lit(g) for g in m.groups()]
        put(name, nums)

    N = r"(-?\s*(?:0x[0-9a-fA-F_]+|0b[01_]+|\d[\d_]*))"
    bit = read("base/src/bit.rs")
    for t, ut, wt in (("f32", "u32", "u64"), ("f64", "u64", "u128")):
        m = re.search(r"impl\s+FloatEncoding\s+for\s+%s\s*\{" % t, bit)
        if not m:
            fail("encode_%s_gen" % t, "impl FloatEncoding for %s not found" % t)
            fail("decode_%s_gen" % t, "impl FloatEncoding for %s not found" % t)
            continue
        impl = bit[m.end() - 1: balanced(bit, m.end() - 1)]
        try:
            enc = fn_body(impl, r"fn\s+encode\s*\([^)]*\)[^{]*")
            grab("encode_%s_gen" % t, enc, [
                r"let\s+top_bit\s*=\s*\(%s::BITS\s*-\s*zeros\)\s+as\s+i16\s*\+\s*exponent\s*;" % ut,
                r"if\s+top_bit\s*>\s*%s\s*\{" % N,
                r"else\s+if\s+top_bit\s*<\s*%s\s*-\s*%s\s*\{" % (N, N),
                r"if\s+top_bit\s*<=\s*%s\s*\{" % N,
                r"let\s+shift\s*=\s*exponent\s*\+\s*%s\s*\+\s*%s\s*;" % (N, N),
                r"let\s+kept\s*=\s*wide\s*>>\s*s\s*;\s*let\s+half\s*=\s*\(wide\s*>>\s*\(s\s*-\s*%s\)\)\s*&\s*%s\s*;\s*let\s+sticky\s*=\s*wide\s*&\s*\(\(1%s\s*<<\s*\(s\s*-\s*%s\)\)\s*-\s*%s\)\s*!=\s*0\s*;" % (N, N, wt, N, N),
                r"round_bits\s*=\s*\(\(kept\s*&\s*%s\)\s*<<\s*%s\s*\|\s*half\s*<<\s*%s\)\s+as\s+u8\s*\|\s*sticky\s+as\s+u8\s*;" % (N, N, N),
                r"if\s+mantissa\s*==\s*%s\s*\{\s*mantissa\s*=\s*0\s*;[^}]*\}\s*else\s*\{\s*mantissa\s*<<=\s*zeros\s*\+\s*%s\s*;" % (N, N),
                r"let\s+exponent\s*=\s*\(exponent\s*\+\s*%s\s*\+\s*%s::BITS\s+as\s+i16\)\s+as\s+%s\s*-\s*zeros(?:\s+as\s+%s)?\s*-\s*%s\s*;" % (N, ut, ut, ut, N),
                r"bits\s*=\s*\(sign\s*<<\s*%s\)\s*\|\s*\(exponent\s*<<\s*%s\)\s*\|\s*\(mantissa\s*>>\s*%s\)\s*;" % (N, N, N),
                r"round_bits\s*=\s*\(\(mantissa\s*>>\s*%s\)\s*&\s*%s\)\s+as\s+u8\s*\|\s*\(\(mantissa\s*&\s*%s\)\s*!=\s*0\)\s+as\s+u8\s*;" % (N, N, N),
                r"if\s+round_bits\s*&\s*%s\s*==\s*0\s*\{" % N,
            ])
        except (LookupError, ValueError, SyntaxError) as ex:
            fail("encode_%s_gen" % t, ex)
        try:
            dec = fn_body(impl, r"fn\s+decode\s*\([^)]*\)[^{]*")
            grab("decode_%s_gen" % t, dec, [
                r"let\s+sign_bit\s*=\s*bits\s*>>\s*%s\s*;" % N,
                r"let\s+mantissa_bits\s*=\s*bits\s*&\s*%s\s*;" % N,
                r"let\s+mut\s+exponent\s*=\s*\(\(bits\s*>>\s*%s\)\s*&\s*%s\)\s+as\s+i16\s*;" % (N, N),
                r"if\s+exponent\s*==\s*%s\s*\{" % N,
                r"if\s+exponent\s*==\s*%s\s*\{\s*(?://[^\n]*\n\s*)*exponent\s*=\s*%s\s*-\s*%s\s*;\s*mantissa_bits\s*\}" % (N, N, N),
                r"exponent\s*-=\s*%s\s*\+\s*%s\s*;[^\n]*\n\s*mantissa_bits\s*\|\s*%s" % (N, N, N),
            ])
        except (LookupError, ValueError, SyntaxError) as ex:
            fail("decode_%s_gen" % t, ex)
    isrc = read("integer/src/convert.rs")
    for t, ut in (("f32", "u32"), ("f64", "u64")):
        nm = "int_to_%s_nontrivial_gen" % t
        try:
            body = fn_body(isrc, r"fn\s+to_%s_nontrivial\s*\(self\)[^{]*" % t)
            grab(nm, body, [
                r"let\s+n\s*=\s*self\.bit_len\(\)\s*;",
                r"if\s+n\s*>\s*%s\s*\{\s*Inexact\(%s::INFINITY\s*,\s*Positive\)\s*\}\s*else\s*\{" % (N, t),
                r"let\s+top_u\d+\s*:\s*%s\s*=\s*\(self\s*>>\s*\(n\s*-\s*%s\)\)\s*\.as_typed\(\)\s*\.try_to_unsigned\(\)\s*\.unwrap\(\)\s*;" % (ut, N),
                r"let\s+extra_bit\s*=\s*self\.are_low_bits_nonzero\(n\s*-\s*%s\)\s+as\s+%s\s*;" % (N, ut),
                r"%s::encode\(\(top_u\d+\s*\|\s*extra_bit\)\s+as\s+i\d+\s*,\s*\(n\s*-\s*%s\)\s+as\s+i16\)" % (t, N),
            ])
        except (LookupError, ValueError, SyntaxError) as ex:
            fail(nm, ex)
        nm = "int_to_%s_small_gen" % t
        try:
            body = fn_body(isrc, r"fn\s+to_%s_small\s*\(dword\s*:\s*DoubleWord\)[^{]*" % t)
            grab(nm, body, [
                r"let\s+f\s*=\s*dword\s+as\s+%s\s*;" % t,
                r"if\s+f\s*==\s*\(\(%s\s+as\s+DoubleWord\)\s*<<\s*\(DoubleWord::BITS\s*-\s*%s\)\)\s+as\s+%s\s*\*\s*%s\.0\s*\{\s*return\s+Inexact\(f\s*,\s*Sign::Positive\)\s*;" % (N, N, t, N),
                r"let\s+back\s*=\s*f\s+as\s+DoubleWord\s*;",
                r"match\s+back\.partial_cmp\(&dword\)\.unwrap\(\)\s*\{\s*Ordering::Greater\s*=>\s*Inexact\(f\s*,\s*Sign::Positive\)\s*,\s*Ordering::Equal\s*=>\s*Exact\(f\)\s*,\s*Ordering::Less\s*=>\s*Inexact\(f\s*,\s*Sign::Negative\)\s*,?\s*\}",
            ])
        except (LookupError, ValueError, SyntaxError) as ex:
            fail(nm, ex)
    rsrc = read("rational/src/convert.rs")
    for t, ut in (("f32", "u32"), ("f64", "u64")):
        nm = "rat_to_%s_gen" % t
        try:
            body = fn_body(rsrc, r"fn\s+to_%s\s*\(&self\)\s*->\s*Approximation<%s,\s*Sign>[^{]*" % (t, t))
            grab(nm, body, [
                r"let\s+shift\s*=\s*num_bits\s+as\s+isize\s*-\s*den_bits\s+as\s+isize\s*-\s*%s\s*;" % N,
                r"if\s+shift\s*>=\s*%s\s*-\s*%s\s*\{" % (N, N),
                r"Inexact\(sign\s*\*\s*%s::INFINITY\s*,\s*sign\)\s*\}\s*else\s+if\s+shift\s*<\s*%s\s*-\s*%s\s*\{" % (t, N, N),
                r"Inexact\(sign\s*\*\s*0%s\s*,\s*-sign\)\s*\}\s*else\s*\{\s*let\s+\(num\s*,\s*den\)\s*=\s*if\s+shift\s*>=\s*%s\s*\{" % (t, N),
                r"\(self\.numerator\.clone\(\)\s*,\s*\(&self\.denominator\)\s*<<\s*shift\s+as\s+usize\)\s*\}\s*else\s*\{\s*\(\(&self\.numerator\)\s*<<\s*\(-shift\)\s+as\s+usize\s*,\s*self\.denominator\.clone\(\)\)",
                r"let\s+\(man\s*,\s*r\)\s*=\s*num\.unsigned_abs\(\)\.div_rem\(&den\)\s*;\s*let\s+man\s*:\s*%s\s*=\s*man\.try_into\(\)\.unwrap\(\)\s*;\s*let\s+man\s*=\s*man\s*\|\s*\(!r\.is_zero\(\)\)\s+as\s+%s\s*;" % (ut, ut),
                r"%s::encode\(sign\s*\*\s*man\s+as\s+i\d+\s*,\s*shift\s+as\s+i16\)" % t,
            ])
        except (LookupError, ValueError, SyntaxError) as ex:
            fail(nm, ex)
    fsrc = read("float/src/convert.rs")
    for t in ("f32", "f64"):
        nm = "fbig_into_%s_gen" % t
        try:
            body = fn_body(fsrc, r"fn\s+into_%s_internal\s*\(self\)[^{]*" % t)
            grab(nm, body, [
                # plain `+` before /repo abdd8e0, saturating_add since (same meaning on Z: the saturated value is "too large")
                r"let\s+top_bit\s*=\s*self\s*\.\s*exponent\s*(?:\+\s*self\.significand\.bit_len\(\)\s+as\s+isize|\.\s*saturating_add\(\s*self\.significand\.bit_len\(\)\s+as\s+isize\s*\))\s*;",
                r"if\s+top_bit\s*>\s*%s\s*\{" % N,
                r"else\s+if\s+self\.exponent\s*<\s*%s\s*-\s*%s\s*\{" % (N, N),
                r"match\s+%s::encode\(man\d+\s*,\s*self\.exponent\s+as\s+i16\)\s*\{\s*Exact\(v\)\s*=>\s*Exact\(v\)\s*," % t,
            ])
        except (LookupError, ValueError, SyntaxError) as ex:
            fail(nm, ex)
    return "\n".join(out) + "\n"


def main():
    ap = argparse.ArgumentParser()
    ap.add_argument("--repo", default="/repo")
    ap.add_argument("--out", required=True)
    a = ap.parse_args()
    os.makedirs(a.out, exist_ok=True)
    frags = []
    files = {
        "SignTables.v": emit_sign_tables,
        "RoundTables.v": emit_round_tables,
        "Params.v": emit_params,
        "FloatAddParams.v": emit_float_add_params,
        "Log2Tab.v": emit_log2_tab,
        "FloatDivParams.v": emit_float_div_params,
        "ConvParams.v": emit_conv_params,
    }
    for fname, fn in files.items():
        try:
            txt = fn(a.repo, frags)
        except Exception as ex:  # keep the stale copy
            frags.append((fname, "unparsed %r" % ex))
            continue
        p = os.path.join(a.out, fname)
        old = open(p).read() if os.path.exists(p) else None
        if old != txt:
            # an unparsed fragment keeps its previous definition so that dependants still build
            if "(* UNPARSED" in txt and old is not None:
                merged = txt
                for m in re.finditer(r"\(\* UNPARSED (\w+)", txt):
                    nm = m.group(1)
                    # the previous definition ends at the first ".\n" that is followed by a blank line, a comment, the next
                    # definition or the end of the file (it need not be followed by a blank line)
                    om = re.search(r"Definition %s\b.*?\.\n(?=\n|\(\*|Definition|\Z)" % nm, old, flags=re.S)
                    if om:
                        merged = merged.replace(m.group(0), "(* STALE copy kept *)\n" + om.group(0) + "\n(* UNPARSED " + nm)
                txt = merged
            with open(p, "w") as f:
                f.write(txt)
    for n, s in frags:
        print("FRAGMENT %s %s" % (n, s))


if __name__ == "__main__":
    main()
