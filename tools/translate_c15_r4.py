#!/usr/bin/env python3
"""C15 translator (round 4).

    tools/translate_c15_r4.py --repo /repo --out coq/gen

Fragments (one status line each, `FRAGMENT <name> ok ...` / `FRAGMENT <name> unparsed <why>`, exit 0):

  FormsCtxGen.v     float/src/mul.rs Context::mul / sqr / cubic and float/src/div.rs Context::div / inv and the
                    head of Context::repr_div (the order of the two entry checks and the scaling of the divisor
                    for a dividend longer than precision + digits(divisor)), as Gallina.  The FBig operators
                    next to them are the fragments of round 3 (FormsFloatGen.v); Forms/FormsFloatR4.v proves
                    over BOTH generated fragments that the operator forms and the Context method are one function
                    for ALL operands.
  FormsInventory.v  the inventory of operator-trait impls of dashu-int / dashu-float / dashu-ratio AFTER macro
                    expansion (rustdoc JSON of the working tree, `cargo +nightly rustdoc --output-format json`,
                    cached by a hash of the crate sources): one row (crate, trait, lhs, rhs, Output...) per impl on
                    UBig / IBig / FBig / RBig / Relaxed / Reduced, each mapped to the harness case and form name
                    that exercises it (or to `uncovered`).  Forms/FormsInventoryProofs.v proves over the generated
                    table: the Output type of every primitive-operand form = out_ty of the model; all ownership
                    variants of one operator have the same Output type.

Unparseable source / no nightly toolchain is not an alarm: the last good copy is kept, marked `(* STALE *)`.
"""
import argparse
import hashlib
import json
import os
import re
import subprocess
import sys

sys.path.insert(0, os.path.dirname(os.path.abspath(__file__)))
import translate as T  # noqa: E402

STALE = "(* STALE *)"
HERE = os.path.dirname(os.path.abspath(__file__))
ROOT = os.path.dirname(HERE)
FALLBACK_DIR = os.path.join(HERE, "c15_r4_fallback")


class Unparsed(Exception):
    pass


def strip_comments(src):
    src = re.sub(r"//[^\n]*", "", src)
    return re.sub(r"/\*.*?\*/", "", src, flags=re.S)


# ================================================================================================
# 1. Context::mul / sqr / cubic / div / inv, head of repr_div
# ================================================================================================
MAP_WRAP = re.compile(r"\.map\(\s*\|\s*v\s*\|\s*FBig::new\(\s*v\s*,\s*\*self\s*\)\s*\)")


def ctx_fn(src, name):
    """body of `pub fn <name><const B: Word>(&self, ...)` inside `impl<R: Round> Context<R>`; the trailing
    `.map(|v| FBig::new(v, *self))` (attach the context) is required and removed"""
    try:
        body = T.fn_body(src, r"pub(?:\(crate\))?\s+fn\s+%s\s*<\s*const\s+B\s*:\s*Word\s*>\s*\(\s*&self\s*,[^)]*\)\s*->\s*Rounded<[^{]*" % name)
    except LookupError:
        raise Unparsed("Context::%s not found" % name)
    return body


class CtxEval:
    """integer / pair valued expressions of the Context method bodies"""

    def __init__(self, names):
        self.names = names          # operand variable -> (sig, exp)
        self.env = {}

    def z(self, e):
        k = e[0]
        if k == "num":
            return str(e[1])
        if k == "var" and e[1] in self.env:
            return self.env[e[1]]
        if k == "field" and e[1][0] == "var" and e[1][1] in self.names and e[2] in ("significand", "exponent"):
            return self.names[e[1][1]][0 if e[2] == "significand" else 1]
        if k == "field" and e[1][0] == "var" and e[1][1] == "self" and e[2] == "precision":
            return "p"
        if k == "bin" and e[1] in ("+", "-", "*"):
            return "(%s %s %s)" % (self.z(e[2]), e[1], self.z(e[3]))
        if k == "call" and e[1] in ("into", "clone") and len(e[2]) == 1:
            return self.z(e[2][0])
        if k == "call" and e[1] == "sqr" and len(e[2]) == 1:
            a = self.z(e[2][0])
            return "(%s * %s)" % (a, a)
        if k == "call" and e[1] == "cubic" and len(e[2]) == 1:
            a = self.z(e[2][0])
            return "(%s * %s * %s)" % (a, a, a)
        if k == "call" and e[1] == "digits" and len(e[2]) == 1 and e[2][0][0] == "var" and e[2][0][1] in self.names:
            return "(dlen B %s)" % self.names[e[2][0][1]][0]
        raise Unparsed("integer expression %r" % (e,))

    def pair(self, e):
        k = e[0]
        if k == "var" and e[1] in self.env:
            return self.env[e[1]]
        if k == "var" and e[1] in self.names:
            return "(%s, %s)" % self.names[e[1]]
        if k == "call" and e[1] == "clone" and len(e[2]) == 1:
            return self.pair(e[2][0])
        if k == "app" and e[1] == "Repr::new" and len(e[2]) == 2:
            return "(normalize B %s %s)" % (self.z(e[2][0]), self.z(e[2][1]))
        if k == "app" and e[1] == "Repr::one" and not e[2]:
            return "(1, 0)"
        raise Unparsed("Repr expression %r" % (e,))


def render_ctx_round(src, name, names, params):
    """Context::mul / sqr / cubic:  [assert_finite..;] let repr = Repr::new(..); self.repr_round(repr)"""
    body = ctx_fn(src, name)
    if not MAP_WRAP.search(body):
        raise Unparsed("Context::%s does not end in .map(|v| FBig::new(v, *self))" % name)
    ast = T.P(T.tokenize(MAP_WRAP.sub("", body))).block()
    ev = CtxEval(names)
    checked = False
    lets = []
    for s in ast[1]:
        if s[0] == "expr" and s[1][0] == "app" and s[1][1] in ("assert_finite_operands", "assert_finite"):
            checked = True
            continue
        if s[0] == "let" and s[1][0] == "pvar":
            v = ev.pair(s[2])
            lets.append((s[1][1], v))
            ev.env[s[1][1]] = s[1][1]
            continue
        raise Unparsed("Context::%s: statement %r" % (name, s))
    f = ast[2]
    if not (f and f[0] == "call" and f[1] == "repr_round" and len(f[2]) == 2 and f[2][0] == ("var", "self")):
        raise Unparsed("Context::%s: result is not self.repr_round(..)" % name)
    r = ev.pair(f[2][1])
    res = "repr_round B p m (fst %s) (snd %s)" % (r, r)
    for n, v in reversed(lets):
        res = "let %s := %s in\n  %s" % (n, v, res)
    return ("Definition gen_ctx_%s (B p : Z) (m : mode) %s : approx :=\n  %s.\n"
            "Definition gen_ctx_%s_checks_finite : bool := %s.\n" % (name, params, res, name, "true" if checked else "false"))


def render_ctx_div(src, name, names, params):
    """Context::div / inv:  [assert_finite..;] self.repr_div(a, b)"""
    body = ctx_fn(src, name)
    if not MAP_WRAP.search(body):
        raise Unparsed("Context::%s does not end in .map(|v| FBig::new(v, *self))" % name)
    ast = T.P(T.tokenize(MAP_WRAP.sub("", body))).block()
    ev = CtxEval(names)
    checked = False
    for s in ast[1]:
        if s[0] == "expr" and s[1][0] == "app" and s[1][1] in ("assert_finite_operands", "assert_finite"):
            checked = True
            continue
        raise Unparsed("Context::%s: statement %r" % (name, s))
    f = ast[2]
    if not (f and f[0] == "call" and f[1] == "repr_div" and len(f[2]) == 3 and f[2][0] == ("var", "self")):
        raise Unparsed("Context::%s: result is not self.repr_div(.., ..)" % name)
    return ("Definition gen_ctx_%s {V : Type} (repr_div : Z -> Z * Z -> Z * Z -> V) (p : Z) %s : V :=\n  repr_div p %s %s.\n"
            "Definition gen_ctx_%s_checks_finite : bool := %s.\n"
            % (name, params, ev.pair(f[2][1]), ev.pair(f[2][2]), name, "true" if checked else "false"))


def render_repr_div_head(src):
    """the statements of Context::repr_div in front of `let (mut q, mut r) = lhs.significand.div_rem(..)`"""
    try:
        body = T.fn_body(src, r"fn\s+repr_div\s*<\s*const\s+B\s*:\s*Word\s*>\s*\(\s*&self\s*,[^)]*\)\s*->\s*Rounded<[^{]*")
    except LookupError:
        raise Unparsed("Context::repr_div not found")
    m = re.search(r"let\s*\(\s*mut\s+q\s*,\s*mut\s+r\s*\)\s*=\s*lhs\.significand\.div_rem\(\s*&rhs\.significand\s*\)\s*;", body)
    if not m:
        raise Unparsed("repr_div: the division statement was not found")
    head = body[1:m.start()]
    # textual normalisation of the two in-place updates of the divisor
    head = re.sub(r"shl_digits_in_place\s*::\s*<\s*B\s*>\s*\(\s*&mut\s+rhs\.significand\s*,\s*(\w+)\s*\)\s*;", r"rhs_sig = shl_digits(rhs_sig, \1);", head)
    head = re.sub(r"rhs\.exponent\s*-=\s*(\w+)\s+as\s+isize\s*;", r"rhs_exp = rhs_exp - \1;", head)
    if "rhs." in re.sub(r"rhs\.digits\(\)", "", head).replace("&rhs", ""):
        raise Unparsed("repr_div head: another use of rhs")
    ast = T.P(T.tokenize("{" + head + "}")).block()
    stmts = list(ast[1]) + ([("expr", ast[2])] if ast[2] else [])
    ev = CtxEval({"lhs": ("s1", "e1"), "rhs": ("s2", "e2")})
    checks = []
    lets = []
    scale = None
    for s in stmts:
        if s[0] == "expr" and s[1][0] == "app" and s[1][1] in ("assert_finite_operands", "assert_limited_precision"):
            if scale is not None:
                raise Unparsed("repr_div head: a check after the scaling")
            checks.append("RdFinite" if s[1][1] == "assert_finite_operands" else "RdLimited")
            continue
        if s[0] == "let" and s[1][0] == "ptuple" and s[2][0] == "tuple" and len(s[1][1]) == len(s[2][1]) and scale is None:
            for pv, ex in zip(s[1][1], s[2][1]):
                if pv[0] != "pvar":
                    raise Unparsed("repr_div head: pattern")
                lets.append((pv[1], ev.z(ex)))
                ev.env[pv[1]] = pv[1]
            continue
        if s[0] == "let" and s[1][0] == "pvar" and scale is None:
            lets.append((s[1][1], ev.z(s[2])))
            ev.env[s[1][1]] = s[1][1]
            continue
        if s[0] == "expr" and s[1][0] == "if" and s[1][3] is None and scale is None:
            c = s[1][1]
            if not (c[0] == "bin" and c[1] == ">"):
                raise Unparsed("repr_div head: condition %r" % (c,))
            cond = "%s >? %s" % (ev.z(c[2]), ev.z(c[3]))
            blk = s[1][2]
            inner = []
            sig, exp = "s2", "e2"
            ev2 = CtxEval(ev.names)
            ev2.env = dict(ev.env)
            for t in list(blk[1]) + ([("expr", blk[2])] if blk[2] else []):
                if t[0] == "let" and t[1][0] == "pvar":
                    inner.append((t[1][1], ev2.z(t[2])))
                    ev2.env[t[1][1]] = t[1][1]
                elif t[0] == "assign" and t[1] == "rhs_sig" and t[2][0] == "app" and t[2][1] == "shl_digits" and t[2][2][0] == ("var", "rhs_sig"):
                    sig = "(shl_digits B %s %s)" % (sig, ev2.z(t[2][2][1]))
                elif t[0] == "assign" and t[1] == "rhs_exp" and t[2][0] == "bin" and t[2][1] == "-" and t[2][2] == ("var", "rhs_exp"):
                    exp = "(%s - %s)" % (exp, ev2.z(t[2][3]))
                else:
                    raise Unparsed("repr_div head: statement in the scaling branch %r" % (t,))
            th = "(%s, %s)" % (sig, exp)
            for n, v in reversed(inner):
                th = "let %s := %s in %s" % (n, v, th)
            scale = "if %s then %s else (s2, e2)" % (cond, th)
            continue
        raise Unparsed("repr_div head: statement %r" % (s,))
    if scale is None:
        scale = "(s2, e2)"
    for n, v in reversed(lets):
        scale = "let %s := %s in\n  %s" % (n, v, scale)
    return ("Inductive rd_check := RdFinite | RdLimited.\n"
            "(** the entry checks of Context::repr_div, in the order of the code *)\n"
            "Definition gen_repr_div_checks : list rd_check := [%s].\n\n"
            "(** the divisor Context::repr_div divides by (significand, exponent) *)\n"
            "Definition gen_div_scale (B p s1 s2 e2 : Z) : Z * Z :=\n  %s.\n" % ("; ".join(checks), scale))


def render_ctx(repo):
    def rd(fn):
        with open(os.path.join(repo, fn)) as f:
            return strip_comments(f.read())
    mul, div = rd("float/src/mul.rs"), rd("float/src/div.rs")
    two = {"lhs": ("s1", "e1"), "rhs": ("s2", "e2")}
    one = {"f": ("s", "e")}
    out = ["(** GENERATED by tools/translate_c15_r4.py from float/src/{mul,div}.rs - do not edit. *)",
           "From Dashu Require Import Base.Prelude Float.RoundSpec Float.Contract Float.Model Float.AddModel.",
           "Open Scope Z_scope.", "",
           "(** float/src/mul.rs: Context::mul / sqr / cubic (`.map(|v| FBig::new(v, *self))` attaches the context) *)",
           render_ctx_round(mul, "mul", two, "(s1 e1 s2 e2 : Z)"),
           render_ctx_round(mul, "sqr", one, "(s e : Z)"),
           render_ctx_round(mul, "cubic", one, "(s e : Z)"),
           "(** float/src/div.rs: Context::div / inv over Context::repr_div *)",
           render_ctx_div(div, "div", two, "(s1 e1 s2 e2 : Z)"),
           render_ctx_div(div, "inv", one, "(s e : Z)"),
           render_repr_div_head(div)]
    return "\n".join(out)


# ================================================================================================
# 2. inventory of operator-trait impls (rustdoc JSON)
# ================================================================================================
CRATES = [("dashu-int", "dashu_int", "integer"), ("dashu-float", "dashu_float", "float"), ("dashu-ratio", "dashu_ratio", "rational")]
BIGS = ["UBig", "IBig", "FBig", "RBig", "Relaxed", "Reduced"]
UNS = ["u8", "u16", "u32", "u64", "u128", "usize"]
SIG = ["i8", "i16", "i32", "i64", "i128", "isize"]
OTHER_TYS = ["Sign", "ConstDivisor", "Rounding", "Item"]
# operator traits: core::ops, dashu_base::{ring, math, sign}, Clone, Sum, Product
BIN_TRAITS = ["Add", "Sub", "Mul", "Div", "Rem", "BitAnd", "BitOr", "BitXor", "Shl", "Shr",
              "DivRem", "DivEuclid", "RemEuclid", "DivRemEuclid", "Gcd", "ExtendedGcd"]
ASG_TRAITS = ["AddAssign", "SubAssign", "MulAssign", "DivAssign", "RemAssign", "BitAndAssign", "BitOrAssign", "BitXorAssign",
              "ShlAssign", "ShrAssign", "DivRemAssign"]
UN_TRAITS = ["Neg", "Not", "Abs", "UnsignedAbs", "Inverse", "SquareRoot", "SquareRootRem", "CubicRoot", "CubicRootRem", "Clone"]
IT_TRAITS = ["Sum", "Product"]
TRAITS = BIN_TRAITS + ASG_TRAITS + UN_TRAITS + IT_TRAITS


def tree_hash(repo):
    h = hashlib.sha256()
    for _, _, d in CRATES + [("", "", "base"), ("", "", "macros")]:
        base = os.path.join(repo, d)
        for dp, dn, fn in sorted(os.walk(base)):
            dn.sort()
            if "/target" in dp or "/tests" in dp or "/benches" in dp or "/examples" in dp:
                continue
            for f in sorted(fn):
                if f.endswith(".rs") or f == "Cargo.toml":
                    p = os.path.join(dp, f)
                    h.update(os.path.relpath(p, repo).encode())
                    with open(p, "rb") as fh:
                        h.update(fh.read())
    return h.hexdigest()[:20]


def ty_str(t):
    if t is None:
        return "?"
    if "borrowed_ref" in t:
        return "&" + ty_str(t["borrowed_ref"]["type"])
    if "resolved_path" in t:
        return (t["resolved_path"].get("path") or t["resolved_path"].get("name") or "?").split("::")[-1]
    if "primitive" in t:
        return t["primitive"]
    if "generic" in t:
        return "Item" if t["generic"] != "Self" else "Self"
    if "tuple" in t:
        return "(" + ",".join(ty_str(x) for x in t["tuple"]) + ")"
    return "?"


def rustdoc_rows(repo):
    """[(crate, trait, for, rhs-or-None, {assoc: type})] of every non-blanket trait impl; cached"""
    cache = os.path.join(os.environ.get("VERIF_CACHE", os.path.join(ROOT, ".cache")), "c15_inventory")
    os.makedirs(cache, exist_ok=True)
    key = tree_hash(repo)
    cf = os.path.join(cache, key + ".json")
    if os.path.exists(cf):
        with open(cf) as f:
            return json.load(f), "cached " + key
    tdir = os.path.join(cache, "target")
    rows = []
    env = dict(os.environ, CARGO_TARGET_DIR=tdir, CARGO_NET_OFFLINE="true")
    env.pop("RUSTFLAGS", None)
    for pkg, lib, _ in CRATES:
        r = subprocess.run(["cargo", "+nightly", "rustdoc", "--offline", "-p", pkg, "--lib", "--", "-Z", "unstable-options", "--output-format", "json"],
                           cwd=repo, env=env, stdout=subprocess.PIPE, stderr=subprocess.PIPE, timeout=900)
        jf = os.path.join(tdir, "doc", lib + ".json")
        if r.returncode != 0 or not os.path.exists(jf):
            raise Unparsed("rustdoc json of %s failed: %s" % (pkg, r.stderr.decode(errors="replace")[-160:]))
        with open(jf) as f:
            d = json.load(f)
        os.remove(jf)
        idx = d["index"]
        for v in idx.values():
            im = v.get("inner", {}).get("impl")
            if not im or im.get("blanket_impl") or im.get("is_synthetic") or not im.get("trait"):
                continue
            tr = im["trait"]
            name = (tr.get("path") or tr.get("name") or "?").split("::")[-1]
            args = []
            a = tr.get("args")
            if a and "angle_bracketed" in a:
                args = [ty_str(x["type"]) for x in a["angle_bracketed"]["args"] if "type" in x]
            outs = {}
            for it in im.get("items", []):
                iv = idx.get(str(it))
                if iv and "assoc_type" in iv.get("inner", {}):
                    outs[iv["name"]] = ty_str(iv["inner"]["assoc_type"].get("type"))
            rows.append([lib, name, ty_str(im["for"]), args[0] if args else None, outs])
    rows.sort(key=lambda r: json.dumps(r))
    with open(cf, "w") as f:
        json.dump(rows, f)
    return rows, "rustdoc " + key


def base_ty(t):
    return t.lstrip("&")


def norm_rows(rows):
    """rows in scope: operator traits with one of the six big types on either side"""
    out, skipped = [], {}
    for lib, tr, lhs, rhs, outs in rows:
        if tr not in TRAITS:
            continue
        lb = base_ty(lhs)
        if tr in BIN_TRAITS + ASG_TRAITS and rhs is None:
            rhs = lb                       # `impl Add for T`: Rhs = Self
        rb = base_ty(rhs) if rhs else None
        if rhs == "Self" or rb == "Self":
            rhs = rhs.replace("Self", lb)
            rb = lb
        if lb not in BIGS and (rb not in BIGS):
            skipped[tr + ":" + lb] = skipped.get(tr + ":" + lb, 0) + 1
            continue
        outs = {k: (v.replace("Self", lb) if v else v) for k, v in outs.items()}
        out.append((lib, tr, lhs, rhs, outs))
    return out, skipped


PRIM_OPNAME = {"Add": "add", "Sub": "sub", "Mul": "mul", "Div": "div", "Rem": "rem", "BitAnd": "and", "BitOr": "or", "BitXor": "xor"}
INT_OPNAME = dict(PRIM_OPNAME, DivRem="divrem", DivEuclid="dive", RemEuclid="reme", DivRemEuclid="divreme", Gcd="gcd", ExtendedGcd="gcdext")
KIND2 = {("UBig", "UBig"): "uu", ("IBig", "IBig"): "ii", ("UBig", "IBig"): "ui", ("IBig", "UBig"): "iu"}


def own2(lhs, rhs):
    return ("r" if lhs.startswith("&") else "v") + ("r" if rhs.startswith("&") else "v")


def harness_of(lib, tr, lhs, rhs, outs):
    """(probe key, form name) of the harness case that calls this impl, or None"""
    lb = base_ty(lhs)
    rb = base_ty(rhs) if rhs else None
    isprim = lambda t: t in UNS + SIG
    asg = tr.endswith("Assign")
    t0 = tr[:-6] if asg else tr
    # ---- unary
    if tr == "Clone":
        return {"UBig": ("clone", "ubig"), "IBig": ("clone", "ibig"), "FBig": ("clonef", "clone"), "RBig": ("cloneq", "rbig"),
                "Relaxed": ("cloneq", "relaxed"), "Reduced": ("clonem", "reduced")}.get(lb)
    if tr in ("Neg", "Not", "Abs", "UnsignedAbs", "Inverse", "SquareRoot", "SquareRootRem", "CubicRoot", "CubicRootRem"):
        ref = lhs.startswith("&")
        if lb in ("UBig", "IBig"):
            if tr == "Neg":
                return ("un uneg" if lb == "UBig" else "un neg", "r" if ref else "v")
            if tr == "Not":
                return ("un not", "r" if ref else "v")
            if tr == "Abs":
                return ("un abs", "r" if ref else "v")
            if tr == "UnsignedAbs":
                return ("un abs", "ur" if ref else "uv")
            if ref:
                return None
            return ("un root " + lb, {"SquareRoot": "sqrt_t", "SquareRootRem": "sqrtrem_t", "CubicRoot": "cbrt_t", "CubicRootRem": "cbrtrem_t"}[tr])
        if lb == "FBig":
            if tr == "Neg":
                return ("fu neg", "r" if ref else "v")
            if tr == "Abs" and not ref:
                return ("fu abs", "v")
            if tr == "Inverse":
                return ("fu inv", "r" if ref else "v")
            if tr == "SquareRoot" and not ref:
                return ("fm sqrt", "m")
        if lb in ("RBig", "Relaxed"):
            k = "qu" if lb == "RBig" else "xu"
            if tr == "Neg":
                return (k + " neg", "r" if ref else "v")
            if tr == "Abs" and not ref:
                return (k + " abs", "v")
            if tr == "Inverse":
                return (k + " inv", "r" if ref else "v")
        if lb == "Reduced" and tr == "Neg":
            return ("m neg", "r" if ref else "v")
        return None
    if tr in ("Sum", "Product"):
        if rb != "Item":
            return None
        o = "sum" if tr == "Sum" else "prod"
        if lb in ("UBig", "IBig"):
            return ("it %s %s" % (o, lb[0].lower()), "owned+refs+prims")
        if lb == "FBig":
            return ("itf " + o, "owned+refs")
        return None
    if rhs is None:
        return None
    o2 = own2(lhs, rhs)
    # ---- Sign
    if rb == "Sign" or lb == "Sign":
        if t0 != "Mul":
            return None
        big = lb if rb == "Sign" else rb
        probe = {"IBig": "un mulsign", "UBig": "un umulsign", "FBig": "fu mulsign", "RBig": "qu mulsign", "Relaxed": "xu mulsign"}.get(big)
        if probe is None or lhs.startswith("&") or rhs.startswith("&"):
            return None
        if lb == "Sign" and big in ("RBig", "Relaxed"):
            return None
        return (probe, "as" if asg else ("xs" if rb == "Sign" else "sx"))
    if rb == "Rounding":
        if rhs.startswith("&") or lb != "IBig" or t0 != "Add":
            return None
        return ("un addround", "a" if asg else ("r" if lhs.startswith("&") else "v"))
    if rb == "ConstDivisor":
        if t0 not in ("Div", "Rem", "DivRem") or not rhs.startswith("&") or lb not in ("UBig", "IBig"):
            return None
        k = "cdu" if lb == "UBig" else "cdi"
        nm = {"Div": "div", "Rem": "rem", "DivRem": "divrem"}[t0]
        return ("%s %s" % (k, nm), ("a" if asg else ("r" if lhs.startswith("&") else "v")))
    # ---- shifts
    if t0 in ("Shl", "Shr"):
        o = "shl" if t0 == "Shl" else "shr"
        if lb in ("UBig", "IBig") and rb == "usize":
            k = "ush" if lb == "UBig" else "ish"
            if asg:
                return ("%s %s" % (k, o), "a_rn" if rhs.startswith("&") else "a_n")
            return ("%s %s" % (k, o), ("r" if lhs.startswith("&") else "v") + ("_rn" if rhs.startswith("&") else "_n"))
        if lb == "FBig" and rb == "isize" and not lhs.startswith("&") and not rhs.startswith("&"):
            return ("fsh " + o, "a" if asg else "v")
        return None
    # ---- integers
    if (lb, rb) in KIND2:
        k = KIND2[(lb, rb)]
        if tr == "DivRemAssign":
            return ("%s divrem" % k, "dra_r" if rhs.startswith("&") else "dra_v")
        if t0 not in INT_OPNAME:
            return None
        nm = INT_OPNAME[t0]
        if asg:
            return ("%s %s" % (k, nm), "ar" if rhs.startswith("&") else "av")
        if t0 in PRIM_OPNAME:
            return ("%s %s" % (k, nm), o2)
        return ("%s %s" % (k, nm), "m_" + o2)
    if lb in ("UBig", "IBig") and isprim(rb):
        k = "up" if lb == "UBig" else "ip"
        if tr == "DivRemAssign":
            return ("%s %s divrem" % (k, rb), "dra_pr" if rhs.startswith("&") else "dra_pv")
        if tr == "DivRem":
            return ("%s %s divrem" % (k, rb), "b%s_p%s" % (o2[0], o2[1]))
        if t0 not in PRIM_OPNAME:
            return None
        if asg:
            return ("%s %s %s" % (k, rb, PRIM_OPNAME[t0]), "a_pr" if rhs.startswith("&") else "a_pv")
        return ("%s %s %s" % (k, rb, PRIM_OPNAME[t0]), "b%s_p%s" % (o2[0], o2[1]))
    if isprim(lb) and rb in ("UBig", "IBig"):
        k = "up" if rb == "UBig" else "ip"
        if t0 not in PRIM_OPNAME or asg:
            return None
        nm = PRIM_OPNAME[t0]
        nm = {"sub": "rsub", "div": "rdiv"}.get(nm, nm)
        if nm == "rem":
            return None
        return ("%s %s %s" % (k, lb, nm), "p%s_b%s" % (o2[0], o2[1]))
    # ---- floats
    if lb == "FBig" and rb == "FBig":
        nm = {"Add": "add", "Sub": "sub", "Mul": "mul", "Div": "div", "Rem": "rem", "DivEuclid": "dive", "RemEuclid": "reme", "DivRemEuclid": "divreme"}.get(t0)
        if nm is None:
            return None
        if asg:
            return ("f " + nm, "ar" if rhs.startswith("&") else "av")
        return ("f " + nm, o2 if t0 in ("Add", "Sub", "Mul", "Div", "Rem") else "m_" + o2)
    if lb == "FBig" and (isprim(rb) or rb in ("UBig", "IBig")):
        nm = {"Add": "add", "Sub": "sub", "Mul": "mul", "Div": "div"}.get(t0)
        if nm is None:
            return None
        ty = rb.lower() if rb in ("UBig", "IBig") else rb
        if asg:
            return ("fp %s %s" % (nm, ty), "a_pr" if rhs.startswith("&") else "a_pv")
        return ("fp %s %s" % (nm, ty), "b%s_p%s" % (o2[0], o2[1]))
    if rb == "FBig" and (isprim(lb) or lb in ("UBig", "IBig")):
        nm = {"Add": "add", "Sub": "rsub", "Mul": "mul", "Div": "rdiv"}.get(t0)
        if nm is None or asg:
            return None
        ty = lb.lower() if lb in ("UBig", "IBig") else lb
        return ("fp %s %s" % (nm, ty), "p%s_b%s" % (o2[0], o2[1]))
    # ---- rationals
    for Q, k in (("RBig", "q"), ("Relaxed", "x")):
        if lb == Q and rb == Q:
            nm = {"Add": "add", "Sub": "sub", "Mul": "mul", "Div": "div", "Rem": "rem", "DivEuclid": "dive", "RemEuclid": "reme", "DivRemEuclid": "divreme"}.get(t0)
            if nm is None:
                return None
            if asg:
                return ("%s %s" % (k, nm), "ar" if rhs.startswith("&") else "av")
            return ("%s %s" % (k, nm), o2 if t0 in ("Add", "Sub", "Mul", "Div", "Rem") else "m_" + o2)
        if lb == Q and rb in ("UBig", "IBig") and not asg:
            nm = {"Add": "add", "Sub": "sub", "Mul": "mul", "Div": "div"}.get(t0)
            if nm:
                return ("%si %s %s" % (k, nm, rb.lower()), "b%s_p%s" % (o2[0], o2[1]))
        if rb == Q and lb in ("UBig", "IBig") and not asg:
            nm = {"Add": "add", "Sub": "rsub", "Mul": "mul", "Div": "rdiv"}.get(t0)
            if nm:
                return ("%si %s %s" % (k, nm, lb.lower()), "p%s_b%s" % (o2[0], o2[1]))
    # ---- residues
    if lb == "Reduced" and rb == "Reduced":
        nm = {"Add": "add", "Sub": "sub", "Mul": "mul", "Div": "div"}.get(t0)
        if nm is None:
            return None
        if asg:
            return ("m " + nm, "ar" if rhs.startswith("&") else "av")
        return ("m " + nm, o2)
    return None


# one probe case per probe key (operands are irrelevant: only the form names of the answer are read)
def probe_case(key):
    t = key.split()
    k = t[0]
    if k in ("uu", "ii", "ui", "iu"):
        return "%s %s 64 7" % (k, t[1])
    if k in ("up", "ip"):
        return "%s %s %s 64 7" % (k, t[1], t[2])
    if k in ("ush", "ish"):
        return "%s %s 64 3" % (k, t[1])
    if k == "un":
        if t[1] == "root":
            return "un root%s 64" % ("u" if t[2] == "UBig" else "i")
        if t[1] == "addround":
            return "un addround 64 AddOne"
        return "un %s 64%s" % (t[1], " neg" if "mulsign" in t[1] else "")
    if k in ("cdu", "cdi"):
        return "%s %s 64 7" % (k, t[1])
    if k == "f":
        return "f %s a HalfEven 5 64 0 5 7 0" % t[1]
    if k == "fsh":
        return "fsh %s a HalfEven 5 64 0 2" % t[1]
    if k == "fu":
        return "fu %s a HalfEven 5 64 0%s" % (t[1], " neg" if t[1] == "mulsign" else "")
    if k == "fm":
        return "fm %s a HalfEven 5 64 0" % t[1]
    if k == "fp":
        return "fp %s a HalfAway 5 64 0 %s 7" % (t[1], t[2])
    if k in ("q", "x"):
        return "%s %s 7 3 5 2" % (k, t[1])
    if k in ("qi", "xi"):
        return "%s %s 7 3 %s 5" % (k, t[1], t[2])
    if k in ("qu", "xu"):
        return "%s %s 7 3%s" % (k, t[1], " neg" if t[1] == "mulsign" else "")
    if k == "m":
        return "m %s 65 7%s" % (t[1], "" if t[1] == "neg" else " 3")
    if k == "it":
        return "it %s %s 5 7" % (t[1], t[2])
    if k == "itf":
        return "itf %s a HalfEven 5 64 0" % t[1]
    if k == "clone":
        return "clone 64 7 0"
    if k == "clonef":
        return "clonef a HalfEven 5 64 0 5 7 0"
    if k == "cloneq":
        return "cloneq 7 3 5 2"
    if k == "clonem":
        return "clonem 65 7 3"
    return None


TY_COQ = {"UBig": "YUBig", "IBig": "YIBig", "FBig": "YFBig", "RBig": "YRBig", "Relaxed": "YRelaxed", "Reduced": "YReduced",
          "Sign": "YSign", "ConstDivisor": "YConstDivisor", "Rounding": "YRounding", "Item": "YItem"}


def coq_ty(t):
    if t is None:
        return "YNone"
    b = base_ty(t)
    if b in UNS + SIG:
        bits = {"8": 8, "16": 16, "32": 32, "64": 64, "128": 128, "size": 64}[b[1:]]
        return "(YPrim %s %d %s)" % ("true" if b[0] == "i" else "false", bits, "true" if b.endswith("size") else "false")
    if b in TY_COQ:
        return TY_COQ[b]
    if b.startswith("("):
        return "YOther"
    return "YOther"


def render_inventory_rows(rows, status):
    nrows, skipped = norm_rows(rows)
    lines = ["(** GENERATED by tools/translate_c15_r4.py from the rustdoc JSON (after macro expansion) of dashu-int, dashu-float,",
             "    dashu-ratio of the working tree - do not edit. *)",
             "From Coq Require Import ZArith List String.", "Import ListNotations.", "Open Scope Z_scope.", "",
             "Inductive vty := YUBig | YIBig | YFBig | YRBig | YRelaxed | YReduced | YSign | YConstDivisor | YRounding | YItem | YOther | YNone",
             "  | YPrim (signed : bool) (bits : Z) (is_size : bool).",
             "Inductive itrait := " + " | ".join("Tr" + t for t in TRAITS) + ".",
             "(** one impl: trait, the type it is implemented for, by reference?, the right operand (YNone: unary), by reference?,",
             "    the associated types Output / OutputDiv|OutputGcd / OutputRem|OutputCoeff (YNone: absent), covered by a harness case? *)",
             "Record impl_row := mk_row { r_trait : itrait; r_lhs : vty; r_lref : bool; r_rhs : vty; r_rref : bool;",
             "                            r_out : vty; r_out1 : vty; r_out2 : vty; r_covered : bool }.", ""]
    body = []
    table = []
    for lib, tr, lhs, rhs, outs in nrows:
        h = harness_of(lib, tr, lhs, rhs, outs)
        o0 = outs.get("Output")
        o1 = outs.get("OutputDiv") or outs.get("OutputGcd")
        o2 = outs.get("OutputRem") or outs.get("OutputCoeff")
        b = lambda x: "true" if x else "false"
        body.append("  mk_row Tr%s %s %s %s %s %s %s %s %s" % (tr, coq_ty(lhs), b(lhs.startswith("&")), coq_ty(rhs), b(bool(rhs) and rhs.startswith("&")),
                                                           coq_ty(o0), coq_ty(o1), coq_ty(o2), b(h is not None)))
        table.append({"crate": lib, "trait": tr, "lhs": lhs, "rhs": rhs, "out": outs, "probe": h[0] if h else None, "form": h[1] if h else None})
    lines.append("Definition inventory : list impl_row := [")
    lines.append(";\n".join(body))
    lines.append("].")
    lines.append("")
    lines.append("Definition inventory_size : Z := %d." % len(body))
    return "\n".join(lines) + "\n", table, skipped


INVENTORY_TABLE = {"rows": [], "skipped": {}, "source": ""}


def render_inventory(repo):
    rows, status = rustdoc_rows(repo)
    txt, table, skipped = render_inventory_rows(rows, status.split()[0])
    if len(table) < 100:
        raise Unparsed("only %d impls found" % len(table))
    INVENTORY_TABLE["rows"] = table
    INVENTORY_TABLE["skipped"] = skipped
    INVENTORY_TABLE["source"] = status
    return txt


FRAGMENTS = [("FormsCtxGen", "FormsCtxGen.v", render_ctx, "Definition gen_div_scale"),
             ("FormsInventory", "FormsInventory.v", render_inventory, "Definition inventory_size")]


def _write_if_changed(path, txt):
    old = None
    if os.path.exists(path):
        with open(path) as f:
            old = f.read()
    if old != txt:
        with open(path, "w") as f:
            f.write(txt)


def generate(repo, outdir):
    """regenerates the fragments; returns {name: "ok ..." | "unparsed <reason>"}.  Never raises."""
    res = {}
    for name, fname, render, marker in FRAGMENTS:
        path = os.path.join(outdir, fname)
        try:
            os.makedirs(outdir, exist_ok=True)
            try:
                txt = render(repo)
            except (Unparsed, OSError, UnicodeDecodeError, RecursionError, SyntaxError, subprocess.SubprocessError, ValueError, KeyError) as ex:
                why = re.sub(r"\s+", " ", str(ex)).strip()[:200] or ex.__class__.__name__
                old = None
                if os.path.exists(path):
                    with open(path) as f:
                        old = f.read()
                if old is None or marker not in old:
                    with open(os.path.join(FALLBACK_DIR, fname + ".txt")) as f:
                        old = f.read()
                if not old.startswith(STALE):
                    old = STALE + " " + old
                _write_if_changed(path, old)
                res[name] = "unparsed " + why
                continue
            _write_if_changed(path, txt)
            res[name] = "ok" + (" " + INVENTORY_TABLE["source"] if name == "FormsInventory" else "")
        except Exception as ex:  # never an alarm
            res[name] = "unparsed internal %s" % re.sub(r"\s+", " ", repr(ex))[:160]
    return res


def main():
    ap = argparse.ArgumentParser()
    ap.add_argument("--repo", default=os.environ.get("VERIF_REPO", "/repo"))
    ap.add_argument("--out", required=True)
    a = ap.parse_args()
    for name, st in generate(a.repo, a.out).items():
        print("FRAGMENT %s %s" % (name, st))
    return 0


if __name__ == "__main__":
    sys.exit(main())
