#!/usr/bin/env python3
"""C02 round 4 translator: the loop kernels of integer division -> Gallina (coq/gen/DivKernelsGen.v), plus the list of
debug assertions of the division / multiplication sources (coq/gen/DivAssertsGen.v).

Reuses the loop-to-fold translator of C01 (tools/translate_c01_r4.py) AS A LIBRARY: `Translator` is subclassed here
(class T2) with the constructs the division kernels add:

  * `for x in xs.iter_mut().rev()`           the loop runs over `rev xs`, the result is reversed back
  * `x.split_last_mut().unwrap()` / `x.split_last().unwrap()`   `match split_last x with None => <panic default> | Some (top, lo) => ..`
                                             (view `lo ++ [top]` rebuilt on return)
  * `xs.rchunks_exact_mut(2)` + `for chunk in &mut dwords` + `into_remainder()`: chunks of `rev xs`; inside such a loop
    `chunk.first_mut()` / `chunk.last_mut()` / `lowest_dword(chunk)` are swapped accordingly (first = lower address);
    the remainder has at most one word, so its reversal is the identity
  * `let mut rem = lhs;` (reborrow = alias) and the WINDOW loop of div/simple.rs
        while rem.len() > n { let (top, lo) = rem.split_last_mut().unwrap(); ...; rem = lo; }
    -> Fixpoint on fuel over the shrinking window, result `window' ++ [top]`, fuel S (length rem)
  * tuple fields `.0` `.1`, `debug_assert_zero!(e);` = `let _ = e;` (the crate's macro ALWAYS evaluates e; any other
    debug_assert*! is dropped by the library - so moving a shift into a plain debug_assert changes the generated kernel)
  * FastDivideNormalized / FastDivideNormalized2 values are the normalised divisor (Z); their methods div_rem_{1by1,2by1,
    2by2,3by2,4by2} are the fields of the record `P : div_prims` (Int/DivKernelsBase.v) that every generated function takes
  * kernels of add.rs / mul.rs / shift.rs / cmp.rs / math.rs / primitive.rs called by the division code are ATOMS: the
    hand models of Int/DivWordModel.v behind the names k_* of Int/DivKernelsBase.v (C01 / C09 regenerate those files)

Two fragments of div/divide_conquer.rs are cut out by text and wrapped into synthetic functions (the recursion itself is
transcribed in Int/DivWordModel.v): `dc_small_quotient_tail` = everything of div_rem_in_place_small_quotient after the
recursive call (split_at_mut, add_signed_mul, the q_overflow subtraction, the correction `while`, the result).

generate(repo, outdir) -> {"DivKernels": status, "DivAsserts": status}; never raises; an unparseable function keeps its
last good copy (marked STALE) - see translate_c01_r4.emit_file.
"""
import argparse
import os
import re
import sys

sys.path.insert(0, os.path.dirname(os.path.abspath(__file__)))
import translate_c01_r4 as L  # noqa: E402
from translate_c01_r4 import Unparsed, Prim, Sig, Binding, Frame, tup, letpat  # noqa: E402

# ------------------------------------------------------------------------------------------------ types
_orig_classify = L.classify_type


def classify_type(ty):
    t = re.sub(r"'\w+\s*", "", ty).replace(" ", "")
    if t in ("FastDivideNormalized", "FastDivideNormalized2", "&FastDivideNormalized", "&FastDivideNormalized2"):
        return "Z", False
    if t == "Repr":
        return "repr", False
    return _orig_classify(ty)


if getattr(L.classify_type, "__name__", "") != "classify_type_c02":
    classify_type.__name__ = "classify_type_c02"
    L.classify_type = classify_type   # only ADDS types (harmless for the C01 instance in the same process)

_orig_gtype, _orig_default = L.gtype, L.default_of


def gtype2(k):
    if k == "repr":
        return "trepr"
    return _orig_gtype(k)


def default_of2(k):
    if k == "repr":
        return "(TSmall 0)"
    return _orig_default(k)


if getattr(L.gtype, "__name__", "") != "gtype2":
    L.gtype, L.default_of = gtype2, default_of2

ZZ = ("tuple", ["Z", "Z"])
ZZZ = ("tuple", ["Z", "Z", "Z"])
PRIMS2 = {
    ".is_power_of_two": Prim("(is_pow2 {0})", ["Z"], "bool"),
    ".trailing_zeros": Prim("(trailing_zeros {0})", ["Z"], "Z"),
    "FastDivideNormalized::new": Prim("{0}", ["Z"], "Z"),
    "FastDivideNormalized2::new": Prim("{0}", ["Z"], "Z"),
    ".div_rem_1by1": Prim("(p1by1 P {0} {1})", ["Z", "Z"], ZZ),
    ".div_rem_2by1": Prim("(p2by1 P {0} {1})", ["Z", "Z"], ZZ),
    ".div_rem_2by2": Prim("(p2by2 P {0} {1})", ["Z", "Z"], ZZ),
    ".div_rem_3by2": Prim("(p3by2 P {0} {1} {2})", ["Z", "Z", "Z"], ZZ),
    ".div_rem_4by2": Prim("(p4by2 P {0} {1} {2})", ["Z", "Z", "Z"], ZZ),
    "highest_dword": Prim("(highest_dword w {0})", ["list"], "Z"),
    "shr_word": Prim("(shr_word w {0} {1})", ["Z", "Z"], ZZ),
    "shl_dword": Prim("(shl_dword w {0} {1})", ["Z", "Z"], ZZZ),
    "cmp_same_len": Prim("(cmp_same_len {0} {1})", ["list", "list"], "cmp"),
    ".is_ge": Prim("(cmp_is_ge {0})", ["cmp"], "bool"),
    "Repr::from_buffer": Prim("(from_buffer w {0})", ["list"], "repr"),
    "Repr::from_word": Prim("(from_word {0})", ["Z"], "repr"),
    "Repr::from_dword": Prim("(from_dword {0})", ["Z"], "repr"),
    "split_hi_word": Prim("(split_hi_word {0})", ["list"], ("tuple", ["Z", "list"])),
}
CONSTS2 = {"WORD_BITS": ("w", "Z"), "THRESHOLD_SIMPLE": ("div_threshold_simple_nat", "nat")}
# kernels of other files: (rust name, atom, params [(name, kind, is_mut)], ret)
ATOMS = [
    ("shl_in_place", "k_shl_in_place", [("words", "list", True), ("shift", "Z", False)], "Z"),
    ("shr_in_place", "k_shr_in_place", [("words", "list", True), ("shift", "Z", False)], "Z"),
    ("shr_in_place_one_word", "k_shr_one_word", [("words", "list", True)], "Z"),
    ("add_same_len_in_place", "k_add_same_len", [("words", "list", True), ("rhs", "list", False)], "bool"),
    ("sub_same_len_in_place", "k_sub_same_len", [("words", "list", True), ("rhs", "list", False)], "bool"),
    ("sub_one_in_place", "k_sub_one", [("words", "list", True)], "bool"),
    ("sub_mul_word_same_len_in_place", "k_sub_mul_word", [("words", "list", True), ("mult", "Z", False), ("rhs", "list", False)], "Z"),
    ("add_signed_mul", "k_add_signed_mul", [("c", "list", True), ("sign", "sign", False), ("a", "list", False), ("b", "list", False)], "Z"),
]
P_ATOMS = ("k_add_signed_mul", "k_dc_div_rem")   # atoms that take the record P


# ------------------------------------------------------------------------------------------------ the subclass
class T2(L.Translator):
    def __init__(self, lz_words=1):
        prims = dict(PRIMS2)
        prims[".leading_zeros"] = Prim("(lzw w %d {0})" % lz_words, ["Z"], "Z")
        super().__init__(prims=prims, consts=CONSTS2)
        for rn, atom, params, ret in ATOMS:
            self.sigs[rn] = Sig(rn, atom, params, ret)
        self.rswap = 0
        self.fuels = {}

    def always_returns(self, blk):
        _, stmts, final = blk
        lastx = final if final is not None else (stmts[-1][1] if stmts and stmts[-1][0] == "expr" else None)
        if lastx is not None and lastx[0] == "if" and lastx[3] is not None:
            return self.always_returns(lastx[2]) and lastx[3][0] == "block" and self.always_returns(lastx[3])
        return super().always_returns(blk)

    # ---------------- views
    def cur(self, b):
        if b.view is not None and b.view[0] == "snoc":
            return "(%s ++ [%s])" % (self.cur(b.view[1]), self.cur(b.view[2]))
        if b.view is not None and b.view[0] == "rev":
            return "(rev %s)" % self.cur(b.view[1])
        return super().cur(b)

    # ---------------- expressions
    def pure(self, e, env, want=None):
        if e[0] == "field" and e[2] in ("0", "1"):
            v, ty = self.pure(e[1], env)
            if not (isinstance(ty, tuple) and len(ty[1]) == 2):
                raise Unparsed("field .%s of %s" % (e[2], ty))
            return "(%s %s)" % ("fst" if e[2] == "0" else "snd", v), ty[1][int(e[2])]
        if e[0] == "mcall" and e[2] == "unwrap" and e[1][0] == "mcall" and e[1][2] == "last" and not e[1][3]:
            v, ty = self.pure(e[1][1], env)
            if ty != "list":
                raise Unparsed(".last() of a non-slice")
            return "(last %s 0)" % v, "Z"
        return super().pure(e, env, want)

    def chunk_parts(self, cb):
        """(first, last) bindings of a chunk in memory order"""
        return (cb.chunk[1], cb.chunk[0]) if self.rswap else (cb.chunk[0], cb.chunk[1])

    def call(self, e, env, want):
        name, args = e[1], e[2]
        if name.split("::")[-1] == "lowest_dword" and len(args) == 1 and args[0][0] == "var":
            cb = env.get(args[0][1])
            if cb is not None and cb.chunk is not None:
                lo, hi = self.chunk_parts(cb)
                self.note_read(lo)
                self.note_read(hi)
                return "(wdouble_word w %s %s)" % (lo.g, hi.g), "Z"
        return super().call(e, env, want)

    # ---------------- Buffer mutators used as statements
    def stmts(self, ss, env, k):
        if ss and ss[0][0] == "expr" and ss[0][1][0] == "mcall" and ss[0][1][2] in ("push_resizing", "erase_front") and ss[0][1][1][0] == "var":
            e = ss[0][1]
            b = self.slice_binding(e[1], env)
            if b.view is not None or len(e[3]) != 1:
                raise Unparsed("buffer mutator on a split slice")
            v, _ = self.pure(e[3][0], env, "Z" if e[2] == "push_resizing" else "nat")
            self.note_read(b)
            self.note_mut(b)
            return "let %s := %s %s %s in\n  %s" % (b.g, e[2], b.g, v, self.stmts(ss[1:], env, k))
        return super().stmts(ss, env, k)

    # ---------------- let
    def let(self, s, env, K):
        _, pat, ty, e, mut = s
        # split_last_mut().unwrap() / split_last().unwrap()
        if e[0] == "mcall" and e[2] == "unwrap" and e[1][0] == "mcall" and e[1][2] in ("split_last_mut", "split_last"):
            src = self.slice_binding(e[1][1], env)
            if pat[0] != "ptuple" or len(pat[1]) != 2 or pat[1][0][0] != "pvar" or pat[1][1][0] != "pvar":
                raise Unparsed("split_last pattern")
            srcv = self.cur(src)
            ab = self.abort_stack[-1](env)
            x = self.new_binding(pat[1][0][1], "Z", mut=True)
            r = self.new_binding(pat[1][1][1], "list", mut=True)
            self.set_view(src, ("snoc", r, x))
            env = dict(env)
            env[x.rname], env[r.rname] = x, r
            return "match split_last %s with\n  | None => %s\n  | Some (%s, %s) =>\n  %s\n  end" % (srcv, ab, x.g, r.g, K(env))
        # rchunks_exact_mut(2): chunks of the reversed slice
        if e[0] == "mcall" and e[2] == "rchunks_exact_mut":
            if e[3] != [("num", 2)] or pat[0] != "pvar":
                raise Unparsed("rchunks_exact_mut: only chunks of 2")
            src = self.slice_binding(e[1], env)
            srcv = self.cur(src)
            rb = self.new_binding(src.rname + "_rev", "list", mut=True)
            self.set_view(src, ("rev", rb))
            b = self.new_binding(pat[1], "chunks")
            b.chunks_of = rb
            b.rflag = True
            env = dict(env)
            env[pat[1]] = b
            return "let %s := rev %s in\n  %s" % (rb.g, srcv, K(env))
        # first / last of a chunk of an rchunks loop
        if (self.rswap and e[0] == "mcall" and e[2] == "unwrap" and e[1][0] == "mcall"
                and e[1][2] in ("first", "last", "first_mut", "last_mut") and e[1][1][0] == "var"):
            cb = env.get(e[1][1][1])
            if cb is not None and cb.chunk is not None and pat[0] == "pvar":
                env = dict(env)
                env[pat[1]] = self.chunk_parts(cb)[0 if e[1][2].startswith("first") else 1]
                return K(env)
        # `let mut rem = lhs;` with lhs a mutable slice: a reborrow, i.e. an alias
        if e[0] == "var" and pat[0] == "pvar" and mut and e[1] in env and env[e[1]].ty == "list" and env[e[1]].mut:
            env = dict(env)
            env[pat[1]] = env[e[1]]
            return K(env)
        return super().let(s, env, K)

    def assign(self, s, env, K):
        _, lhs, op, rhs = s
        t = lhs[2] if (lhs[0] == "un" and lhs[1] == "*") else lhs
        if (self.rswap and t[0] == "mcall" and t[2] == "unwrap" and t[1][0] == "mcall" and t[1][2] in ("first_mut", "last_mut")
                and t[1][1][0] == "var"):
            cb = env.get(t[1][1][1])
            if cb is not None and cb.chunk is not None:
                b = self.chunk_parts(cb)[0 if t[1][2] == "first_mut" else 1]
                v, _ = self.pure(rhs, env, "Z")
                self.note_mut(b)
                return "let %s := %s in\n  %s" % (b.g, v, K(env))
        return super().assign(s, env, K)

    # ---------------- loops
    def for_loop(self, pat, it, body, env, K):
        # for x in xs.iter_mut().rev()
        if it[0] == "mcall" and it[2] == "rev" and not it[3]:
            inner = it[1]
            if not (inner[0] == "mcall" and inner[2] in ("iter", "iter_mut") and not inner[3]):
                raise Unparsed("rev of something that is not iter()/iter_mut()")
            b = self.slice_binding(inner[1], env)
            if b.view is not None:
                raise Unparsed("reverse loop over a split slice")
            self.note_read(b)
            self.note_mut(b)

            def K2(env_):
                return "let %s := rev %s in\n  %s" % (b.g, b.g, K(env_))
            return "let %s := rev %s in\n  %s" % (b.g, b.g, super().for_loop(pat, inner, body, env, K2))
        kind = None
        if it[0] == "ref" and it[2][0] == "var" and it[2][1] in env and env[it[2][1]].ty == "chunks":
            kind = env[it[2][1]]
        if kind is not None and getattr(kind, "rflag", False):
            self.rswap += 1
            done = [False]

            def K3(env_):
                if not done[0]:
                    done[0] = True
                    self.rswap -= 1
                return K(env_)
            try:
                return super().for_loop(pat, it, body, env, K3)
            finally:
                if not done[0]:
                    self.rswap -= 1
        return super().for_loop(pat, it, body, env, K)

    def while_loop(self, cond, body, env, K):
        w = self.window_shape(cond, body, env)
        if w is None:
            return super().while_loop(cond, body, env, K)
        return self.window_loop(w, cond, body, env, K)

    def window_shape(self, cond, body, env):
        """while X.len() > n { let (T, L) = X.split_last_mut().unwrap(); ...; X = L; }  -> (X binding, T name, L name, middle)"""
        _, stmts, final = body
        if final is not None or len(stmts) < 2:
            return None
        first, last = stmts[0], stmts[-1]
        if not (first[0] == "let" and first[3][0] == "mcall" and first[3][2] == "unwrap" and first[3][1][0] == "mcall"
                and first[3][1][2] == "split_last_mut" and first[3][1][1][0] == "var"):
            return None
        xname = first[3][1][1][1]
        pat = first[1]
        if pat[0] != "ptuple" or len(pat[1]) != 2 or pat[1][0][0] != "pvar" or pat[1][1][0] != "pvar":
            return None
        tname, lname = pat[1][0][1], pat[1][1][1]
        if not (last[0] == "assign" and last[2] == "=" and last[1] == ("var", xname) and last[3] == ("var", lname)):
            return None
        if xname not in env or env[xname].ty != "list":
            return None
        return env[xname], tname, lname, stmts[1:-1]

    def window_loop(self, shape, cond, body, env, K):
        X, tname, lname_, middle = shape
        if X.view is not None:
            raise Unparsed("window loop over a split slice")
        self.loopk += 1
        fname = "%s_window%s%s" % (self.sig.name, "" if self.loopk == 1 else str(self.loopk), self.suffix)
        xnames = [rn for rn, b in env.items() if b is X]

        def compile_(consts, final_pass):
            fr = Frame()
            self.frames.append(fr)
            lenv = dict(env)
            Xs = Binding(X.rname, X.g, "list", True)
            T = Binding(tname, self.fresh(tname), "Z", True)
            Lb = Binding(lname_, self.fresh(lname_), "list", True)
            fr.locals.update([Xs, T, Lb])
            for rn in xnames:
                lenv[rn] = Xs
            benv = dict(lenv)
            benv[tname], benv[lname_] = T, Lb

            def endk(env_):
                if Lb.view is not None:
                    raise Unparsed("window loop: the lower part is left split")
                call = "%s w %s" % (fname, " ".join([c.g for c in consts] + ["fuel'", Lb.g]))
                return "let '(%s, oof_r) := %s in\n      ((%s ++ [%s]), oof_r)" % (Lb.g, call, Lb.g, T.g)

            def no_ret(v, env_):
                raise Unparsed("return inside a window loop")
            self.ret_stack.append(no_ret)
            self.abort_stack.append(lambda env_: "(%s, false)" % Xs.g)
            try:
                cv, _ = self.pure(cond, lenv, "bool")
                txt = self.stmts(list(middle), benv, endk)
            finally:
                self.ret_stack.pop()
                self.abort_stack.pop()
                self.frames.pop()
            return cv, txt, fr, Xs, T, Lb
        saved = set(self.used)
        _, _, fr, _, _, _ = compile_([], False)
        self.used = saved
        if fr.muts:
            raise Unparsed("window loop assigns outer variables: %s" % ",".join(b.rname for b in fr.muts))
        consts = [b for b in fr.reads]
        for b in consts:
            if b.view is not None:
                raise Unparsed("window loop reads a split slice")
        cv, txt, fr, Xs, T, Lb = compile_(consts, True)
        params = ["(w : Z)"] + ["(%s : %s)" % (b.g, L.gtype(b.ty)) for b in consts] + ["(fuel : nat)", "(%s : list Z)" % Xs.g]
        fix = ("Fixpoint %s %s {struct fuel} : list Z * bool :=\n  match fuel with\n  | O => (%s, true)\n  | S fuel' =>\n"
               "      if %s then\n      match split_last %s with\n      | None => (%s, false)\n      | Some (%s, %s) =>\n      %s\n      end\n"
               "      else (%s, false)\n  end.") % (fname, " ".join(params), Xs.g, cv, Xs.g, Xs.g, T.g, Lb.g, txt, Xs.g)
        self.aux.append(fix)
        for b in consts + [X]:
            self.note_read(b)
        self.note_mut(X)
        oof = self.fresh("oof")
        call = "%s w %s" % (fname, " ".join([self.cur(c) for c in consts] + ["(S (length %s))" % X.g, X.g]))
        ab = self.abort_stack[-1](env)
        return "let '(%s, %s) := %s in\n  if %s then %s else\n  %s" % (X.g, oof, call, oof, ab, K(env))


# ------------------------------------------------------------------------------------------------ source preparation
def normalise(src):
    # the crate's debug_assert_zero! evaluates its argument in every build
    src = re.sub(r"\bdebug_assert_zero!\((.*?)\);", lambda m: "let _ = %s;" % m.group(1), src, flags=re.S)
    # `rem = e.1` as the last expression of a block
    src = re.sub(r"(\b[a-z_]\w* = [^;{}]*?\.\d)\s*\n(\s*)\}", r"\1;\n\2}", src)
    return src


def cut(src, start_marker, fn_name):
    """text from start_marker to the closing brace of fn fn_name (exclusive)"""
    m = re.search(r"\bfn\s+%s\b" % re.escape(fn_name), src)
    if not m:
        raise Unparsed("fn %s not found" % fn_name)
    b0 = src.index("{", src.index(")", m.end()))
    # the parameter list may contain no braces; find the body
    b0 = src.index("{", m.end())
    end = L._balanced(src, b0)
    body = src[b0 + 1:end - 1]
    i = body.find(start_marker)
    if i < 0:
        raise Unparsed("marker `%s` not found in %s" % (start_marker, fn_name))
    return body[i:]


FNAME = "DivKernelsGen.v"
STALE = "(* STALE *)"
HEADER = [
    "(** GENERATED by tools/translate_c02_r4.py (on top of the loop translator tools/translate_c01_r4.py) from",
    "    integer/src/div/{mod.rs,simple.rs,divide_conquer.rs} - do not edit.  The loop kernels of integer division as Gallina",
    "    functions over word lists (word size w); P = the reciprocal-division primitives of num-modular and add_signed_mul;",
    "    atoms k_* / lzw / is_pow2 / ... in Int/DivKernelsBase.v.  Int/DivKernelsGenProofs.v proves each `<name>_gen` equal to the",
    "    hand-written model of Int/DivWordModel.v for every w. *)",
    "From Dashu Require Import Base.Prelude Base.Words Int.RingAdd Int.WordPrims Int.DivWordModel Int.DivKernelsBase.",
    "Open Scope Z_scope.",
    "Open Scope bool_scope.",
]
MOD_WORD = ["normalize", "div_by_word_in_place", "fast_div_by_word_in_place", "rem_by_word", "fast_rem_by_normalized_word"]
MOD_DWORD = ["div_by_dword_in_place", "fast_div_by_dword_in_place", "rem_by_dword", "fast_rem_by_normalized_dword"]
ORDER = ["fast_div_by_word_in_place", "div_by_word_in_place", "fast_rem_by_normalized_word", "rem_by_word",
         "fast_div_by_dword_in_place", "div_by_dword_in_place", "fast_rem_by_normalized_dword", "rem_by_dword",
         "normalize", "div_rem_highest_word", "simple_div_rem_in_place", "div_rem_in_place", "div_rem_unshifted_in_place",
         "dc_small_quotient_tail"]


def add_p(text):
    text = text.replace("(w : Z)", "(P : div_prims) (w : Z)")
    text = re.sub(r"\b(\w+_gen) w\b", r"\1 P w", text)
    for a in P_ATOMS:
        text = re.sub(r"\b(%s) w\b" % a, r"\1 P w", text)
    return text


def render(repo):
    def rd(rel):
        with open(os.path.join(repo, rel)) as f:
            return normalise(f.read())
    mod_src = rd("integer/src/div/mod.rs")
    simple_src = rd("integer/src/div/simple.rs")
    dc_src = rd("integer/src/div/divide_conquer.rs")
    res = {}
    sigs = {}

    def run(tr, names):
        tr.sigs.update(sigs)
        for n, s, t in tr.translate(names):
            res[n] = (s, add_p(t))
            if n in tr.sigs:
                sigs[n] = tr.sigs[n]
    # div/mod.rs, word-divisor functions (leading_zeros of a Word)
    t1 = T2(lz_words=1)
    t1.add_source(mod_src, "div")
    run(t1, ["fast_div_by_word_in_place", "div_by_word_in_place", "fast_rem_by_normalized_word", "rem_by_word", "normalize"])
    # double-word divisor functions (leading_zeros of a DoubleWord)
    t2 = T2(lz_words=2)
    t2.add_source(mod_src, "div")
    run(t2, ["fast_div_by_dword_in_place", "div_by_dword_in_place", "fast_rem_by_normalized_dword", "rem_by_dword"])
    # div/simple.rs; its div_rem_in_place is renamed (same name as the dispatcher of div/mod.rs)
    t3 = T2()
    t3.add_source(re.sub(r"\bfn div_rem_in_place\b", "fn simple_div_rem_in_place", simple_src), "simple")
    run(t3, ["div_rem_highest_word", "simple_div_rem_in_place"])
    # the dispatcher and the driver of div/mod.rs: the divide-and-conquer kernel is an atom (transcribed recursion)
    t4 = T2()
    msrc = mod_src.replace("simple::div_rem_in_place(", "simple_div_rem_in_place(").replace("divide_conquer::div_rem_in_place(", "dc_div_rem_in_place(")
    t4.add_source(msrc, "div")
    t4.sigs["dc_div_rem_in_place"] = Sig("dc_div_rem_in_place", "k_dc_div_rem", [("lhs", "list", True), ("rhs", "list", False), ("d", "Z", False)], "bool")
    run(t4, ["div_rem_in_place", "div_rem_unshifted_in_place"])
    # divide_conquer.rs: the part of div_rem_in_place_small_quotient after the recursive call
    try:
        tail = cut(dc_src, "let (rem, q) = lhs.split_at_mut(n);", "div_rem_in_place_small_quotient")
        syn = ("fn dc_small_quotient_tail(lhs: &mut [Word], rhs: &[Word], n: usize, m: usize, mut q_overflow: SignedWord) -> bool {\n"
               + tail + "\n}\n")
        t5 = T2()
        t5.fuels = {("dc_small_quotient_tail", 1): "(S dc_fix_fuel)"}
        t5.add_source(syn, "dc")
        run(t5, ["dc_small_quotient_tail"])
    except (Unparsed, ValueError) as ex:
        res["dc_small_quotient_tail"] = ("unparsed " + re.sub(r"\s+", " ", str(ex))[:140], "")
    render.sigs = sigs
    return [(n, res[n][0], res[n][1]) for n in ORDER if n in res]


REPR_NAME = "DivReprGen.v"
REPR_HEADER = [
    "(** GENERATED by tools/translate_c02_r4.py from integer/src/div_ops.rs (mod repr): the helpers behind the Large x Large arms -",
    "    div_rem_in_lhs (normalize, div_rem_unshifted_in_place, push_resizing), div_rem_large (copy_from_slice, shift back, erase_front),",
    "    div_large (erase_front only), rem_large (copy + shift back only) - over the generated kernels of DivKernelsGen.v.  Do not edit.",
    "    Int/DivReprGenProofs.v proves them equal to the transcriptions of Int/DivOwn.v. *)",
    "From Dashu Require Import Base.Prelude Base.Words Int.RingAdd Int.WordPrims Int.DivWordModel Int.DivKernelsBase Int.DivOwn.",
    "From DashuGen Require Import DivKernelsGen.",
    "Open Scope Z_scope.",
    "Open Scope bool_scope.",
]
REPR_FNS = ["div_rem_in_lhs", "div_rem_large", "div_large", "rem_large"]


def render_repr(repo, kernel_sigs):
    with open(os.path.join(repo, "integer/src/div_ops.rs")) as f:
        src = normalise(f.read())
    m = re.search(r"pub\(crate\) mod repr \{", src)
    if not m:
        raise Unparsed("mod repr not found")
    src = src[m.end():]
    # the scratch allocation is the subject of the memory theorems (DivMemProofs.v), not of the value model
    src, k = re.subn(r"let mut allocation\s*=\s*MemoryAllocation::new\(.*?\)\);", "", src, flags=re.S)
    if k != 1:
        raise Unparsed("MemoryAllocation::new statement of div_rem_in_lhs not found")
    tr = T2()
    tr.add_source(src, "repr")
    for n in ("normalize", "div_rem_unshifted_in_place"):
        if n not in kernel_sigs:
            raise Unparsed("kernel %s was not translated" % n)
        tr.sigs[n] = kernel_sigs[n]
    return [(n, s_, add_p(t)) for n, s_, t in tr.translate(REPR_FNS)]


# ------------------------------------------------------------------------------------------------ debug assertions
ASSERT_FILES = ["integer/src/div/mod.rs", "integer/src/div/simple.rs", "integer/src/div/divide_conquer.rs", "integer/src/div_const.rs",
                "integer/src/div_ops.rs", "integer/src/mul/mod.rs", "integer/src/mul/helpers.rs", "integer/src/mul/simple.rs",
                "integer/src/mul/karatsuba.rs", "integer/src/mul/toom_3.rs", "integer/src/mul/ntt.rs"]
ASSERT_RE = re.compile(r"\b(debug_assert_zero|debug_assert_eq|debug_assert_ne|debug_assert)!\s*\(")
# a call with side effects: a function that writes through a slice / buffer argument
EFFECT_RE = re.compile(r"&mut\b|\b\w*_in_place\w*\s*\(|\badd_signed_mul\w*\s*\(|\badd_mul_\w*\s*\(|\bsub_mul_\w*\s*\(|\bmul_word_\w*\s*\(|"
                       r"\.(push|pop|push_resizing|erase_front|truncate|clone_from_slice|copy_from_slice|push_zeros|pop_zeros)\s*\(")
ASSERTS_NAME = "DivAssertsGen.v"


def strip_comments(src):
    src = re.sub(r"/\*.*?\*/", " ", src, flags=re.S)
    return re.sub(r"//[^\n]*", "", src)


def render_asserts(repo):
    rows = []
    for rel in ASSERT_FILES:
        p = os.path.join(repo, rel)
        if not os.path.exists(p):
            continue
        with open(p) as f:
            src = strip_comments(f.read())
        # the definition of the macro itself (helper_macros.rs) is not in the list of files
        k = 0
        for m in ASSERT_RE.finditer(src):
            end = L._balanced(src, m.end() - 1, "(", ")")
            arg = src[m.end():end - 1]
            k += 1
            rows.append((rel, k, m.group(1), bool(EFFECT_RE.search(arg)), re.sub(r"\s+", " ", arg).strip()[:90]))
    if not rows:
        raise Unparsed("no debug assertions found")
    # the crate's macro must still evaluate its argument outside the debug_assert
    with open(os.path.join(repo, "integer/src/helper_macros.rs")) as f:
        hm = strip_comments(f.read())
    m = re.search(r"macro_rules!\s*debug_assert_zero\s*\{(.*?)\n\}", hm, re.S)
    always = bool(m and re.search(r"let\s+__check__\s*=\s*\$\(\$arg\)\*\s*;\s*debug_assert_eq!\(\s*__check__", m.group(1)))
    out = ["(** GENERATED by tools/translate_c02_r4.py from the debug assertions of integer/src/{div/*.rs,div_const.rs,div_ops.rs,mul/*.rs}",
           "    - do not edit.  One row per debug_assert*! in source order: (file, ordinal in the file, macro, does the argument contain a call",
           "    with side effects (`&mut`, *_in_place, add_signed_mul*, buffer mutators)).  Int/DivAsserts.v proves that every row with side",
           "    effects uses the crate's debug_assert_zero!, whose definition (helper_macros.rs) evaluates the argument in every build. *)",
           "From Coq Require Import String List.", "Import ListNotations.", "Open Scope string_scope.", "",
           "Inductive assert_macro := MDebugAssert | MDebugAssertEq | MDebugAssertNe | MDebugAssertZero.", "",
           "(** `let __check__ = $($arg)*; debug_assert_eq!(__check__ ...)` found in macro_rules! debug_assert_zero *)",
           "Definition debug_assert_zero_always_evaluates : bool := %s." % ("true" if always else "false"), "",
           "Definition debug_asserts_gen : list (string * nat * assert_macro * bool) := ["]
    mk = {"debug_assert": "MDebugAssert", "debug_assert_eq": "MDebugAssertEq", "debug_assert_ne": "MDebugAssertNe", "debug_assert_zero": "MDebugAssertZero"}
    lines = []
    for rel, k, mac, eff, arg in rows:
        lines.append('  ("%s", %d%%nat, %s, %s)  (* %s *)' % (rel, k, mk[mac], "true" if eff else "false", arg.replace("*)", "* )").replace("(*", "( *").replace('"', "'")))
    out.append(";\n".join(lines))
    out.append("].")
    return "\n".join(out) + "\n", rows, always


# ------------------------------------------------------------------------------------------------ driver
LAST_RESULTS = []
LAST_ASSERTS = {}


def generate(repo, outdir):
    global LAST_RESULTS, LAST_ASSERTS
    status = {}
    os.makedirs(outdir, exist_ok=True)
    path = os.path.join(outdir, FNAME)
    try:
        results = render(repo)
        LAST_RESULTS = [(n, s) for n, s, _ in results]
        bad = [n for n, s, _ in results if s != "ok"]
        previous = ""
        if os.path.exists(path):
            with open(path) as f:
                previous = f.read()
        L._write_if_changed(path, L.emit_file(HEADER, results, previous))
        status["DivKernels"] = "ok" if not bad else "ok unparsed=" + ",".join(bad)
    except Exception as ex:  # never an alarm
        why = re.sub(r"\s+", " ", str(ex)).strip()[:160] or ex.__class__.__name__
        if os.path.exists(path):
            with open(path) as f:
                old = f.read()
            if not old.startswith(STALE):
                L._write_if_changed(path, STALE + " " + old)
        status["DivKernels"] = "unparsed " + why
    rpath = os.path.join(outdir, REPR_NAME)
    try:
        results = render_repr(repo, getattr(render, "sigs", {}))
        LAST_RESULTS += [(n, s) for n, s, _ in results]
        bad = [n for n, s, _ in results if s != "ok"]
        previous = ""
        if os.path.exists(rpath):
            with open(rpath) as f:
                previous = f.read()
        L._write_if_changed(rpath, L.emit_file(REPR_HEADER, results, previous))
        status["DivRepr"] = "ok" if not bad else "ok unparsed=" + ",".join(bad)
    except Exception as ex:
        why = re.sub(r"\s+", " ", str(ex)).strip()[:160] or ex.__class__.__name__
        if os.path.exists(rpath):
            with open(rpath) as f:
                old = f.read()
            if not old.startswith(STALE):
                L._write_if_changed(rpath, STALE + " " + old)
        status["DivRepr"] = "unparsed " + why
    apath = os.path.join(outdir, ASSERTS_NAME)
    try:
        txt, rows, always = render_asserts(repo)
        L._write_if_changed(apath, txt)
        LAST_ASSERTS = {"rows": len(rows), "effectful": sum(1 for r in rows if r[3]),
                        "effectful_not_zero_macro": ["%s#%d" % (r[0], r[1]) for r in rows if r[3] and r[2] != "debug_assert_zero"],
                        "macro_always_evaluates": always}
        status["DivAsserts"] = "ok"
    except Exception as ex:
        why = re.sub(r"\s+", " ", str(ex)).strip()[:160] or ex.__class__.__name__
        if os.path.exists(apath):
            with open(apath) as f:
                old = f.read()
            if not old.startswith(STALE):
                L._write_if_changed(apath, STALE + " " + old)
        status["DivAsserts"] = "unparsed " + why
    return status


def main():
    ap = argparse.ArgumentParser()
    ap.add_argument("--repo", default=os.environ.get("VERIF_REPO", "/repo"))
    ap.add_argument("--out", required=True)
    a = ap.parse_args()
    st = generate(a.repo, a.out)
    for k, v in st.items():
        print("FRAGMENT %s %s" % (k, v))
    for n, s in LAST_RESULTS:
        print("  %-36s %s" % (n, s))
    print("  asserts: %s" % LAST_ASSERTS)
    return 0


if __name__ == "__main__":
    sys.exit(main())
