#!/usr/bin/env python3
"""C09 round 4: the loop kernels of integer/src/{shift.rs, bits.rs, math.rs} regenerated as Gallina folds.

Uses the loop-to-fold translator of tools/translate_c01_r4.py as a LIBRARY (parser, Translator, emit_file) and adds,
in a subclass, what the bit kernels need on top of the arithmetic kernels:
  * `for word in words.iter_mut().rev()`           -> the structural loop over `rev words`, result reversed back
  * `while c { if d { break; } s }`                -> `while c && !d { s }` (same loop), fuel = S (length of the slice)
  * `x &= e` / `x |= e` / `x ^= e`                 -> `x = x & e` ... (textual), `!x` on a Word -> word_not
  * Buffer by value: truncate / ensure_capacity (capacity is C17's subject: dropped) / push_slice, Repr::from_buffer
  * casts usize <-> u32/Word (Z.to_nat / Z.of_nat), Word::BIT_SIZE, WORD_BITS_USIZE
  * the iterator idioms `xs.iter().map(|v| e).sum()` and `xs.iter().any(|v| p)` of bits.rs are first rewritten into the
    equivalent explicit loops (`let mut acc = 0; for v in xs.iter() { acc += e; } acc` /
    `for v in xs.iter() { if p { return true; } } false`) as synthesized helper functions, then translated.
Output: coq/gen/BitsKernelsGen.v; Int/BitsKernelsGenProof.v proves every `<name>_gen` equal to the hand-written kernel of
Int/BitsKernels.v / Int/BitsWords.v.  A function that cannot be read is reported `unparsed` (never an alarm) and keeps
its last good copy, marked STALE.
  generate(repo, outdir) -> "ok" | "ok unparsed=<names>" | "unparsed <why>"          (never raises)
"""
import os
import re
import sys

sys.path.insert(0, os.path.dirname(os.path.abspath(__file__)))
import translate_c01_r4 as T  # noqa: E402

Unparsed = T.Unparsed
Prim = T.Prim

# ------------------------------------------------------------------------------------------------ extra types
_classify0 = T.classify_type
_gtype0 = T.gtype


def classify_type(ty):
    t = re.sub(r"'\w+\s*", "", ty).replace(" ", "")
    if t == "Repr":
        return "brepr", False
    return _classify0(ty)


def gtype(k):
    if k == "brepr":
        return "brepr"
    return _gtype0(k)


def install():
    """the library looks its helpers up in its own module globals: extend them there"""
    T.classify_type = classify_type
    T.gtype = gtype
    T.DEFAULTS["brepr"] = "(BSmall 0)"


EXTRA_PRIMS = {
    "Repr::from_buffer": Prim("(from_buffer w {0})", ["list"], "brepr"),
    ".trailing_zeros": Prim("(word_tz w {0})", ["Z"], "Z"),
    ".trailing_ones": Prim("(word_to w {0})", ["Z"], "Z"),
    ".count_ones": Prim("(count_ones_spec {0})", ["Z"], "Z"),
}
CONSTS = {
    "WORD_BITS_USIZE": ("(Z.to_nat w)", "nat"),
    "WORD_BITS": ("w", "Z"),
    "Word::BIT_SIZE": ("w", "Z"),
    "BIT_SIZE": ("w", "Z"),
}
BUFFER_METHODS = ("truncate", "ensure_capacity", "push_slice")
BREAK_BLOCK = ("block", [("expr", ("var", "break"))], None)


class BitsTranslator(T.Translator):
    def __init__(self):
        super().__init__(prims=EXTRA_PRIMS, consts=CONSTS)
        self.fuels = {}

    # -------------------------------------------------------------- statements on a Buffer held by value
    def stmts(self, ss, env, k):
        if ss and ss[0][0] == "expr":
            e = ss[0][1]
            if e[0] == "mcall" and e[2] in BUFFER_METHODS and e[1][0] == "var" and e[1][1] in env and env[e[1][1]].ty == "list":
                b = env[e[1][1]]
                if b.view is not None or len(e[3]) != 1:
                    raise Unparsed("buffer method on a split slice")
                rest = ss[1:]
                self.note_read(b)
                if e[2] == "ensure_capacity":
                    # the reservation is the subject of C17 / of the bkreq_* formulas of BitsFormsGen.v: no effect on the words
                    self.pure(e[3][0], env, "nat")
                    return self.stmts(rest, env, k)
                if e[2] == "truncate":
                    n, _ = self.pure(e[3][0], env, "nat")
                    v = "firstn %s %s" % (n, b.g)
                else:
                    xs, ty = self.pure(e[3][0], env, "list")
                    if ty != "list":
                        raise Unparsed("push_slice of a non-slice")
                    v = "%s ++ %s" % (b.g, xs)
                self.note_mut(b)
                return "let %s := %s in\n  %s" % (b.g, v, self.stmts(rest, env, k))
        return super().stmts(ss, env, k)

    # -------------------------------------------------------------- expressions
    def pure(self, e, env, want=None):
        if e[0] == "un" and e[1] == "!":
            v, ty = super().pure(e[2], env, None)
            if ty == "Z":
                return "(word_not w %s)" % v, "Z"
            if ty == "bool":
                return "(negb %s)" % v, "bool"
            raise Unparsed("! at type %s" % (ty,))
        if e[0] == "cast":
            v, ty = self.pure(e[1], env)
            tk = classify_type(e[2])[0]
            if ty in ("Z", "lit") and tk == "nat":
                return "(Z.to_nat %s)" % v, "nat"
            if ty == "nat" and tk == "Z":
                return "(Z.of_nat %s)" % v, "Z"
            if ty == "nat" and tk == "nat":
                return v, "nat"
        return super().pure(e, env, want)

    def effectful(self, e):
        """a block that contains a `while` must be compiled in statement (continuation) style, not as a pure value"""
        return super().effectful(e) or _contains_while(e)

    # -------------------------------------------------------------- loops
    def for_loop(self, pat, it, body, env, K):
        if it[0] == "mcall" and it[2] == "rev" and not it[3]:
            inner = it[1]
            if not (inner[0] == "mcall" and inner[2] in ("iter", "iter_mut") and not inner[3]):
                raise Unparsed("rev of something that is not iter()/iter_mut()")
            b = self.slice_binding(inner[1], env)
            if b.view is not None:
                raise Unparsed("rev over a split slice")
            self.note_read(b)
            self.note_mut(b)
            pre = "let %s := rev %s in\n  " % (b.g, b.g)

            def K2(env2):
                self.note_read(b)
                return "let %s := rev %s in\n  %s" % (b.g, b.g, K(env2))
            return pre + super().for_loop(pat, inner, body, env, K2)
        return super().for_loop(pat, it, body, env, K)

    def while_loop(self, cond, body, env, K):
        _, stmts, final = body
        if stmts and stmts[0][0] == "expr" and stmts[0][1][0] == "if" and stmts[0][1][2] == BREAK_BLOCK and stmts[0][1][3] is None:
            # while c { if d { break; } s }  ==  while c && !d { s }
            cond = ("bin", "&&", cond, ("un", "!", stmts[0][1][1]))
            body = ("block", stmts[1:], final)
        # fuel: one more than the length of the (first) slice the condition reads
        names = [x for x in re.findall(r"[a-z_]+", repr(cond)) if x in env and env[x].ty == "list"]
        if names:
            self.fuels[(self.sig.name, self.loopk + 1)] = "(S (length %s))" % env[names[0]].g
        return super().while_loop(cond, body, env, K)


def _contains_while(e):
    if isinstance(e, (list, tuple)):
        if isinstance(e, tuple) and e and e[0] == "while":
            return True
        return any(_contains_while(x) for x in e)
    return False


# ------------------------------------------------------------------------------------------------ source preparation
def infer_usize(src):
    """`let mut i = <literal>;` where i is used as a slice index or compared with a len(): the literal is a usize"""
    def fix(m):
        v = m.group(1)
        if re.search(r"\[\s*%s\s*\]" % v, src) or re.search(r"\b%s\s*(?:<|==|>=)\s*\w+\.len\(\)" % v, src):
            return "let mut %s: usize = %s;" % (v, m.group(2))
        return m.group(0)
    return re.sub(r"let mut (\w+) = (\d+);", fix, src)


def compound_assign(src):
    """`lhs OP= rhs;` -> `lhs = lhs OP rhs;` for OP in & | ^ (the library's tokenizer has no such tokens)"""
    return re.sub(r"(\*?[A-Za-z_]\w*(?:\[[^\]]*\])?)\s*([&|^])=\s*([^;=]+);", r"\1 = \1 \2 \3;", src)


def fn_text(src, name, nth=0):
    """text of the nth `fn name(...) ... { ... }` of the source"""
    ms = [m for m in re.finditer(r"\bfn\s+%s\s*(?:<[^>(]*>)?\s*\(" % re.escape(name), src)]
    if len(ms) <= nth:
        raise Unparsed("fn %s not found" % name)
    m = ms[nth]
    b0 = src.index("{", T._balanced(src, m.end() - 1, "(", ")"))
    return src[m.start():T._balanced(src, b0)]


SUM_RE = re.compile(r"(\w+)\.iter\(\)\.map\(\|(\w+)\|\s*(.*?)\)\.sum\(\)", re.S)
ANY_RE = re.compile(r"([\w\[\]\.]+?)\.iter\(\)\.any\(\|(\w+)\|\s*([^)]*)\)", re.S)


def synth_count_ones(bits_src):
    """RefLarge arm of TypedReprRef::count_ones: `words.iter().map(|w| w.count_ones() as usize).sum()` as an explicit loop"""
    body = fn_text(bits_src, "count_ones", 1)
    m = re.search(r"RefLarge\(\s*(\w+)\s*\)\s*=>\s*" + SUM_RE.pattern, body, re.S)
    if not m or m.group(1) != m.group(2):
        raise Unparsed("count_ones: RefLarge arm is not words.iter().map(|w| ..).sum()")
    var, expr = m.group(3), m.group(4).strip()
    expr = re.sub(r"\b%s\b" % re.escape(var), "word", expr)
    return ("fn count_ones_large(words: &[Word]) -> usize {\n    let mut acc: usize = 0;\n    for word in words.iter() {\n"
            "        acc += %s;\n    }\n    acc\n}\n" % expr)


def synth_any(bits_src):
    """are_slice_low_bits_nonzero: `xs.iter().any(|x| p)` -> call of a synthesized loop with early return"""
    body = fn_text(bits_src, "are_slice_low_bits_nonzero")
    m = ANY_RE.search(body)
    if not m:
        raise Unparsed("are_slice_low_bits_nonzero: no .iter().any(|x| ..)")
    xs, var, pred = m.group(1), m.group(2), m.group(3).strip()
    helper = ("fn slice_any(words: &[Word]) -> bool {\n    for %s in words.iter() {\n        if %s {\n            return true;\n"
              "        }\n    }\n    false\n}\n" % (var, pred))
    body = body[:m.start()] + "slice_any(&%s)" % xs + body[m.end():]
    return helper, body


FNAME = "BitsKernelsGen.v"
STALE = "(* STALE *)"
HEADER = [
    "(** GENERATED by tools/translate_c09_r4.py (loop-to-fold translator of tools/translate_c01_r4.py) from",
    "    integer/src/{math.rs,shift.rs,bits.rs} - do not edit.  The loop kernels of the bit operations as Gallina folds over",
    "    word lists (word size w, B w = 2^w); Int/BitsKernelsGenProof.v proves each `<name>_gen` equal to the hand-written",
    "    kernel of Int/BitsKernels.v / Int/BitsWords.v. *)",
    "From Dashu Require Import Base.Prelude Base.Words Int.RingAdd Int.WordPrims Int.BitsSpec Int.BitsWords Int.BitsKernels.",
    "Open Scope Z_scope.",
    "Open Scope bool_scope.",
]
MATH_FNS = ["ones_word", "shr_word"]
SHIFT_FNS = ["shl_in_place", "shr_in_place_with_carry"]
BITS_FNS = ["bitand_large", "bitor_large", "bitxor_large", "and_not_large", "trailing_zeros_large", "trailing_ones_large",
            "trailing_zeros_large_shifted_by_one"]


def uninstall():
    T.classify_type = _classify0
    T.gtype = _gtype0
    T.DEFAULTS.pop("brepr", None)


def render(repo):
    install()
    try:
        return _render(repo)
    finally:
        uninstall()


def _render(repo):
    tr = BitsTranslator()
    results = []

    def rd(rel):
        with open(os.path.join(repo, rel)) as f:
            return f.read()
    tr.add_source(rd("integer/src/math.rs"), "math")
    results += tr.translate(MATH_FNS)
    tr.add_source(rd("integer/src/shift.rs"), "shift")
    results += tr.translate(SHIFT_FNS)
    bits = rd("integer/src/bits.rs")
    # only the kernels: the first `fn count_ones` etc. of bits.rs are the public methods
    kernels = []
    for n in BITS_FNS:
        try:
            kernels.append(infer_usize(compound_assign(fn_text(bits, n))))
        except (Unparsed, ValueError) as ex:
            kernels.append("")
    tr.add_source("\n".join(kernels))
    results += tr.translate(BITS_FNS)
    try:
        tr.add_source(synth_count_ones(bits))
        results += tr.translate(["count_ones_large"])
    except (Unparsed, ValueError) as ex:
        results.append(("count_ones_large", "unparsed " + str(ex)[:140], ""))
    try:
        helper, body = synth_any(bits)
        tr.add_source(helper + "\n" + body)
        results += tr.translate(["slice_any", "are_slice_low_bits_nonzero"])
    except (Unparsed, ValueError) as ex:
        results.append(("are_slice_low_bits_nonzero", "unparsed " + str(ex)[:140], ""))
    return results


LAST_RESULTS = []


def generate(repo, outdir):
    global LAST_RESULTS
    path = os.path.join(outdir, FNAME)
    try:
        os.makedirs(outdir, exist_ok=True)
        try:
            results = render(repo)
        except (Unparsed, OSError, UnicodeDecodeError, ValueError, RecursionError) as ex:
            why = re.sub(r"\s+", " ", str(ex)).strip()[:160] or ex.__class__.__name__
            if os.path.exists(path):
                with open(path) as f:
                    old = f.read()
                if not old.startswith(STALE):
                    T._write_if_changed(path, STALE + " " + old)
                return "unparsed " + why
            return "unparsed " + why + " (no previous copy)"
        LAST_RESULTS = [(n, s) for n, s, _ in results]
        bad = [n for n, s, _ in results if s != "ok"]
        previous = ""
        if os.path.exists(path):
            with open(path) as f:
                previous = f.read()
        T._write_if_changed(path, T.emit_file(HEADER, results, previous))
        return "ok" if not bad else "ok unparsed=" + ",".join(bad)
    except Exception as ex:  # never an alarm
        return "unparsed internal %s" % re.sub(r"\s+", " ", repr(ex))[:160]


def main():
    import argparse
    ap = argparse.ArgumentParser()
    ap.add_argument("--repo", default=os.environ.get("VERIF_REPO", "/repo"))
    ap.add_argument("--out", required=True)
    a = ap.parse_args()
    print("FRAGMENT BitsKernelsGen %s" % generate(a.repo, a.out))
    for n, s in LAST_RESULTS:
        print("  %-40s %s" % (n, s))
    return 0


if __name__ == "__main__":
    sys.exit(main())
