#!/usr/bin/env python3
"""C10 translator (round 3): re-reads on every run, from the Rust sources of the repository under check,

  (a) rational/src/round.rs  Repr::{split_at_point, ceil, floor, trunc, fract, round}      -> coq/gen/RatioSmall.v
  (b) float/src/round.rs     the default methods Round::round_fract and Round::round_ratio (zero test, sign of the
      low part, the closure that compares with one half incl. the two coarse f32 tests as abstract predicates) and the
      conditions of their assertions; float/src/repr.rs Repr::smaller_than_one; the "rounds to zero" threshold of
      FBig::round (float/src/round_ops.rs)                                                 -> coq/gen/RoundPrimGen.v

as Gallina functions over Z (IBig `/`, `%`, div_rem truncate: Z.quot / Z.rem).  Ratio/RatRoundGenProof.v and
Float/RoundPrimGenProof.v prove the hand-written models equal to these, so an edit of the source breaks a proof
obligation.  It reuses the tokenizer / parser / printer of tools/translate.py (imported, not edited) and adds what
these bodies need: compound assignment, assignments inside match arms and one-armed ifs (threaded as `let`),
fields of self, struct literals, closures called once (taken as blocks).

    tools/translate_c10_r3.py --repo /repo --out coq/gen

prints one `FRAGMENT <file> ok|unparsed <why>` per file (exit 0 always; an unparseable source is not an alarm: the
previous copy stays, marked STALE).  `generate(repo, outdir)` does the same from Python and returns
{file: status}.
"""
import argparse
import os
import re
import sys

sys.path.insert(0, os.path.dirname(os.path.abspath(__file__)))
import translate as T  # noqa: E402

STALE = "(* STALE *)"


class Unparsed(Exception):
    pass


def read(repo, rel):
    with open(os.path.join(repo, rel)) as f:
        return f.read()


def strip_comments(src):
    src = re.sub(r"/\*.*?\*/", " ", src, flags=re.S)
    return re.sub(r"//[^\n]*", "", src)


def block_at(src, i):
    """src[i] == '{' -> text of the block including braces"""
    depth, j = 0, i
    while j < len(src):
        if src[j] == "{":
            depth += 1
        elif src[j] == "}":
            depth -= 1
            if depth == 0:
                return src[i:j + 1]
        j += 1
    raise Unparsed("unbalanced braces")


def impl_block(src, header_re, what):
    m = re.search(header_re, src)
    if not m:
        raise Unparsed("%s not found" % what)
    return block_at(src, src.index("{", m.end() - 1))


def fn_block(src, name, what):
    ms = list(re.finditer(r"\bfn\s+%s\b\s*(<[^{;]*?>)?\s*\(" % re.escape(name), src))
    if len(ms) != 1:
        raise Unparsed("%s: %d definitions of fn %s" % (what, len(ms), name))
    return block_at(src, src.index("{", ms[0].end()))


# ------------------------------------------------------------------------------------------------
# text-level normalisation of the constructs the shared parser does not know
# ------------------------------------------------------------------------------------------------
def normalise(body):
    # q += e;  /  q -= e   ->  q = q + (e)
    body = re.sub(r"\b([a-z_]\w*)\s*([-+])=\s*([^;,}]+)", lambda m: "%s = %s %s (%s)" % (m.group(1), m.group(1), m.group(2), m.group(3).strip()), body)
    # match arm whose body is an assignment:  P => q = e,   ->   P => { q = e; },
    body = re.sub(r"=>\s*([a-z_]\w*\s*=[^=][^,}]*)(,|\s*\})", lambda m: "=> { %s; }%s" % (m.group(1).strip(), m.group(2)), body)
    # struct literal Repr { numerator: a, denominator: b }  ->  mk_repr(a, b)
    body = re.sub(r"\bRepr\s*\{\s*numerator\s*:\s*([^,{}]+),\s*denominator\s*:\s*([^,{}]+?),?\s*\}",
                  lambda m: "mk_repr(%s, %s)" % (m.group(1).strip(), m.group(2).strip()), body)
    # a closure that is called exactly once by round_low_part: its block is its value
    body = re.sub(r"\|\|\s*\{", "{", body)
    return body


class Gen(T.Gen):
    """translate.Gen + fields of self, truncating IBig division, typed into_parts, general threading of assignments"""

    def field_key(self, e):
        if e[0] == "field" and e[1] == ("var", "self"):
            return "self." + e[2]
        return None

    def ty(self, e):
        if e[0] == "field":
            k = self.field_key(e)
            if k in self.env:
                return self.env[k][1]
            raise T.Unsupported("unknown field " + str(e[2]))
        return super().ty(e)

    def bind(self, pat, e):
        if pat[0] == "ptuple" and e[0] == "call" and e[1] == "into_parts" and len(pat[1]) == 2:
            a, b = pat[1]
            if a[0] == "pvar" and b[0] == "pvar":
                self.env[a[1]] = (a[1], "sign")
                self.env[b[1]] = (b[1], "Z")
                return
        super().bind(pat, e)

    def ex(self, e):
        if e[0] == "field":
            k = self.field_key(e)
            if k in self.env:
                return self.env[k][0]
            raise T.Unsupported("unknown field " + str(e[2]))
        if e[0] == "bin" and e[1] in ("/", "%") and self.ty(e[2]) == "Z":
            return "(%s %s %s)" % ("Z.quot" if e[1] == "/" else "Z.rem", self.ex(e[2]), self.ex(e[3]))
        if e[0] == "bin" and e[1] in ("<", ">", "<=", ">=") and self.ty(e[2]) == "f32":
            raise T.Unsupported("f32 comparison outside the two recognised coarse tests")
        return super().ex(e)

    # ---- statements: assignments are threaded through if / match as tuples of the assigned variables
    def assigned(self, stmts, final=None):
        vs = []

        def add(v):
            if v not in vs:
                vs.append(v)

        def walk_expr(e):
            if e is None:
                return
            if e[0] == "if":
                for v in self.assigned(e[2][1], e[2][2]):
                    add(v)
                if e[3] is not None:
                    if e[3][0] == "block":
                        for v in self.assigned(e[3][1], e[3][2]):
                            add(v)
                    else:
                        walk_expr(e[3])
            elif e[0] == "match":
                for _, b in e[2]:
                    if b[0] == "block":
                        for v in self.assigned(b[1], b[2]):
                            add(v)
            elif e[0] == "block":
                for v in self.assigned(e[1], e[2]):
                    add(v)

        for s in stmts:
            if s[0] == "assign":
                add(s[1])
            elif s[0] == "expr":
                walk_expr(s[1])
        if final is not None and final[0] in ("if", "match"):
            walk_expr(final)
        return vs

    def tup(self, vs):
        names = [self.env[v][0] for v in vs]
        return names[0] if len(names) == 1 else "(" + ", ".join(names) + ")"

    def run(self, blk, vs):
        """the values of vs after executing the statement block blk (which has no value of its own)"""
        if blk is None:
            return self.tup(vs)
        if blk[0] != "block":
            return self.update(blk, vs)
        if blk[2] is not None and not (blk[2][0] in ("if", "match")):
            raise T.Unsupported("value in a statement block")
        stmts = list(blk[1]) + ([("expr", blk[2])] if blk[2] is not None else [])
        saved = dict(self.env)
        try:
            return self.thread(stmts, lambda: self.tup(vs))
        finally:
            self.env = saved

    def update(self, e, vs):
        if e[0] == "if":
            return "(if %s then %s else %s)" % (self.ex(e[1]), self.run(e[2], vs), self.run(e[3], vs))
        if e[0] == "match":
            arms = []
            for p, b in e[2]:
                arms.append("| %s => %s" % (self.pat(p), self.run(b, vs)))
            return "(match %s with %s end)" % (self.ex(e[1]), " ".join(arms))
        raise T.Unsupported("statement " + e[0])

    def thread(self, stmts, k):
        if not stmts:
            return k()
        s, rest = stmts[0], stmts[1:]
        if s[0] == "let":
            rhs = self.ex(s[2])
            self.bind(s[1], s[2])
            if s[1][0] == "pwild":
                return self.thread(rest, k)
            if s[1][0] == "ptuple":
                return "(let '%s := %s in %s)" % (self.pat(s[1]), rhs, self.thread(rest, k))
            return "(let %s := %s in %s)" % (self.env[s[1][1]][0], rhs, self.thread(rest, k))
        if s[0] == "assign":
            if s[1] not in self.env:
                raise T.Unsupported("assignment to unknown " + s[1])
            return "(let %s := %s in %s)" % (self.env[s[1]][0], self.ex(s[2]), self.thread(rest, k))
        if s[0] == "return":
            return self.ex(s[1])
        if s[0] == "expr":
            e = s[1]
            if e[0] == "if" and e[3] is None and e[2][1] and e[2][1][-1][0] == "return":
                c = self.ex(e[1])
                saved = dict(self.env)
                th = self.thread(list(e[2][1]), lambda: "tt")
                self.env = saved
                return "(if %s then %s else %s)" % (c, th, self.thread(rest, k))
            vs = self.assigned([s])
            if not vs:
                raise T.Unsupported("expression statement without effect")
            upd = self.update(e, vs)
            t = self.tup(vs)
            return "(let %s%s := %s in %s)" % ("'" if len(vs) > 1 else "", t, upd, self.thread(rest, k))
        raise T.Unsupported("statement " + s[0])

    def body(self, blk):
        saved = dict(self.env)
        try:
            stmts = list(blk[1])
            final = blk[2]
            if final is None:
                raise T.Unsupported("function body without value")
            return self.thread(stmts, lambda: self.ex(final))
        finally:
            self.env = saved


METHODS = {
    "div_rem": ("((Z.quot {0} {1}), (Z.rem {0} {1}))", "tuple"),
    "is_zero": ("({0} =? 0)", "bool"),
    "is_positive": ("(0 <? {0})", "bool"),
    "clone": ("{0}", "Z"),
    "unsigned_abs": ("(Z.abs {0})", "Z"),
    "sign": ("(sign_of {0})", "sign"),
    "into_parts": ("((sign_of {0}), (Z.abs {0}))", "tuple"),
    "pow": ("({0} ^ {1})", "Z"),
    "cmp": ("({0} ?= {1})", "ordering"),
    "abs_cmp": ("((Z.abs {0}) ?= (Z.abs {1}))", "ordering"),
    "is_le": ("(match {0} with Gt => false | _ => true end)", "bool"),
    "is_lt": ("(match {0} with Lt => true | _ => false end)", "bool"),
    # round 4 (repaired debug assertion of round_fract): BitTest::bit_len of IBig / Word, usize::saturating_mul
    "bit_len": ("(bit_len_gen {0})", "Z"),
    "saturating_mul": ("(saturating_mul_gen usize_max {0} {1})", "Z"),
    "digits_ub": ("(digits_ub {0})", "Z"),
}
PATHS = dict(T.ROUND_PATHS)
PATHS.update({"IBig::ZERO": ("0", "Z"), "IBig::ONE": ("1", "Z"), "IBig::NEG_ONE": ("(-1)", "Z"), "B": ("B", "Z")})
APPS = {
    "Repr::zero": ("rq_zero_gen", "ratio"),
    "mk_repr": ("({0}, {1})", "ratio"),
    "IBig::from": ("{0}", "Z"),
    "UBig::from_word": ("{0}", "Z"),
    "Self::round_low_part": ("(rlp {0} {1} {2})", "rounding"),
    "coarse_gt": ("(coarse_gt {0} {1})", "bool"),
    "coarse_lt": ("(coarse_lt {0} {1})", "bool"),
}


def translate_fn(block_text, env, what):
    try:
        ast = T.parse_block(normalise(block_text))
        g = Gen(env, METHODS, PATHS, APPS)
        return g.body(ast)
    except (T.Unsupported, SyntaxError, LookupError, ValueError, IndexError, TypeError, KeyError, RecursionError) as ex:
        raise Unparsed("%s: %s" % (what, re.sub(r"\s+", " ", str(ex))[:120]))


def translate_expr(text, env, what):
    try:
        ast = T.parse_expr_or_block(normalise(text))
        g = Gen(env, METHODS, PATHS, APPS)
        return g.body(ast)
    except (T.Unsupported, SyntaxError, LookupError, ValueError, IndexError, TypeError, KeyError, RecursionError) as ex:
        raise Unparsed("%s: %s" % (what, re.sub(r"\s+", " ", str(ex))[:120]))


# ------------------------------------------------------------------------------------------------
# (a) rational/src/round.rs
# ------------------------------------------------------------------------------------------------
RAT_FNS = [("split_at_point", "Z * (Z * Z)"), ("ceil", "Z"), ("floor", "Z"), ("trunc", "Z"), ("fract", "Z * Z"), ("round", "Z")]


def render_ratio(repo):
    src = strip_comments(read(repo, "rational/src/round.rs"))
    impl = impl_block(src, r"\bimpl\s+Repr\s*\{", "impl Repr")
    env = {"self.numerator": ("num", "Z"), "self.denominator": ("den", "Z")}
    out = ["(** GENERATED by tools/translate_c10_r3.py from rational/src/round.rs (impl Repr) - do not edit. *)",
           "From Dashu Require Import Base.Prelude.", "Open Scope Z_scope.", "",
           "Definition rq_zero_gen : Z * Z := (0, 1).", ""]
    for name, ty in RAT_FNS:
        term = translate_fn(fn_block(impl, name, "impl Repr"), env, "Repr::" + name)
        out.append("Definition rat_%s_gen (num den : Z) : %s :=\n  %s.\n" % (name, ty, term))
    return "\n".join(out)


# ------------------------------------------------------------------------------------------------
# (b) float/src/round.rs, repr.rs, round_ops.rs
# ------------------------------------------------------------------------------------------------
def assertion(body, macro, what):
    ms = list(re.finditer(r"\b%s!\s*\(" % macro, body))
    if len(ms) != 1:
        raise Unparsed("%s: %d %s!" % (what, len(ms), macro))
    i = ms[0].end() - 1
    depth, j = 0, i
    while j < len(body):
        depth += {"(": 1, ")": -1}.get(body[j], 0)
        if depth == 0:
            break
        j += 1
    return body[i + 1:j], body[:ms[0].start()] + body[j + 1:].lstrip().lstrip(";")


def render_prim(repo):
    src = strip_comments(read(repo, "float/src/round.rs"))
    trait = impl_block(src, r"\bpub\s+trait\s+Round\s*:\s*Copy\s*\{", "trait Round")
    out = ["(** GENERATED by tools/translate_c10_r3.py from float/src/round.rs (Round::round_fract, Round::round_ratio),",
           "    float/src/repr.rs (Repr::smaller_than_one) and float/src/round_ops.rs (FBig::round) - do not edit. *)",
           "From Dashu Require Import Base.Prelude.", "From DashuGen Require Import RoundTables.", "Open Scope Z_scope.", "",
           "(* library functions the assertion of round_fract calls (fixed text): BitTest::bit_len of IBig (of the magnitude) and",
           "   of Word, usize::saturating_mul on non-negative operands (usize_max = usize::MAX) *)",
           "Definition bit_len_gen (z : Z) : Z := if z =? 0 then 0 else Z.log2 (Z.abs z) + 1.",
           "Definition saturating_mul_gen (usize_max a b : Z) : Z := Z.min (a * b) usize_max.", ""]

    # round_fract: the debug assertion, then the body with the two f32 tests abstracted
    body = fn_block(trait, "round_fract", "trait Round")
    cond, body = assertion(body, "debug_assert", "round_fract")
    env = {"integer": ("integer", "Z"), "fract": ("fract", "Z"), "precision": ("precision", "Z")}
    out.append("Definition round_fract_pre_gen (usize_max B : Z) (fract precision : Z) : bool :=\n  %s.\n" % translate_expr(cond, env, "round_fract assertion"))
    n_lets = len(re.findall(r"\blet\s*\(\s*\w+\s*,\s*\w+\s*\)\s*=\s*\w+\s*\.\s*log2_bounds\s*\(\s*\)\s*;", body))
    body = re.sub(r"\blet\s*\(\s*\w+\s*,\s*\w+\s*\)\s*=\s*\w+\s*\.\s*log2_bounds\s*\(\s*\)\s*;", "", body)
    body, n_gt = re.subn(r"\blb\s*\+\s*[\d._]+\s*>\s*b_ub\s*\*\s*precision\s+as\s+f32", "coarse_gt(fmag, precision)", body)
    body, n_lt = re.subn(r"\bub\s*\+\s*[\d._]+\s*<\s*b_lb\s*\*\s*precision\s+as\s+f32", "coarse_lt(fmag, precision)", body)
    if (n_lets, n_gt, n_lt) != (2, 1, 1):
        raise Unparsed("round_fract: f32 pre-filter not in the known shape (%d bounds, %d > tests, %d < tests)" % (n_lets, n_gt, n_lt))
    out.append("Definition round_fract_gen (coarse_gt coarse_lt : Z -> Z -> bool) (rlp : Z -> sign -> comparison -> rounding) (B : Z)"
               " (integer fract precision : Z) : rounding :=\n  %s.\n" % translate_fn(body, env, "round_fract"))

    # round_ratio: the assertion, then the body
    body = fn_block(trait, "round_ratio", "trait Round")
    cond, body = assertion(body, "assert", "round_ratio")
    env = {"integer": ("integer", "Z"), "num": ("num", "Z"), "den": ("den", "Z")}
    out.append("Definition round_ratio_pre_gen (num den : Z) : bool :=\n  %s.\n" % translate_expr(cond, env, "round_ratio assertion"))
    out.append("Definition round_ratio_gen (rlp : Z -> sign -> comparison -> rounding) (integer num den : Z) : rounding :=\n  %s.\n"
               % translate_fn(body, env, "round_ratio"))

    # Repr::smaller_than_one
    rsrc = strip_comments(read(repo, "float/src/repr.rs"))
    body = fn_block(rsrc, "smaller_than_one", "repr.rs")
    body = re.sub(r"\bdebug_assert!\s*\([^;]*\)\s*;", "", body)
    body = re.sub(r"\bself\s*\.\s*digits_ub\s*\(\s*\)", "digits_ub(self.significand)", body)
    env = {"self.exponent": ("e", "Z"), "self.significand": ("s", "Z")}
    apps_saved = dict(APPS)
    APPS["digits_ub"] = ("(digits_ub {0})", "Z")
    try:
        out.append("Definition smaller_than_one_gen (digits_ub : Z -> Z) (s e : Z) : bool :=\n  %s.\n" % translate_fn(body, env, "smaller_than_one"))
        # FBig::round: the test that sends a float straight to zero
        osrc = strip_comments(read(repo, "float/src/round_ops.rs"))
        body = fn_block(osrc, "round", "round_ops.rs")
        m = re.search(r"\}\s*else\s+if\s+(.*?)\{\s*return\s+Self::ZERO\s*;\s*\}", body, flags=re.S)
        if not m:
            raise Unparsed("FBig::round: `else if <test> { return Self::ZERO; }` not found")
        cond = re.sub(r"\bself\s*\.\s*repr\s*\.\s*digits_ub\s*\(\s*\)", "digits_ub(self.significand)", m.group(1))
        cond = re.sub(r"\bself\s*\.\s*repr\s*\.\s*exponent\b", "self.exponent", cond)
        out.append("Definition round_to_zero_test_gen (digits_ub : Z -> Z) (s e : Z) : bool :=\n  %s.\n" % translate_expr(cond, env, "FBig::round"))
    finally:
        APPS.clear()
        APPS.update(apps_saved)
    return "\n".join(out)


FILES = [("RatioSmall.v", render_ratio), ("RoundPrimGen.v", render_prim)]


def _write_if_changed(path, txt):
    try:
        with open(path) as f:
            if f.read() == txt:
                return
    except OSError:
        pass
    tmp = path + ".tmp%d" % os.getpid()
    with open(tmp, "w") as f:
        f.write(txt)
    os.replace(tmp, path)


def generate(repo, outdir):
    """regenerates the two files; returns {file: "ok" | "unparsed <reason>"}.  Never raises."""
    res = {}
    for fname, render in FILES:
        path = os.path.join(outdir, fname)
        try:
            os.makedirs(outdir, exist_ok=True)
            try:
                txt = render(repo)
            except (Unparsed, OSError, UnicodeDecodeError, ValueError, RecursionError, SyntaxError) as ex:
                why = re.sub(r"\s+", " ", str(ex)).strip()[:160] or ex.__class__.__name__
                if os.path.exists(path):
                    with open(path) as f:
                        old = f.read()
                    if not old.startswith(STALE):
                        _write_if_changed(path, STALE + " " + old)
                    res[fname] = "unparsed " + why
                else:
                    res[fname] = "unparsed " + why + " (no previous copy)"
                continue
            _write_if_changed(path, txt)
            res[fname] = "ok"
        except Exception as ex:  # never an alarm
            res[fname] = "unparsed internal %s" % re.sub(r"\s+", " ", repr(ex))[:160]
    return res


def main():
    ap = argparse.ArgumentParser()
    ap.add_argument("--repo", default=os.environ.get("VERIF_REPO", "/repo"))
    ap.add_argument("--out", required=True)
    a = ap.parse_args()
    for fname, st in generate(a.repo, a.out).items():
        print("FRAGMENT %s %s" % (fname[:-2], st))
    return 0


if __name__ == "__main__":
    sys.exit(main())
