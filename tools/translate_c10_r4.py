#!/usr/bin/env python3
"""C10 translator (round 4): re-reads on every run the BODIES of the public entry points of C10,

    float/src/round_ops.rs   FBig::{trunc, split_at_point_internal, split_at_point, fract, ceil, floor, round}
    float/src/convert.rs     FBig::to_int, Repr::to_int, the condition under which FBig::with_precision rounds
    float/src/repr.rs        Context::repr_round, Context::repr_round_ref

and renders them as Gallina functions over (p, s, e) = (context precision, significand, exponent) with values in
`result _` (the finiteness assertion and the debug assertion of round_fract are the only panics) -> coq/gen/RoundOpsGen.v.
Float/RoundOpsGenProof.v proves them equal to the hand-written entry-point models (RoundOpsDeep.*_full), so an edit of a
branch, a threshold, a shortcut or the order of the finiteness test breaks a proof obligation.

It is a small continuation-passing printer over the AST of tools/translate.py's parser (imported): `return`, `if c {return}`
chains, `let`, tuples, `match` on the sign, fallible calls (round_fract behind its assertion: `rfchk`) bound with rbind.
Library calls are rendered by a fixed table (shr_digits = truncating division by B^k, split_digits(_ref) =
Model.split_digits, shl_digits = multiplication by B^k: proved in RoundOpsDigits.v; Repr::new = normalize; Context::new(p) = p;
saturating_sub = sat_sub; digits_ub / smaller_than_one / assert_finite by name).

    tools/translate_c10_r4.py --repo /repo --out coq/gen

prints `FRAGMENT RoundOpsGen ok|unparsed <why>`; unparseable source is not an alarm: the previous copy stays, marked STALE.
"""
import argparse
import os
import re
import sys

sys.path.insert(0, os.path.dirname(os.path.abspath(__file__)))
import translate as T  # noqa: E402
import translate_c10_r3 as R3  # noqa: E402

Unparsed = R3.Unparsed


class Cps:
    """env: rust variable -> (gallina text, type); types: Z, bool, fl, rounding, sign, iapprox, tuple"""

    def __init__(self, kind, mode_var=None):
        self.kind = kind          # "fbig" (self.repr.*, self.context.precision) or "repr" (self.*)
        self.mode_var = mode_var
        self.env = {}
        self.fresh = 0

    # ---------------------------------------------------------------- fields of self
    def chain(self, e):
        if e[0] == "var":
            return [e[1]]
        if e[0] == "field":
            c = self.chain(e[1])
            return c + [e[2]] if c else None
        return None

    FIELDS_FBIG = {("self", "repr", "exponent"): ("e", "Z"), ("self", "repr", "significand"): ("s", "Z"),
                   ("self", "context", "precision"): ("p", "Z"), ("self", "repr"): ("<repr>", "repr"), ("self",): ("(s, e, p)", "fl"),
                   ("self", "context"): ("<ctx>", "ctx")}
    FIELDS_REPR = {("self", "exponent"): ("e", "Z"), ("self", "significand"): ("s", "Z"), ("self",): ("<repr>", "repr")}
    # Context::repr_round(&self, repr): self is the Context, the Repr is the parameter
    FIELDS_CTX = {("self", "precision"): ("p", "Z"), ("self",): ("<ctx>", "ctx"), ("repr", "exponent"): ("e", "Z"),
                  ("repr", "significand"): ("s", "Z"), ("repr",): ("<repr>", "repr")}

    def field(self, e):
        c = self.chain(e)
        if c is None:
            return None
        tab = {"fbig": self.FIELDS_FBIG, "repr": self.FIELDS_REPR, "ctx": self.FIELDS_CTX}[self.kind]
        return tab.get(tuple(c))

    # ---------------------------------------------------------------- pure expressions (value text, type)
    PATHS = {"Self::ZERO": ("FZERO", "fl"), "Self::ONE": ("FONE", "fl"), "Self::NEG_ONE": ("FNEG_ONE", "fl"),
             "IBig::ZERO": ("0", "Z"), "IBig::ONE": ("1", "Z"), "Rounding::NoOp": ("NoOp", "rounding"),
             "Sign::Positive": ("Positive", "sign"), "Sign::Negative": ("Negative", "sign")}
    MODES = {"mode::Up": "MUp", "mode::Down": "MDown", "mode::HalfAway": "MHalfAway", "mode::HalfEven": "MHalfEven",
             "mode::Zero": "MZero", "mode::Away": "MAway"}

    def pure(self, e):
        k = e[0]
        f = self.field(e)
        if f is not None:
            if f[1] == "repr":
                return ("<repr>", "reprval")
            if f[1] == "ctx":
                raise T.Unsupported("the Context as a value")
            return f
        if k == "var":
            if e[1] in self.env:
                return self.env[e[1]]
            raise T.Unsupported("unknown variable " + e[1])
        if k == "num":
            return (str(e[1]), "Z")
        if k == "path":
            if e[1] in self.PATHS:
                return self.PATHS[e[1]]
            raise T.Unsupported("path " + e[1])
        if k == "un" and e[1] == "-":
            v, t = self.pure(e[2])
            return ("(- %s)" % v, t)
        if k == "un" and e[1] == "!":
            v, t = self.pure(e[2])
            return ("(negb %s)" % v, "bool")
        if k == "tuple":
            vs = [self.pure(x) for x in e[1]]
            return ("(" + ", ".join(v for v, _ in vs) + ")", "tuple:" + ",".join(t for _, t in vs))
        if k == "bin":
            op = e[1]
            a, ta = self.pure(e[2])
            b, tb = self.pure(e[3])
            if op == "+" and tb == "rounding" and ta == "Z":
                return ("(%s + adj %s)" % (a, b), "Z")
            if op in ("+", "-", "*") and ta == tb == "Z":
                return ("(%s %s %s)" % (a, op, b), "Z")
            if op in ("||", "&&") and ta == tb == "bool":
                return ("(%s %s %s)" % (a, op, b), "bool")
            if ta == tb == "Z":
                if op == ">=":
                    return ("(%s <=? %s)" % (b, a), "bool")
                if op == ">":
                    return ("(%s <? %s)" % (b, a), "bool")
                if op == "<=":
                    return ("(%s <=? %s)" % (a, b), "bool")
                if op == "<":
                    return ("(%s <? %s)" % (a, b), "bool")
                if op == "==":
                    return ("(%s =? %s)" % (a, b), "bool")
            raise T.Unsupported("operator %s on %s, %s" % (op, ta, tb))
        if k == "call":
            name, args = e[1], e[2]
            recv = args[0]
            rf = self.field(recv)
            if rf is not None and rf[1] == "ctx":
                if name == "is_limited":
                    return ("(negb (p =? 0))", "bool")                  # Context::is_limited: precision != 0
                raise T.Unsupported("method %s of the context" % name)
            if rf is not None and rf[1] in ("repr", "fl"):
                # methods of the Repr / of self
                if name == "digits" and rf[1] == "repr":
                    return ("(dlen B s)", "Z")                          # Repr::digits = digit_len of the significand
                if name == "clone" and rf[1] == "repr":
                    return ("<repr>", "reprval")
                if name == "smaller_than_one" and rf[1] == "repr":
                    return ("(smaller_than_one digits_ub s e)", "bool")
                if name == "digits_ub" and rf[1] == "repr":
                    return ("(digits_ub s)", "Z")
                if name == "is_zero" and rf[1] == "repr":
                    return ("((s =? 0) && (e =? 0))", "bool")          # Repr::is_zero
                if name == "sign" and rf[1] == "repr":
                    return ("(sign_of s)", "sign")                      # Repr::sign = sign of the significand
                if name == "clone" and rf[1] == "fl":
                    return rf
                raise T.Unsupported("method %s of self" % name)
            v, t = self.pure(recv)
            if name == "clone":
                return (v, t)
            if name == "unsigned_abs" and t == "Z":
                return ("(Z.abs %s)" % v, "Z")
            if name == "saturating_sub" and t == "Z":
                w, tw = self.pure(args[1])
                return ("(sat_sub %s %s)" % (v, w), "Z")
            if name == "is_zero" and t == "Z":
                return ("(%s =? 0)" % v, "bool")
            raise T.Unsupported("method " + name)
        if k == "app":
            name, args = e[1], e[2]
            if name == "Context::new":
                return self.pure(args[0])
            if name == "Repr::new":
                a, _ = self.pure(args[0])
                b, _ = self.pure(args[1])
                return ("(normalize B %s %s)" % (a, b), "se")
            if name == "FBig::new":
                a, ta = self.pure(args[0])
                c, _ = self.pure(args[1])
                if ta != "se":
                    raise T.Unsupported("FBig::new of " + ta)
                return ("(mk %s %s)" % (a, c), "fl")
            if name == "shr_digits":
                a, _ = self.pure(args[0])
                b, _ = self.pure(args[1])
                return ("(Z.quot %s (B ^ %s))" % (a, b), "Z")
            if name == "shl_digits":
                a, _ = self.pure(args[0])
                b, _ = self.pure(args[1])
                return ("(%s * B ^ %s)" % (a, b), "Z")
            if name in ("split_digits", "split_digits_ref"):
                a, _ = self.pure(args[0])
                b, _ = self.pure(args[1])
                return ("(split_digits B %s %s)" % (a, b), "tuple:Z,Z")
            if name == "Exact":
                a, ta = self.pure(args[0])
                if ta == "reprval":
                    return ("(AExact s e)", "approx")
                if ta != "Z":
                    raise T.Unsupported("Exact of " + ta)
                return ("(IExact %s)" % a, "iapprox")
            if name == "Inexact":
                a, ta = self.pure(args[0])
                b, _ = self.pure(args[1])
                if ta == "se":
                    return ("(ainexact_se %s %s)" % (a, b), "approx")
                if ta != "Z":
                    raise T.Unsupported("Inexact of " + ta)
                return ("(IInexact %s %s)" % (a, b), "iapprox")
            raise T.Unsupported("call " + name)
        if k == "match":
            sv, st = self.pure(e[1])
            arms = []
            ty = None
            for pat, body in e[2]:
                if pat[0] != "pctor" or pat[2] or pat[1] not in ("Positive", "Negative") or st != "sign":
                    raise T.Unsupported("match pattern")
                bv, ty = self.pure(body)
                arms.append("| %s => %s" % (pat[1].split("::")[-1], bv))
            return ("(match %s with %s end)" % (sv, " ".join(arms)), ty)
        raise T.Unsupported("expression " + k)

    # ---------------------------------------------------------------- fallible calls
    def fallible(self, e):
        """round_fract behind its debug assertion: (mode text, args) or None"""
        if e[0] == "app" and e[1].endswith("::round_fract"):
            head = e[1][: -len("::round_fract")]
            if head in self.MODES:
                return self.MODES[head], e[2]
            if head == "R" and self.mode_var:
                return self.mode_var, e[2]
            raise T.Unsupported("round_fract of " + head)
        if e[0] == "call" and e[1] == "split_at_point_internal" and self.field(e[2][0]) and self.field(e[2][0])[1] == "fl":
            return "SPLIT", []
        return None

    def bind_pat(self, pat, ty):
        if pat[0] == "pvar":
            self.env[pat[1]] = (pat[1], ty)
            return pat[1]
        if pat[0] == "pwild":
            return "_"
        if pat[0] == "ptuple":
            tys = ty.split(":", 1)[1].split(",") if ty.startswith("tuple:") else [None] * len(pat[1])
            if len(tys) != len(pat[1]):
                raise T.Unsupported("tuple pattern arity")
            return "'(" + ", ".join(self.bind_pat(q, t or "Z") for q, t in zip(pat[1], tys)) + ")"
        raise T.Unsupported("pattern " + pat[0])

    # ---------------------------------------------------------------- statements
    def stmts(self, ss, final):
        """Gallina of type `result _` for the statement list followed by the block value `final`"""
        if not ss:
            if final is None:
                raise T.Unsupported("block without value")
            return self.tail(final)
        s, rest = ss[0], ss[1:]
        if s[0] == "let":
            fb = self.fallible(s[2])
            if fb is not None:
                mode, args = fb
                if mode == "SPLIT":
                    call, ty = "(Ok (split_internal_gen p s e))", "tuple:Z,Z,Z"
                else:
                    vs = [self.pure(a)[0] for a in args]
                    call, ty = "(rfchk %s %s)" % (mode, " ".join(vs)), "rounding"
                saved = dict(self.env)
                pat = self.bind_pat(s[1], ty)
                body = self.stmts(rest, final)
                self.env = saved
                if call.startswith("(Ok "):
                    return "(let %s := %s in %s)" % (pat, call[4:-1], body)
                return "(rbind %s (fun %s => %s))" % (call, pat if not pat.startswith("'") else pat, body)
            v, ty = self.pure(s[2])
            saved = dict(self.env)
            pat = self.bind_pat(s[1], ty)
            body = self.stmts(rest, final)
            self.env = saved
            return "(let %s := %s in %s)" % (pat, v, body)
        if s[0] == "return":
            return self.tail(s[1])
        if s[0] == "expr":
            e = s[1]
            if e[0] == "app" and e[1] == "assert_finite":
                return "(assert_finite s e %s)" % self.stmts(rest, final)
            if e[0] == "if":
                return self.ifchain(e, lambda: self.stmts(rest, final))
            raise T.Unsupported("expression statement " + e[0])
        raise T.Unsupported("statement " + s[0])

    def ifchain(self, e, cont):
        """`if c { ...return } else if c2 { ...return }` followed by the continuation"""
        c, tc = self.pure(e[1])
        if tc != "bool":
            raise T.Unsupported("condition of type " + tc)
        th = self.block(e[2], must_return=True)
        if e[3] is None:
            el = cont()
        elif e[3][0] == "if":
            el = self.ifchain(e[3], cont)
        else:
            el = self.block(e[3], must_return=False, cont=cont)
        return "(if %s then %s else %s)" % (c, th, el)

    def block(self, b, must_return, cont=None):
        if b[0] != "block":
            raise T.Unsupported("block expected")
        ss, final = list(b[1]), b[2]
        if must_return and final is None and not (ss and ss[-1][0] == "return"):
            raise T.Unsupported("branch that falls through")
        saved = dict(self.env)
        try:
            if final is None and ss and ss[-1][0] == "return":
                return self.stmts(ss, None)
            if final is None and cont is not None:
                raise T.Unsupported("else branch with effects only")
            return self.stmts(ss, final)
        finally:
            self.env = saved

    def tail(self, e):
        """the value of the function"""
        if e[0] == "if":
            c, _ = self.pure(e[1])
            if e[3] is None:
                raise T.Unsupported("if without else as a value")
            el = self.tail(e[3]) if e[3][0] == "if" else self.block(e[3], False)
            return "(if %s then %s else %s)" % (c, self.block(e[2], False), el)
        if e[0] == "block":
            return self.block(e, False)
        v, _ = self.pure(e)
        return "(Ok %s)" % v


def strip_macros(body):
    body = re.sub(r"\bdebug_assert!\s*\([^;]*\)\s*;", "", body)
    return body


def method_body(src, impl_re, name, what):
    impl = R3.impl_block(src, impl_re, what)
    return R3.fn_block(impl, name, what)


def tr(body, kind, what, mode_var=None):
    try:
        ast = T.parse_block(strip_macros(body))
        g = Cps(kind, mode_var)
        return g.stmts(list(ast[1]), ast[2])
    except (T.Unsupported, SyntaxError, LookupError, ValueError, IndexError, TypeError, KeyError, RecursionError) as ex:
        raise Unparsed("%s: %s" % (what, re.sub(r"\s+", " ", str(ex))[:120]))


def render_ops(repo):
    osrc = R3.strip_comments(R3.read(repo, "float/src/round_ops.rs"))
    csrc = R3.strip_comments(R3.read(repo, "float/src/convert.rs"))
    out = ["(** GENERATED by tools/translate_c10_r4.py from float/src/round_ops.rs (FBig::trunc, split_at_point_internal,",
           "    split_at_point, fract, ceil, floor, round) and float/src/convert.rs (FBig::to_int, Repr::to_int) - do not edit. *)",
           "From Dashu Require Import Base.Prelude Float.RoundSpec Float.Contract Float.Model Float.RoundOpsModel Float.RoundOpsDeep.",
           "From DashuGen Require Import RoundTables.", "Open Scope Z_scope.", "", "Section RoundOpsGen.", "Variable B : Z.",
           "Variable digits_ub : Z -> Z.", "(* Round::round_fract behind its debug assertion *)",
           "Variable rfchk : mode -> Z -> Z -> Z -> result rounding.", "",
           "(* Inexact(Repr::new(a, b), adjust) *)",
           "Definition ainexact_se (se : Z * Z) (r : rounding) : approx := AInexact (fst se) (snd se) r.", ""]
    fbig = r"\bimpl\s*<\s*R\s*:\s*Round\s*,\s*const\s+B\s*:\s*Word\s*>\s*FBig\s*<\s*R\s*,\s*B\s*>\s*\{"
    # split_at_point_internal first: the others call it
    body = method_body(osrc, fbig, "split_at_point_internal", "round_ops.rs impl FBig")
    t = tr(body, "fbig", "split_at_point_internal")
    if not t.startswith("(") :
        raise Unparsed("split_at_point_internal: shape")
    out.append("Definition split_internal_res_gen (p s e : Z) : result (Z * Z * Z) :=\n  %s.\n" % t)
    out.append("Definition split_internal_gen (p s e : Z) : Z * Z * Z :=\n"
               "  match split_internal_res_gen p s e with Ok v => v | _ => (0, 0, 0) end.\n")
    for name, ty in (("trunc", "fl"), ("split_at_point", "fl * fl"), ("fract", "fl"), ("ceil", "fl"), ("floor", "fl"), ("round", "fl")):
        body = method_body(osrc, fbig, name, "round_ops.rs impl FBig")
        out.append("Definition %s_gen (p s e : Z) : result (%s) :=\n  %s.\n" % (name, ty, tr(body, "fbig", "FBig::" + name)))
    # convert.rs: FBig::to_int (the impl block that contains with_precision) and Repr::to_int
    ms = [m for m in re.finditer(r"\bpub\s+fn\s+to_int\s*\(\s*&self\s*\)", csrc)]
    if len(ms) != 2:
        raise Unparsed("convert.rs: %d definitions of to_int" % len(ms))
    b0 = R3.block_at(csrc, csrc.index("{", ms[0].end()))
    b1 = R3.block_at(csrc, csrc.index("{", ms[1].end()))
    fb, rb = (b0, b1) if "split_at_point_internal" in b0 else (b1, b0)
    if "split_at_point_internal" not in fb or "split_at_point_internal" in rb:
        raise Unparsed("convert.rs: cannot tell FBig::to_int from Repr::to_int")
    out.append("Definition to_int_gen (m : mode) (p s e : Z) : result iapprox :=\n  %s.\n" % tr(fb, "fbig", "FBig::to_int", mode_var="m"))
    rb = re.sub(r"\bassert_finite\s*\(\s*self\s*\)", "assert_finite(&self.repr)", rb)
    out.append("Definition repr_to_int_gen (s e : Z) : result iapprox :=\n  %s.\n" % tr(rb, "repr", "Repr::to_int"))
    # repr.rs: Context::repr_round / repr_round_ref (digit removal + adjustment), convert.rs: when with_precision rounds
    rsrc = R3.strip_comments(R3.read(repo, "float/src/repr.rs"))
    for name in ("repr_round", "repr_round_ref"):
        body = R3.fn_block(rsrc, name, "repr.rs")
        out.append("Definition %s_gen (p : Z) (m : mode) (s e : Z) : result approx :=\n  %s.\n" % (name, tr(body, "ctx", "Context::" + name, mode_var="m")))
    body = R3.fn_block(csrc, "with_precision", "convert.rs")
    mm = re.search(r"\blet\s+repr\s*=\s*if\s+(.*?)\{\s*new_context\s*\.\s*repr_round\s*\(\s*self\s*\.\s*repr\s*\)\s*\}\s*else\s*\{\s*Exact\s*\(\s*self\s*\.\s*repr\s*\)\s*\}", body, flags=re.S)
    if not mm:
        raise Unparsed("with_precision: `let repr = if <cond> { new_context.repr_round(self.repr) } else { Exact(self.repr) }` not found")
    try:
        g = Cps("fbig")
        g.env["precision"] = ("np", "Z")
        cv, ct = g.pure(T.parse_expr_or_block(mm.group(1))[2])
        if ct != "bool":
            raise T.Unsupported("condition of type " + ct)
    except (T.Unsupported, SyntaxError, LookupError, ValueError, IndexError, TypeError, KeyError, RecursionError) as ex:
        raise Unparsed("with_precision condition: %s" % re.sub(r"\s+", " ", str(ex))[:120])
    out.append("Definition with_precision_rounds_gen (p np : Z) : bool :=\n  %s.\n" % cv)
    out.append("End RoundOpsGen.")
    return "\n".join(out) + "\n"


FILES = [("RoundOpsGen.v", render_ops)]


def generate(repo, outdir):
    """returns {file: "ok" | "unparsed <reason>"}.  Never raises."""
    saved = R3.FILES
    try:
        R3.FILES = FILES
        return R3.generate(repo, outdir)
    finally:
        R3.FILES = saved


def main():
    ap = argparse.ArgumentParser()
    ap.add_argument("--repo", default=os.environ.get("VERIF_REPO", "/repo"))
    ap.add_argument("--out", required=True)
    a = ap.parse_args()
    for fname, st in generate(a.repo, a.out).items():
        print("FRAGMENT %s %s" % (fname[:-2], st))
    return 0


if __name__ == "__main__":
    sys.exit(main())
