#!/usr/bin/env python3
"""Confirm a seeded change delivered by a sub-agent, in a scratch worktree:
   tools/seedconfirm.py /tmp/seed_Cxx_out/A  seeded/Cxx_A
 1. patch applies to /repo HEAD; 2. the repository test suite passes with it; 3. the demo fails
 with it and 4. passes without it.  Copies patch.diff, demo.rs, meta.json (+ confirmed block)."""
import json
import os
import shutil
import subprocess
import sys

ROOT = os.path.dirname(os.path.dirname(os.path.abspath(__file__)))


def sh(cmd, cwd=None, timeout=3600):
    env = dict(os.environ, CARGO_NET_OFFLINE="true", CARGO_TARGET_DIR=os.environ.get("SEEDCONFIRM_TARGET", "/tmp/seedconfirm_target"), PYO3_PYTHON="/usr/bin/python3")
    return subprocess.run(cmd, shell=True, cwd=cwd, capture_output=True, text=True, env=env, timeout=timeout)


def main():
    src, dst = sys.argv[1], os.path.join(ROOT, sys.argv[2]) if not os.path.isabs(sys.argv[2]) else sys.argv[2]
    meta = json.load(open(os.path.join(src, "meta.json")))
    crate_dir = meta.get("crate_dir", "integer")
    pkg = {"integer": "dashu-int", "float": "dashu-float", "rational": "dashu-ratio", "base": "dashu-base", "macros": "dashu-macros", ".": "dashu"}.get(crate_dir, "dashu-int")
    # a change that only shows in one build configuration names it in meta.json ("needs_config")
    nc = str(meta.get("needs_config", ""))
    extra = (" --release" if "--release" in nc else "") + (" --no-default-features" if "--no-default-features" in nc else "")
    rf = 'RUSTFLAGS=\'--cfg force_bits="32"\' ' if 'force_bits="32"' in nc else ""
    name = os.path.basename(dst.rstrip("/"))
    wt = "/tmp/wt_confirm_%s" % name
    sh("git -C /repo worktree remove --force %s; git -C /repo branch -D wt_confirm_%s" % (wt, name))
    r = sh("git -C /repo worktree add %s -b wt_confirm_%s HEAD" % (wt, name))
    conf = {"repo_head": sh("git -C /repo rev-parse --short HEAD").stdout.strip()}
    try:
        demo_dst = os.path.join(wt, crate_dir, "tests", "seed_demo.rs")
        os.makedirs(os.path.dirname(demo_dst), exist_ok=True)
        # without the change: demo passes
        shutil.copy(os.path.join(src, "demo.rs"), demo_dst)
        r = sh("%scargo test --offline -p %s --test seed_demo%s" % (rf, pkg, extra), cwd=wt)
        conf["demo_passes_without_change"] = r.returncode == 0
        os.remove(demo_dst)
        r = sh("git apply %s" % os.path.join(os.path.abspath(src), "patch.diff"), cwd=wt)
        conf["patch_applies"] = r.returncode == 0
        if r.returncode == 0:
            r = sh("cargo test --workspace --no-fail-fast --offline 2>&1 | grep -E '^test result|FAILED|error(\\[|:)' | sort | uniq -c", cwd=wt)
            lines = r.stdout
            failed = sum(int(l.split("failed")[0].split(";")[-1].strip().split()[-1]) for l in lines.splitlines() if "test result" in l and "failed" in l)
            conf["suite_passes_with_change"] = ("FAILED" not in lines) and ("error" not in lines) and failed == 0 and "test result" in lines
            conf["suite_summary"] = lines[-600:]
            shutil.copy(os.path.join(src, "demo.rs"), demo_dst)
            r = sh("%scargo test --offline -p %s --test seed_demo%s" % (rf, pkg, extra), cwd=wt)
            conf["demo_fails_with_change"] = r.returncode != 0 and ("test result: FAILED" in r.stdout or "panicked" in r.stdout + r.stderr)
    finally:
        sh("git -C /repo worktree remove --force %s; git -C /repo branch -D wt_confirm_%s" % (wt, name))
    conf["commands"] = ["git apply patch.diff", "cargo test --workspace --no-fail-fast --offline", "cargo test --offline -p %s --test seed_demo (with and without the change)" % pkg]
    ok = all(conf.get(k) for k in ("patch_applies", "suite_passes_with_change", "demo_fails_with_change", "demo_passes_without_change"))
    conf["confirmed"] = ok
    print(json.dumps(conf, indent=1))
    if ok:
        os.makedirs(dst, exist_ok=True)
        for f in ("patch.diff", "demo.rs"):
            shutil.copy(os.path.join(src, f), dst)
        meta["confirmed_by_coordinator"] = conf
        meta["origin"] = "independent sub-agent given only the property text and its own scratch worktree"
        json.dump(meta, open(os.path.join(dst, "meta.json"), "w"), indent=1)
    return 0 if ok else 1


if __name__ == "__main__":
    sys.exit(main())
