#!/usr/bin/env python3
"""C03 (round 4) translator: re-reads WHOLE function bodies of the float arithmetic and emits them as Gallina.

  float/src/add.rs   Context::repr_round_sum (incl. its `while` loop: a fuelled Fixpoint), repr_add_large_small,
                     repr_add_small_large, Context::add, Context::sub                -> coq/gen/FloatAddBodies.v
  float/src/mul.rs   Context::mul / sqr / cubic
  float/src/div.rs   Context::repr_div, Context::div, Context::inv
  float/src/root.rs  Context::sqrt                                                   -> coq/gen/FloatOpBodies.v

    tools/translate_c03_r4.py --repo /repo --out coq/gen

prints `FRAGMENT <file> ok|unparsed <why>` per file (exit 0 always); `generate(repo, outdir)` does the same from
Python and returns {file: status}.  Unparseable source is not an alarm: the previous copy is kept, its first line
gets `(* STALE *)`.  coq/theories/Float/FixBodiesProof.v proves that every generated definition equals the
hand-written as-is model (FixModel.v / LongModel.v `_n` models: with every Repr::new), so an edit of a branch
condition, a shift amount, an operand order or the loop of repr_round_sum breaks a proof obligation.

How a body is read (a symbolic executor over a small Rust subset: let / tuple patterns / deferred `let x: T;`,
assignment and `+= -=` on variables, tuple fields and Repr fields, in-place helpers taking `&mut`, if / else if /
else and match on Ordering / Sign as statements or expressions, early `return`, one `while` with `break`,
closures as arguments of map / and_then / then_with / round_low_part):
  * every assignment becomes a shadowing `let`; a tuple variable is its components (low -> low_0, low_1), a Repr
    its two fields;
  * an `if` / `match` whose branches assign outer variables or return is executed branch by branch with the rest
    of the function repeated in each branch (no join), as the hand-written models are laid out;
  * a `while` loop becomes `Fixpoint <fn>_loop (fuel : nat) <free variables> <assigned variables> : option _`;
    the fuel handed to it is given in LOOP_FUEL below (the proof file shows that it suffices);
  * panicking helpers become `Panic _` results (assert_limited_precision, panic_root_negative, div_rem by zero).
Atoms with a fixed meaning (the trusted part, all listed in METHODS / CALLS): IBig / usize / isize arithmetic is Z
arithmetic (`/` on isize / i128 = Z.quot, `& 1` = mod 2, `^` = Z.lxor, `as` casts are the identity, bool as usize = b2z),
digit_len = dlen B, split_digits(_ref) = Model.split_digits B, shl_digits(_in_place) = AddModel.shl_digits B,
Repr::new = Model.normalize B, Context::repr_round(_ref) = LongModel.repr_round_n B, Repr::digits_ub = the abstract
estimate, R::round_fract / round_ratio / round_low_part = the models of Model.v / the regenerated table,
isize::abs_diff = Z.abs (a - b), usize::saturating_add = Z.add (the model is unbounded),
div_rem = (Z.quot, Z.rem), sqrt_rem = (Z.sqrt x, x - (Z.sqrt x)^2), FBig::new(v, ctx) = v.
"""
import argparse
import os
import re
import sys

STALE = "(* STALE *)"


class Unparsed(Exception):
    pass


# ================================================================================================ lexer
TOK = re.compile(
    r"\s*(?:(\d[\d_]*)([a-z]\w*)?|([A-Za-z_]\w*!?)|(::|=>|->|\+=|-=|\*=|==|!=|<=|>=|&&|\|\||[-+*/%!&|^(){}\[\],;=<>.:#?]))",
    re.S,
)


def strip_comments(src):
    src = re.sub(r"/\*.*?\*/", " ", src, flags=re.S)
    return re.sub(r"//[^\n]*", "", src)


def tokenize(src):
    pos, out = 0, []
    while pos < len(src):
        m = TOK.match(src, pos)
        if not m:
            if src[pos:].strip() == "":
                break
            raise Unparsed("cannot tokenize at %r" % src[pos:pos + 30])
        pos = m.end()
        if m.group(1):
            out.append(("num", int(m.group(1).replace("_", ""))))
        elif m.group(3):
            out.append(("id", m.group(3)))
        else:
            out.append(("p", m.group(4)))
    return out


# ================================================================================================ parser
class Parser:
    def __init__(self, toks):
        self.t = toks
        self.i = 0

    def peek(self, k=0):
        return self.t[self.i + k] if self.i + k < len(self.t) else ("eof", None)

    def at(self, v, k=0):
        return self.peek(k)[1] == v and self.peek(k)[0] in ("p", "id")

    def eat(self, v=None):
        tok = self.peek()
        if v is not None and tok[1] != v:
            raise Unparsed("expected %r, found %r" % (v, tok[1]))
        self.i += 1
        return tok

    def skip_angle(self):
        """skip a balanced <...> (turbofish / generic arguments)"""
        self.eat("<")
        depth = 1
        while depth:
            tok = self.eat()
            if tok[0] == "eof":
                raise Unparsed("unbalanced <>")
            if tok[1] == "<":
                depth += 1
            elif tok[1] == ">":
                depth -= 1

    def skip_type(self):
        depth = 0
        while True:
            tok = self.peek()
            if tok[0] == "eof":
                raise Unparsed("type")
            if depth == 0 and tok[1] in ("=", ";"):
                return
            if tok[1] in ("(", "<", "["):
                depth += 1
            elif tok[1] in (")", ">", "]"):
                depth -= 1
            self.eat()

    # ---- blocks and statements
    def block(self):
        self.eat("{")
        stmts, tail = [], None
        while not self.at("}"):
            if self.at(";"):
                self.eat()
                continue
            if self.at("let"):
                self.eat()
                pat = self.pattern()
                if self.at(":"):
                    self.eat()
                    self.skip_type()
                init = None
                if self.at("="):
                    self.eat()
                    init = self.expr()
                self.eat(";")
                stmts.append(("let", pat, init))
                continue
            if self.at("return"):
                self.eat()
                e = self.expr()
                if self.at(";"):
                    self.eat()
                stmts.append(("return", e))
                continue
            if self.at("break"):
                self.eat()
                if self.at(";"):
                    self.eat()
                stmts.append(("break",))
                continue
            if self.at("while"):
                self.eat()
                c = self.expr(nostruct=True)
                b = self.block()
                stmts.append(("while", c, b))
                continue
            if self.at("use"):
                while not self.at(";"):
                    self.eat()
                self.eat(";")
                continue
            e = self.expr()
            if self.at("=") or self.at("+=") or self.at("-="):
                op = self.eat()[1]
                rhs = self.expr()
                self.eat(";")
                stmts.append(("assign", op, e, rhs))
                continue
            if self.at(";"):
                self.eat()
                stmts.append(("expr", e))
                continue
            if self.at("}"):
                tail = e
                break
            if e[0] in ("if", "match", "block"):
                # block-like expression statement; a method chain may follow a match (`match .. {..}.value()`)
                stmts.append(("expr", e))
                continue
            raise Unparsed("statement near %r" % (self.peek(),))
        self.eat("}")
        return ("block", stmts, tail)

    def pattern(self):
        if self.at("("):
            self.eat()
            ps = []
            while not self.at(")"):
                ps.append(self.pattern())
                if self.at(","):
                    self.eat()
            self.eat(")")
            return ("ptuple", ps)
        if self.at("mut"):
            self.eat()
        tok = self.eat()
        if tok[0] != "id":
            raise Unparsed("pattern %r" % (tok,))
        return ("pvar", tok[1])

    # ---- expressions
    LEVELS = [["||"], ["&&"], ["==", "!=", "<", ">", "<=", ">="], ["^"], ["&"], ["+", "-"], ["*", "/", "%"]]

    def expr(self, lvl=0, nostruct=False):
        if lvl == len(self.LEVELS):
            return self.cast(nostruct)
        e = self.expr(lvl + 1, nostruct)
        while self.peek()[0] == "p" and self.peek()[1] in self.LEVELS[lvl]:
            # `&&` is one token; a binary `&` must not be followed by `mut`
            op = self.eat()[1]
            r = self.expr(lvl + 1, nostruct)
            e = ("bin", op, e, r)
        return e

    def cast(self, nostruct):
        e = self.unary(nostruct)
        while self.at("as"):
            self.eat()
            ty = self.eat()[1]
            e = ("cast", e, ty)
        return e

    def unary(self, nostruct):
        if self.at("-") or self.at("!") or self.at("*"):
            op = self.eat()[1]
            return ("un", op, self.unary(nostruct))
        if self.at("&"):
            self.eat()
            if self.at("mut"):
                self.eat()
            return ("ref", self.unary(nostruct))
        if self.at("&&"):
            self.eat()
            return ("ref", ("ref", self.unary(nostruct)))
        return self.postfix(nostruct)

    def args(self):
        self.eat("(")
        out = []
        while not self.at(")"):
            out.append(self.expr())
            if self.at(","):
                self.eat()
        self.eat(")")
        return out

    def postfix(self, nostruct):
        e = self.primary(nostruct)
        while True:
            if self.at("."):
                self.eat()
                tok = self.eat()
                if tok[0] == "num":
                    e = ("field", e, str(tok[1]))
                    continue
                name = tok[1]
                if self.at("::"):
                    self.eat()
                    self.skip_angle()
                if self.at("("):
                    e = ("mcall", e, name, self.args())
                else:
                    e = ("field", e, name)
                continue
            if self.at("(") and e[0] == "path":
                e = ("call", e[1], self.args())
                continue
            if self.at("?"):
                raise Unparsed("? operator")
            return e

    def primary(self, nostruct):
        tok = self.peek()
        if tok[0] == "num":
            self.eat()
            return ("num", tok[1])
        if self.at("("):
            self.eat()
            items, trailing = [], False
            while not self.at(")"):
                items.append(self.expr())
                trailing = False
                if self.at(","):
                    self.eat()
                    trailing = True
            self.eat(")")
            if len(items) == 1 and not trailing:
                return items[0]
            return ("tuple", items)
        if self.at("{"):
            return self.block()
        if self.at("if"):
            self.eat()
            c = self.expr(nostruct=True)
            th = self.block()
            el = None
            if self.at("else"):
                self.eat()
                el = self.primary(nostruct) if self.at("if") else self.block()
            return ("if", c, th, el)
        if self.at("match"):
            self.eat()
            scrut = self.expr(nostruct=True)
            self.eat("{")
            arms = []
            while not self.at("}"):
                pat = [self.eat()[1]]
                while self.at("::"):
                    self.eat()
                    pat.append(self.eat()[1])
                self.eat("=>")
                body = self.expr()
                if self.at(","):
                    self.eat()
                arms.append((pat[-1], body))
            self.eat("}")
            return ("match", scrut, arms)
        if self.at("|") or self.at("||"):
            params = []
            if self.at("||"):
                self.eat()
            else:
                self.eat("|")
                while not self.at("|"):
                    params.append(self.pattern())
                    if self.at(","):
                        self.eat()
                self.eat("|")
            return ("closure", params, self.expr())
        if tok[0] == "id":
            segs = [self.eat()[1]]
            while self.at("::"):
                self.eat()
                if self.at("<"):
                    self.skip_angle()
                    continue
                segs.append(self.eat()[1])
            if segs[-1].endswith("!"):
                # macro call: arguments skipped
                depth = 0
                while True:
                    t2 = self.eat()
                    if t2[1] == "(":
                        depth += 1
                    elif t2[1] == ")":
                        depth -= 1
                        if depth == 0:
                            break
                return ("macro", segs[-1])
            return ("path", segs)
        raise Unparsed("expression at %r" % (tok,))


def fn_body(src, header_re, what):
    m = re.search(header_re, src)
    if not m:
        raise Unparsed("no " + what)
    i = src.index("{", src.index(")", m.end()) if False else m.end())
    # the body starts at the first `{` after the signature's `->` type
    j = src.find("->", m.end())
    i = src.index("{", j)
    depth, k = 0, i
    while True:
        c = src[k]
        if c == "{":
            depth += 1
        elif c == "}":
            depth -= 1
            if depth == 0:
                break
        k += 1
    p = Parser(tokenize(src[i:k + 1]))
    blk = p.block()
    if p.peek()[0] != "eof":
        raise Unparsed("trailing tokens after the body of " + what)
    return blk


# ================================================================================================ executor
# values: (kind, ...):  z/b/sign/cmp/rnd/approx/rapprox/zapprox: (kind, term);  repr: ("repr", s, e);
#         tup: ("tup", [values]);  ctx: ("ctx",);  unit: ("unit",);  diverge: ("panic", term)
def Z(t):
    return ("z", t)


def par(t):
    t = str(t)
    if re.match(r"^[\w.']+$", t) or (t.startswith("(") and t.endswith(")") and balanced_outer(t)):
        return t
    return "(" + t + ")"


def balanced_outer(t):
    depth = 0
    for i, c in enumerate(t):
        if c == "(":
            depth += 1
        elif c == ")":
            depth -= 1
            if depth == 0 and i != len(t) - 1:
                return False
    return True


CMPOP = {"<": "<?", ">": ">?", "<=": "<=?", ">=": ">=?", "==": "=?"}
ORDER = {"Equal": "Eq", "Greater": "Gt", "Less": "Lt"}

# the loop of each function gets this much fuel (term over the loop-carried variables at loop entry)
LOOP_FUEL = {"repr_round_sum": "(Z.to_nat low_1 + 1)%nat"}


class Exec:
    def __init__(self, fname, fallible, params, env, calls):
        self.fname = fname
        self.fallible = fallible
        self.params = params          # Gallina parameter text
        self.env0 = env
        self.calls = calls            # self.<method> -> (generated name, fallible)
        self.aux = []                 # auxiliary Fixpoints
        self.nloops = 0

    # ---------------------------------------------------------------- helpers
    def ind(self, n):
        return "  " * n

    def ret(self, v, d):
        """the text that returns value v from the function"""
        if v[0] == "panic":
            return v[1]
        if v[0] == "rapprox":
            if not self.fallible:
                raise Unparsed("fallible value in a pure function")
            return v[1]
        if v[0] == "approx":
            return "Ok %s" % par(v[1]) if self.fallible else v[1]
        raise Unparsed("%s returns a %s" % (self.fname, v[0]))

    # ---------------------------------------------------------------- purity
    def pure_expr(self, e):
        k = e[0]
        if k in ("num", "path", "macro"):
            return True
        if k == "closure":
            return self.pure_expr(e[2])
        if k in ("un", "ref"):
            return self.pure_expr(e[-1])
        if k == "cast":
            return self.pure_expr(e[1])
        if k == "bin":
            return self.pure_expr(e[2]) and self.pure_expr(e[3])
        if k == "field":
            return self.pure_expr(e[1])
        if k == "tuple":
            return all(self.pure_expr(x) for x in e[1])
        if k == "call":
            name = e[1][-1]
            if name in ("shl_digits_in_place", "assert_limited_precision", "panic_root_negative"):
                return False
            return all(self.pure_expr(x) for x in e[2])
        if k == "mcall":
            if e[2] in ("div_rem",):
                return False
            return self.pure_expr(e[1]) and all(self.pure_expr(x) for x in e[3])
        if k == "if":
            return self.pure_expr(e[1]) and self.pure_block(e[2]) and (e[3] is not None) and \
                (self.pure_block(e[3]) if e[3][0] == "block" else self.pure_expr(e[3]))
        if k == "match":
            return self.pure_expr(e[1]) and all(self.pure_expr(b) for _, b in e[2])
        if k == "block":
            return self.pure_block(e)
        return False

    def pure_block(self, blk):
        for s in blk[1]:
            if s[0] == "let":
                if s[2] is None or not self.pure_expr(s[2]):
                    return False
            elif s[0] == "expr" and s[1][0] == "macro":
                continue
            else:
                return False
        return blk[2] is not None and self.pure_expr(blk[2])

    # ---------------------------------------------------------------- pure evaluation -> value
    def ev(self, e, env):
        k = e[0]
        if k == "num":
            return Z(str(e[1]))
        if k == "ref":
            return self.ev(e[1], env)
        if k == "path":
            segs = e[1]
            if len(segs) == 1:
                n = segs[0]
                if n == "self":
                    return ("ctx",)
                if n in env:
                    if env[n] is None:
                        raise Unparsed("use of unassigned " + n)
                    return env[n]
                if n in ("Positive", "Negative"):
                    return ("sign", n)
                raise Unparsed("unknown name " + n)
            if segs == ["Sign", "Positive"] or segs == ["Sign", "Negative"]:
                return ("sign", segs[1])
            if segs == ["IBig", "ZERO"]:
                return Z("0")
            if segs == ["Repr", "BASE"]:
                return Z("B")
            raise Unparsed("path " + "::".join(segs))
        if k == "un":
            v = self.ev(e[2], env)
            if e[1] == "*":
                return v
            if e[1] == "-":
                if v[0] == "z":
                    return Z("- %s" % par(v[1]))
                if v[0] == "repr":
                    return ("repr", "- %s" % par(v[1]), v[2])
                if v[0] == "sign":
                    return ("sign", "sign_neg %s" % par(v[1]))
            if e[1] == "!" and v[0] == "b":
                return ("b", "negb %s" % par(v[1]))
            raise Unparsed("unary %s on %s" % (e[1], v[0]))
        if k == "cast":
            v = self.ev(e[1], env)
            if v[0] == "z":
                return v
            if v[0] == "b":
                return Z("b2z %s" % par(v[1]))
            raise Unparsed("cast of " + v[0])
        if k == "bin":
            return self.binop(e[1], self.ev(e[2], env), self.ev(e[3], env))
        if k == "tuple":
            return ("tup", [self.ev(x, env) for x in e[1]])
        if k == "field":
            v = self.ev(e[1], env)
            if v[0] == "ctx" and e[2] == "precision":
                return Z("p")
            if v[0] == "repr" and e[2] == "significand":
                return Z(v[1])
            if v[0] == "repr" and e[2] == "exponent":
                return Z(v[2])
            if v[0] == "tup" and e[2].isdigit():
                return v[1][int(e[2])]
            raise Unparsed("field %s of %s" % (e[2], v[0]))
        if k == "closure":
            return ("closure", e[1], e[2], env)
        if k == "call":
            return self.call(e[1], e[2], env)
        if k == "mcall":
            return self.mcall(self.ev(e[1], env), e[2], e[3], env)
        if k == "if":
            c = self.ev(e[1], env)
            if c[0] != "b":
                raise Unparsed("condition of kind " + c[0])
            a = self.ev(e[2], env)
            b = self.ev(e[3], env)
            a, b = self.unify([a, b])
            return self.join_value(a, lambda ts: "if %s then %s else %s" % (c[1], ts[0], ts[1]), [a, b])
        if k == "match":
            s = self.ev(e[1], env)
            vals = [self.ev(b, env) for _, b in e[2]]
            vals = self.unify(vals)
            names = [ORDER.get(p, p) for p, _ in e[2]]
            if s[0] not in ("cmp", "sign"):
                raise Unparsed("match on " + s[0])
            return self.join_value(vals[0], lambda ts: "match %s with %s end" % (
                s[1], " ".join("| %s => %s" % (n, t) for n, t in zip(names, ts))), vals)
        if k == "block":
            env = dict(env)
            lets = []
            for s in e[1]:
                if s[0] == "expr":
                    continue
                v = self.ev(s[2], env)
                lets.extend(self.bind(s[1], v, env))
            v = self.ev(e[2], env)
            if not lets:
                return v
            return self.join_value(v, lambda ts: " ".join(lets) + " " + ts[0], [v])
        if k == "macro":
            return ("unit",)
        raise Unparsed("expression " + k)

    def join_value(self, shape, mk, vals):
        """combine values of one shape componentwise (the control structure is repeated per component)"""
        if shape[0] in ("z", "b", "sign", "cmp", "rnd", "approx", "rapprox", "zapprox"):
            return (shape[0], mk([v[1] for v in vals]))
        if shape[0] == "repr":
            return ("repr", mk([v[1] for v in vals]), mk([v[2] for v in vals]))
        if shape[0] == "tup":
            return ("tup", [self.join_value(shape[1][i], mk, [v[1][i] for v in vals]) for i in range(len(shape[1]))])
        raise Unparsed("cannot join values of kind " + shape[0])

    def unify(self, vals):
        kinds = set(v[0] for v in vals)
        if kinds == {"approx", "rapprox"}:
            return [("rapprox", "Ok %s" % par(v[1])) if v[0] == "approx" else v for v in vals]
        if len(kinds) != 1:
            raise Unparsed("branches of different kinds %s" % sorted(kinds))
        return vals

    def binop(self, op, a, b):
        if op in ("+", "-", "*") and a[0] == "z" and b[0] == "z":
            return Z("%s %s %s" % (par(a[1]), op, par(b[1])))
        if op == "+" and a[0] == "z" and b[0] == "rnd":
            return Z("%s + adj %s" % (par(a[1]), par(b[1])))
        if op == "*" and a[0] == "sign" and b[0] == "sign":
            return ("sign", "sign_mul %s %s" % (par(a[1]), par(b[1])))
        if op == "*" and a[0] == "sign" and b[0] == "z":
            if a[1] == "Positive":
                return b
            return Z("sgnz %s * %s" % (par(a[1]), par(b[1])))
        if op == "/" and a[0] == "z" and b[0] == "z":
            return Z("Z.quot %s %s" % (par(a[1]), par(b[1])))
        if op == "&" and a[0] == "z" and b == Z("1"):
            return Z("%s mod 2" % par(a[1]))
        if op == "^" and a[0] == "z" and b[0] == "z":
            return Z("Z.lxor %s %s" % (par(a[1]), par(b[1])))
        if op in CMPOP and a[0] == "z" and b[0] == "z":
            return ("b", "(%s %s %s)" % (par(a[1]), CMPOP[op], par(b[1])))
        if op == "!=" and a[0] == "z" and b[0] == "z":
            return ("b", "negb (%s =? %s)" % (par(a[1]), par(b[1])))
        if op in ("==", "!=") and a[0] == "sign" and b[0] == "sign":
            t = "sign_eqb %s %s" % (par(a[1]), par(b[1]))
            return ("b", t if op == "==" else "negb (%s)" % t)
        if op in ("&&", "||") and a[0] == "b" and b[0] == "b":
            return ("b", "%s %s %s" % (par(a[1]), op, par(b[1])))
        raise Unparsed("operator %s on %s, %s" % (op, a[0], b[0]))

    def apply_closure(self, clo, args):
        _, params, body, env = clo
        env = dict(env)
        if len(params) != len(args):
            raise Unparsed("closure arity")
        for pt, a in zip(params, args):
            if pt[0] != "pvar":
                raise Unparsed("closure pattern")
            env[pt[1]] = a
        return self.ev(body, env)

    def call(self, segs, args, env):
        name = segs[-1]
        if name in ("digit_len",):
            (x,) = [self.ev(a, env) for a in args]
            return Z("dlen B %s" % par(x[1]))
        if name in ("split_digits", "split_digits_ref"):
            x, k = [self.ev(a, env) for a in args]
            t = "split_digits B %s %s" % (par(x[1]), par(k[1]))
            return ("tup", [Z("fst (%s)" % t), Z("snd (%s)" % t)], t)
        if name == "shl_digits":
            x, k = [self.ev(a, env) for a in args]
            return Z("shl_digits B %s %s" % (par(x[1]), par(k[1])))
        if segs[-2:] == ["Repr", "new"]:
            s, e = [self.ev(a, env) for a in args]
            t = "normalize B %s %s" % (par(s[1]), par(e[1]))
            return ("repr", "fst (%s)" % t, "snd (%s)" % t, t)
        if segs[-2:] == ["Repr", "one"]:
            return ("repr", "1", "0")
        if segs[-2:] == ["FBig", "new"]:
            return self.ev(args[0], env)
        if name == "Exact":
            (v,) = [self.ev(a, env) for a in args]
            if v[0] == "repr":
                return ("approx", "AExact %s %s" % (par(v[1]), par(v[2])))
            if v[0] == "z":
                return ("zapprox", "ZExact %s" % par(v[1]))
        if name == "Inexact":
            v, r = [self.ev(a, env) for a in args]
            if v[0] == "repr" and r[0] == "rnd":
                return ("approx", "AInexact %s %s %s" % (par(v[1]), par(v[2]), par(r[1])))
            if v[0] == "z" and r[0] == "rnd":
                return ("zapprox", "ZInexact %s %s" % (par(v[1]), par(r[1])))
        if segs[-2:] == ["R", "round_fract"]:
            i, f, k = [self.ev(a, env) for a in args]
            return ("rnd", "round_fract B m %s %s %s" % (par(i[1]), par(f[1]), par(k[1])))
        if segs[-2:] == ["R", "round_ratio"]:
            i, n, d = [self.ev(a, env) for a in args]
            return ("rnd", "round_ratio m %s %s %s" % (par(i[1]), par(n[1]), par(d[1])))
        if segs[-2:] == ["R", "round_low_part"]:
            i, s, c = [self.ev(a, env) for a in args]
            c = self.apply_closure(c, [])
            return ("rnd", "round_low_part m %s %s %s" % (par(i[1]), par(s[1]), par(c[1])))
        if name in ("assert_finite", "assert_finite_operands"):
            return ("unit",)
        raise Unparsed("call " + "::".join(segs))

    def mcall(self, r, name, args, env):
        a = [self.ev(x, env) for x in args]
        k = r[0]
        if name in ("clone", "into"):
            return r
        if k == "z":
            t = par(r[1])
            if name == "is_zero":
                return ("b", "(%s =? 0)" % r[1] if re.match(r"^\w+$", r[1]) else "(%s =? 0)" % t)
            if name == "sign":
                return ("sign", "sign_of %s" % t)
            if name == "signum":
                return Z("Z.sgn %s" % t)
            if name == "min":
                return Z("Z.min %s %s" % (t, par(a[0][1])))
            if name == "abs_diff":          # isize::abs_diff -> usize: |a - b|, never overflows
                return Z("Z.abs (%s - %s)" % (t, par(a[0][1])))
            if name == "saturating_add":    # the model is unbounded: saturation is not reached below 2^W
                return Z("%s + %s" % (t, par(a[0][1])))
            if name == "cmp":
                return ("cmp", "(%s ?= %s)" % (t, par(a[0][1])))
            if name == "unsigned_abs":
                return Z("Z.abs %s" % t)
            if name == "sqr":
                return Z("%s * %s" % (t, t))
            if name == "cubic":
                return Z("%s * %s * %s" % (t, t, t))
            if name == "pow":
                return Z("%s ^ %s" % (t, par(a[0][1])))
            if name == "sqrt_rem":
                return ("tup", [Z("Z.sqrt %s" % t), Z("%s - Z.sqrt %s * Z.sqrt %s" % (t, t, t))])
        if k == "repr":
            if name == "is_zero":
                return ("b", "(%s =? 0)" % r[1])
            if name == "digits":
                return Z("dlen B %s" % par(r[1]))
            if name == "digits_ub":
                return Z("digits_ub %s" % par(r[1]))
            if name == "sign":
                return ("sign", "sign_of %s" % par(r[1]))
        if k == "cmp" and name == "then_with":
            c = self.apply_closure(a[0], [])
            return ("cmp", "match %s with Eq => %s | Lt => Lt | Gt => Gt end" % (r[1], c[1]))
        if k == "ctx":
            if name == "is_limited":
                return ("b", "negb (p =? 0)")
            if name in ("repr_round", "repr_round_ref"):
                v = a[0]
                return ("approx", "repr_round_n B p m %s %s" % (par(v[1]), par(v[2])))
            if name in self.calls:
                gname, fall, sig = self.calls[name]
                ts = []
                for v in a:
                    if v[0] == "repr":
                        ts += [par(v[1]), par(v[2])]
                    elif v[0] == "tup":
                        ts += [par(x[1]) for x in v[1]]
                    else:
                        ts.append(par(v[1]))
                return ("rapprox" if fall else "approx", "%s p m %s" % (gname, " ".join(ts)))
        if k in ("approx", "rapprox", "zapprox") and name == "map":
            clo = a[0]
            if clo[0] != "closure" or len(clo[1]) != 1 or clo[1][0][0] != "pvar":
                raise Unparsed("map argument")
            v = clo[1][0][1]
            # |v| FBig::new(v, *self): the wrapper is transparent
            if clo[2][0] == "call" and clo[2][1][-2:] == ["FBig", "new"] and clo[2][2][0] == ("path", [v]):
                return r
            if k == "zapprox":
                out = self.apply_closure(clo, [Z(v)])
                if out[0] != "repr":
                    raise Unparsed("map closure result")
                return ("approx", "zapprox_map_repr %s (fun %s => (%s, %s))" % (par(r[1]), v, out[1], out[2]))
        if k == "approx" and name == "and_then":
            clo = a[0]
            if clo[0] != "closure" or len(clo[1]) != 1 or clo[1][0][0] != "pvar":
                raise Unparsed("and_then argument")
            v = clo[1][0][1]
            out = self.apply_closure(clo, [("repr", v + "_s", v + "_e")])
            if out[0] != "approx":
                raise Unparsed("and_then closure result")
            return ("approx", "approx_and_then %s (fun %s_s %s_e => %s)" % (par(r[1]), v, v, out[1]))
        raise Unparsed("method %s on %s" % (name, k))

    # ---------------------------------------------------------------- binding
    def bind(self, pat, v, env):
        """bind pattern to value: returns the `let .. in` lines, updates env"""
        if pat[0] == "pvar":
            n = pat[1]
            if v[0] in ("z", "b", "sign", "cmp", "rnd", "approx", "rapprox", "zapprox"):
                if v[1] == n:
                    env[n] = v
                    return []
                env[n] = (v[0], n)
                return ["let %s := %s in" % (n, v[1])]
            if v[0] == "repr":
                if len(v) == 4:      # Repr::new: one normalisation, two names
                    env[n] = ("repr", n + "_s", n + "_e")
                    return ["let '(%s_s, %s_e) := %s in" % (n, n, v[3])]
                env[n] = v
                return []
            if v[0] == "tup":
                lines, comps = [], []
                for i, c in enumerate(v[1]):
                    sub = dict()
                    lines += self.bind(("pvar", "%s_%d" % (n, i)), c, sub)
                    comps.append(sub["%s_%d" % (n, i)])
                env[n] = ("tup", comps)
                return lines
            if v[0] == "unit":
                return []
            raise Unparsed("binding of " + v[0])
        if pat[0] == "ptuple":
            if v[0] != "tup" or len(v[1]) != len(pat[1]):
                raise Unparsed("tuple pattern against " + v[0])
            if len(v) == 3 and all(q[0] == "pvar" for q in pat[1]):
                names = [q[1] for q in pat[1]]
                for n in names:
                    env[n] = Z(n)
                return ["let '(%s) := %s in" % (", ".join(names), v[2])]
            lines = []
            # evaluate against the OLD environment: components were computed already
            for q, c in zip(pat[1], v[1]):
                lines += self.bind(q, c, env)
            return lines
        raise Unparsed("pattern")

    def place_names(self, e, env):
        """the Gallina variable(s) behind an assignable place"""
        if e[0] == "ref" or (e[0] == "un" and e[1] == "*"):
            return self.place_names(e[-1], env)
        if e[0] == "path" and len(e[1]) == 1:
            n = e[1][0]
            v = env.get(n)
            if v is None:
                return ("fresh", n)
            return ("val", n, v)
        if e[0] == "field":
            base = self.place_names(e[1], env)
            if base[0] != "val":
                raise Unparsed("field of unassigned place")
            v = base[2]
            if v[0] == "tup" and e[2].isdigit():
                return ("val", None, v[1][int(e[2])])
            if v[0] == "repr" and e[2] in ("significand", "exponent"):
                return ("val", None, Z(v[1] if e[2] == "significand" else v[2]))
        raise Unparsed("assignment target")

    def assign(self, target, newv, env):
        """lines for target := newv (shadowing lets on the variables behind the place)"""
        pl = self.place_names(target, env)
        if pl[0] == "fresh":
            return self.bind(("pvar", pl[1]), newv, env)
        cur = pl[2]
        return self.assign_value(cur, newv)

    def assign_value(self, cur, newv):
        if cur[0] == "tup":
            if newv[0] != "tup" or len(newv[1]) != len(cur[1]):
                raise Unparsed("tuple assignment")
            lines, seen = [], []
            for c, n in zip(cur[1], newv[1]):
                for s in seen:
                    if re.search(r"\b%s\b" % re.escape(s), n[1]):
                        raise Unparsed("order-dependent tuple assignment")
                lines += self.assign_value(c, n)
                seen.append(c[1])
            return lines
        if cur[0] != newv[0]:
            raise Unparsed("assignment changes the kind %s -> %s" % (cur[0], newv[0]))
        if not re.match(r"^\w+$", cur[1]):
            raise Unparsed("assignment to a non-variable " + cur[1])
        if cur[1] == newv[1]:
            return []
        return ["let %s := %s in" % (cur[1], newv[1])]

    # ---------------------------------------------------------------- statements (CPS)
    def run(self, stmts, tail, env, k, d, loop=None):
        """text of: stmts; tail  -- continuing with k(env, value, depth)"""
        I = self.ind(d)
        if not stmts:
            if tail is None:
                return k(env, ("unit",), d)
            return self.run_expr(tail, env, k, d, loop)
        s, rest = stmts[0], stmts[1:]
        env = dict(env)

        def cont(env2, _v, d2):
            return self.run(rest, tail, env2, k, d2, loop)

        if s[0] == "let":
            if s[2] is None:
                env[s[1][1]] = None
                return cont(env, None, d)
            if self.pure_expr(s[2]):
                v = self.ev(s[2], env)
                lines = self.bind(s[1], v, env)
                return "".join(I + ln + "\n" for ln in lines) + cont(env, None, d)
            if s[2][0] == "mcall" and s[2][2] == "div_rem":
                num = self.ev(s[2][1], env)
                den = self.ev(s[2][3][0], env)
                v = ("tup", [Z("Z.quot %s %s" % (par(num[1]), par(den[1]))), Z("Z.rem %s %s" % (par(num[1]), par(den[1])))])
                lines = self.bind(s[1], v, env)
                return (I + "if %s =? 0 then Panic DivideBy0 else\n" % par(den[1])
                        + "".join(I + ln + "\n" for ln in lines) + cont(env, None, d))

            def kb(env2, v, d2):
                env2 = dict(env2)
                lines = self.bind(s[1], v, env2)
                return "".join(self.ind(d2) + ln + "\n" for ln in lines) + cont(env2, None, d2)
            return self.run_expr(s[2], env, kb, d, loop)
        if s[0] == "assign":
            op, target, rhs = s[1], s[2], s[3]
            v = self.ev(rhs, env)
            if op in ("+=", "-="):
                cur = self.ev(target, env)
                v = self.binop(op[0], cur, v)
            lines = self.assign(target, v, env)
            return "".join(I + ln + "\n" for ln in lines) + cont(env, None, d)
        if s[0] == "return":
            v = self.ev(s[1], env)
            return self.emit_value_lets(v, d, lambda v2: self.ret(v2, d))
        if s[0] == "break":
            if loop is None:
                raise Unparsed("break outside a loop")
            return I + loop["exit"](env) + "\n"
        if s[0] == "while":
            return self.run_while(s, env, cont, d)
        if s[0] == "expr":
            e = s[1]
            if e[0] == "macro":
                return cont(env, None, d)
            if e[0] == "call" and e[1][-1] == "shl_digits_in_place":
                x = self.ev(e[2][0], env)
                kk = self.ev(e[2][1], env)
                lines = self.assign(e[2][0], Z("shl_digits B %s %s" % (par(x[1]), par(kk[1]))), env)
                return "".join(I + ln + "\n" for ln in lines) + cont(env, None, d)
            if e[0] == "call" and e[1][-1] == "assert_limited_precision":
                return I + "if p =? 0 then Panic UnlimitedPrecision else\n" + cont(env, None, d)
            if e[0] == "call" and e[1][-1] in ("assert_finite", "assert_finite_operands"):
                return cont(env, None, d)
            if e[0] == "if" and self.mutation_only(e[2]) and (e[3] is None or (e[3][0] == "block" and self.mutation_only(e[3]))):
                return self.run_join_if(e, env, cont, d)
            return self.run_expr(e, env, cont, d, loop)
        raise Unparsed("statement " + s[0])

    def emit_value_lets(self, v, d, f):
        """values built by Repr::new carry their normalisation: bind it once before the value is used"""
        return self.ind(d) + f(v) + "\n"

    def run_expr(self, e, env, k, d, loop):
        I = self.ind(d)
        if self.pure_expr(e):
            return k(env, self.ev(e, env), d)
        if e[0] == "if":
            c = self.ev(e[1], env)
            th = self.run(e[2][1], e[2][2], env, k, d + 1, loop)
            if e[3] is None:
                el = k(env, ("unit",), d + 1)
            elif e[3][0] == "block":
                el = self.run(e[3][1], e[3][2], env, k, d + 1, loop)
            else:
                el = self.run_expr(e[3], env, k, d + 1, loop)
            return I + "if %s then\n" % c[1] + th + I + "else\n" + el
        if e[0] == "match":
            sc = self.ev(e[1], env)
            out = I + "match %s with\n" % sc[1]
            for pat, body in e[2]:
                out += I + "| %s =>\n" % ORDER.get(pat, pat)
                if body[0] == "block":
                    out += self.run(body[1], body[2], env, k, d + 2, loop)
                else:
                    out += self.run_expr(body, env, k, d + 2, loop)
            return out + I + "end\n"
        if e[0] == "block":
            return self.run(e[1], e[2], env, k, d, loop)
        if e[0] == "call" and e[1][-1] == "panic_root_negative":
            return I + "Panic RootNegative\n"
        raise Unparsed("impure expression " + e[0])

    # ---------------------------------------------------------------- an `if` that only assigns: joined, not duplicated
    def mutation_only(self, blk):
        if blk[2] is not None:
            return False
        for s in blk[1]:
            if s[0] == "let" and s[2] is not None and self.pure_expr(s[2]):
                continue
            if s[0] == "assign" and self.pure_expr(s[3]):
                continue
            if s[0] == "expr" and s[1][0] == "macro":
                continue
            if s[0] == "expr" and s[1][0] == "call" and s[1][1][-1] == "shl_digits_in_place":
                continue
            return False
        return True

    def carried_vars(self, blocks, env):
        carried = []
        for blk in blocks:
            for tgt in self.assigned(blk, []):
                pl = self.place_names(tgt, env)
                if pl[0] != "val":
                    raise Unparsed("branch assigns an undeclared variable")

                def leaves(v):
                    if v[0] == "tup":
                        for c in v[1]:
                            leaves(c)
                    elif v[0] == "repr":
                        raise Unparsed("assignment of a whole Repr")
                    else:
                        if not re.match(r"^\w+$", v[1]):
                            raise Unparsed("assigned place is not a variable")
                        if v[1] not in carried:
                            carried.append(v[1])
                leaves(pl[2])
        return carried

    def run_join_if(self, e, env, cont, d):
        I = self.ind(d)
        blocks = [e[2]] + ([e[3]] if e[3] is not None else [])
        carried = self.carried_vars(blocks, env)
        if not carried:
            return cont(env, None, d)
        tup = carried[0] if len(carried) == 1 else "(%s)" % ", ".join(carried)
        pat = carried[0] if len(carried) == 1 else "'(%s)" % ", ".join(carried)
        c = self.ev(e[1], env)

        def kend(env2, _v, d2):
            return self.ind(d2) + tup + "\n"
        th = self.run(e[2][1], None, env, kend, d + 2)
        el = self.run(e[3][1], None, env, kend, d + 2) if e[3] is not None else self.ind(d + 2) + tup + "\n"
        return (I + "let %s :=\n" % pat + self.ind(d + 1) + "if %s then\n" % c[1] + th + self.ind(d + 1) + "else\n" + el.rstrip("\n") + " in\n"
                + cont(env, None, d))

    # ---------------------------------------------------------------- loops
    def assigned(self, blk, acc):
        for s in blk[1]:
            if s[0] == "assign":
                acc.append(s[2])
            elif s[0] == "expr" and s[1][0] == "call" and s[1][1][-1] == "shl_digits_in_place":
                acc.append(s[1][2][0])
            elif s[0] == "expr" and s[1][0] == "if":
                self.assigned(s[1][2], acc)
                if s[1][3] is not None and s[1][3][0] == "block":
                    self.assigned(s[1][3], acc)
            elif s[0] == "while":
                raise Unparsed("nested loop")
        return acc

    def run_while(self, s, env, cont, d):
        if self.nloops:
            raise Unparsed("second loop in " + self.fname)
        self.nloops += 1
        I = self.ind(d)
        cond, body = s[1], s[2]
        # the loop-carried variables: the Gallina variables behind every assigned place
        carried = []
        for tgt in self.assigned(body, []):
            pl = self.place_names(tgt, env)
            if pl[0] != "val":
                raise Unparsed("loop assigns an undeclared variable")

            def leaves(v):
                if v[0] == "tup":
                    for c in v[1]:
                        leaves(c)
                elif v[0] == "repr":
                    raise Unparsed("loop assigns a Repr")
                else:
                    if not re.match(r"^\w+$", v[1]):
                        raise Unparsed("loop-carried place is not a variable")
                    if v[1] not in carried:
                        carried.append(v[1])
            leaves(pl[2])
        # free variables: every simple variable of the environment that the loop text mentions
        text = repr((cond, body))
        free = []
        for n, v in env.items():
            if v is None or not re.search(r"'%s'" % re.escape(n), text):
                continue

            def fl(v):
                if v[0] == "tup":
                    for c in v[1]:
                        fl(c)
                elif v[0] == "repr":
                    for t in (v[1], v[2]):
                        if re.match(r"^\w+$", t) and t not in carried and t not in free:
                            free.append(t)
                elif len(v) > 1 and isinstance(v[1], str) and re.match(r"^[A-Za-z_]\w*$", v[1]):
                    if v[1] not in carried and v[1] not in free:
                        free.append(v[1])
            fl(v)
        lname = "%s_loop" % self.fname_gen
        tup = "(%s)" % ", ".join(carried)
        loopinfo = {"exit": lambda env2: "Some %s" % tup}

        def kend(env2, _v, d2):
            return self.ind(d2) + "%s fuel' p m %s\n" % (lname, " ".join(free + carried))
        c = self.ev(cond, env)
        bodytxt = self.run(body[1], body[2], env, kend, 3, loopinfo)
        kinds = dict()
        for n, v in env.items():
            def kl(v):
                if v is None:
                    return
                if v[0] == "tup":
                    for cc in v[1]:
                        kl(cc)
                elif v[0] != "repr" and len(v) > 1 and isinstance(v[1], str):
                    kinds[v[1]] = v[0]
            kl(v)
        tyof = {"z": "Z", "b": "bool", "sign": "sign"}
        sig = " ".join("(%s : %s)" % (n, tyof[kinds.get(n, "z")]) for n in free + carried)
        self.aux.append(
            "Fixpoint %s (fuel : nat) (p : Z) (m : mode) %s : option (%s) :=\n" % (lname, sig, " * ".join("Z" for _ in carried))
            + "  if %s then\n    match fuel with\n    | O => None\n    | S fuel' =>\n" % c[1]
            + bodytxt + "    end\n  else Some %s.\n" % tup)
        fuel = LOOP_FUEL.get(self.fname)
        if fuel is None:
            raise Unparsed("no fuel given for the loop of " + self.fname)
        if not self.fallible:
            raise Unparsed("loop in a pure function")
        return (I + "match %s %s p m %s with\n" % (lname, fuel, " ".join(free + carried))
                + I + "| Some %s =>\n" % tup + cont(env, None, d + 1)
                + I + "| None => OutOfFuel\n" + I + "end\n")

    # ---------------------------------------------------------------- a whole function
    def function(self, gname, blk):
        self.fname_gen = gname
        body = self.run(blk[1], blk[2], dict(self.env0), lambda env, v, d: self.ind(d) + self.ret(v, d) + "\n", 1)
        ty = "result approx" if self.fallible else "approx"
        return "".join(a + "\n" for a in self.aux) + "Definition %s (p : Z) (m : mode) %s : %s :=\n%s." % (
            gname, self.params, ty, body.rstrip("\n"))


def R(s, e):
    return ("repr", s, e)


def tidy(txt):
    """`let x := v in` lines followed by deeper text etc. are fine for Coq; only drop blank lines"""
    return "\n".join(ln for ln in txt.split("\n") if ln.strip() != "")


HEAD_ADD = """(** GENERATED by tools/translate_c03_r4.py from float/src/add.rs - do not edit.
    Whole bodies of Context::repr_round_sum / repr_add_large_small / repr_add_small_large / add / sub. *)
From Dashu Require Import Base.Prelude Float.RoundSpec Float.Contract Float.Model Float.AddModel Float.DivMulModel Float.LongModel.
From DashuGen Require Import RoundTables.
Open Scope Z_scope.

Section FloatAddBodies.
Variable B : Z.
Variable digits_ub : Z -> Z.
"""

HEAD_OP = """(** GENERATED by tools/translate_c03_r4.py from float/src/mul.rs, div.rs, root.rs - do not edit.
    Whole bodies of Context::mul / sqr / cubic, Context::repr_div / div / inv, Context::sqrt. *)
From Dashu Require Import Base.Prelude Float.RoundSpec Float.Contract Float.Model Float.AddModel Float.DivMulModel Float.LongModel.
From DashuGen Require Import RoundTables.
Open Scope Z_scope.

(** Approximation<IBig, Rounding> (the integer root before it becomes a Repr) and its map into a Repr *)
Inductive zapprox := ZExact (v : Z) | ZInexact (v : Z) (r : rounding).
Definition zapprox_map_repr (a : zapprox) (f : Z -> Z * Z) : approx :=
  match a with
  | ZExact v => let '(s, e) := f v in AExact s e
  | ZInexact v r => let '(s, e) := f v in AInexact s e r
  end.

Section FloatOpBodies.
Variable B : Z.
"""


def render_add(repo):
    with open(os.path.join(repo, "float/src/add.rs"), encoding="utf-8") as f:
        src = strip_comments(f.read())
    out = [HEAD_ADD]
    calls = {}
    # Context::repr_round_sum(significand, exponent, low, is_sub)
    ex = Exec("repr_round_sum", True, "(significand exponent low_0 low_1 : Z) (is_sub : bool)",
              {"significand": Z("significand"), "exponent": Z("exponent"),
               "low": ("tup", [Z("low_0"), Z("low_1")]), "is_sub": ("b", "is_sub")}, calls)
    out.append(ex.function("rrs_gen", fn_body(src, r"fn repr_round_sum<const B: Word>\(", "repr_round_sum")) + "\n")
    calls["repr_round_sum"] = ("rrs_gen", True, None)
    for rust, gname in (("repr_add_large_small", "large_small_gen"), ("repr_add_small_large", "small_large_gen")):
        ex = Exec(rust, True, "(s1 e1 s2 e2 : Z) (sg : sign)",
                  {"lhs": R("s1", "e1"), "rhs": R("s2", "e2"), "rhs_sign": ("sign", "sg")}, calls)
        out.append(ex.function(gname, fn_body(src, r"fn %s<const B: Word>\(" % rust, rust)) + "\n")
        calls[rust] = (gname, True, None)
    for rust, gname in (("add", "ctx_add_gen"), ("sub", "ctx_sub_gen")):
        ex = Exec(rust, True, "(s1 e1 s2 e2 : Z)", {"lhs": R("s1", "e1"), "rhs": R("s2", "e2")}, calls)
        out.append(ex.function(gname, fn_body(src, r"pub fn %s<const B: Word>\(" % rust, "Context::" + rust)) + "\n")
    out.append("End FloatAddBodies.\n")
    return tidy("\n".join(out)) + "\n"


def render_op(repo):
    def rd(n):
        with open(os.path.join(repo, "float/src", n), encoding="utf-8") as f:
            return strip_comments(f.read())
    out = [HEAD_OP]
    mul, div, root = rd("mul.rs"), rd("div.rs"), rd("root.rs")
    ex = Exec("mul", False, "(s1 e1 s2 e2 : Z)", {"lhs": R("s1", "e1"), "rhs": R("s2", "e2")}, {})
    out.append(ex.function("ctx_mul_gen", fn_body(mul, r"pub fn mul<const B: Word>\(", "Context::mul")) + "\n")
    for rust, gname in (("sqr", "ctx_sqr_gen"), ("cubic", "ctx_cubic_gen")):
        ex = Exec(rust, False, "(s e : Z)", {"f": R("s", "e")}, {})
        out.append(ex.function(gname, fn_body(mul, r"pub fn %s<const B: Word>\(" % rust, "Context::" + rust)) + "\n")
    calls = {}
    ex = Exec("repr_div", True, "(s1 e1 s2 e2 : Z)", {"lhs": R("s1", "e1"), "rhs": R("s2", "e2")}, calls)
    out.append(ex.function("repr_div_gen", fn_body(div, r"pub\(crate\) fn repr_div<const B: Word>\(", "repr_div")) + "\n")
    calls["repr_div"] = ("repr_div_gen", True, None)
    ex = Exec("div", True, "(s1 e1 s2 e2 : Z)", {"lhs": R("s1", "e1"), "rhs": R("s2", "e2")}, calls)
    out.append(ex.function("ctx_div_gen", fn_body(div, r"pub fn div<const B: Word>\(", "Context::div")) + "\n")
    ex = Exec("inv", True, "(s e : Z)", {"f": R("s", "e")}, calls)
    out.append(ex.function("ctx_inv_gen", fn_body(div, r"pub fn inv<const B: Word>\(", "Context::inv")) + "\n")
    ex = Exec("sqrt", True, "(s e : Z)", {"x": R("s", "e")}, {})
    out.append(ex.function("ctx_sqrt_gen", fn_body(root, r"pub fn sqrt<const B: Word>\(", "Context::sqrt")) + "\n")
    out.append("End FloatOpBodies.\n")
    return tidy("\n".join(out)) + "\n"


FILES = (("FloatAddBodies.v", render_add), ("FloatOpBodies.v", render_op))


def _write_if_changed(path, txt):
    old = None
    if os.path.exists(path):
        with open(path) as f:
            old = f.read()
    if old != txt:
        tmp = path + ".tmp%d" % os.getpid()
        with open(tmp, "w") as f:
            f.write(txt)
        os.replace(tmp, path)


def generate(repo, outdir):
    """regenerates FloatAddBodies.v / FloatOpBodies.v under outdir; returns {file: "ok" | "unparsed <why>"}.  Never raises."""
    res = {}
    for fname, fn in FILES:
        path = os.path.join(outdir, fname)
        try:
            os.makedirs(outdir, exist_ok=True)
            try:
                txt = fn(repo)
            except (Unparsed, OSError, UnicodeDecodeError, RecursionError, ValueError, KeyError, IndexError, TypeError) as ex:
                why = re.sub(r"\s+", " ", "%s %s" % (ex.__class__.__name__, ex)).strip()[:200]
                if os.path.exists(path):
                    with open(path) as f:
                        old = f.read()
                    if not old.startswith(STALE):
                        _write_if_changed(path, STALE + " " + old)
                res[fname] = "unparsed " + why
                continue
            _write_if_changed(path, txt)
            res[fname] = "ok"
        except Exception as ex:  # never an alarm
            res[fname] = "unparsed internal %s" % re.sub(r"\s+", " ", repr(ex))[:160]
    return res


def main():
    ap = argparse.ArgumentParser()
    ap.add_argument("--repo", default=os.environ.get("VERIF_REPO", "/repo"))
    ap.add_argument("--out", required=True)
    a = ap.parse_args()
    for fname, st in generate(a.repo, a.out).items():
        print("FRAGMENT %s %s" % (fname, st))
    return 0


if __name__ == "__main__":
    sys.exit(main())
