#!/usr/bin/env python3
"""Validates the extraction mappings (ExtrOcamlZBigInt + our FastZ.v directives): the probe of
coq/extract/FastZProbe.v is extracted twice - pure (ExtrOcamlBasic only, Z stays the Coq inductive)
and fast (FastZ) - and both binaries must agree on a few thousand inputs per operation.
Result cached by the hash of the inputs; prints `fastz-selftest ok <n>` or the disagreements."""
import os
import shutil
import subprocess
import sys

sys.path.insert(0, os.path.dirname(os.path.abspath(__file__)))
import core

ROOT = core.ROOT


def build(kind):
    src = [os.path.join(ROOT, "coq/extract/FastZProbe.v"), os.path.join(ROOT, "coq/extract/FastZ.v"),
           os.path.join(ROOT, "oracle/selftest/driver_%s.ml" % kind), os.path.join(ROOT, "oracle/zar.ml"), os.path.join(ROOT, "oracle/zfast.ml")]
    key = core.file_hash(src)
    d = os.path.join(core.CACHE, "fastz", kind + "-" + key)
    exe = os.path.join(d, "probe")
    if os.path.exists(exe):
        return exe
    tmp = d + ".tmp"
    shutil.rmtree(tmp, ignore_errors=True)
    os.makedirs(tmp)
    for f in src[:2]:
        shutil.copy(f, tmp)
    hdr = "Require Import FastZ.\n" if kind == "fast" else "Require Import ExtrOcamlBasic.\n"
    open(os.path.join(tmp, "Ex.v"), "w").write(hdr + 'Require Import FastZProbe.\nExtraction "model.ml" probe.\n')
    steps = [["coqc", "-w", "-all", "FastZProbe.v"]]
    if kind == "fast":
        steps.append(["coqc", "-w", "-all", "FastZ.v"])
    steps.append(["coqc", "-w", "-all", "Ex.v"])
    for s in steps:
        rc, out = core.run(s, cwd=tmp, timeout=600)
        if rc != 0:
            raise RuntimeError(out[-2000:])
    shutil.copy(os.path.join(ROOT, "oracle/zar.ml"), tmp)
    shutil.copy(os.path.join(ROOT, "oracle/zfast.ml"), os.path.join(tmp, "zconv.ml"))
    shutil.copy(os.path.join(ROOT, "oracle/selftest/driver_%s.ml" % kind), os.path.join(tmp, "driver.ml"))
    files = ["zar.ml", "model.mli", "model.ml"] + (["zconv.ml"] if kind == "fast" else []) + ["driver.ml"]
    rc, out = core.run(["ocamlfind", "ocamlopt", "-w", "-a", "-package", "zarith", "-linkpkg"] + files + ["-o", "probe"], cwd=tmp, timeout=600)
    if rc != 0:
        raise RuntimeError(out[-2000:])
    shutil.rmtree(d, ignore_errors=True)
    os.rename(tmp, d)
    return exe


def inputs(seed=1):
    rng = core.Rng(seed)
    edge = [0, 1, -1, 2, -2, 3, 7, -7, 8, 63, 64, 65, 255, 256, (1 << 64) - 1, 1 << 64, -(1 << 64), (1 << 64) + 1, (1 << 127), -(1 << 128) + 1]
    lines = []
    for op in range(46):
        small_b = op in (13, 16, 17, 18, 41, 42)
        pairs = [(a, b) for a in edge for b in edge]
        for _ in range(150):
            a = rng.bits(rng.choice([3, 17, 64, 65, 130, 200])) * rng.choice([1, -1])
            b = rng.bits(rng.choice([2, 5, 64, 66, 100])) * rng.choice([1, -1])
            pairs.append((a, b))
        for a, b in pairs:
            if small_b:
                b = abs(b) % 300 if op != 13 else b % 300
                if op == 16:
                    b = abs(b) % 40
                    a = a % (1 << 70) if abs(a) > (1 << 70) else a
            lines.append("%d %s %s" % (op, core.hx(a), core.hx(b)))
    return lines


def main():
    stamp = os.path.join(core.CACHE, "fastz", "ok-" + core.file_hash([os.path.join(ROOT, "coq/extract/FastZProbe.v"), os.path.join(ROOT, "coq/extract/FastZ.v"), os.path.join(ROOT, "oracle/selftest/driver_fast.ml"), os.path.join(ROOT, "oracle/selftest/driver_pure.ml"), os.path.abspath(__file__)]))
    if os.path.exists(stamp):
        print(open(stamp).read().strip())
        return 0
    with core.Lock("fastz"):
        fast, pure = build("fast"), build("pure")
        lines = inputs()
        data = "\n".join(lines) + "\n"
        o1 = subprocess.run([fast], input=data, capture_output=True, text=True, timeout=900).stdout.splitlines()
        o2 = subprocess.run([pure], input=data, capture_output=True, text=True, timeout=900).stdout.splitlines()
        bad = [(l, x, y) for l, x, y in zip(lines, o1, o2) if x != y]
        if len(o1) != len(lines) or len(o2) != len(lines):
            print("fastz-selftest FAILED: answer counts %d/%d of %d" % (len(o1), len(o2), len(lines)))
            return 1
        if bad:
            print("fastz-selftest FAILED: %d disagreements, e.g. %r" % (len(bad), bad[:5]))
            return 1
        msg = "fastz-selftest ok %d inputs over 46 operations (pure vs fast extraction agree)" % len(lines)
        os.makedirs(os.path.dirname(stamp), exist_ok=True)
        open(stamp, "w").write(msg + "\n")
        print(msg)
        return 0


if __name__ == "__main__":
    sys.exit(main())
