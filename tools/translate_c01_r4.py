#!/usr/bin/env python3
"""Loop-to-fold translator (C01 round 4): Rust word-slice kernels -> Gallina functions over word lists.

IMPORTABLE LIBRARY (no side effects at import).  Entry points:

  parse_fns(src) -> {name: FnAst}
        every `fn name(params) -> ret { body }` of a Rust source text (bodies parsed lazily: a function that
        cannot be parsed only fails when it is translated).
  Translator(prims=None, consts=None, suffix="_gen")
        .add_source(text, module="add")   register the functions of a source file; `module` is the prefix under
                                          which other files call them (`add::add_word_in_place`, `mul::...`)
        .translate(names) -> [(name, status, gallina_text)]   status = "ok" | "unparsed <why>"; the text of an
                                          ok function is its auxiliary loop Fixpoints + one Definition `<name>_gen`
        .sigs                             {name: Sig} of everything translated so far (callable from later ones)
     prims:  {"callee or .method": Prim(fmt, argtypes, rettype)} extra atoms (see PRIMS below for the format)
     consts: {"CHUNK_LEN": ("mul_simple_chunk_len", "nat")} named constants -> (Gallina term, type)
  emit_file(header_lines, results) -> str     the text of a .v file from translate() results
  generate(repo, outdir) -> "ok" | "ok unparsed=<names>" | "unparsed <why>"
        the C01 instance: coq/gen/WordKernelsGen.v from integer/src/{add.rs,math.rs,mul/mod.rs,mul/simple.rs,shift.rs};
        never raises; on failure the previous copy is kept and marked (* STALE *).
  python3 tools/translate_c01_r4.py --repo /repo --out coq/gen     command-line form of generate()

WHAT IS TRANSLATED.  A function over `&mut [Word]` / `&[Word]` / Word / DoubleWord / SignedWord / bool / usize /
Sign becomes a pure function `f_gen (w : Z) args` returning (new contents of every `&mut [Word]` parameter in
order ..., return value).  Word size is the parameter `w` (B w = 2^w).  Types: slices -> list Z, words -> Z,
usize -> nat, bool, Sign -> sign.
  statements   let (tuple patterns, mut), `*x = e`, `x = e`, `x += e`, `x[i] = e`, if / if-else (assigned variables
               are merged as a tuple), `if c { return e; }`, return, match on Sign / tuples / cmp, debug_assert!s dropped
  loops        `for x in xs` / `xs.iter_mut()` / `xs.iter()`, `for (a, b) in xs.iter_mut().zip(ys.iter())` (either
               side mutable), `for (i, m) in ys.iter().enumerate()`, `for chunk in &mut ws.chunks_exact_mut(2)` +
               `into_remainder()`: each loop becomes a structural `Fixpoint <fn>_loop<k>` over the iterated list(s);
               variables assigned in the body become accumulator arguments/results; `return e` inside the body
               becomes an `option` component (early exit keeps the untouched tail)
  slices       split_first_mut().unwrap(), split_at_mut(n), first_mut().unwrap(), `&mut x[a..b]` as call argument
               (written back with firstn/skipn), x[i], x.len(), x.is_empty(), copy_from_slice
  words        overflowing_add/sub, wrapping_add/sub/mul, split_dword, double_word, extend_word, Word::MAX,
               Word::from(bool), SignedWord::from(bool), to_sign_magnitude, + - * on Word/DoubleWord as exact
               integer operations (an overflow is a panic in the checked build; the contracts proved about the
               hand models show the ranges fit), arch::add::add_with_carry / sub_with_borrow as atoms (RingAdd.v,
               tied to the source by C19)
  `.unwrap()` of an empty slice is a panic in Rust: the generated function returns the slices as they are and the
  zero value of the return type there (the hand models do the same; no caller reaches it).
Anything else raises Unparsed -> the function is reported `unparsed` (never an alarm) and simply not emitted.
`while` loops are translated with fuel (a `nat` argument `fuel`, result flagged by an `option`): see `while_loop`.
"""
import argparse
import os
import re
import sys


class Unparsed(Exception):
    pass


# ------------------------------------------------------------------------------------------------ tokenizer
TOK = re.compile(
    r"\s*(?:(//[^\n]*)|(/\*.*?\*/)|([A-Za-z_][A-Za-z0-9_]*!?)|(\d[\d_]*(?:[a-zA-Z]\w*)?|\"(?:[^\"\\\\]|\\\\.)*\")"
    r"|(\.\.=|\.\.|=>|==|!=|>=|<=|&&|\|\||::|->|<<|>>|\+=|-=|\*=|[-+*/%!&|^(){}\[\],;=<>.:#?']))",
    re.S,
)
ASSERTS = ("debug_assert!", "debug_assert_eq!", "assert!", "assert_eq!", "debug_assert_zero!")


def tokenize(src):
    pos, out = 0, []
    while pos < len(src):
        m = TOK.match(src, pos)
        if not m:
            if src[pos:].strip() == "":
                break
            raise Unparsed("cannot tokenize at %r" % src[pos:pos + 30])
        pos = m.end()
        if m.group(1) or m.group(2):
            continue
        out.append(m.group(3) or m.group(4) or m.group(5))
    return out


# ------------------------------------------------------------------------------------------------ parser
class Parser:
    """Rust subset -> tuples.  Expressions: num bool var path un ref bin call mcall field index range tuple cast
    if match block.  Statements: let assign expr return for while."""
    PREC = [("||",), ("&&",), ("==", "!=", "<", ">", "<=", ">="), ("|",), ("^",), ("&",), ("<<", ">>"), ("+", "-"), ("*", "/", "%")]

    def __init__(self, toks):
        self.t, self.i = toks, 0

    def peek(self, k=0):
        return self.t[self.i + k] if self.i + k < len(self.t) else None

    def at(self, x):
        return self.peek() == x

    def eat(self, x=None):
        tok = self.peek()
        if tok is None or (x is not None and tok != x):
            raise Unparsed("expected %r, found %r near `%s`" % (x, tok, " ".join(self.t[max(0, self.i - 5):self.i + 3])))
        self.i += 1
        return tok

    def skip_parens(self):
        self.eat("(")
        d = 1
        while d:
            t = self.eat()
            d += (t == "(") - (t == ")")

    def type_(self):
        out, d = [], 0
        while True:
            t = self.peek()
            if t is None or (d == 0 and t in ("=", ";", ",", ")", "{")):
                break
            d += (t in ("(", "[", "<")) - (t in (")", "]", ">"))
            out.append(self.eat())
        return " ".join(out)

    def block(self):
        self.eat("{")
        stmts, final = [], None
        while not self.at("}"):
            if self.at("let"):
                self.eat()
                mut = False
                if self.at("mut"):
                    self.eat()
                    mut = True
                pat = self.pattern()
                ty = None
                if self.at(":"):
                    self.eat()
                    ty = self.type_()
                self.eat("=")
                e = self.expr()
                self.eat(";")
                stmts.append(("let", pat, ty, e, mut))
            elif self.at("return"):
                self.eat()
                e = None
                if not self.at(";") and not self.at("}"):
                    e = self.expr()
                if self.at(";"):
                    self.eat()
                stmts.append(("return", e))
            elif self.at("for"):
                self.eat()
                pat = self.pattern()
                self.eat("in")
                it = self.expr(nostruct=True)
                stmts.append(("for", pat, it, self.block()))
            elif self.at("while"):
                self.eat()
                c = self.expr(nostruct=True)
                stmts.append(("while", c, self.block()))
            elif self.peek() in ASSERTS:
                self.eat()
                self.skip_parens()
                if self.at(";"):
                    self.eat()
            else:
                e = self.expr()
                if self.peek() in ("=", "+=", "-=", "*="):
                    op = self.eat()
                    r = self.expr()
                    self.eat(";")
                    stmts.append(("assign", e, op, r))
                elif self.at(";"):
                    self.eat()
                    stmts.append(("expr", e))
                elif self.at("}"):
                    final = e
                elif e[0] in ("if", "match", "block"):
                    stmts.append(("expr", e))
                else:
                    raise Unparsed("unexpected token %r after expression" % self.peek())
        self.eat("}")
        return ("block", stmts, final)

    def pattern(self):
        if self.at("("):
            self.eat()
            ps = []
            while not self.at(")"):
                ps.append(self.pattern())
                if self.at(","):
                    self.eat()
            self.eat(")")
            return ("ptuple", ps)
        if self.at("&"):
            self.eat()
            return self.pattern()
        tok = self.eat()
        if tok == "mut":
            tok = self.eat()
        if tok == "_":
            return ("pwild",)
        path = [tok]
        while self.at("::"):
            self.eat()
            path.append(self.eat())
        name = path[-1]
        if self.at("("):
            self.eat()
            args = []
            while not self.at(")"):
                args.append(self.pattern())
                if self.at(","):
                    self.eat()
            self.eat(")")
            return ("pctor", name, args)
        if re.match(r"^\d", name):
            return ("plit", int(re.sub(r"[_a-zA-Z].*$", "", name)))
        if name in ("true", "false"):
            return ("plit", name)
        if name[0].isupper():
            return ("pctor", name, [])
        return ("pvar", name)

    def expr(self, lvl=0, nostruct=False):
        if lvl == len(self.PREC):
            return self.unary(nostruct)
        lhs = self.expr(lvl + 1, nostruct)
        while self.peek() in self.PREC[lvl]:
            op = self.eat()
            lhs = ("bin", op, lhs, self.expr(lvl + 1, nostruct))
        return lhs

    def unary(self, nostruct):
        t = self.peek()
        if t in ("!", "-", "*"):
            self.eat()
            return ("un", t, self.unary(nostruct))
        if t == "&":
            self.eat()
            mut = False
            if self.at("mut"):
                self.eat()
                mut = True
            return ("ref", mut, self.unary(nostruct))
        e = self.postfix(nostruct)
        while self.at("as"):
            self.eat()
            ty = self.eat()
            while self.at("::"):
                self.eat()
                ty = self.eat()
            e = ("cast", e, ty)
        return e

    def postfix(self, nostruct):
        e = self.primary(nostruct)
        while True:
            if self.at("."):
                self.eat()
                name = self.eat()
                if self.at("::"):
                    self.eat()
                    self.eat("<")
                    while not self.at(">"):
                        self.eat()
                    self.eat(">")
                if self.at("("):
                    e = ("mcall", e, name, self.args())
                else:
                    e = ("field", e, name)
            elif self.at("["):
                self.eat()
                lo = hi = None
                if self.at(".."):
                    self.eat()
                    if not self.at("]"):
                        hi = self.expr()
                    idx = ("range", None, hi)
                else:
                    lo = self.expr()
                    if self.at(".."):
                        self.eat()
                        if not self.at("]"):
                            hi = self.expr()
                        idx = ("range", lo, hi)
                    else:
                        idx = lo
                self.eat("]")
                e = ("index", e, idx)
            elif self.at("?"):
                raise Unparsed("`?` operator")
            else:
                return e

    def args(self):
        self.eat("(")
        a = []
        while not self.at(")"):
            a.append(self.expr())
            if self.at(","):
                self.eat()
        self.eat(")")
        return a

    def primary(self, nostruct):
        t = self.peek()
        if t == "(":
            self.eat()
            es, trailing = [], False
            while not self.at(")"):
                es.append(self.expr())
                trailing = False
                if self.at(","):
                    self.eat()
                    trailing = True
            self.eat(")")
            return es[0] if len(es) == 1 and not trailing else ("tuple", es)
        if t == "{":
            return self.block()
        if t == "if":
            self.eat()
            if self.at("let"):
                raise Unparsed("if let")
            c = self.expr(nostruct=True)
            th = self.block()
            el = None
            if self.at("else"):
                self.eat()
                el = ("block", [], self.primary(nostruct)) if self.at("if") else self.block()
            return ("if", c, th, el)
        if t == "match":
            self.eat()
            scrut = self.expr(nostruct=True)
            self.eat("{")
            arms = []
            while not self.at("}"):
                pat = self.pattern()
                self.eat("=>")
                body = self.expr()
                if self.at(","):
                    self.eat()
                arms.append((pat, body))
            self.eat("}")
            return ("match", scrut, arms)
        if t is None:
            raise Unparsed("unexpected end of input")
        self.eat()
        if t in ("|", "||", "move"):
            raise Unparsed("closure")
        if re.match(r"^\d", t):
            return ("num", int(re.sub(r"[a-zA-Z].*$", "", t.replace("_", ""))))
        if t.endswith("!"):
            raise Unparsed("macro %s" % t)
        path = [t]
        while self.at("::"):
            self.eat()
            if self.at("<"):
                while not self.at(">"):
                    self.eat()
                self.eat(">")
                continue
            path.append(self.eat())
        name = "::".join(path)
        if self.at("("):
            return ("call", name, self.args())
        if name in ("true", "false"):
            return ("bool", name)
        if len(path) > 1 or name[0].isupper():
            return ("path", name)
        return ("var", name)


# ------------------------------------------------------------------------------------------------ function headers
class FnAst:
    def __init__(self, name, params, ret, body_src):
        self.name, self.params, self.ret, self.body_src = name, params, ret, body_src
        self._body = None

    def body(self):
        if self._body is None:
            self._body = Parser(tokenize(self.body_src)).block()
        return self._body


def _balanced(src, start, o="{", c="}"):
    d, i = 0, start
    while i < len(src):
        ch = src[i]
        if ch == "/" and src[i:i + 2] == "//":
            i = src.index("\n", i)
            continue
        if ch == o:
            d += 1
        elif ch == c:
            d -= 1
            if d == 0:
                return i + 1
        i += 1
    raise Unparsed("unbalanced %s" % o)


def classify_type(ty):
    """Rust type text -> (gallina kind, is `&mut` slice).  kind None = parameter to drop (scratch memory)."""
    t = re.sub(r"'\w+\s*", "", ty).replace(" ", "")
    if t in ("&mut[Word]",):
        return "list", True
    if t in ("&[Word]", "Buffer", "&Buffer"):
        return "list", False
    if t in ("&mutBuffer",):
        return "list", True
    if t in ("Word", "DoubleWord", "SignedWord", "SignedDoubleWord", "u8", "u32", "u64", "u128", "i8", "i32", "i64", "i128"):
        return "Z", False
    if t == "bool":
        return "bool", False
    if t == "usize":
        return "nat", False
    if t == "Sign":
        return "sign", False
    if t in ("&mutMemory", "&mutMemory<'_>", "&mutMemory<>"):
        return None, False
    if t.startswith("(") and t.endswith(")"):
        parts = _split_top(t[1:-1])
        return ("tuple", [classify_type(p)[0] for p in parts]), False
    if t == "":
        return "unit", False
    raise Unparsed("type %s" % ty)


def _split_top(s):
    out, d, cur = [], 0, ""
    for ch in s:
        if ch in "([<":
            d += 1
        elif ch in ")]>":
            d -= 1
        if ch == "," and d == 0:
            out.append(cur)
            cur = ""
        else:
            cur += ch
    if cur.strip():
        out.append(cur)
    return [x.strip() for x in out]


FN_RE = re.compile(r"\bfn\s+([a-z_][a-z0-9_]*)\s*(<[^>(]*>)?\s*\(")


def parse_fns(src):
    """{name: FnAst} for every fn of the source text (test modules included; first definition wins)"""
    out = {}
    for m in FN_RE.finditer(src):
        name = m.group(1)
        try:
            pend = _balanced(src, m.end() - 1, "(", ")")
            rest = src[pend:]
            b0 = rest.index("{")
            semi = rest.find(";")
            if 0 <= semi < b0:
                continue
            ret = rest[:b0].strip()
            ret = ret[2:].strip() if ret.startswith("->") else ""
            if "where" in ret:
                ret = ret.split("where")[0].strip()
            body_end = _balanced(src, pend + b0)
            params = []
            for p in _split_top(src[m.end():pend - 1]):
                if not p or p in ("self", "&self", "&mut self"):
                    params.append(("self", "Self", False))
                    continue
                pn, pt = p.split(":", 1)
                pn = pn.strip()
                ismut = pn.startswith("mut ")
                pn = pn[4:].strip() if ismut else pn
                params.append((pn, pt.strip(), ismut))
            if name not in out:
                out[name] = FnAst(name, params, ret, src[pend + b0:body_end])
        except (ValueError, Unparsed):
            continue
    return out


# ------------------------------------------------------------------------------------------------ atoms
class Prim:
    """fmt: Gallina format with {0} {1} .. for the arguments ({w} = word size); args: list of kinds; ret: kind"""
    def __init__(self, fmt, args, ret):
        self.fmt, self.args, self.ret = fmt, args, ret


ZZ = ("tuple", ["Z", "Z"])
ZB = ("tuple", ["Z", "bool"])
PRIMS = {
    # free functions (looked up by full path, then by last segment)
    "split_dword": Prim("(wsplit_dword w {0})", ["Z"], ZZ),
    "double_word": Prim("(wdouble_word w {0} {1})", ["Z", "Z"], "Z"),
    "extend_word": Prim("{0}", ["Z"], "Z"),
    "add_with_carry": Prim("(add_with_carry w {0} {1} {2})", ["Z", "Z", "bool"], ZB),
    "sub_with_borrow": Prim("(sub_with_borrow w {0} {1} {2})", ["Z", "Z", "bool"], ZB),
    # methods (".name", receiver first)
    ".overflowing_add": Prim("(ov_add w {0} {1})", ["Z", "Z"], ZB),
    ".overflowing_sub": Prim("(ov_sub w {0} {1})", ["Z", "Z"], ZB),
    ".wrapping_add": Prim("(wr_add w {0} {1})", ["Z", "Z"], "Z"),
    ".wrapping_sub": Prim("(wr_sub w {0} {1})", ["Z", "Z"], "Z"),
    ".wrapping_mul": Prim("(wr_mul w {0} {1})", ["Z", "Z"], "Z"),
    ".to_sign_magnitude": Prim("(to_sign_magnitude {0})", ["Z"], ("tuple", ["sign", "Z"])),
}
PATHS = {
    "Word::MAX": ("(B w - 1)", "Z"),
    "DoubleWord::MAX": ("(B w * B w - 1)", "Z"),
    "Positive": ("Positive", "sign"), "Negative": ("Negative", "sign"),
    "Sign::Positive": ("Positive", "sign"), "Sign::Negative": ("Negative", "sign"),
    "Greater": ("Gt", "cmp"), "Less": ("Lt", "cmp"), "Equal": ("Eq", "cmp"),
}
COQ_RESERVED = {"fuel'", "left", "right", "at", "as", "in", "end", "fun", "fix", "if", "then", "else", "let", "match", "with", "return",
                "S", "O", "B", "w", "value", "len", "mod", "rev", "map", "app", "nth", "length", "fst", "snd", "sign", "Some", "None",
                "sum", "prod", "pred", "xor", "max", "min", "nil", "cons", "fuel"}
DEFAULTS = {"Z": "0", "bool": "false", "nat": "0%nat", "sign": "Positive", "list": "[]"}


def gtype(k):
    if isinstance(k, tuple):
        return "(" + " * ".join(gtype(x) for x in k[1]) + ")"
    return {"Z": "Z", "bool": "bool", "nat": "nat", "sign": "sign", "list": "list Z", "cmp": "comparison"}[k]


def default_of(k):
    if isinstance(k, tuple):
        return "(" + ", ".join(default_of(x) for x in k[1]) + ")"
    return DEFAULTS[k]


def tup(xs):
    xs = list(xs)
    return xs[0] if len(xs) == 1 else "(" + ", ".join(xs) + ")"


def letpat(xs):
    xs = list(xs)
    return xs[0] if len(xs) == 1 else "'(" + ", ".join(xs) + ")"


class Binding:
    def __init__(self, rname, g, ty, mut=False):
        self.rname, self.g, self.ty, self.mut = rname, g, ty, mut
        self.view = None      # ("cons", elem, rest) | ("app", lo, hi): the slice was split, its value is rebuilt from the parts
        self.chunk = None     # for `chunk` of chunks_exact_mut(2): (lo_binding, hi_binding)
        self.chunks_of = None  # for `dwords = ws.chunks_exact_mut(2)`: source binding; after the loop (done, rem)

    def __repr__(self):
        return "<%s:%s>" % (self.g, self.ty)


class Sig:
    def __init__(self, name, gname, params, ret):
        self.name, self.gname, self.params, self.ret = name, gname, params, ret   # params: [(rname, kind, is_mut_slice)]

    def mut_params(self):
        return [p for p in self.params if p[2]]

    def result_kinds(self):
        ks = ["list" for _ in self.mut_params()]
        if self.ret != "unit":
            ks.append(self.ret)
        return ks


class Frame:
    def __init__(self):
        self.locals, self.reads, self.muts, self.views = set(), [], [], []
        self.returns = False




# ------------------------------------------------------------------------------------------------ compiler
class Translator:
    def __init__(self, prims=None, consts=None, suffix="_gen"):
        self.prims = dict(PRIMS)
        self.prims.update(prims or {})
        self.consts = dict(consts or {})
        self.suffix = suffix
        self.fns = {}        # name -> FnAst
        self.modules = {}    # "mul::name" -> name
        self.sigs = {}

    def add_source(self, text, module=None):
        for name, fa in parse_fns(text).items():
            if name not in self.fns:
                self.fns[name] = fa
                if module:
                    self.modules[module + "::" + name] = name

    # ---------------------------------------------------------------- driver
    def translate(self, names):
        out = []
        for name in names:
            try:
                if name not in self.fns:
                    raise Unparsed("fn %s not found" % name)
                text = self.function(self.fns[name])
                out.append((name, "ok", text))
            except Unparsed as ex:
                out.append((name, "unparsed " + re.sub(r"\s+", " ", str(ex))[:140], ""))
                self.register_header(name)
            except (RecursionError, IndexError, KeyError, TypeError, ValueError, AttributeError) as ex:
                out.append((name, "unparsed internal %s %s" % (ex.__class__.__name__, re.sub(r"\s+", " ", str(ex))[:100]), ""))
                self.register_header(name)
        return out

    def register_header(self, name):
        """a function whose BODY could not be translated keeps its last good copy in the emitted file: its callers can
        still be translated against its signature (read from the header alone)"""
        try:
            fa = self.fns[name]
            params = []
            for (pn, pt, pm) in fa.params:
                kind, ismut = classify_type(pt)
                if kind is not None:
                    params.append((pn, kind, ismut))
            self.sigs[name] = Sig(name, name + self.suffix, params, classify_type(fa.ret)[0])
        except (Unparsed, KeyError):
            pass

    def fresh(self, base):
        base = re.sub(r"^_+", "", base) or "x"
        if base in COQ_RESERVED:
            base += "_"
        g, k = base, 0
        while g in self.used:
            k += 1
            g = "%s%d" % (base, k)
        self.used.add(g)
        return g

    def new_binding(self, rname, ty, mut=False, env=None):
        b = Binding(rname, self.fresh(rname), ty, mut)
        for f in self.frames:
            f.locals.add(b)
        if env is not None:
            env[rname] = b
        return b

    def note_read(self, b):
        for f in self.frames:
            if b not in f.locals and b not in f.reads:
                f.reads.append(b)

    def note_mut(self, b):
        for f in self.frames:
            if b not in f.locals and b not in f.muts:
                f.muts.append(b)

    def cur(self, b):
        if b.view is None:
            self.note_read(b)
            return b.g
        k, x, y = b.view
        return "(%s %s %s)" % (self.cur(x), "::" if k == "cons" else "++", self.cur(y))

    def function(self, fa):
        self.used = set(["w"])
        self.frames = []
        self.aux = []
        self.loopk = 0
        params = []
        env = {}
        for (pn, pt, pm) in fa.params:
            kind, ismut = classify_type(pt)
            if kind is None:
                continue
            if pn == "self":
                raise Unparsed("method with self")
            b = self.new_binding(pn, kind, mut=(pm or ismut), env=env)
            params.append((pn, kind, ismut, b))
        ret = classify_type(fa.ret)[0]
        self.sig = Sig(fa.name, fa.name + self.suffix, [(p[0], p[1], p[2]) for p in params], ret)
        self.fn_mut = [p[3] for p in params if p[2]]
        self.ret_stack = [self.fn_return]
        self.abort_stack = [lambda env: self.fn_return(default_of(ret) if ret != "unit" else None, env)]
        body = fa.body()
        def final_k(v, ty, env):
            return self.fn_return(v, env)
        final_k.tail = True
        txt = self.block_value(body, env, final_k, want=ret)
        res = " * ".join(gtype(k) for k in self.sig.result_kinds()) or "unit"
        head = "Definition %s (w : Z) %s : %s :=\n  %s." % (
            self.sig.gname, " ".join("(%s : %s)" % (p[3].g, gtype(p[1])) for p in params), res, txt)
        self.sigs[fa.name] = self.sig
        return "\n".join(self.aux + [head])

    def fn_return(self, v, env):
        parts = [self.cur(b) for b in self.fn_mut]
        if self.sig.ret != "unit":
            if v is None:
                raise Unparsed("missing return value")
            parts.append(v)
        return tup(parts) if parts else "tt"

    # ---------------------------------------------------------------- blocks and statements (continuation style)
    def block_value(self, blk, env, k, want=None):
        """compile a block whose value is passed to k(value_text, type, env)"""
        _, stmts, final = blk
        if final is None and stmts and stmts[-1][0] == "expr" and stmts[-1][1][0] in ("if", "match") and want not in (None, "unit"):
            final = stmts[-1][1]
            stmts = stmts[:-1]
        env = dict(env)

        def fin(env):
            if final is None:
                return k(None, "unit", env)
            return self.eff(final, env, k, want)
        return self.stmts(stmts, env, fin)

    def always_returns(self, blk):
        _, stmts, final = blk
        return final is None and bool(stmts) and stmts[-1][0] == "return"

    def stmts(self, ss, env, k):
        if not ss:
            return k(env)
        s, rest = ss[0], ss[1:]

        def K(env):
            return self.stmts(rest, env, k)
        kind = s[0]
        if kind == "let":
            return self.let(s, env, K)
        if kind == "assign":
            return self.assign(s, env, K)
        if kind == "return":
            if s[1] is None:
                return self.ret_stack[-1](None, env)
            def rk(v, ty, env):
                return self.ret_stack[-1](v, env)
            rk.tail = True
            return self.eff(s[1], env, rk, self.sig.ret)
        if kind == "for":
            return self.for_loop(s[1], s[2], s[3], env, K)
        if kind == "while":
            return self.while_loop(s[1], s[2], env, K)
        if kind == "expr":
            e = s[1]
            if e[0] == "if":
                return self.if_stmt(e, env, K)
            if e[0] == "match":
                return self.match_stmt(e, env, K)
            if e[0] == "mcall" and e[2] == "copy_from_slice":
                dst = self.lvalue_slice(e[1], env)
                src, _ = self.pure(e[3][0], env)
                return dst[1](src, env) + K(env)
            return self.eff(e, env, lambda v, ty, env: K(env), "unit")
        raise Unparsed("statement %s" % kind)

    def merged(self, compile_branches, env, k, ty=None):
        """branches that assign outer variables (and, if ty is given, yield a value):
        `let '(muts.., r) := <branches ending in (muts.., value)> in k`.  compile_branches(endk) builds the text,
        calling endk(env, value_text_or_None) at the end of every branch."""
        fr = Frame()
        self.frames.append(fr)

        def endk(env_, v=None):
            return self.branch_end(fr) + "\x00T(" + (v or "") + "\x00)"
        self.abort_stack.append(lambda env_: endk(env_, default_of(ty) if ty else None))

        def no_return(v, env_):
            raise Unparsed("return inside a branch whose effects are merged")
        self.ret_stack.append(no_return)
        try:
            text = compile_branches(endk)
        finally:
            self.frames.pop()
            self.abort_stack.pop()
            self.ret_stack.pop()
        muts = list(fr.muts)
        for b in muts:
            if b.view is not None:
                raise Unparsed("assignment to a split slice inside a branch")
            self.note_mut(b)
        names = [b.g for b in muts]
        text = re.sub("\x00T\\((.*?)\x00\\)", lambda m: tup(names + ([m.group(1)] if m.group(1) else [])) if (names or m.group(1)) else "tt", text, flags=re.S)
        if ty is None:
            if not names:
                return k(env)
            return "let %s := %s in\n  %s" % (letpat(names), text, k(env))
        r = self.fresh("r")
        return "let %s := %s in\n  %s" % (letpat(names + [r]), text, k(r, ty, env))

    def branch_end(self, fr):
        s = ""
        for b in list(fr.views):
            v = self.cur(b)
            b.view = None
            fr.views.remove(b)
            if b not in fr.locals:
                s += "let %s := %s in " % (b.g, v)
                if b not in fr.muts:
                    fr.muts.append(b)
        return s

    def snapshot(self, env):
        return [(b, b.view) for b in env.values() if isinstance(b, Binding)]

    @staticmethod
    def restore(snap):
        for b, v in snap:
            b.view = v

    def arm_returns(self, blk):
        return blk is not None and blk[0] == "block" and self.always_returns(blk)

    def if_stmt(self, e, env, K):
        _, c, th, el = e
        cv, _ = self.pure(c, env, "bool")
        if self.arm_returns(th) or self.arm_returns(el):
            # tail duplication: arms that return stop, the others continue with the rest of the block
            snap = self.snapshot(env)
            a = self.unit_block(th, env, (lambda env_: "") if self.arm_returns(th) else K)
            self.restore(snap)
            b = K(env) if el is None else self.unit_block(el, env, (lambda env_: "") if self.arm_returns(el) else K)
            return "if %s then %s\n  else %s" % (cv, a, b)

        def branches(endk):
            a = self.unit_block(th, env, endk)
            b = self.unit_block(el, env, endk) if el is not None else endk(env)
            return "(if %s then %s else %s)" % (cv, a, b)
        return self.merged(branches, env, K)

    def unit_block(self, blk, env, endk):
        _, stmts, final = blk
        ss = list(stmts) + ([("expr", final)] if final is not None else [])
        return self.stmts(ss, dict(env), endk)

    def match_stmt(self, e, env, K):
        _, scrut, arms = e
        sv, sty = self.pure(scrut, env)
        if any(self.arm_returns(a[1]) for a in arms):
            out = []
            for p, b in arms:
                snap = self.snapshot(env)
                env2 = dict(env)
                ptxt, _ = self.pat(p, sty, env2)
                blk = b if b[0] == "block" else ("block", [("expr", b)], None)
                out.append("| %s => %s" % (ptxt, self.unit_block(blk, env2, (lambda env_: "") if self.arm_returns(blk) else K)))
                self.restore(snap)
            return "match %s with\n  %s\n  end" % (sv, "\n  ".join(out))

        def branches(endk):
            out = []
            for p, b in arms:
                env2 = dict(env)
                ptxt, _ = self.pat(p, sty, env2)
                blk = b if b[0] == "block" else ("block", [("expr", b)], None)
                out.append("| %s => %s" % (ptxt, self.unit_block(blk, env2, endk)))
            return "(match %s with %s end)" % (sv, " ".join(out))
        return self.merged(branches, env, K)

    def pat(self, p, ty, env):
        """pattern text; binds variables into env"""
        k = p[0]
        if k == "pvar":
            b = self.new_binding(p[1], ty, env=env)
            return b.g, [b]
        if k == "pwild":
            return "_", []
        if k == "ptuple":
            if not (isinstance(ty, tuple) and len(ty[1]) == len(p[1])):
                raise Unparsed("tuple pattern against %s" % (ty,))
            parts, bs = [], []
            for q, t in zip(p[1], ty[1]):
                a, b = self.pat(q, t, env)
                parts.append(a)
                bs += b
            return "(" + ", ".join(parts) + ")", bs
        if k == "pctor" and not p[2]:
            if p[1] in PATHS:
                return PATHS[p[1]][0], []
            raise Unparsed("constructor pattern %s" % p[1])
        if k == "plit":
            return str(p[1]), []
        raise Unparsed("pattern %s" % k)

    # ---------------------------------------------------------------- let / assign
    def let(self, s, env, K):
        _, pat, ty, e, mut = s
        # slice-splitting forms
        if e[0] == "mcall" and e[2] == "unwrap" and e[1][0] == "mcall" and e[1][2] in ("split_first_mut", "split_first"):
            src = self.slice_binding(e[1][1], env)
            if pat[0] != "ptuple" or len(pat[1]) != 2 or pat[1][0][0] != "pvar" or pat[1][1][0] != "pvar":
                raise Unparsed("split_first pattern")
            srcv = self.cur(src)
            ab = self.abort_stack[-1](env)
            x = self.new_binding(pat[1][0][1], "Z", mut=True)
            r = self.new_binding(pat[1][1][1], "list", mut=True)
            self.set_view(src, ("cons", x, r))
            env = dict(env)
            env[x.rname], env[r.rname] = x, r
            return "match %s with\n  | [] => %s\n  | %s :: %s =>\n  %s\n  end" % (srcv, ab, x.g, r.g, K(env))
        if e[0] == "mcall" and e[2] == "unwrap" and e[1][0] == "mcall" and e[1][2] in ("first_mut", "first") and self.is_slice(e[1][1], env):
            src = self.slice_binding(e[1][1], env)
            if pat[0] != "pvar":
                raise Unparsed("first_mut pattern")
            srcv = self.cur(src)
            ab = self.abort_stack[-1](env)
            x = self.new_binding(pat[1], "Z", mut=True)
            r = self.new_binding(pat[1] + "_tl", "list", mut=True)
            self.set_view(src, ("cons", x, r))
            env = dict(env)
            env[x.rname] = x
            return "match %s with\n  | [] => %s\n  | %s :: %s =>\n  %s\n  end" % (srcv, ab, x.g, r.g, K(env))
        if e[0] == "mcall" and e[2] in ("split_at_mut", "split_at"):
            src = self.slice_binding(e[1], env)
            n, _ = self.pure(e[3][0], env, "nat")
            if pat[0] != "ptuple" or len(pat[1]) != 2:
                raise Unparsed("split_at pattern")
            srcv = self.cur(src)
            lo = self.new_binding(pat[1][0][1], "list", mut=True)
            hi = self.new_binding(pat[1][1][1], "list", mut=True)
            self.set_view(src, ("app", lo, hi))
            env = dict(env)
            env[lo.rname], env[hi.rname] = lo, hi
            return "let %s := firstn %s %s in\n  let %s := skipn %s %s in\n  %s" % (lo.g, n, srcv, hi.g, n, srcv, K(env))
        if e[0] == "mcall" and e[2] == "chunks_exact_mut":
            if e[3] != [("num", 2)] or pat[0] != "pvar":
                raise Unparsed("chunks_exact_mut: only chunks of 2")
            src = self.slice_binding(e[1], env)
            b = self.new_binding(pat[1], "chunks")
            b.chunks_of = src
            env = dict(env)
            env[pat[1]] = b
            return K(env)
        if e[0] == "mcall" and e[2] == "into_remainder":
            d = env.get(e[1][1]) if e[1][0] == "var" else None
            if d is None or not isinstance(d.chunks_of, tuple) or pat[0] != "pvar":
                raise Unparsed("into_remainder")
            env = dict(env)
            env[pat[1]] = d.chunks_of[1]
            return K(env)
        if e[0] == "mcall" and e[2] == "unwrap" and e[1][0] == "mcall" and e[1][2] in ("first", "last", "first_mut", "last_mut"):
            cb = env.get(e[1][1][1]) if e[1][1][0] == "var" else None
            if cb is None or cb.chunk is None or pat[0] != "pvar":
                raise Unparsed("first/last of something that is not a chunk")
            env = dict(env)
            env[pat[1]] = cb.chunk[0 if e[1][2].startswith("first") else 1]
            return K(env)
        want = classify_type(ty)[0] if ty else None

        def bind(v, vty, env):
            env = dict(env)
            if vty == "lit":
                vty = want or "Z"
            if pat[0] == "pvar":
                b = self.new_binding(pat[1], want or vty, mut=mut, env=env)
                return "let %s := %s in\n  %s" % (b.g, v, K(env))
            ptxt, _ = self.pat(pat, vty, env)
            return "let '%s := %s in\n  %s" % (ptxt, v, K(env))
        return self.eff(e, env, bind, want)

    def set_view(self, src, view):
        if src.view is not None:
            raise Unparsed("slice %s split twice" % src.rname)
        src.view = view
        for f in self.frames:
            if src not in f.locals:
                f.views.append(src)
                break
        # a view on a function parameter at top level is rebuilt by fn_return through cur()

    def assign(self, s, env, K):
        _, lhs, op, rhs = s
        if lhs[0] == "un" and lhs[1] == "*":
            lhs = lhs[2]
        if lhs[0] == "mcall" and lhs[2] == "unwrap" and lhs[1][0] == "mcall" and lhs[1][2] in ("first_mut", "last_mut"):
            cb = env.get(lhs[1][1][1]) if lhs[1][1][0] == "var" else None
            if cb is None or cb.chunk is None:
                raise Unparsed("assignment through first_mut of a non-chunk")
            b = cb.chunk[0 if lhs[1][2] == "first_mut" else 1]
            v, _ = self.pure(rhs, env, "Z")
            self.note_mut(b)
            return "let %s := %s in\n  %s" % (b.g, v, K(env))
        if lhs[0] == "var":
            b = self.lookup(lhs[1], env)
            if b.view is not None:
                raise Unparsed("assignment to split slice")

            def fin(v, vty, env):
                if op != "=":
                    o = op[0]
                    v = "(%s %s %s)%s" % (b.g, o, v, "%nat" if b.ty == "nat" else "")
                self.note_read(b)
                self.note_mut(b)
                return "let %s := %s in\n  %s" % (b.g, v, K(env))
            return self.eff(rhs, env, fin, b.ty)
        if lhs[0] == "index" and lhs[1][0] == "var" and lhs[2][0] != "range":
            b = self.lookup(lhs[1][1], env)
            if b.ty != "list" or b.view is not None or op != "=":
                raise Unparsed("indexed assignment")
            i, _ = self.pure(lhs[2], env, "nat")
            v, _ = self.pure(rhs, env, "Z")
            self.note_read(b)
            self.note_mut(b)
            return "let %s := set_nth %s %s %s in\n  %s" % (b.g, i, v, b.g, K(env))
        raise Unparsed("assignment target %s" % lhs[0])

    def lookup(self, name, env):
        if name not in env:
            raise Unparsed("unbound variable %s" % name)
        return env[name]

    def is_slice(self, e, env):
        return e[0] == "var" and e[1] in env and env[e[1]].ty == "list"

    def slice_binding(self, e, env):
        while e[0] in ("ref",):
            e = e[2]
        if e[0] != "var":
            raise Unparsed("slice expression %s" % e[0])
        b = self.lookup(e[1], env)
        if b.ty != "list":
            raise Unparsed("%s is not a slice" % e[1])
        return b

    def lvalue_slice(self, e, env):
        """(current value text, writeback(newvalue_text, env) -> 'let ... in ') of a mutable slice expression"""
        while e[0] == "ref":
            e = e[2]
        if e[0] == "var":
            b = self.slice_binding(e, env)
            if b.view is not None:
                raise Unparsed("mutable use of split slice %s" % b.rname)

            def wb(v, env):
                self.note_mut(b)
                return "" if v == b.g else "let %s := %s in\n  " % (b.g, v)
            return self.cur(b), wb, b
        if e[0] == "index" and e[2][0] == "range":
            b = self.slice_binding(e[1], env)
            if b.view is not None:
                raise Unparsed("mutable use of split slice %s" % b.rname)
            lo = self.pure(e[2][1], env, "nat")[0] if e[2][1] is not None else None
            hi = self.pure(e[2][2], env, "nat")[0] if e[2][2] is not None else None
            cur = self.range_of(self.cur(b), lo, hi)

            def wb(v, env):
                self.note_mut(b)
                pre = "firstn %s %s ++ " % (lo, b.g) if lo is not None else ""
                post = " ++ skipn %s %s" % (hi, b.g) if hi is not None else ""
                return "let %s := %s%s%s in\n  " % (b.g, pre, v, post)
            return cur, wb, None
        raise Unparsed("mutable slice argument %s" % e[0])

    @staticmethod
    def range_of(v, lo, hi):
        if lo is None and hi is None:
            return v
        if lo is None:
            return "(firstn %s %s)" % (hi, v)
        if hi is None:
            return "(skipn %s %s)" % (lo, v)
        return "(firstn (%s - %s)%%nat (skipn %s %s))" % (hi, lo, lo, v)

    # ---------------------------------------------------------------- expressions with effects (calls that mutate slices)
    def callee(self, name):
        n = self.modules.get(name, name)
        if n in self.sigs:
            return self.sigs[n]
        last = name.split("::")[-1]
        if last in self.sigs and ("::" in name):
            return self.sigs[last]
        return None

    def effectful(self, e):
        """does the expression call a translated function that writes to a slice?"""
        if isinstance(e, list):
            return any(self.effectful(x) for x in e)
        if not isinstance(e, tuple):
            return False
        if e and e[0] == "call":
            sg = self.callee(e[1])
            if sg is not None and sg.mut_params():
                return True
        return any(self.effectful(x) for x in e[1:] if isinstance(x, (tuple, list)))

    def eff(self, e, env, k, want=None):
        """k(value_text, type, env) -> text"""
        if not self.effectful(e):
            v, ty = self.pure(e, env, want)
            return k(v, ty, env)
        kind = e[0]
        if kind == "call":
            sg = self.callee(e[1])
            if sg is not None and sg.mut_params():
                return self.mut_call(sg, e[2], env, k)
            if e[1] in ("Word::from", "SignedWord::from", "DoubleWord::from") and len(e[2]) == 1:
                return self.eff(e[2][0], env, lambda v, ty, env: k("(b2z %s)" % v if ty == "bool" else v, "Z", env))
        if kind == "un" and e[1] == "-":
            return self.eff(e[2], env, lambda v, ty, env: k("(- %s)" % v, ty, env), want)
        if kind == "bin" and e[1] == "&&" and not self.effectful(e[2]):
            a, _ = self.pure(e[2], env, "bool")
            if getattr(k, "tail", False):
                snap = self.snapshot(env)
                t = self.eff(e[3], env, k, "bool")
                self.restore(snap)
                return "if %s then %s\n  else %s" % (a, t, k("false", "bool", env))

            def br(endk):
                t = self.eff(e[3], env, lambda v, ty, env2: endk(env2, v), "bool")
                return "(if %s then %s else %s)" % (a, t, endk(env, "false"))
            return self.merged(br, env, k, "bool")
        if kind in ("if", "match"):
            return self.cond_value(e, env, k, want)
        if kind == "block":
            return self.block_value(e, env, k, want)
        raise Unparsed("effectful expression %s" % kind)

    def cond_value(self, e, env, k, want):
        ty = want if want not in (None, "lit") else "Z"
        if getattr(k, "tail", False):
            if e[0] == "if":
                if e[3] is None:
                    raise Unparsed("if without else as a value")
                cv, _ = self.pure(e[1], env, "bool")
                snap = self.snapshot(env)
                a = self.block_value(e[2], env, k, ty)
                self.restore(snap)
                b = self.block_value(e[3], env, k, ty)
                self.restore(snap)
                return "if %s then %s\n  else %s" % (cv, a, b)
            sv, sty = self.pure(e[1], env)
            out = []
            for p, b in e[2]:
                snap = self.snapshot(env)
                env2 = dict(env)
                ptxt, _ = self.pat(p, sty, env2)
                blk = b if b[0] == "block" else ("block", [], b)
                out.append("| %s =>\n  %s" % (ptxt, self.block_value(blk, env2, k, ty)))
                self.restore(snap)
            return "match %s with\n  %s\n  end" % (sv, "\n  ".join(out))
        if e[0] == "if":
            _, c, th, el = e
            if el is None:
                raise Unparsed("if without else as a value")
            cv, _ = self.pure(c, env, "bool")

            def br(endk):
                def arm(blk):
                    return self.block_value(blk, env, lambda v, t, env2: endk(env2, v), ty)
                return "(if %s then %s else %s)" % (cv, arm(th), arm(el))
            return self.merged(br, env, k, ty)
        _, scrut, arms = e
        sv, sty = self.pure(scrut, env)

        def br(endk):
            out = []
            for p, b in arms:
                env2 = dict(env)
                ptxt, _ = self.pat(p, sty, env2)
                blk = b if b[0] == "block" else ("block", [], b)
                out.append("| %s => %s" % (ptxt, self.block_value(blk, env2, lambda v, t, env3: endk(env3, v), ty)))
            return "(match %s with %s end)" % (sv, " ".join(out))
        return self.merged(br, env, k, ty)

    def mut_call(self, sg, args, env, k):
        if len(args) < len(sg.params):
            raise Unparsed("arity of %s" % sg.name)
        vals, wbs, pats = [], [], []
        for (pn, kind, ismut), a in zip(sg.params, args):
            if ismut:
                cur, wb, b = self.lvalue_slice(a, env)
                vals.append(cur)
                if b is not None:
                    pats.append(b.g)
                    wbs.append((wb, b.g))
                else:
                    t = self.fresh("t")
                    pats.append(t)
                    wbs.append((wb, t))
            else:
                vals.append(self.pure(a, env, kind)[0])
        r = None
        if sg.ret != "unit":
            r = self.fresh("r")
            pats.append(r)
        txt = "let %s := %s w %s in\n  " % (letpat(pats), sg.gname, " ".join(vals))
        for wb, name in wbs:
            txt += wb(name, env)
        return txt + k(r, sg.ret, env)

    # ---------------------------------------------------------------- pure expressions
    def pure(self, e, env, want=None):
        """(text, type); type "lit" = integer literal not yet typed"""
        k = e[0]
        if k == "num":
            if want == "nat":
                return "%d%%nat" % e[1], "nat"
            return str(e[1]), ("Z" if want == "Z" else "lit")
        if k == "bool":
            return e[1], "bool"
        if k == "var":
            b = self.lookup(e[1], env)
            if b.ty in ("chunks",) or b.chunk is not None:
                raise Unparsed("chunk used as a value")
            return self.cur(b), b.ty
        if k == "path":
            if e[1] in PATHS:
                return PATHS[e[1]]
            c = e[1].split("::")[-1]
            if e[1] in self.consts or c in self.consts:
                return self.consts.get(e[1], self.consts.get(c))
            raise Unparsed("unknown path %s" % e[1])
        if k == "ref":
            return self.pure(e[2], env, want)
        if k == "un":
            if e[1] == "*":
                return self.pure(e[2], env, want)
            v, ty = self.pure(e[2], env, "bool" if e[1] == "!" else want)
            if e[1] == "!":
                if ty != "bool":
                    raise Unparsed("bitwise not")
                return "(negb %s)" % v, "bool"
            return "(- %s)" % v, ("Z" if ty == "lit" else ty)
        if k == "cast":
            v, ty = self.pure(e[1], env)
            tk = classify_type(e[2])[0]
            if ty == "bool" and tk == "Z":
                return "(b2z %s)" % v, "Z"
            if ty in ("Z", "lit") and tk == "Z" and e[2] in ("DoubleWord", "SignedDoubleWord", "u128"):
                return v, "Z"    # widening
            if ty == tk:
                raise Unparsed("cast %s as %s (may truncate)" % (ty, e[2]))
            raise Unparsed("cast %s as %s" % (ty, e[2]))
        if k == "tuple":
            parts = [self.pure(x, env) for x in e[1]]
            return "(" + ", ".join(p[0] for p in parts) + ")", ("tuple", [("Z" if p[1] == "lit" else p[1]) for p in parts])
        if k == "bin":
            return self.binop(e, env, want)
        if k == "index":
            b = self.slice_binding(e[1], env)
            if e[2][0] == "range":
                lo = self.pure(e[2][1], env, "nat")[0] if e[2][1] is not None else None
                hi = self.pure(e[2][2], env, "nat")[0] if e[2][2] is not None else None
                return self.range_of(self.cur(b), lo, hi), "list"
            i, _ = self.pure(e[2], env, "nat")
            return "(nth %s %s 0)" % (i, self.cur(b)), "Z"
        if k == "call":
            return self.call(e, env, want)
        if k == "mcall":
            return self.mcall(e, env, want)
        if k == "if":
            _, c, th, el = e
            if el is None:
                raise Unparsed("if without else as a value")
            cv, _ = self.pure(c, env, "bool")
            a, ta = self.pure(th, env, want)
            b, tb = self.pure(el, env, want)
            return "(if %s then %s else %s)" % (cv, a, b), (ta if ta != "lit" else tb)
        if k == "match":
            sv, sty = self.pure(e[1], env)
            out, ty = [], "lit"
            for p, b in e[2]:
                env2 = dict(env)
                ptxt, _ = self.pat(p, sty, env2)
                v, t = self.pure(b, env2, want)
                ty = t if ty == "lit" else ty
                out.append("| %s => %s" % (ptxt, v))
            return "(match %s with %s end)" % (sv, " ".join(out)), ty
        if k == "block":
            _, stmts, final = e
            env2, txt = dict(env), ""
            for s in stmts:
                if s[0] != "let":
                    raise Unparsed("statement %s inside a value block" % s[0])
                v, ty = self.pure(s[3], env2, classify_type(s[2])[0] if s[2] else None)
                ty = "Z" if ty == "lit" else ty
                if s[1][0] == "pvar":
                    b = self.new_binding(s[1][1], ty, env=env2)
                    txt += "let %s := %s in " % (b.g, v)
                else:
                    txt += "let '%s := %s in " % (self.pat(s[1], ty, env2)[0], v)
            if final is None:
                raise Unparsed("value block without value")
            v, ty = self.pure(final, env2, want)
            return ("(%s%s)" % (txt, v) if txt else v), ty
        raise Unparsed("expression %s" % k)

    def binop(self, e, env, want):
        _, op, a, b = e
        if op in ("&&", "||"):
            x, _ = self.pure(a, env, "bool")
            y, _ = self.pure(b, env, "bool")
            return "(%s %s %s)" % (x, op, y), "bool"
        cmp_ = op in ("==", "!=", "<", "<=", ">", ">=")
        hint = None if cmp_ else want
        x, tx = self.pure(a, env, hint)
        y, ty = self.pure(b, env, tx if tx not in ("lit",) else hint)
        if tx == "lit" and ty != "lit":
            x, tx = self.pure(a, env, ty)
        t = tx if tx != "lit" else (ty if ty != "lit" else "Z")
        if op in ("|", "&", "^"):
            if t == "Z":   # bitwise operations on words / double words (operands are non-negative)
                return "(%s %s %s)" % ({"|": "Z.lor", "&": "Z.land", "^": "Z.lxor"}[op], x, y), "Z"
            if t != "bool":
                raise Unparsed("bitwise %s at type %s" % (op, t))
            return "(%s %s %s)" % (x, {"|": "||", "&": "&&", "^": "xorb"}[op], y) if op != "^" else "(xorb %s %s)" % (x, y), "bool"
        if op in ("<<", ">>"):
            # exact shifts (a left shift that leaves the type is out of contract, like + - *)
            if t != "Z":
                raise Unparsed("shift at type %s" % (t,))
            return "(%s %s %s)" % ("Z.shiftl" if op == "<<" else "Z.shiftr", x, y), "Z"
        if cmp_:
            if t == "bool":
                if op == "==":
                    return "(Bool.eqb %s %s)" % (x, y), "bool"
                raise Unparsed("comparison of booleans")
            if t not in ("Z", "nat"):
                raise Unparsed("comparison at type %s" % (t,))
            sc = "%nat" if t == "nat" else ""
            if op == "!=":
                return "(negb (%s =? %s)%s)" % (x, y, sc), "bool"
            if op in (">", ">="):
                x, y, op = y, x, {">": "<", ">=": "<="}[op]
            return "(%s %s %s)%s" % (x, {"==": "=?", "<": "<?", "<=": "<=?"}[op], y, sc), "bool"
        if op in ("+", "-", "*"):
            if t == "nat":
                return "(%s %s %s)%%nat" % (x, op, y), "nat"
            return "(%s %s %s)" % (x, op, y), "Z"
        if op in ("/", "%"):
            if t == "nat":
                return "(%s %s %s)%%nat" % (x, {"/": "/", "%": "mod"}[op], y), "nat"
            return "(%s %s %s)" % (x, {"/": "/", "%": "mod"}[op], y), "Z"
        raise Unparsed("operator %s" % op)

    def call(self, e, env, want):
        name, args = e[1], e[2]
        sg = self.callee(name)
        if sg is not None:
            if sg.mut_params():
                raise Unparsed("mutating call of %s in a pure position" % name)
            vals = [self.pure(a, env, p[1])[0] for p, a in zip(sg.params, args)]
            return "(%s w %s)" % (sg.gname, " ".join(vals)), sg.ret
        if name in ("Word::from", "SignedWord::from", "DoubleWord::from") and len(args) == 1:
            v, ty = self.pure(args[0], env)
            return ("(b2z %s)" % v if ty == "bool" else v), "Z"
        p = self.prims.get(name) or self.prims.get(name.split("::")[-1])
        if p is None or len(p.args) != len(args):
            raise Unparsed("call of %s" % name)
        vals = [self.pure(a, env, t)[0] for a, t in zip(args, p.args)]
        return p.fmt.format(*vals), p.ret

    def mcall(self, e, env, want):
        _, recv, name, args = e
        if name in ("len", "is_empty") and not args:
            v, ty = self.pure(recv, env)
            if ty != "list":
                raise Unparsed(".%s of a non-slice" % name)
            return ("(length %s)" % v, "nat") if name == "len" else ("(is_empty %s)" % v, "bool")
        if name in ("iter", "iter_mut") and not args:
            return self.pure(recv, env, want)
        if name == "cmp" and len(args) == 1:
            x, tx = self.pure(recv, env)
            y, _ = self.pure(args[0], env, tx)
            if tx == "nat":
                return "(Nat.compare %s %s)" % (x, y), "cmp"
            if tx == "Z":
                return "(%s ?= %s)" % (x, y), "cmp"
            raise Unparsed("cmp at type %s" % (tx,))
        if name in ("min", "max") and len(args) == 1:
            x, tx = self.pure(recv, env)
            y, _ = self.pure(args[0], env, tx)
            f = ("Nat." if tx == "nat" else "Z.") + name
            return "(%s %s %s)" % (f, x, y), tx
        p = self.prims.get("." + name)
        if p is None or len(p.args) != len(args) + 1:
            raise Unparsed("method .%s" % name)
        vals = [self.pure(a, env, t)[0] for a, t in zip([recv] + args, p.args)]
        return p.fmt.format(*vals), p.ret

    # ---------------------------------------------------------------- loops
    def iter_parts(self, it, env):
        """-> (kind, [(binding, mutable)], enumerate?)   kind: "lists" | "chunks" """
        enum = False
        if it[0] == "mcall" and it[2] == "enumerate":
            enum = True
            it = it[1]
        if it[0] == "ref" and it[2][0] == "var" and it[2][1] in env and env[it[2][1]].ty == "chunks":
            return "chunks", [(env[it[2][1]], True)], enum

        def one(x):
            if x[0] == "mcall" and x[2] in ("iter", "iter_mut") and not x[3]:
                return (self.slice_binding(x[1], env), x[2] == "iter_mut")
            if x[0] in ("var", "ref"):
                mut = x[0] == "var" or x[1]
                b = self.slice_binding(x, env)
                return (b, mut and b.mut)
            raise Unparsed("iterator %s" % x[0])
        if it[0] == "mcall" and it[2] == "zip" and len(it[3]) == 1:
            return "lists", [one(it[1]), one(it[3][0])], enum
        return "lists", [one(it)], enum

    def for_loop(self, pat, it, body, env, K):
        kind, parts, enum = self.iter_parts(it, env)
        self.loopk += 1
        lname = "%s_loop%s%s" % (self.sig.name, "" if self.loopk == 1 else str(self.loopk), self.suffix)
        ipat = pat
        if enum:
            if pat[0] != "ptuple" or len(pat[1]) != 2 or pat[1][0][0] != "pvar":
                raise Unparsed("enumerate pattern")
            ipat = pat[1][1]
        if kind == "chunks":
            if ipat[0] != "pvar" or enum:
                raise Unparsed("chunk loop pattern")
            elem_pats = [ipat]
        elif len(parts) == 2:
            if ipat[0] != "ptuple" or len(ipat[1]) != 2:
                raise Unparsed("zip pattern")
            elem_pats = ipat[1]
        else:
            elem_pats = [ipat]
        if any(p[0] != "pvar" for p in elem_pats):
            raise Unparsed("element pattern")
        chunks_b = parts[0][0] if kind == "chunks" else None
        lists = [(chunks_b.chunks_of, True)] if kind == "chunks" else parts
        for b, _ in lists:
            if not isinstance(b, Binding) or b.view is not None:
                raise Unparsed("loop over a split slice")

        def compile_body(final_pass, state, consts, has_ret):
            """the text of the cons arm"""
            fr = Frame()
            self.frames.append(fr)
            lenv = dict(env)
            # fresh view-less copies of the outer bindings used inside, under the same Gallina names
            shadow = {}
            for rn, b in env.items():
                if isinstance(b, Binding) and b.ty not in ("chunks",) and b.chunk is None:
                    nb = Binding(b.rname, b.g, b.ty, b.mut)
                    nb.orig = b
                    shadow[b] = nb
                    lenv[rn] = nb
            elems, tails = [], []
            for (b, m), p in zip(lists, elem_pats if kind != "chunks" else [None]):
                tl = Binding(b.rname + "_tl", b.g + "_tl", "list")
                fr.locals.add(tl)
                tails.append(tl)
                if kind == "chunks":
                    lo = Binding("lo", self.fresh(p_name + "_lo") if final_pass else p_name + "_lo", "Z", True)
                    hi = Binding("hi", self.fresh(p_name + "_hi") if final_pass else p_name + "_hi", "Z", True)
                    fr.locals.update([lo, hi])
                    cb = Binding(p_name, p_name, "chunk")
                    cb.chunk = (lo, hi)
                    fr.locals.add(cb)
                    lenv[p_name] = cb
                    elems.append((lo, hi))
                else:
                    eb = Binding(p[1], (self.fresh(p[1]) if final_pass else p[1]), "Z", m)
                    fr.locals.add(eb)
                    lenv[p[1]] = eb
                    elems.append(eb)
            ib = None
            if enum:
                ib = Binding(pat[1][0][1], (self.fresh(pat[1][0][1]) if final_pass else pat[1][0][1]), "nat")
                fr.locals.add(ib)
                lenv[ib.rname] = ib
            st_names = [shadow[b].g for b in state]
            res_lists = [i for i, (b, m) in enumerate(lists) if m]

            def elem_txt(i):
                return "%s :: %s" % (elems[i][0].g, elems[i][1].g) if kind == "chunks" else elems[i].g

            def body_end(env_):
                recs = ["%s_r" % lists[i][0].g for i in res_lists]
                extra = (["rem_r"] if kind == "chunks" else []) + (["ret_r"] if has_ret else [])
                call = "%s w %s" % (lname, " ".join([shadow[c].g for c in consts] + (["(S %s)" % ib.g] if enum else [])
                                                  + [t.g for t in tails] + st_names))
                outs = ["(%s :: %s)" % (elem_txt(i), r) for i, r in zip(res_lists, recs)] + extra + st_names
                return "let %s := %s in\n      %s" % (letpat(recs + extra + st_names), call, tup(outs))

            def body_ret(v, env_):
                fr.returns = True
                outs = ["(%s :: %s)" % (elem_txt(i), tails[i].g) for i in res_lists]
                return tup(outs + (["[]"] if kind == "chunks" else []) + ["(Some %s)" % v] + st_names)
            self.ret_stack.append(body_ret)
            self.abort_stack.append(lambda env_: body_ret(default_of(self.sig.ret), env_))
            try:
                txt = self.unit_block(body, lenv, body_end)
            finally:
                self.ret_stack.pop()
                self.abort_stack.pop()
                self.frames.pop()
            heads = []
            for i in range(len(lists)):
                heads.append("%s :: %s" % (elem_txt(i), tails[i].g))
            return txt, fr, shadow, heads, ib
        p_name = elem_pats[0][1] if kind == "chunks" else None
        saved_used = set(self.used)
        _, fr, shadow, _, _ = compile_body(False, [], [], False)
        self.used = saved_used
        inv = {nb: b for b, nb in shadow.items()}
        listset = set(b for b, _ in lists)
        state = [inv[b] for b in fr.muts if b in inv and inv[b] not in listset]
        consts = [inv[b] for b in fr.reads if b in inv and inv[b] not in listset and inv[b] not in state]
        if any(inv.get(b) in listset for b in fr.reads + fr.muts):
            raise Unparsed("the iterated slice is used inside the loop body")
        if any(b not in inv for b in fr.muts):
            raise Unparsed("loop body assigns something that is not a plain variable")
        has_ret = fr.returns
        self.loopk_save = self.loopk
        txt, fr, shadow, heads, ib = compile_body(True, state, consts, has_ret)
        for b in state:
            if b.view is not None:
                raise Unparsed("loop state %s is a split slice" % b.rname)
        res_lists = [b for b, m in lists if m]
        res_kinds = ["list" for _ in res_lists] + (["list"] if kind == "chunks" else []) + ([("opt", self.sig.ret)] if has_ret else []) + [b.ty for b in state]

        def gk(k):
            return "option %s" % gtype(k[1]) if isinstance(k, tuple) and k[0] == "opt" else gtype(k)
        params = ["(w : Z)"] + ["(%s : %s)" % (b.g, gtype(b.ty)) for b in consts] + (["(%s : nat)" % ib.g] if enum else []) \
            + ["(%s : list Z)" % b.g for b, _ in lists] + ["(%s : %s)" % (b.g, gtype(b.ty)) for b in state]
        nil = tup([b.g for b in res_lists] if kind != "chunks" else ["[]", lists[0][0].g]) if (res_lists or kind == "chunks") else None
        nil_parts = ([b.g for b in res_lists] if kind != "chunks" else ["[]", lists[0][0].g]) + (["None"] if has_ret else []) + [b.g for b in state]
        if not nil_parts:
            raise Unparsed("loop without any effect")
        scr = ", ".join(b.g for b, _ in lists)
        fix = "Fixpoint %s %s {struct %s} : %s :=\n  match %s with\n  | %s =>\n      %s\n  | %s => %s\n  end." % (
            lname, " ".join(params), lists[0][0].g, " * ".join(gk(k) for k in res_kinds), scr, ", ".join(heads), txt,
            ", ".join("_" for _ in lists), tup(nil_parts))
        self.aux.append(fix)
        # the call in the enclosing function
        for b in consts + state + [x for x, _ in lists]:
            self.note_read(b)
        outs = []
        env = dict(env)
        if kind == "chunks":
            src = lists[0][0]
            done = self.new_binding(src.rname + "_done", "list", True)
            rem = self.new_binding(src.rname + "_rem", "list", True)
            call_lists = [self.cur(src)]
            self.set_view(src, ("app", done, rem))
            chunks_b.chunks_of = (done, rem)
            outs = [done.g, rem.g]
        else:
            call_lists = [self.cur(b) for b, _ in lists]
            for b in res_lists:
                self.note_mut(b)
                outs.append(b.g)
        for b in state:
            self.note_mut(b)
        ret_g = self.fresh("ret") if has_ret else None
        outs += ([ret_g] if has_ret else []) + [b.g for b in state]
        call = "%s w %s" % (lname, " ".join([self.cur(c) for c in consts] + (["0%nat"] if enum else []) + call_lists + [b.g for b in state]))
        after = K(env)
        if has_ret:
            v = self.fresh("v")
            after = "match %s with\n  | Some %s => %s\n  | None =>\n  %s\n  end" % (ret_g, v, self.ret_stack[-1](v, env), after)
        return "let %s := %s in\n  %s" % (letpat(outs), call, after)

    def while_loop(self, cond, body, env, K):
        """`while c { body }` -> Fixpoint on fuel.  Result: state.., [option ret], out_of_fuel flag.  The caller passes
        fuel = S (sum of the usize state variables) unless self.fuels[(fn, k)] gives a Gallina term; running out of fuel
        is treated like a panic (default result): the theorem `gen = hand model` for all inputs shows it never happens."""
        self.loopk += 1
        k_idx = self.loopk
        lname = "%s_while%s%s" % (self.sig.name, "" if k_idx == 1 else str(k_idx), self.suffix)

        def compile_body(state, consts, has_ret, final_pass):
            fr = Frame()
            self.frames.append(fr)
            lenv = dict(env)
            shadow = {}
            for rn, b in env.items():
                if isinstance(b, Binding) and b.ty not in ("chunks",) and b.chunk is None:
                    nb = Binding(b.rname, b.g, b.ty, b.mut)
                    shadow[b] = nb
                    lenv[rn] = nb
            st_names = [shadow[b].g for b in state]

            def out(retv, oof):
                return tup(st_names + ([retv] if has_ret else []) + [oof])

            def body_end(env_):
                return "%s w %s" % (lname, " ".join([shadow[c].g for c in consts] + ["fuel'"] + st_names))

            def body_ret(v, env_):
                fr.returns = True
                return out("(Some %s)" % v, "false")
            self.ret_stack.append(body_ret)
            self.abort_stack.append(lambda env_: body_ret(default_of(self.sig.ret) if self.sig.ret != "unit" else "tt", env_))
            try:
                cv, _ = self.pure(cond, lenv, "bool")
                txt = self.unit_block(body, lenv, body_end)
            finally:
                self.ret_stack.pop()
                self.abort_stack.pop()
                self.frames.pop()
            return cv, txt, fr, shadow, out
        saved = set(self.used)
        _, _, fr, shadow, _ = compile_body([], [], False, False)
        self.used = saved
        inv = {nb: b for b, nb in shadow.items()}
        if any(b not in inv for b in fr.muts):
            raise Unparsed("while body assigns something that is not a plain variable")
        state = [inv[b] for b in fr.muts]
        consts = [inv[b] for b in fr.reads if b in inv and inv[b] not in state]
        has_ret = fr.returns
        for b in state:
            if b.view is not None:
                raise Unparsed("while state %s is a split slice" % b.rname)
        cv, txt, fr, shadow, out = compile_body(state, consts, has_ret, True)
        kinds = [gtype(b.ty) for b in state] + (["option %s" % gtype(self.sig.ret)] if has_ret else []) + ["bool"]
        params = ["(w : Z)"] + ["(%s : %s)" % (b.g, gtype(b.ty)) for b in consts] + ["(fuel : nat)"] + ["(%s : %s)" % (b.g, gtype(b.ty)) for b in state]
        fix = "Fixpoint %s %s {struct fuel} : %s :=\n  match fuel with\n  | O => %s\n  | S fuel' =>\n      if %s then\n      %s\n      else %s\n  end." % (
            lname, " ".join(params), " * ".join(kinds), out("None", "true"), cv, txt, out("None", "false"))
        self.aux.append(fix)
        fuel = getattr(self, "fuels", {}).get((self.sig.name, k_idx))
        if fuel is None:
            nats = [b.g for b in state if b.ty == "nat"]
            if not nats:
                raise Unparsed("while loop without a usize counter (give Translator.fuels[(fn, k)])")
            fuel = "(S (%s))" % " + ".join(nats) if len(nats) > 1 else "(S %s)" % nats[0]
        for b in consts + state:
            self.note_read(b)
        for b in state:
            self.note_mut(b)
        ret_g = self.fresh("ret") if has_ret else None
        oof = self.fresh("oof")
        outs = [b.g for b in state] + ([ret_g] if has_ret else []) + [oof]
        call = "%s w %s" % (lname, " ".join([self.cur(c) for c in consts] + [fuel] + [b.g for b in state]))
        ab = self.abort_stack[-1](env)
        after = K(env)
        if has_ret:
            v = self.fresh("v")
            after = "match %s with\n  | Some %s => %s\n  | None =>\n  %s\n  end" % (ret_g, v, self.ret_stack[-1](v, env), after)
        return "let %s := %s in\n  if %s then %s else\n  %s" % (letpat(outs), call, oof, ab, after)


# ------------------------------------------------------------------------------------------------ file emission
def emit_file(header_lines, results, previous=""):
    """text of a .v file from translate() results.  Each function sits between `(** BEGIN name *)` and `(** END name *)`;
    a function that is `unparsed` now keeps its block from `previous` (the old file text), marked STALE - so the proofs
    about it still build (unparseable is not an alarm) - or is omitted when there is no previous block."""
    out = list(header_lines)
    for name, status, text in results:
        out.append("")
        if status != "ok":
            m = re.search(r"\(\*\* BEGIN %s \*\)\n(.*?)\(\*\* END %s \*\)" % (re.escape(name), re.escape(name)), previous, re.S)
            why = status.replace("*)", "* )")
            if not m:
                out.append("(* %s: %s (no previous copy) *)" % (name, why))
                continue
            text = re.sub(r"^\(\* STALE[^\n]*\n", "", m.group(1)).rstrip("\n")
            out.append("(** BEGIN %s *)" % name)
            out.append("(* STALE %s: %s; last good copy kept *)" % (name, why))
        else:
            out.append("(** BEGIN %s *)" % name)
        out.append(text)
        out.append("(** END %s *)" % name)
    return "\n".join(out) + "\n"


# ------------------------------------------------------------------------------------------------ the C01 instance
FNAME = "WordKernelsGen.v"
STALE = "(* STALE *)"
HEADER = [
    "(** GENERATED by tools/translate_c01_r4.py from integer/src/{math.rs,add.rs,mul/mod.rs,mul/simple.rs,shift.rs} - do not edit.",
    "    Loop kernels as Gallina folds over word lists (word size w, B w = 2^w); Int/WordKernelsGenProofs.v proves each",
    "    `<name>_gen` equal to the hand-written model of Int/RingAdd.v / Int/RingMul.v. *)",
    "From Dashu Require Import Base.Prelude Base.Words Int.RingAdd Int.WordPrims.",
    "Open Scope Z_scope.",
    "Open Scope bool_scope.",
]
# (file, module prefix, functions in dependency order)
C01_SOURCES = [
    ("integer/src/math.rs", "math", ["mul_add_carry", "mul_add_2carry", "mul_add_carry_dword"]),
    ("integer/src/add.rs", "add", [
        "add_one_in_place", "sub_one_in_place", "add_word_in_place", "add_dword_in_place", "sub_word_in_place",
        "sub_dword_in_place", "add_same_len_in_place", "sub_same_len_in_place", "add_in_place", "sub_in_place",
        "sub_same_len_in_place_swap", "sub_in_place_with_sign", "add_signed_word_in_place",
        "add_signed_same_len_in_place", "add_signed_in_place"]),
    ("integer/src/mul/mod.rs", "mul", [
        "mul_word_in_place_with_carry", "mul_word_in_place", "mul_dword_in_place", "add_mul_word_same_len_in_place",
        "sub_mul_word_same_len_in_place"]),
    ("integer/src/mul/simple.rs", "simple", ["add_mul_chunk", "sub_mul_chunk", "add_signed_mul_chunk"]),
    ("integer/src/shift.rs", "shift", ["shl_in_place"]),
]


def render(repo):
    tr = Translator()
    results = []
    for rel, module, names in C01_SOURCES:
        with open(os.path.join(repo, rel)) as f:
            tr.add_source(f.read(), module)
        results += tr.translate(names)
    return results


def _write_if_changed(path, txt):
    if os.path.exists(path):
        with open(path) as f:
            if f.read() == txt:
                return
    tmp = path + ".tmp%d" % os.getpid()
    with open(tmp, "w") as f:
        f.write(txt)
    os.replace(tmp, path)


LAST_RESULTS = []


def generate(repo, outdir):
    """regenerates <outdir>/WordKernelsGen.v.  Returns "ok", "ok unparsed=<a,b>" (some functions not translated: their
    definitions are absent from the file, the proofs about them break -> the status names them) or "unparsed <why>"
    (nothing usable: the previous copy is kept and marked STALE).  Never raises."""
    global LAST_RESULTS
    path = os.path.join(outdir, FNAME)
    try:
        os.makedirs(outdir, exist_ok=True)
        try:
            results = render(repo)
        except (Unparsed, OSError, UnicodeDecodeError, ValueError, RecursionError) as ex:
            why = re.sub(r"\s+", " ", str(ex)).strip()[:160] or ex.__class__.__name__
            if os.path.exists(path):
                with open(path) as f:
                    old = f.read()
                if not old.startswith(STALE):
                    _write_if_changed(path, STALE + " " + old)
                return "unparsed " + why
            return "unparsed " + why + " (no previous copy)"
        LAST_RESULTS = [(n, s) for n, s, _ in results]
        bad = [n for n, s, _ in results if s != "ok"]
        previous = ""
        if os.path.exists(path):
            with open(path) as f:
                previous = f.read()
        _write_if_changed(path, emit_file(HEADER, results, previous))
        return "ok" if not bad else "ok unparsed=" + ",".join(bad)
    except Exception as ex:  # never an alarm
        return "unparsed internal %s" % re.sub(r"\s+", " ", repr(ex))[:160]


def main():
    ap = argparse.ArgumentParser()
    ap.add_argument("--repo", default=os.environ.get("VERIF_REPO", "/repo"))
    ap.add_argument("--out", required=True)
    a = ap.parse_args()
    print("FRAGMENT WordKernelsGen %s" % generate(a.repo, a.out))
    for n, s in LAST_RESULTS:
        print("  %-36s %s" % (n, s))
    return 0


if __name__ == "__main__":
    sys.exit(main())
