#!/usr/bin/env python3
"""C02 round 5 translator: the RECURSION SKELETON of integer/src/div/divide_conquer.rs, the `*_large_dword` helpers of
div_ops.rs::repr and the word / double-word paths of div_const.rs -> coq/gen/DivBodiesGen.v; the IBig/UBig-level operator
macros of div_ops.rs -> coq/gen/DivOpsGen.v.

Built on tools/translate_c02_r4.py (class T2, itself on the loop translator tools/translate_c01_r4.py), imported as a library.

Recursion.  div_rem_in_place_small_quotient calls div_rem_in_place_same_len on sub-slices, which calls
div_rem_in_place_small_quotient twice.  Each of the two bodies is translated with the callee as a FUNCTION PARAMETER
(`rec_same_len` / `rec_small_quotient`: open recursion), and the knot is tied through fuel exactly as the hand model does:

    Fixpoint dc_small_quotient_gen P w fuel lhs rhs d := match fuel with O => (lhs, false) | S f =>
        div_rem_in_place_small_quotient_open_gen P w
            (div_rem_in_place_same_len_open_gen P w (dc_small_quotient_gen P w f)) lhs rhs d end.

The blocked loop `while m >= 2 * n` of divide_conquer::div_rem_in_place is a fuelled Fixpoint of the loop translator; the
recursion fuel of its callees is an explicit first argument (`rfuel`, added to the source text of the callers before parsing).

generate(repo, outdir) -> {"DivBodies": status, "DivOps": status}; never raises; an unparseable function keeps its last good
copy (STALE).
"""
import argparse
import os
import re
import sys

sys.path.insert(0, os.path.dirname(os.path.abspath(__file__)))
import translate_c01_r4 as L  # noqa: E402
import translate_c02_r4 as R4  # noqa: E402
from translate_c01_r4 import Unparsed, Prim, Sig  # noqa: E402

STALE = "(* STALE *)"
REC_TY = "list Z -> list Z -> Z -> list Z * bool"


def one_line(ex):
    return re.sub(r"\s+", " ", str(ex)).strip()[:160] or ex.__class__.__name__


# ------------------------------------------------------------------------------------------------ divide_conquer.rs
def normalise_dc(src):
    src = R4.normalise(src)
    # `let x: SignedWord = call(..)\n.into();`  ->  SignedWord::from(call(..))
    src = re.sub(r"=\s*(\w+\((?:[^()]|\([^()]*\))*\))\s*\.into\(\);", r"= SignedWord::from(\1);", src)
    # compile-time assertion about a constant (gen/Params.v + ParamsOk re-prove the inequality the theorems need)
    src = re.sub(r"\bconst_assert!\([^;]*\);", "", src)
    return src


def open_def(text, recname):
    """turn calls of the pseudo-function `recname` into calls of a function parameter"""
    for blk in re.split(r"\n(?=Fixpoint|Definition)", text):
        if blk.startswith("Fixpoint") and re.search(r"\b%s\b" % recname, blk):
            raise Unparsed("recursive call inside a loop")
    text = re.sub(r"\b%s w\b" % recname, recname, text)
    text = re.sub(r"(Definition \w+ \(P : div_prims\) \(w : Z\))", r"\1 (%s : %s)" % (recname, REC_TY), text, count=1)
    return text


def render_dc(repo):
    with open(os.path.join(repo, "integer/src/div/divide_conquer.rs")) as f:
        dc_src = normalise_dc(f.read())
    out = []
    LRD = [("lhs", "list", True), ("rhs", "list", False), ("d", "Z", False)]
    # --- same_len, open in small_quotient
    ok_open = True
    try:
        t = R4.T2()
        src = re.sub(r"\bfn div_rem_in_place_same_len\b", "fn div_rem_in_place_same_len_open", dc_src)
        t.add_source(src, "dc")
        t.sigs["div_rem_in_place_small_quotient"] = Sig("div_rem_in_place_small_quotient", "rec_small_quotient", LRD, "bool")
        (n, s, txt), = t.translate(["div_rem_in_place_same_len_open"])
        if s == "ok":
            txt = open_def(R4.add_p(txt), "rec_small_quotient")
        else:
            ok_open = False
        out.append((n, s, txt))
    except Unparsed as ex:
        ok_open = False
        out.append(("div_rem_in_place_same_len_open", "unparsed " + one_line(ex), ""))
    # --- small_quotient, open in same_len
    try:
        t = R4.T2()
        t.fuels = {("div_rem_in_place_small_quotient_open", 1): "(S dc_fix_fuel)"}
        src = re.sub(r"\bfn div_rem_in_place_small_quotient\b", "fn div_rem_in_place_small_quotient_open", dc_src)
        src = src.replace("div::simple::div_rem_in_place(", "simple_div_rem_in_place(")
        t.add_source(src, "dc")
        for a in R4.render.sigs:
            t.sigs.setdefault(a, R4.render.sigs[a])
        if "simple_div_rem_in_place" not in t.sigs:
            raise Unparsed("kernel simple_div_rem_in_place was not translated")
        t.sigs["div_rem_in_place_same_len"] = Sig("div_rem_in_place_same_len", "rec_same_len", LRD, "bool")
        (n, s, txt), = t.translate(["div_rem_in_place_small_quotient_open"])
        if s == "ok":
            txt = open_def(R4.add_p(txt), "rec_same_len")
        else:
            ok_open = False
        out.append((n, s, txt))
    except Unparsed as ex:
        ok_open = False
        out.append(("div_rem_in_place_small_quotient_open", "unparsed " + one_line(ex), ""))
    # --- the knot (fixed text: recursion through fuel; emitted only when both bodies were read)
    knot = "\n".join([
        "Fixpoint dc_small_quotient_gen (P : div_prims) (w : Z) (fuel : nat) (lhs : list Z) (rhs : list Z) (d : Z) {struct fuel} : list Z * bool :=",
        "  match fuel with",
        "  | O => (lhs, false)",
        "  | S fuel' => div_rem_in_place_small_quotient_open_gen P w",
        "                 (div_rem_in_place_same_len_open_gen P w (dc_small_quotient_gen P w fuel')) lhs rhs d",
        "  end.",
        "Definition dc_same_len_gen (P : div_prims) (w : Z) (fuel : nat) (lhs : list Z) (rhs : list Z) (d : Z) : list Z * bool :=",
        "  div_rem_in_place_same_len_open_gen P w (dc_small_quotient_gen P w fuel) lhs rhs d."])
    out.append(("dc_knot", "ok" if ok_open else "unparsed a body of the recursion was not read", knot if ok_open else ""))
    # --- the blocked loop
    try:
        t = R4.T2()
        m = re.search(r"\bfn div_rem_in_place\b", dc_src)
        if not m:
            raise Unparsed("fn div_rem_in_place not found")
        b0 = dc_src.index("{", m.end())
        end = L._balanced(dc_src, b0)
        body = dc_src[b0:end]
        body2 = body.replace("div_rem_in_place_same_len(", "div_rem_in_place_same_len(rfuel, ").replace(
            "div_rem_in_place_small_quotient(", "div_rem_in_place_small_quotient(rfuel, ")
        if body2.count("rfuel") != 2:
            raise Unparsed("div_rem_in_place: expected one call of each of same_len / small_quotient")
        syn = ("fn dc_div_rem_in_place(rfuel: usize, lhs: &mut [Word], rhs: &[Word], fast_div_rhs_top: FastDivideNormalized2, "
               "memory: &mut Memory) -> bool " + body2 + "\n")
        t.add_source(syn, "dc")
        FLRD = [("rfuel", "nat", False)] + LRD
        t.sigs["div_rem_in_place_same_len"] = Sig("div_rem_in_place_same_len", "dc_same_len_gen", FLRD, "bool")
        t.sigs["div_rem_in_place_small_quotient"] = Sig("div_rem_in_place_small_quotient", "dc_small_quotient_gen", FLRD, "bool")
        (n, s, txt), = t.translate(["dc_div_rem_in_place"])
        out.append((n, s, R4.add_p(txt) if s == "ok" else ""))
    except (Unparsed, ValueError) as ex:
        out.append(("dc_div_rem_in_place", "unparsed " + one_line(ex), ""))
    # --- the algorithm switch of div/mod.rs over the GENERATED divide-and-conquer kernel (round 4 had the transcription there);
    #     recursion fuel = lhs.len() + 1 (fuel_for of the hand model)
    try:
        with open(os.path.join(repo, "integer/src/div/mod.rs")) as f:
            mod_src = R4.normalise(f.read())
        msrc = mod_src.replace("simple::div_rem_in_place(", "simple_div_rem_in_place(")
        msrc, k = re.subn(r"divide_conquer::div_rem_in_place\(\s*lhs\s*,", "dc_div_rem_in_place(lhs.len() + 1, lhs,", msrc)
        if k < 1:
            raise Unparsed("div_rem_in_place: call of divide_conquer::div_rem_in_place(lhs, ..) not found")
        msrc = re.sub(r"\bfn div_rem_in_place\b", "fn div_rem_in_place_full", msrc)
        t = R4.T2()
        t.add_source(msrc, "div")
        for a in R4.render.sigs:
            t.sigs.setdefault(a, R4.render.sigs[a])
        t.sigs["dc_div_rem_in_place"] = Sig("dc_div_rem_in_place", "dc_div_rem_in_place_gen", [("rfuel", "nat", False)] + LRD, "bool")
        (n, s, txt), = t.translate(["div_rem_in_place_full"])
        out.append((n, s, R4.add_p(txt) if s == "ok" else ""))
    except (Unparsed, ValueError) as ex:
        out.append(("div_rem_in_place_full", "unparsed " + one_line(ex), ""))
    return out


# ------------------------------------------------------------------------------------------------ div_ops.rs::repr *_large_dword
DWORD_FNS = ["div_rem_large_dword", "div_large_dword", "rem_large_dword"]
GUARD_RE = re.compile(r"if\s+rhs\s*==\s*0\s*\{\s*panic_divide_by_0\(\)\s*;\s*\}")


def render_large_dword(repo):
    """the helpers behind the Large x Small arms.  The zero test `if rhs == 0 { panic_divide_by_0(); }` is taken out of the body
    (the value part is translated by the loop translator as a total function) and put back as the guard of `<fn>_chk_gen`
    (a function without its own test inherits the one of the *_large_dword function it calls); `if let Some(word) =
    shrink_dword(rhs)` is the test `rhs <= Word::MAX` with word = rhs."""
    with open(os.path.join(repo, "integer/src/div_ops.rs")) as f:
        src = R4.normalise(f.read())
    m = re.search(r"pub\(crate\) mod repr \{", src)
    if not m:
        raise Unparsed("mod repr not found")
    src = src[m.end():]
    bodies, guards = {}, {}
    for fn in DWORD_FNS:
        mm = re.search(r"\bfn\s+%s\b" % fn, src)
        if not mm:
            continue
        b0 = src.index("{", mm.end())
        end = L._balanced(src, b0)
        body = src[b0:end]
        body2, k = GUARD_RE.subn("", body)
        if k and not re.match(r"\{\s*$", body[:GUARD_RE.search(body).start()]):
            raise Unparsed("%s: zero test is not the first statement" % fn)
        guards[fn] = k > 0
        body2 = re.sub(r"if\s+let\s+Some\((\w+)\)\s*=\s*shrink_dword\((\w+)\)\s*\{", r"if fits_word(\2) { let \1 = \2;", body2)
        bodies[fn] = src[mm.start():b0] + body2
    t = R4.T2()
    t.prims["fits_word"] = Prim("({0} <? Words.B w)", ["Z"], "bool")
    t.add_source("\n".join(bodies.values()), "repr")
    for a in R4.render.sigs:
        t.sigs.setdefault(a, R4.render.sigs[a])
    out = []
    for n, s_, txt in t.translate([f for f in DWORD_FNS]):
        if s_ != "ok":
            out.append((n, s_, ""))
            continue
        txt = R4.add_p(txt)
        g = guards.get(n, False) or any(guards.get(c, False) and re.search(r"\b%s\(" % c, bodies[n].split("{", 1)[1]) for c in DWORD_FNS if c != n)
        sig = re.search(r"Definition %s_gen (\(P : div_prims\) \(w : Z\)((?: \(\w+ : [^()]*\))*)) : (.*?) :=" % n, txt)
        if not sig:
            out.append((n, "unparsed signature of the generated function", ""))
            continue
        args = " ".join(re.findall(r"\((\w+) :", sig.group(2)))
        call = "Ok (%s_gen P w %s)" % (n, args)
        chk = "Definition %s_chk_gen %s : result (%s) :=\n  %s." % (
            n, sig.group(1), sig.group(3), ("if (rhs =? 0) then Panic DivideBy0 else " + call) if g else call)
        out.append((n, "ok", txt + "\n" + chk))
    return out


# ------------------------------------------------------------------------------------------------ div_const.rs
# methods of ConstSingleDivisor / ConstDoubleDivisor as free functions of (shift, normalised divisor); the fields are reached
# through `self.0.shift()` / `self.0.divider()` in the source
CONST_METHODS = [("ConstSingleDivisor", "single", "FastDivideNormalized", ["rem_word", "rem_dword", "rem_large"]),
                 ("ConstDoubleDivisor", "double", "FastDivideNormalized2", ["rem_dword", "rem_large"])]
CONST_HELPERS = [("div_rem_small_single", "ConstSingleDivisor", "single", "FastDivideNormalized"),
                 ("div_rem_small_double", "ConstDoubleDivisor", "double", "FastDivideNormalized2")]
# the impl blocks of div_const.rs::repr whose Single / Double arms are translated: (trait text, method, prefix, lhs constructors)
CONST_IMPLS = [("Div<&'r ConstDivisorRepr> for TypedRepr", "div", "cdiv", ("Small", "Large")),
               ("Rem<&'r ConstDivisorRepr> for TypedRepr", "rem", "crem", ("Small", "Large")),
               ("Rem<&'r ConstDivisorRepr> for TypedReprRef<'l>", "rem", "crem_ref", ("RefSmall", "RefLarge")),
               ("DivRem<&'r ConstDivisorRepr> for TypedRepr", "div_rem", "cdivrem", ("Small", "Large"))]


def fn_text(src, name, start=0):
    m = re.compile(r"\bfn\s+%s\b" % name).search(src, start)
    if not m:
        raise Unparsed("fn %s not found" % name)
    p0 = src.index("(", m.end())
    p1 = L._balanced(src, p0, "(", ")")
    b0 = src.index("{", p1)
    end = L._balanced(src, b0)
    return src[p0 + 1:p1 - 1], src[p1:b0], src[b0:end]


def defield(body, var):
    body = re.sub(r"\*?\b%s\s*\.\s*0\s*\.\s*divider\(\)" % var, "dn", body)
    body = re.sub(r"\b%s\s*\.\s*0\s*\.\s*shift\(\)" % var, "shift", body)
    if re.search(r"\b%s\b\s*\.\s*0" % var, body):
        raise Unparsed("unknown field access through %s.0" % var)
    return body


def const_arm_names():
    out = []
    for _, _, prefix, (sm, lg) in CONST_IMPLS:
        for l in (sm, lg):
            for d in ("Single", "Double"):
                out.append("%s_%s_%s" % (prefix, "small" if l == sm else "large", d.lower()))
    return out


def render_const(repo):
    with open(os.path.join(repo, "integer/src/div_const.rs")) as f:
        src = R4.normalise(f.read())
    syn, names = [], []
    for ty, short, fdn, methods in CONST_METHODS:
        m = re.search(r"\bimpl\s+%s\s*\{" % ty, src)
        if not m:
            raise Unparsed("impl %s not found" % ty)
        end = L._balanced(src, m.end() - 1)
        blk = src[m.end():end]
        for meth in methods:
            params, ret, body = fn_text(blk, meth)
            params = re.sub(r"^\s*&self\s*,?", "", params)
            syn.append("fn %s_%s(shift: u32, dn: %s, %s) %s %s" % (short, meth, fdn, params, ret, defield(body, "self")))
            names.append("%s_%s" % (short, meth))
    m = re.search(r"\bmod repr \{", src)
    if not m:
        raise Unparsed("mod repr not found")
    rsrc = src[m.end():]
    for fn, ty, short, fdn in CONST_HELPERS:
        params, ret, body = fn_text(rsrc, fn)
        params2, k = re.subn(r"\brhs\s*:\s*&%s\b" % ty, "shift: u32, dn: %s" % fdn, params)
        if k != 1:
            raise Unparsed("%s: parameter rhs: &%s not found" % (fn, ty))
        syn.append("fn %s(%s) %s %s" % (fn, params2, ret, defield(body, "rhs")))
        names.append(fn)
    # the Single / Double arms of the impl blocks
    for trait, meth, prefix, (sm, lg) in CONST_IMPLS:
        i = rsrc.find(trait)
        if i < 0:
            raise Unparsed("impl %s not found" % trait)
        b0 = rsrc.index("{", i)
        blk = rsrc[b0:L._balanced(rsrc, b0)]
        _, ret, body = fn_text(blk, meth)
        mm = re.search(r"match\s*\(\s*self\s*,\s*rhs\s*\)\s*\{", body)
        if not mm:
            raise Unparsed("%s: match (self, rhs) not found" % trait)
        arms = body[mm.end():L._balanced(body, mm.end() - 1) - 1]
        for l in (sm, lg):
            for d, short, fdn in (("Single", "single", "FastDivideNormalized"), ("Double", "double", "FastDivideNormalized2")):
                am = re.search(r"\(\s*%s\((mut\s+)?(\w+)\)\s*,\s*ConstDivisorRepr::%s\((\w+)\)\s*\)\s*=>\s*\{" % (l, d), arms)
                if not am:
                    raise Unparsed("%s: arm (%s, %s) not found" % (trait, l, d))
                abody = arms[am.end() - 1:L._balanced(arms, am.end() - 1)]
                var, dv = am.group(2), am.group(3)
                abody = defield(abody, dv)
                for meth2 in ("rem_word", "rem_dword", "rem_large"):
                    abody = re.sub(r"\b%s\.%s\(\s*&?" % (dv, meth2), "%s_%s(shift, dn, " % (short, meth2), abody)
                for fn, _, _, _ in CONST_HELPERS:
                    abody = re.sub(r"\b%s\(\s*(\w+)\s*,\s*%s\s*\)" % (fn, dv), r"%s(\1, shift, dn)" % fn, abody)
                if re.search(r"\b%s\b(?!\s*::)" % dv, abody):
                    raise Unparsed("%s: arm (%s, %s) uses the divisor in a way that is not read" % (trait, l, d))
                small = l in ("Small", "RefSmall")
                pty = "DoubleWord" if small else ("&[Word]" if l == "RefLarge" or not am.group(1) else "Buffer")
                name = "%s_%s_%s" % (prefix, "small" if small else "large", short)
                syn.append("fn %s(%s%s: %s, shift: u32, dn: %s) %s %s" % (name, "mut " if am.group(1) else "", var, pty, fdn, ret, abody))
                names.append(name)
    t = R4.T2()
    t.add_source("\n".join(syn), "cst")
    for a in R4.render.sigs:
        t.sigs.setdefault(a, R4.render.sigs[a])
    return [(n, s_, R4.add_p(txt) if s_ == "ok" else "") for n, s_, txt in t.translate(names)]


BODIES_NAME = "DivBodiesGen.v"
BODIES_HEADER = [
    "(** GENERATED by tools/translate_c02_r5.py (on tools/translate_c02_r4.py / tools/translate_c01_r4.py) - do not edit.",
    "    integer/src/div/divide_conquer.rs: the two mutually recursive bodies with the callee as a function parameter, the knot tied",
    "    through fuel, the blocked loop of div_rem_in_place; integer/src/div_ops.rs::repr: the *_large_dword helpers;",
    "    integer/src/div_const.rs: rem / div_rem paths of ConstSingleDivisor / ConstDoubleDivisor and the Small x Const helpers.",
    "    Int/DivBodiesGenProofs.v proves each equal to the hand model of Int/DivWordModel.v for every w. *)",
    "From Dashu Require Import Base.Prelude Base.Words Int.RingAdd Int.WordPrims Int.DivWordModel Int.DivKernelsBase Int.DivOwn.",
    "From DashuGen Require Import DivKernelsGen.",
    "Open Scope Z_scope.",
    "Open Scope bool_scope.",
]

LAST_RESULTS = []

# ------------------------------------------------------------------------------------------------ div_ops.rs: the operator layer
OPS_NAME = "DivOpsGen.v"
KINDS = {"forward_ubig_binop_to_repr": "KUU", "forward_ibig_binop_to_repr": "KII",
         "forward_ubig_ibig_binop_to_repr": "KUI", "forward_ibig_ubig_binop_to_repr": "KIU"}
FORMS = {"Div": "FDiv", "Rem": "FRem", "DivRem": "FDivRem", "DivEuclid": "FDivEuclid", "RemEuclid": "FRemEuclid", "DivRemEuclid": "FDivRemEuclid"}
ASSIGN = {"DivAssign": "div", "RemAssign": "rem", "DivRemAssign": "div_rem"}


def render_ops(repo, gendir):
    """which macro body / which TypedRepr operation every public operator of div_ops.rs expands to: the invocations
    `helper_macros::forward_<kinds>_binop_to_repr!(impl Trait, method [-> (A, B)], [Output.. =,] [repr method | body macro])`
    become one Gallina function ops_form_gen kind form -> option (values from the sign / magnitude pairs), the bodies being the
    functions <macro>_gen that tools/translate.py regenerates into SignTables.v; `impl_binop_assign_by_taking!` rows are listed."""
    with open(os.path.join(repo, "integer/src/div_ops.rs")) as f:
        src = R4.strip_comments(f.read())
    with open(os.path.join(gendir, "SignTables.v")) as f:
        tables = f.read()
    rows, assigns = [], []
    for m in re.finditer(r"helper_macros::(\w+)!\s*\(", src):
        end = L._balanced(src, m.end() - 1, "(", ")")
        arg = re.sub(r"\s+", " ", src[m.end():end - 1]).strip()
        mac = m.group(1)
        if mac in KINDS:
            mm = re.match(r"impl (\w+)\s*,\s*(\w+)\s*(->\s*\([^)]*\))?\s*(?:,(.*))?$", arg)
            if not mm or mm.group(1) not in FORMS:
                raise Unparsed("invocation of %s not read: %s" % (mac, arg[:60]))
            rest = [x.strip() for x in (mm.group(4) or "").split(",") if x.strip() and "=" not in x]
            if len(rest) > 1:
                raise Unparsed("invocation of %s has more than one target: %s" % (mac, arg[:60]))
            rows.append((KINDS[mac], mm.group(1), mm.group(2), bool(mm.group(3)), rest[0] if rest else mm.group(2)))
        elif mac == "impl_binop_assign_by_taking":
            mm = re.match(r"impl (\w+)<(\w+)> for (\w+)\s*,\s*(\w+)\s*,(?:\s*OutputRem = \w+\s*,)?\s*(\w+)$", arg)
            if not mm:
                raise Unparsed("invocation of impl_binop_assign_by_taking not read: %s" % arg[:60])
            assigns.append((mm.group(1), mm.group(3), mm.group(2), mm.group(5)))
    if not rows:
        raise Unparsed("no forward_*_binop_to_repr invocations found")
    # impl_ubig_divrem: the pair of the TypedRepr div_rem
    ub = re.search(r"macro_rules!\s*impl_ubig_divrem\s*\{(.*?)\n\}", src, re.S)
    ub_ok = bool(ub and re.search(r"let \(q, r\) = \$repr0\.div_rem\(\$repr1\);\s*\(UBig\(q\), UBig\(r\)\)", ub.group(1)))
    lines = []
    for kind, trait, meth, pair, target in rows:
        if kind == "KUU":
            if target == "div" and not pair:
                term = "[m0 / m1]"
            elif target == "rem" and not pair:
                term = "[m0 mod m1]"
            elif target == "impl_ubig_divrem" and pair and ub_ok:
                term = "[m0 / m1; m0 mod m1]"
            else:
                raise Unparsed("UBig operator %s forwards to %s" % (trait, target))
        else:
            if not target.startswith("impl_"):
                raise Unparsed("%s operator %s: target %s is not a body macro" % (kind, trait, target))
            g = target[len("impl_"):] + "_gen"
            if not re.search(r"Definition %s\b" % g, tables):
                raise Unparsed("body macro %s is not in SignTables.v" % target)
            args = {"KII": "s0 m0 s1 m1", "KUI": "Positive m0 s1 m1", "KIU": "s0 m0 Positive m1"}[kind]
            term = ("let qr := %s %s in [fst qr; snd qr]" % (g, args)) if pair else "[%s %s]" % (g, args)
        lines.append("  | %s, %s => Some (%s)   (* %s::%s -> %s *)" % (kind, FORMS[trait], term, trait, meth, target))
    out = ["(** GENERATED by tools/translate_c02_r5.py from the macro invocations of integer/src/div_ops.rs - do not edit.",
           "    ops_form_gen: for the operand kinds UBig/UBig, IBig/IBig, UBig/IBig, IBig/UBig and each operator trait, the values the",
           "    public operator computes from (sign, magnitude) of both operands: the body macro named in the invocation (regenerated as",
           "    <macro>_gen in SignTables.v) or, for UBig, the TypedRepr operation it forwards to.  Int/DivOpsGenProofs.v proves that the",
           "    hand-written dispatch of Int/DivSpec.v (ibig_form_asis ...) is this table. *)",
           "From Dashu Require Import Base.Prelude Int.DivSpec.", "From DashuGen Require Import SignTables.",
           "From Coq Require Import String.", "Open Scope Z_scope.", "",
           "Inductive okind := KUU | KII | KUI | KIU.", "",
           "Definition ops_form_gen (k : okind) (f : form) (s0 : sign) (m0 : Z) (s1 : sign) (m1 : Z) : option (list Z) :=",
           "  match k, f with"] + lines + ["  | _, _ => None", "  end.", "",
           "(** impl_binop_assign_by_taking!(impl TraitAssign<Rhs> for Lhs, method, [OutputRem = ..,] forwarded method) *)",
           "Definition ops_assign_gen : list (string * string * string * string) := ["]
    out.append(";\n".join('  ("%s", "%s", "%s", "%s")' % a for a in assigns) + "]%string.")
    return "\n".join(out) + "\n", rows, assigns


def write_fragment(path, header, render_fn, repo):
    try:
        results = render_fn(repo)
        bad = [n for n, s, _ in results if s != "ok"]
        previous = ""
        if os.path.exists(path):
            with open(path) as f:
                previous = f.read()
        L._write_if_changed(path, L.emit_file(header, results, previous))
        LAST_RESULTS.extend((n, s) for n, s, _ in results)
        return "ok" if not bad else "ok unparsed=" + ",".join(bad)
    except Exception as ex:  # never an alarm
        if os.path.exists(path):
            with open(path) as f:
                old = f.read()
            if not old.startswith(STALE):
                L._write_if_changed(path, STALE + " " + old)
        return "unparsed " + one_line(ex)


def render_bodies(repo):
    # the kernel signatures (normalize, simple_div_rem_in_place, fast_* ...) come from the round-4 rendering
    R4.render(repo)
    out = render_dc(repo)
    try:
        out += render_large_dword(repo)
    except (Unparsed, ValueError) as ex:
        out += [(fn, "unparsed " + one_line(ex), "") for fn in DWORD_FNS]
    try:
        out += render_const(repo)
    except (Unparsed, ValueError, IndexError) as ex:
        names = ["%s_%s" % (sh, m_) for _, sh, _, ms in CONST_METHODS for m_ in ms] + [h[0] for h in CONST_HELPERS] + const_arm_names()
        out += [(fn, "unparsed " + one_line(ex), "") for fn in names]
    return out


def generate(repo, outdir):
    del LAST_RESULTS[:]
    os.makedirs(outdir, exist_ok=True)
    status = {}
    status["DivBodies"] = write_fragment(os.path.join(outdir, BODIES_NAME), BODIES_HEADER, render_bodies, repo)
    opath = os.path.join(outdir, OPS_NAME)
    try:
        txt, rows, assigns = render_ops(repo, outdir)
        L._write_if_changed(opath, txt)
        LAST_RESULTS.append(("div_ops operator rows", "ok %d operators, %d assign forms" % (len(rows), len(assigns))))
        status["DivOps"] = "ok"
    except Exception as ex:
        if os.path.exists(opath):
            with open(opath) as f:
                old = f.read()
            if not old.startswith(STALE):
                L._write_if_changed(opath, STALE + " " + old)
        status["DivOps"] = "unparsed " + one_line(ex)
    return status


def main():
    ap = argparse.ArgumentParser()
    ap.add_argument("--repo", default=os.environ.get("VERIF_REPO", "/repo"))
    ap.add_argument("--out", required=True)
    a = ap.parse_args()
    st = generate(a.repo, a.out)
    for k, v in st.items():
        print("FRAGMENT %s %s" % (k, v))
    for n, s in LAST_RESULTS:
        print("  %-44s %s" % (n, s))
    return 0


if __name__ == "__main__":
    sys.exit(main())
