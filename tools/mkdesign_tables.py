#!/usr/bin/env python3
"""Regenerates the generated tables of DESIGN.md (between the markers <!-- GEN:name --> ... <!-- /GEN:name -->):
   fixed   - defects repaired in /repo (from findings/C*.json, status fixed)
   open    - recorded findings (status open)
   seeded  - seeded changes and which checks catch them (from seeded/*/meta.json + result.json)"""
import glob, json, os, re, subprocess
ROOT = os.path.dirname(os.path.dirname(os.path.abspath(__file__)))

def cell(s, n=400):
    s = " ".join(str(s).split()).replace("|", "\\|")
    return s if len(s) <= n else s[: n - 1] + "…"

fixed, opened = [], []
for fp in sorted(glob.glob(os.path.join(ROOT, "findings", "C*.json"))):
    for f in json.load(open(fp)).get("findings", []):
        (fixed if f.get("status") == "fixed" else opened).append(f)
subjects = dict(l.split(" ", 1) for l in subprocess.run(["git", "-C", "/repo", "log", "--format=%h %s"], capture_output=True, text=True).stdout.splitlines() if " " in l)
t_fixed = ["| finding | property | commit | what failed |", "|---|---|---|---|"]
seen = set()
for f in fixed:
    c = str(f.get("commit", ""))[:7]
    what = f.get("what") or f.get("line") or ""
    if c in subjects:
        what = subjects[c].replace("fix: ", "", 1)
    key = (f.get("property"), c, f.get("id"))
    if key in seen:
        continue
    seen.add(key)
    t_fixed.append("| %s | %s | %s | %s |" % (f.get("id", ""), f.get("property", ""), c, cell(what)))
t_open = ["| finding | property | class (oracle tag) | what fails | witness |", "|---|---|---|---|---|"]
for f in opened:
    t_open.append("| %s | %s | `%s` | %s | `%s` |" % (f.get("id", ""), f.get("property", ""), f.get("class", ""), cell(f.get("what", "")), cell(f.get("witness", ""), 120)))
t_seed = ["| seed | property | change (file) | needs, to manifest | checks run: verdict |", "|---|---|---|---|---|"]
for d in sorted(glob.glob(os.path.join(ROOT, "seeded", "*"))):
    mp = os.path.join(d, "meta.json")
    if not os.path.exists(mp):
        continue
    m = json.load(open(mp))
    rp = os.path.join(d, "result.json")
    verdict = "not run yet"
    if os.path.exists(rp):
        r = json.load(open(rp))
        def one(k, v):
            t = "%s: %s" % (k, "caught" if v.get("caught") else "MISSED")
            if v.get("caught") and any(e.get("caught") is False for e in v.get("earlier", [])):
                t += " (MISSED at /verif %s; the check was strengthened afterwards)" % next(e.get("verif") or "?" for e in v["earlier"] if e.get("caught") is False)
            return t
        verdict = ", ".join(one(k, v) for k, v in r.get("checks", {}).items()) or r.get("error", "?")
    hist = os.path.join(d, "history.json")
    if os.path.exists(hist):
        verdict += " (" + cell(json.load(open(hist)).get("note", ""), 200) + ")"
    t_seed.append("| %s | %s | %s (%s) | %s | %s |" % (os.path.basename(d), m.get("property", ""), cell(m.get("what_it_breaks", ""), 260),
                  cell(", ".join(m.get("files_changed", [])), 80), cell(m.get("needs_to_manifest", ""), 260), verdict))
tables = {"fixed": "\n".join(t_fixed), "open": "\n".join(t_open), "seeded": "\n".join(t_seed)}
p = os.path.join(ROOT, "DESIGN.md")
s = open(p).read()
for name, txt in tables.items():
    pat = re.compile(r"(<!-- GEN:%s -->\n).*?(<!-- /GEN:%s -->)" % (name, name), re.S)
    if not pat.search(s):
        print("marker for %s missing in DESIGN.md" % name)
        continue
    s = pat.sub(lambda mm: mm.group(1) + txt + "\n" + mm.group(2), s)
open(p, "w").write(s)
print("DESIGN.md tables: %d fixed, %d open, %d seeds" % (len(t_fixed) - 2, len(t_open) - 2, len(t_seed) - 2))
