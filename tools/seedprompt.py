#!/usr/bin/env python3
"""print the prompt for a seed-producing sub-agent: tools/seedprompt.py C11 C D  (variants named C and D)"""
import glob, json, os, sys
ROOT = os.path.dirname(os.path.dirname(os.path.abspath(__file__)))
pid, va, vb = sys.argv[1], sys.argv[2], sys.argv[3]
prop = next(json.loads(l) for l in open(os.path.join(ROOT, "properties.jsonl")) if json.loads(l)["id"] == pid)
text = "\n".join("%s: %s" % (k, json.dumps(prop[k], ensure_ascii=False) if not isinstance(prop[k], str) else prop[k])
                 for k in ("id", "title", "statement", "quantifier", "why_tests_cant", "anchors") if k in prop)
prev = []
for d in sorted(glob.glob(os.path.join(ROOT, "seeded", "*"))):
    mp = os.path.join(d, "meta.json")
    if os.path.exists(mp):
        m = json.load(open(mp))
        if m.get("property") == pid:
            prev.append("  - %s: %s" % (", ".join(m.get("files_changed", [])), m.get("what_it_breaks", "")[:260]))
avoid = ""
if prev:
    avoid = "\nEARLIER CHANGES ALREADY COLLECTED FOR THIS PROPERTY - do NOT repeat these mechanisms or these functions, find different code paths:\n" + "\n".join(prev) + "\n"
t = open(os.path.join(ROOT, "docs", "seed_prompt.tmpl")).read()
print(t.format(pid=pid, prop=text, va=va, vb=vb, avoid=avoid, wt="/tmp/seedwt_%s_%s%s" % (pid, va, vb), branch="seedwt_%s_%s%s" % (pid, va, vb),
               out="/tmp/seed_%s_out" % pid))
