#!/usr/bin/env python3
"""C09 round 5: the STRAIGHT-LINE bodies of the bit operations regenerated as Gallina (coq/gen/BitsBodiesGen.v).

Round 4 regenerated the loop kernels; this translator reads the bodies that call them:
  integer/src/shift_ops.rs (mod repr): shl_one_spilled, shl_dword_spilled, shl_dword, shl_large_ref, shl_large, shr_dword, shr_large,
                                       shr_large_ref
  integer/src/bits.rs (mod repr):      with_bit_dword_spilled, with_bit_large, clear_high_bits_large, next_power_of_two_large,
                                       impl TypedRepr { next_power_of_two, set_bit, clear_bit, clear_high_bits, split_bits },
                                       are_dword_low_bits_nonzero, impl TypedReprRef { bit, bit_len, are_low_bits_nonzero, is_power_of_two,
                                       trailing_zeros, trailing_ones, count_ones, count_zeros, trailing_ones_neg }
  integer/src/repr.rs:                 Repr::ones
The parser of tools/translate_c01_r4.py is used as a library (plus slice patterns); the evaluator below is a small TYPED
symbolic executor (types usize / u32 / Word / DoubleWord / bool / Buffer / slice / Repr / Option):
  * `let`, shadowing, tuple patterns                         -> Gallina `let` (shadowing as in Rust)
  * if / else-if chains on comparisons of usize counts       -> `if a <? b then .. else ..` (same comparison operator)
  * `if c { return e; }` / `if c { stmts }` / if-else with Buffer mutation in the arms -> the buffer is threaded through the `if`
  * match on self (Small / Large), on a slice ([] / &[w] / &[lo, hi] / _), on an Option (Some / None)
  * Buffer by value: allocate (capacity is C17's subject: the request is dropped) push push_zeros push_slice push_zeros_front
    erase_front truncate push_repeat::<{Word::MAX}> push_resizing ensure_capacity, `buffer[i] OP= e`, last_mut().unwrap() + `*last OP= e`
  * machine arithmetic with EXPLICIT widths: `e as u32` -> cast_u32 e (mod 2^32), `e as usize` -> cast_usize uw e (mod 2^uw),
    `as _` resolved from the callee's parameter type read from math.rs; `x << n` / `x >> n` on Word / DoubleWord -> word_shl / dword_shl
    (count taken modulo the width as the release build does, result truncated to the width) / word_shr / dword_shr;
    `d.checked_shr(n).unwrap_or(v)` -> dword_checked_shr; `!x` -> word_not / dword_not; `+` on Word / DoubleWord wraps (mod 2^width);
    literal patterns `RefSmall(0) => a, RefSmall(1) => b, RefSmall(x) => c` -> `if x =? 0 then a else if x =? 1 then b else c`;
    Some / None; the iterator idioms iter().map(count_ones|count_zeros).sum(), iter().all(|x| *x == 0), the skip_while scan of
    next_power_of_two_large and math::bit_len's one-line body are recognised LITERALLY and rendered as atoms.  usize + - * / % are taken in Z (no overflow
    modelling: the sizes involved are allocation requests).
So a truncating cast or a changed guard in the source shows up as a changed definition, and Int/BitsBodiesGenProof.v (generated = the
hand-written model of Int/BitsKernels.v, for every word size) breaks unless the count is provably in range.
A function that cannot be read is reported `unparsed` (never an alarm) and keeps its last good copy, marked STALE.
  generate(repo, outdir) -> "ok" | "ok unparsed=<names>" | "unparsed <why>"          (never raises)
"""
import os
import re
import sys

sys.path.insert(0, os.path.dirname(os.path.abspath(__file__)))
import translate_c01_r4 as T  # noqa: E402
import translate_c09_r4 as R4  # noqa: E402

Unparsed = T.Unparsed


class P5(T.Parser):
    def pattern(self):
        if self.at("["):
            self.eat()
            ps = []
            while not self.at("]"):
                ps.append(self.pattern())
                if self.at(","):
                    self.eat()
            self.eat("]")
            return ("pslice", ps)
        return super().pattern()


TYPES = {"usize": "usize", "u32": "u32", "Word": "word", "DoubleWord": "dword", "Buffer": "buf", "&[Word]": "slice",
         "Repr": "repr", "Self": "repr", "bool": "bool", "(Repr,Repr)": "repr2", "Option<usize>": ("option", "usize")}
GT = {"usize": "Z", "u32": "Z", "word": "Z", "dword": "Z", "buf": "list Z", "slice": "list Z", "repr": "brepr", "bool": "bool",
      "repr2": "(brepr * brepr)"}
RESERVED = {"w", "uw", "B", "cap", "x_", "t_", "fst", "snd", "len", "rev", "last", "nth"}


def gt(t):
    return "option %s" % GT[t[1]] if isinstance(t, tuple) and t[0] == "option" else GT[t]


CMP = {"<": "<?", "<=": "<=?", ">": ">?", ">=": ">=?", "==": "=?"}
INT = ("usize", "u32", "lit")
MUT_METHODS = ("push", "push_zeros", "push_slice", "push_zeros_front", "erase_front", "truncate", "push_repeat", "push_resizing",
               "ensure_capacity", "last_mut")


def nm(x):
    return x + "_" if x in RESERVED else x


def paren(s):
    return s if re.match(r"^[\w.]+$", s) or (s.startswith("(") and T._balanced(s, 0, "(", ")") == len(s)) else "(" + s + ")"


class Ev:
    """one function body -> Gallina text"""

    def __init__(self, own, calltypes):
        self.own = own              # name -> (gallina name, [param kinds], ret kind, needs_cap) of functions translated so far
        self.calltypes = calltypes  # callee -> [param types] read from math.rs (for `as _`)
        self.subst = []
        self.uses_cap = False
        self.ret = None

    # ------------------------------------------------------------------ blocks and statements
    def block(self, blk, env, want, tail=None):
        if blk[0] != "block":
            return self.ev(blk, env, want)
        return self.seq(blk[1], blk[2], dict(env), want, tail)

    def seq(self, ss, final, env, want, tail):
        if not ss:
            if final is not None:
                return self.ev(final, env, want)
            if tail:
                return tail(env)
            raise Unparsed("block without a value")
        s, rest = ss[0], ss[1:]

        def cont(env2):
            return self.seq(rest, final, env2, want, tail)
        k = s[0]
        if k == "let":
            return self.let(s, env, cont)
        if k == "return":
            return self.ev(s[1], env, self.ret)
        if k == "assign":
            return self.assign(s, env, cont)
        if k == "expr":
            e = s[1]
            if e[0] == "if":
                return self.if_stmt(e, env, cont, rest, final, want)
            if e[0] == "match" and not rest and final is None and tail is None:
                return self.ev(e, env, want)
            if e[0] == "match":
                return self.match_stmt(e, env, cont)
            if e[0] == "mcall":
                return self.buf_stmt(e, env, cont)
            if e[0] == "call":
                return self.call_stmt(None, e, env, cont)
        raise Unparsed("statement %s" % (s[0],))

    def returns(self, blk):
        return blk[0] == "block" and blk[1] and blk[1][-1][0] == "return" and blk[2] is None

    def mutated(self, e, env, alias=None):
        """names of the Buffer variables of env that the code fragment mutates"""
        out, alias = set(), dict(alias or {})

        def base(x):
            while x[0] in ("index", "ref", "un"):
                x = x[1] if x[0] == "index" else x[2]
            return x[1] if x[0] == "var" else None

        def walk(x):
            if isinstance(x, tuple):
                if x and x[0] == "let" and x[1][0] == "pvar" and x[3][0] == "mcall" and x[3][2] == "unwrap" \
                        and x[3][1][0] == "mcall" and x[3][1][2] == "last_mut":
                    alias[x[1][1]] = base(x[3][1][1])
                if x and x[0] == "mcall" and x[2] in MUT_METHODS:
                    out.add(base(x[1]))
                if x and x[0] == "assign":
                    b = base(x[1])
                    out.add(alias.get(b, b))
                if x and x[0] == "ref" and x[1]:
                    out.add(base(x[2]))
                for y in x:
                    walk(y)
            elif isinstance(x, list):
                for y in x:
                    walk(y)
        walk(e)
        return sorted(n for n in out if n and env.get(n) == "buf")

    def if_stmt(self, e, env, cont, rest, final, want):
        _, c, th, el = e
        ct, cty = self.ev(c, env, "bool")
        if cty != "bool":
            raise Unparsed("if on a non-bool")
        if self.returns(th) and el is None:
            a, _ = self.block(th, env, self.ret)
            b, ty = cont(env)
            return "if %s then %s\n  else %s" % (ct, a, b), ty
        ms = self.mutated([th, el], env)
        if not ms:
            raise Unparsed("statement `if` that mutates nothing known")

        def tail(env2):
            return ("(%s)" % ", ".join(nm(m) for m in ms) if len(ms) > 1 else nm(ms[0])), "state"
        a, _ = self.block(th, env, None, tail)
        b, _ = self.block(el, env, None, tail) if el is not None else tail(env)
        pat = "'(%s)" % ", ".join(nm(m) for m in ms) if len(ms) > 1 else nm(ms[0])
        r, ty = cont(env)
        return "let %s := (if %s then %s else %s) in\n  %s" % (pat, ct, a, b, r), ty

    def match_stmt(self, e, env, cont):
        """`match opt { Some(p) => { stmts } None => { stmts } }` whose arms mutate a Buffer"""
        sc, sty = self.ev(e[1], env, None)
        if not (isinstance(sty, tuple) and sty[0] == "option") or sorted(a[0][1] for a in e[2] if a[0][0] == "pctor") != ["None", "Some"]:
            raise Unparsed("statement match that is not on an Option")
        alias = {k: v[1] for k, v in env.items() if isinstance(v, tuple) and v[0] == "lastref"}
        ms = self.mutated([a[1] for a in e[2]], env, alias)
        if len(ms) != 1:
            raise Unparsed("statement match mutating %s" % (ms,))

        def tail(env2):
            return nm(ms[0]), "state"
        out = []
        for p, body in e[2]:
            env2 = dict(env)
            if p[1] == "Some":
                if len(p[2]) != 1 or p[2][0][0] != "pvar":
                    raise Unparsed("Some pattern")
                env2[p[2][0][1]] = sty[1]
                out.append("| Some %s => %s" % (nm(p[2][0][1]), self.block(body, env2, None, tail)[0]))
            else:
                out.append("| None => %s" % self.block(body, env2, None, tail)[0])
        r, ty = cont(env)
        return "let %s := match %s with\n  %s\n  end in\n  %s" % (nm(ms[0]), sc, "\n  ".join(out), r), ty

    def let(self, s, env, cont):
        _, pat, ty, e, _mut = s
        want = TYPES.get(ty.replace(" ", "")) if ty else None
        if e[0] == "call" and e[1].endswith("Buffer::allocate"):
            if pat[0] != "pvar" or len(e[2]) != 1:
                raise Unparsed("Buffer::allocate")
            self.ev(e[2][0], env, "usize")  # must be readable; the capacity itself belongs to C17
            env[pat[1]] = "buf"
            r, rty = cont(env)
            return "let %s := @nil Z in\n  %s" % (nm(pat[1]), r), rty
        if e[0] == "mcall" and e[2] == "unwrap" and e[1][0] == "mcall" and e[1][2] == "last_mut" and e[1][1][0] == "var":
            if pat[0] != "pvar" or env.get(e[1][1][1]) != "buf":
                raise Unparsed("last_mut")
            env[pat[1]] = ("lastref", e[1][1][1])
            return cont(env)
        if e[0] == "call" and any(a[0] == "ref" and a[1] for a in e[2]):
            return self.call_stmt(pat, e, env, cont)
        v, vty = self.ev(e, env, want)
        if vty == "lit":
            raise Unparsed("literal of unknown type in let")
        lhs = self.bind(pat, vty, env)
        r, rty = cont(env)
        return "let %s := %s in\n  %s" % (lhs, v, r), rty

    def bind(self, pat, ty, env):
        if pat[0] == "pvar":
            env[pat[1]] = ty
            return nm(pat[1])
        if pat[0] == "pwild":
            return "_"
        if pat[0] == "ptuple" and isinstance(ty, tuple) and len(ty) == len(pat[1]) + 1:
            return "'(%s)" % ", ".join(self.bind(p, t, env) for p, t in zip(pat[1], ty[1:]))
        raise Unparsed("let pattern")

    MUTCALLS = {"shl_in_place": ("shl_in_place w", "word"), "shr_in_place": ("shr_in_place w", "word")}

    def call_stmt(self, pat, e, env, cont):
        """`[let r =] shift::f(&mut buffer[a..], n);` - a round-4 kernel that mutates a slice and returns a word"""
        fn = e[1].split("::")[-1]
        if fn not in self.MUTCALLS or len(e[2]) != 2 or e[2][0][0] != "ref" or not e[2][0][1]:
            raise Unparsed("call statement %s" % e[1])
        g, rty = self.MUTCALLS[fn]
        tgt = e[2][0][2]
        n, nty = self.ev(e[2][1], env, "u32")
        if nty != "u32":
            raise Unparsed("shift count of type %s" % (nty,))
        lo = None
        if tgt[0] == "index" and tgt[2][0] == "range" and tgt[2][2] is None and tgt[2][1] is not None:
            lo, lty = self.ev(tgt[2][1], env, "usize")
            tgt = tgt[1]
        if tgt[0] != "var" or env.get(tgt[1]) != "buf":
            raise Unparsed("&mut of something that is not a Buffer")
        b = nm(tgt[1])
        arg = b if lo is None else "(skipn (Z.to_nat %s) %s)" % (lo, b)
        call = "%s %s %s" % (g, arg, n)
        if pat is None or pat[0] == "pwild":
            new = "fst (%s)" % call if lo is None else "firstn (Z.to_nat %s) %s ++ fst (%s)" % (lo, b, call)
            r, ty = cont(env)
            return "let %s := %s in\n  %s" % (b, new, r), ty
        if pat[0] != "pvar":
            raise Unparsed("pattern of a kernel call")
        env[pat[1]] = rty
        r, ty = cont(env)
        if lo is None:
            return "let '(%s, %s) := %s in\n  %s" % (b, nm(pat[1]), call, r), ty
        return "let '(t_, %s) := %s in\n  let %s := firstn (Z.to_nat %s) %s ++ t_ in\n  %s" % (nm(pat[1]), call, b, lo, b, r), ty

    def buf_stmt(self, e, env, cont):
        _, recv, meth, args = e
        if recv[0] != "var" or env.get(recv[1]) != "buf" or meth not in MUT_METHODS or len(args) != 1:
            raise Unparsed("method statement .%s" % meth)
        b = nm(recv[1])
        if meth == "push_slice":
            a, aty = self.ev(args[0], env, "slice")
            if aty not in ("slice", "buf"):
                raise Unparsed("push_slice of %s" % (aty,))
        elif meth in ("push", "push_resizing"):
            a, aty = self.ev(args[0], env, "word")
            if aty != "word":
                raise Unparsed("push of %s" % (aty,))
        else:
            a, aty = self.ev(args[0], env, "usize")
            if aty != "usize":
                raise Unparsed("%s of %s" % (meth, aty))
        new = {"push": "%s ++ [%s]", "push_resizing": "%s ++ [%s]", "push_slice": "%s ++ %s",
               "push_zeros": "%s ++ repeat 0 (Z.to_nat %s)", "push_repeat": "%s ++ repeat (B w - 1) (Z.to_nat %s)",
               "push_zeros_front": "repeat 0 (Z.to_nat {1}) ++ {0}", "erase_front": "skipn (Z.to_nat {1}) {0}",
               "truncate": "firstn (Z.to_nat {1}) {0}", "ensure_capacity": None}[meth]
        if new is None:
            return cont(env)
        new = new.format(b, a) if "{" in new else new % (b, a)
        r, ty = cont(env)
        return "let %s := %s in\n  %s" % (b, new, r), ty

    def assign(self, s, env, cont):
        _, lhs, op, rhs = s
        if op != "=":
            raise Unparsed("assignment %s" % op)
        if lhs[0] == "index" and lhs[1][0] == "var" and env.get(lhs[1][1]) == "buf" and lhs[2][0] != "range":
            b = nm(lhs[1][1])
            i, ity = self.ev(lhs[2], env, "usize")
            pos = "(Z.to_nat %s)" % i
        elif lhs[0] == "un" and lhs[1] == "*" and lhs[2][0] == "var" and isinstance(env.get(lhs[2][1]), tuple):
            b = nm(env[lhs[2][1]][1])
            pos = "(length %s - 1)" % b
        else:
            raise Unparsed("assignment target")
        self.subst.append((lhs, "x_", "word"))
        try:
            v, vty = self.ev(rhs, env, "word")
        finally:
            self.subst.pop()
        if vty != "word":
            raise Unparsed("word assignment of type %s" % (vty,))
        r, ty = cont(env)
        return "let %s := upd %s %s (fun x_ => %s) in\n  %s" % (b, b, pos, v, r), ty

    # ------------------------------------------------------------------ expressions
    CONSTS = {"WORD_BITS_USIZE": ("w", "usize"), "DWORD_BITS_USIZE": ("(2 * w)", "usize"), "WORD_BITS": ("w", "u32"),
              "DWORD_BITS": ("(2 * w)", "u32"), "Word::MAX": ("(B w - 1)", "word"), "DoubleWord::MAX": ("(B w * B w - 1)", "dword")}
    CALLS = {  # callee -> (format, [arg types], result type)
        "Repr::from_dword": ("from_dword %s", ["dword"], "repr"), "Repr::from_word": ("from_word %s", ["word"], "repr"),
        "Repr::from_buffer": ("from_buffer w %s", ["buf"], "repr"), "Repr::zero": ("BSmall 0", [], "repr"),
        "Repr::from_heap": ("BLarge %s", ["buf"], "repr"),
        "shl_dword": ("math_shl_dword w %s %s", ["dword", "u32"], ("tuple", "word", "word", "word")),
        "split_dword": ("(%s mod B w, %s / B w)", ["dword"], ("tuple", "word", "word")),
        "double_word": ("%s + B w * %s", ["word", "word"], "dword"),
        "ones_word": ("ones_word w %s", ["u32"], "word"), "ones_dword": ("ones_dword w %s", ["u32"], "dword"),
        "ceil_div": ("ceil_div %s %s", ["usize", "usize"], "usize"),
        "trailing_zeros_large": ("trailing_zeros_large w %s", ["slice"], "usize"),
        "trailing_ones_large": ("trailing_ones_large w %s", ["slice"], "usize"),
        "trailing_zeros_large_shifted_by_one": ("trailing_zeros_large_shifted_by_one w %s", ["slice"], "usize"),
        "COUNT_ONES_LARGE": ("sum_words count_ones_spec %s", ["slice"], "usize"),
        "COUNT_ZEROS_LARGE": ("sum_words (fun x_ => w - count_ones_spec x_) %s", ["slice"], "usize"),
        "ALL_ZERO": ("forallb (fun x_ => x_ =? 0) %s", ["slice"], "bool"),
        "are_slice_low_bits_nonzero": ("slice_low_bits_nonzero w %s %s", ["slice", "usize"], "bool"),
    }

    def ev(self, e, env, want=None):
        for ast, txt, ty in self.subst:
            if ast == e:
                return txt, ty
        k = e[0]
        if k == "num":
            return str(e[1]), (want if want in ("usize", "u32", "word", "dword") else "lit")
        if k == "bool":
            return e[1], "bool"
        if k == "var":
            if e[1] == "self":
                return "self_", "repr"
            ty = env.get(e[1])
            if isinstance(ty, tuple) and ty[0] == "lastref":
                return "(last %s 0)" % nm(ty[1]), "word"
            if ty is None:
                raise Unparsed("variable %s" % e[1])
            return nm(e[1]), ty
        if k == "path" and e[1] == "None":
            if not (isinstance(want, tuple) and want[0] == "option"):
                raise Unparsed("None of unknown type")
            return "None", want
        if k == "call" and e[1] == "Some" and len(e[2]) == 1:
            v, ty = self.ev(e[2][0], env, want[1] if isinstance(want, tuple) and want[0] == "option" else None)
            if ty == "lit":
                raise Unparsed("Some(literal) of unknown type")
            return "(Some %s)" % paren(v), ("option", ty)
        if k == "path":
            if e[1] in self.CONSTS:
                return self.CONSTS[e[1]]
            raise Unparsed("path %s" % e[1])
        if k == "ref":
            v, ty = self.ev(e[2], env, want)
            return v, ("slice" if ty == "buf" else ty)
        if k == "un":
            v, ty = self.ev(e[2], env, want)
            if e[1] == "!" and ty in ("word", "dword"):
                return "(%s w %s)" % ("word_not" if ty == "word" else "dword_not", paren(v)), ty
            if e[1] == "!" and ty == "bool":
                return "(negb %s)" % paren(v), ty
            if e[1] == "*":
                return v, ty
            raise Unparsed("unary %s at %s" % (e[1], ty))
        if k == "cast":
            tk = want if e[2] == "_" else TYPES.get(e[2])
            if tk not in ("usize", "u32"):
                raise Unparsed("cast to %s" % (e[2],))
            v, ty = self.ev(e[1], env, None)
            if ty not in ("usize", "u32"):
                raise Unparsed("cast of %s" % (ty,))
            if ty == tk:
                return v, ty
            return ("(cast_u32 %s)" % paren(v) if tk == "u32" else "(cast_usize uw %s)" % paren(v)), tk
        if k == "tuple":
            vs = [self.ev(x, env, "repr" if want == "repr2" else None) for x in e[1]]
            if [t for _, t in vs] == ["repr", "repr"]:
                return "(%s, %s)" % (vs[0][0], vs[1][0]), "repr2"
            return "(%s)" % ", ".join(v for v, _ in vs), ("tuple",) + tuple(t for _, t in vs)
        if k == "bin":
            return self.binop(e, env, want)
        if k == "call":
            return self.call(e, env, want)
        if k == "mcall":
            return self.mcall(e, env, want)
        if k == "index":
            return self.index(e, env)
        if k == "if":
            c, cty = self.ev(e[1], env, "bool")
            if e[3] is None or cty != "bool":
                raise Unparsed("if expression without else")
            a, aty = self.block(e[2], env, want)
            b, bty = self.block(e[3], env, want if aty == "lit" else aty)
            if aty != bty:
                raise Unparsed("if arms of types %s / %s" % (aty, bty))
            return "(if %s then %s\n  else %s)" % (ct_(c), a, b), aty
        if k == "match":
            return self.match(e, env, want)
        if k == "block":
            v, ty = self.block(e, env, want)
            return "(%s)" % v, ty
        raise Unparsed("expression %s" % k)

    def binop(self, e, env, want):
        _, op, l, r = e
        if op in ("&&", "||"):
            a, _ = self.ev(l, env, "bool")
            b, _ = self.ev(r, env, "bool")
            return "(%s %s %s)" % (a, op, b), "bool"
        if op in ("<<", ">>"):
            a, aty = self.ev(l, env, want)
            n, nty = self.ev(r, env, None)
            if aty not in ("word", "dword") or nty not in INT:
                raise Unparsed("shift of %s by %s" % (aty, nty))
            return "(%s_%s w %s %s)" % (aty, "shl" if op == "<<" else "shr", paren(a), paren(n)), aty
        cmp_ = op in CMP or op == "!="
        a, aty = self.ev(l, env, None if cmp_ else want)
        b, bty = self.ev(r, env, aty if aty != "lit" else (None if cmp_ else want))
        if aty == "lit" and bty != "lit":
            a, aty = self.ev(l, env, bty)
        if aty != bty:
            raise Unparsed("operator %s at types %s / %s" % (op, aty, bty))
        if cmp_:
            if aty == "lit":
                raise Unparsed("comparison of two literals")
            if op == "!=":
                return "(negb (%s =? %s))" % (a, b), "bool"
            return "(%s %s %s)" % (a, CMP[op], b), "bool"
        if op in ("+", "-", "*", "/", "%") and aty in INT:
            return "(%s %s %s)" % (a, {"%": "mod"}.get(op, op), b), aty
        if op == "+" and aty in ("word", "dword"):
            return "((%s + %s) mod %s)" % (a, b, "B w" if aty == "word" else "(B w * B w)"), aty
        if op in ("|", "&", "^") and aty in ("word", "dword"):
            return "(Z.%s %s %s)" % ({"|": "lor", "&": "land", "^": "lxor"}[op], a, b), aty
        raise Unparsed("operator %s at type %s" % (op, aty))

    def call(self, e, env, want):
        name = e[1]
        short = name.split("::")[-1]
        if name == "math::bit_len" and len(e[2]) == 1:
            # generic `T::BIT_SIZE - x.leading_zeros()` (math.rs, checked literally by render())
            v, ty = self.ev(e[2][0], env, None)
            if ty not in ("word", "dword") or not self.calltypes.get("bit_len_body_ok"):
                raise Unparsed("math::bit_len at %s" % (ty,))
            return "(%s - %s_lz w %s)" % ("w" if ty == "word" else "2 * w", ty, v), "u32"
        if name.startswith("Self::"):
            name = "Repr::" + short
        if short in self.own and not name.startswith("math::"):
            g, ptys, rty, cap = self.own[short]
            if cap:
                raise Unparsed("call of a function that reads the capacity")
            if len(ptys) != len(e[2]):
                raise Unparsed("arity of %s" % short)
            args = []
            for a, pt in zip(e[2], ptys):
                v, ty = self.ev(a, env, pt)
                if ty != pt and not (pt == "slice" and ty == "buf") and not (pt == "buf" and ty == "slice"):
                    raise Unparsed("argument of %s: %s for %s" % (short, ty, pt))
                args.append(paren(v))
            return "(%s w uw %s)" % (g, " ".join(args)), rty
        key = name if name in self.CALLS else short
        if key not in self.CALLS or (key == "shl_dword" and not name.startswith("math::")):
            raise Unparsed("call of %s" % name)
        fmt, ptys, rty = self.CALLS[key]
        if short in self.calltypes:  # the callee's parameter types as written in math.rs
            src = [TYPES.get(t) for t in self.calltypes[short]]
            if src != ptys:
                raise Unparsed("signature of %s changed: %s" % (short, self.calltypes[short]))
        if len(ptys) != len(e[2]):
            raise Unparsed("arity of %s" % name)
        args = []
        for a, pt in zip(e[2], ptys):
            v, ty = self.ev(a, env, pt)
            if ty != pt and not (pt == "buf" and ty == "slice") and not (pt == "slice" and ty == "buf"):
                raise Unparsed("argument of %s: %s for %s" % (name, ty, pt))
            args.append(paren(v))
        if key == "split_dword":
            args = args * 2
        txt = fmt % tuple(args)
        return ("(%s)" % txt if not txt.startswith("(") else txt), rty

    def mcall(self, e, env, want):
        _, recv, meth, args = e
        if meth == "unwrap_or" and recv[0] == "mcall" and recv[2] == "checked_shr" and len(args) == 1 and len(recv[3]) == 1:
            d, dty = self.ev(recv[1], env, want)
            n, nty = self.ev(recv[3][0], env, "u32")
            v, vty = self.ev(args[0], env, dty)
            if dty != "dword" or nty != "u32" or vty != dty:
                raise Unparsed("checked_shr at %s / %s" % (dty, nty))
            return "(match dword_checked_shr w %s %s with Some r_ => r_ | None => %s end)" % (paren(d), paren(n), v), dty
        if meth == "unwrap" and not args and recv[0] == "mcall" and recv[2] == "last" and not recv[3]:
            r, rty = self.ev(recv[1], env, None)
            if rty not in ("buf", "slice"):
                raise Unparsed("last() of %s" % (rty,))
            return "(last %s 0)" % r, "word"
        r, rty = self.ev(recv, env, None)
        if meth == "len" and rty in ("buf", "slice") and not args:
            return "(len %s)" % r, "usize"
        if meth == "capacity" and rty == "buf" and not args:
            self.uses_cap = True
            return "cap", "usize"
        if meth == "min" and rty in ("usize", "u32") and len(args) == 1:
            a, aty = self.ev(args[0], env, rty)
            if aty != rty:
                raise Unparsed("min at %s / %s" % (rty, aty))
            return "(Z.min %s %s)" % (r, a), rty
        if meth == "leading_zeros" and rty in ("word", "dword") and not args:
            return "(%s_lz w %s)" % (rty, r), "u32"
        if rty in ("word", "dword") and not args and meth in ("trailing_zeros", "trailing_ones", "count_ones", "count_zeros", "is_power_of_two"):
            width = "w" if rty == "word" else "2 * w"
            return {"trailing_zeros": ("(%s_tz w %s)" % (rty, r), "u32"), "trailing_ones": ("(%s_to w %s)" % (rty, r), "u32"),
                    "count_ones": ("(count_ones_spec %s)" % r, "u32"), "count_zeros": ("(%s - count_ones_spec %s)" % (width, r), "u32"),
                    "is_power_of_two": ("(is_power_of_two_spec %s)" % r, "bool")}[meth]
        if meth == "checked_next_power_of_two" and rty in ("word", "dword") and not args:
            return "(checked_npt %s %s)" % ("(B w)" if rty == "word" else "(B w * B w)", r), ("option", rty)
        raise Unparsed("method .%s on %s" % (meth, rty))

    def index(self, e, env):
        b, bty = self.ev(e[1], env, None)
        if bty not in ("buf", "slice"):
            raise Unparsed("index into %s" % (bty,))
        ix = e[2]
        if ix[0] == "range":
            if ix[1] is not None and ix[2] is None:
                lo, _ = self.ev(ix[1], env, "usize")
                return "(skipn (Z.to_nat %s) %s)" % (lo, b), "slice"
            if ix[1] is None and ix[2] is not None:
                hi, _ = self.ev(ix[2], env, "usize")
                return "(firstn (Z.to_nat %s) %s)" % (hi, b), "slice"
            raise Unparsed("two-sided range")
        i, ity = self.ev(ix, env, "usize")
        if ity != "usize":
            raise Unparsed("index of type %s" % (ity,))
        return "(nth (Z.to_nat %s) %s 0)" % (i, b), "word"

    def match(self, e, env, want):
        s, sty = self.ev(e[1], env, None)
        arms = e[2]
        out, rty = [], None

        def arm(body, env2):
            nonlocal rty
            v, ty = self.block(body, env2, want if rty is None else rty)
            if rty is not None and ty != rty:
                raise Unparsed("match arms of types %s / %s" % (rty, ty))
            rty = ty
            return v
        if sty == "repr":
            if len(arms) < 2 or any(a[0][0] != "pctor" or len(a[0][2]) != 1 for a in arms):
                raise Unparsed("match on a Repr: arm shape")
            small, large = arms[0][0][1], arms[-1][0][1]
            if (small, large) not in (("Small", "Large"), ("RefSmall", "RefLarge")) or any(a[0][1] != small for a in arms[:-1]):
                raise Unparsed("match on a Repr that is not Small.. / Large")
            lits, last_small = arms[:-2], arms[-2]
            if any(a[0][2][0][0] != "plit" for a in lits) or last_small[0][2][0][0] != "pvar" or arms[-1][0][2][0][0] != "pvar":
                raise Unparsed("match on a Repr: only Small(literal).. Small(x) Large(y)")
            v = last_small[0][2][0][1]
            env2 = dict(env)
            env2[v] = "dword"
            chain = ""
            for a in lits:  # Small(0) => e0, Small(1) => e1, Small(x) => e  ==  if x == 0 { e0 } else if x == 1 { e1 } else { e }
                chain += "if %s =? %d then %s else " % (nm(v), a[0][2][0][1], arm(a[1], env2))
            out.append("| BSmall %s => %s%s" % (nm(v), chain, arm(last_small[1], env2)))
            env3 = dict(env)
            env3[arms[-1][0][2][0][1]] = "buf" if small == "Small" else "slice"
            out.append("| BLarge %s => %s" % (nm(arms[-1][0][2][0][1]), arm(arms[-1][1], env3)))
        elif sty in ("slice", "buf"):
            shapes = [len(a[0][1]) if a[0][0] == "pslice" else "_" for a in arms]
            if shapes != [0, 1, 2, "_"] or arms[3][0][0] != "pwild":
                raise Unparsed("slice match that is not [] / [a] / [a, b] / _")
            for p, body in arms:
                env2 = dict(env)
                if p[0] == "pslice":
                    for q in p[1]:
                        if q[0] != "pvar":
                            raise Unparsed("slice pattern element")
                        env2[q[1]] = "word"
                    out.append("| [%s] => %s" % ("; ".join(nm(q[1]) for q in p[1]), arm(body, env2)))
                else:
                    out.append("| _ => %s" % arm(body, env2))
        elif isinstance(sty, tuple) and sty[0] == "option":
            names = [a[0][1] if a[0][0] == "pctor" else None for a in arms]
            if sorted(names) != ["None", "Some"]:
                raise Unparsed("match on an Option that is not Some / None")
            for p, body in arms:
                env2 = dict(env)
                if p[1] == "Some":
                    if len(p[2]) != 1 or p[2][0][0] != "pvar":
                        raise Unparsed("Some pattern")
                    env2[p[2][0][1]] = sty[1]
                    out.append("| Some %s => %s" % (nm(p[2][0][1]), arm(body, env2)))
                else:
                    out.append("| None => %s" % arm(body, env2))
        else:
            raise Unparsed("match on %s" % (sty,))
        return "match %s with\n  %s\n  end" % (s, "\n  ".join(out)), rty


def ct_(c):
    return c


# ------------------------------------------------------------------------------------------------ source preparation
def compound_assign(src):
    """`lhs OP= rhs;` -> `lhs = lhs OP rhs;` for OP in & | ^ (the library's tokenizer has no such tokens)"""
    return re.sub(r"(\*?[A-Za-z_]\w*(?:\[[^\]]*\])?)\s*([&|^])=\s*([^;=]+);", r"\1 = \1 \2 (\3);", src)


def normalise(text):
    text = compound_assign(text)
    # iterator idioms, recognised LITERALLY (round 4 regenerates the count_ones fold itself)
    text = re.sub(r"(\w+)\.iter\(\)\.map\(\|w\| w\.count_ones\(\) as usize\)\.sum\(\)", r"COUNT_ONES_LARGE(\1)", text)
    text = re.sub(r"(\w+)\.iter\(\)\.map\(\|w\| w\.count_zeros\(\) as usize\)\.sum\(\)", r"COUNT_ZEROS_LARGE(\1)", text)
    text = re.sub(r"(\w+\[\.\.[^\]]*\])\s*\.iter\(\)\s*\.all\(\|x\| \*x == 0\)", r"ALL_ZERO(&\1)", text)
    # Repr::ones ends with the heap value built without from_buffer
    text = re.sub(r"unsafe\s*\{\s*mem::transmute\((\w+)\)\s*\}", r"Repr::from_heap(\1)", text)
    text = re.sub(r"shift_ops::repr::", "", text)
    return text


def synth_npt_large(text):
    """next_power_of_two_large zeroes every word below the top one through a skip_while iterator and notes whether one of them
    was non-zero.  The iterator idiom is recognised LITERALLY (whitespace-insensitive) and replaced by the atom
    `zero_low_words` (= (words with all but the last zeroed, carry)); anything else is `unparsed`."""
    pat = (r"let n = buffer\.len\(\);\s*let mut iter = buffer\[\.\.n - 1\]\.iter_mut\(\)\.skip_while\(\|x\| \*\*x == 0\);\s*"
           r"let carry = match iter\.next\(\) \{\s*None => 0,\s*Some\(x\) => \{\s*\*x = 0;\s*for x in iter \{\s*\*x = 0;\s*\}\s*1\s*\}\s*\};")
    m = re.search(pat, text)
    if not m:
        raise Unparsed("next_power_of_two_large: the skip_while idiom is not the known one")
    text = text[:m.start()] + "let carry = NPT_ZERO_LOW(&mut buffer);" + text[m.end():]
    m = re.search(r"match last\s*\.checked_add\(carry\)\s*\.and_then\(\|x\| x\.checked_next_power_of_two\(\)\)\s*\{", text)
    if not m:
        raise Unparsed("next_power_of_two_large: checked_add(..).and_then(..) is not the known idiom")
    text = text[:m.start()] + "match NPT_ADD(*last, carry) {" + text[m.end():]
    return re.sub(r"=>\s*(\*last = \w+),", r"=> { \1; }", text)


def header(text):
    m = re.match(r"(?:pub(?:\([a-z]+\))?\s+)?(?:const\s+)?fn\s+(\w+)\s*\(([^)]*)\)\s*(?:->\s*([^{]+?))?\s*\{", text, re.S)
    if not m:
        raise Unparsed("function header")
    params = []
    for p in T._split_top(m.group(2)):
        p = p.strip()
        if not p:
            continue
        if p == "self":
            params.append(("self", "repr"))
            continue
        mm = re.match(r"(?:mut\s+)?(\w+)\s*:\s*(.+)$", p, re.S)
        ty = TYPES.get(mm.group(2).replace(" ", "")) if mm else None
        if ty is None:
            raise Unparsed("parameter `%s`" % p)
        params.append((mm.group(1), ty))
    ret = TYPES.get((m.group(3) or "").replace(" ", ""))
    if ret is None:
        raise Unparsed("return type `%s`" % m.group(3))
    return m.group(1), params, ret, text[m.end() - 1:]


def impl_block(src, head):
    i = src.find(head)
    if i < 0:
        raise Unparsed("%s not found" % head)
    b0 = src.index("{", i)
    return src[b0:T._balanced(src, b0)]


class NptEv(Ev):
    """+ the atom for the recognised skip_while idiom and `last.checked_add(carry).and_then(|x| x.checked_next_power_of_two())`"""

    def call_stmt(self, pat, e, env, cont):
        if e[1] == "NPT_ZERO_LOW":
            env[pat[1]] = "word"
            r, ty = cont(env)
            return ("let '(buffer, %s) := (repeat 0 (length buffer - 1) ++ [last buffer 0], "
                    "if forallb (fun x_ => x_ =? 0) (removelast buffer) then 0 else 1) in\n  %s" % (nm(pat[1]), r)), ty
        return super().call_stmt(pat, e, env, cont)

    def call(self, e, env, want):
        if e[1] == "NPT_ADD" and len(e[2]) == 2:
            a, aty = self.ev(e[2][0], env, "word")
            c, cty = self.ev(e[2][1], env, "word")
            if (aty, cty) != ("word", "word"):
                raise Unparsed("checked_add at %s / %s" % (aty, cty))
            return "(if %s + %s <? B w then checked_npt (B w) (%s + %s) else None)" % (a, c, a, c), ("option", "word")
        return super().call(e, env, want)


def translate_fn(text, own, calltypes, gname=None, pre=None):
    text = normalise(text)
    if pre:
        text = pre(text)
    name, params, ret, body = header(text)
    ev = NptEv(own, calltypes)
    ev.ret = ret
    env = {n: t for n, t in params if n != "self"}
    ast = P5(T.tokenize(body)).block()
    val, vty = ev.block(ast, env, ret)
    if vty != ret:
        raise Unparsed("body of type %s, declared %s" % (vty, ret))
    g = gname or name + "_gen"
    ps = ["(w uw : Z)"] + (["(cap : Z)"] if ev.uses_cap else [])
    ps += ["(%s : %s)" % ("self_" if n == "self" else nm(n), gt(t)) for n, t in params]
    own[name if not gname else gname[:-4]] = (g, [t for n, t in params], ret, ev.uses_cap)
    return "Definition %s %s : %s :=\n  %s." % (g, " ".join(ps), gt(ret), val)


FNAME = "BitsBodiesGen.v"
HEADER = [
    "(** GENERATED by tools/translate_c09_r5.py from integer/src/{shift_ops.rs,bits.rs,repr.rs} - do not edit.",
    "    The straight-line bodies of the shift / single-bit / mask operations over the round-4 kernels, word size w, usize of",
    "    uw bits; casts and machine shifts carry their width (Int/BitsBodiesPrims.v).  Int/BitsBodiesGenProof.v proves each",
    "    `<name>_gen` equal to the hand-written model of Int/BitsKernels.v. *)",
    "From Dashu Require Import Base.Prelude Base.Words Int.BitsSpec Int.BitsWords Int.BitsKernels Int.BitsBodiesPrims.",
    "Import ListNotations.",
    "Open Scope Z_scope.",
    "Open Scope bool_scope.",
]
SHIFT_FNS = ["shl_one_spilled", "shl_dword_spilled", "shl_dword", "shl_large_ref", "shl_large", "shr_dword", "shr_large", "shr_large_ref"]
BITS_FNS = ["with_bit_dword_spilled", "with_bit_large", "clear_high_bits_large", "next_power_of_two_large"]
REF_FNS = ["bit", "bit_len", "are_low_bits_nonzero", "is_power_of_two", "trailing_zeros", "trailing_ones", "count_ones", "count_zeros",
           "trailing_ones_neg"]
TYPED_FNS = ["next_power_of_two", "set_bit", "clear_bit", "clear_high_bits", "split_bits"]


def render(repo):
    def rd(rel):
        with open(os.path.join(repo, rel)) as f:
            return f.read()
    results, own, calltypes = [], {}, {}
    try:
        math = rd("integer/src/math.rs")
        for f in ("ones_word", "ones_dword", "shl_dword", "ceil_div"):
            m = re.search(r"fn\s+%s\s*\(([^)]*)\)" % f, math)
            if m:
                calltypes[f] = [p.split(":")[1].strip() for p in T._split_top(m.group(1)) if ":" in p]
        prim = rd("integer/src/primitive.rs")
        for f in ("split_dword", "double_word"):
            m = re.search(r"fn\s+%s\s*\(([^)]*)\)" % f, prim)
            if m:
                calltypes[f] = [p.split(":")[1].strip() for p in T._split_top(m.group(1)) if ":" in p]
    except OSError:
        pass
    calltypes.pop("shl_dword", None) if calltypes.get("shl_dword") != ["DoubleWord", "u32"] else None
    try:
        if re.search(r"fn\s+bit_len\s*<T:\s*PrimitiveUnsigned>\s*\(x:\s*T\)\s*->\s*u32\s*\{\s*T::BIT_SIZE\s*-\s*x\.leading_zeros\(\)\s*\}", math):
            calltypes["bit_len_body_ok"] = True
    except NameError:
        pass

    def one(name, get, gname=None, pre=None):
        try:
            results.append((gname[:-4] if gname else name, "ok", translate_fn(get(), own, calltypes, gname, pre)))
        except (Unparsed, ValueError, IndexError, KeyError, TypeError, AttributeError, RecursionError) as ex:
            why = re.sub(r"\s+", " ", str(ex)).strip()[:140] or ex.__class__.__name__
            results.append((gname[:-4] if gname else name, "unparsed " + why, ""))
            # later functions may still call the last good copy of this one: keep its signature known
            if (gname[:-4] if gname else name) in KNOWN_SIGS:
                own[gname[:-4] if gname else name] = KNOWN_SIGS[gname[:-4] if gname else name]
    sh = rd("integer/src/shift_ops.rs")
    for n in SHIFT_FNS:
        one(n, lambda n=n: R4.fn_text(sh, n, 0 if n not in ("shl_dword",) else 0))
    bits = rd("integer/src/bits.rs")
    for n in BITS_FNS:
        one(n, lambda n=n: R4.fn_text(bits, n), pre=synth_npt_large if n == "next_power_of_two_large" else None)
    for n in TYPED_FNS:
        one(n, lambda n=n: R4.fn_text(impl_block(bits, "impl TypedRepr {"), n), gname="typed_%s_gen" % n)
    one("are_dword_low_bits_nonzero", lambda: R4.fn_text(bits, "are_dword_low_bits_nonzero"))
    for n in REF_FNS:
        one(n, lambda n=n: R4.fn_text(impl_block(bits, "impl<'a> TypedReprRef<'a> {"), n), gname="ref_%s_gen" % n)
    rp = rd("integer/src/repr.rs")
    one("ones", lambda: R4.fn_text(rp, "ones"), gname="repr_ones_gen")
    return results


KNOWN_SIGS = {
    "shl_one_spilled": ("shl_one_spilled_gen", ["usize"], "repr", False),
    "shl_dword_spilled": ("shl_dword_spilled_gen", ["dword", "usize"], "repr", False),
    "shl_large_ref": ("shl_large_ref_gen", ["slice", "usize"], "repr", False),
    "shr_large_ref": ("shr_large_ref_gen", ["slice", "usize"], "repr", False),
    "with_bit_dword_spilled": ("with_bit_dword_spilled_gen", ["dword", "usize"], "repr", False),
    "with_bit_large": ("with_bit_large_gen", ["buf", "usize"], "repr", False),
    "clear_high_bits_large": ("clear_high_bits_large_gen", ["buf", "usize"], "repr", False),
    "next_power_of_two_large": ("next_power_of_two_large_gen", ["buf"], "repr", False),
    "are_dword_low_bits_nonzero": ("are_dword_low_bits_nonzero_gen", ["dword", "usize"], "bool", False),
}
LAST_RESULTS = []


def generate(repo, outdir):
    global LAST_RESULTS
    path = os.path.join(outdir, FNAME)
    try:
        os.makedirs(outdir, exist_ok=True)
        try:
            results = render(repo)
        except (Unparsed, OSError, UnicodeDecodeError, ValueError, RecursionError) as ex:
            why = re.sub(r"\s+", " ", str(ex)).strip()[:160] or ex.__class__.__name__
            if os.path.exists(path):
                with open(path) as f:
                    old = f.read()
                if not old.startswith(R4.STALE):
                    T._write_if_changed(path, R4.STALE + " " + old)
                return "unparsed " + why
            return "unparsed " + why + " (no previous copy)"
        LAST_RESULTS = [(n, s) for n, s, _ in results]
        bad = [n for n, s, _ in results if s != "ok"]
        previous = ""
        if os.path.exists(path):
            with open(path) as f:
                previous = f.read()
        T._write_if_changed(path, T.emit_file(HEADER, results, previous))
        return "ok" if not bad else "ok unparsed=" + ",".join(bad)
    except Exception as ex:  # never an alarm
        return "unparsed internal %s" % re.sub(r"\s+", " ", repr(ex))[:160]


def main():
    import argparse
    ap = argparse.ArgumentParser()
    ap.add_argument("--repo", default=os.environ.get("VERIF_REPO", "/repo"))
    ap.add_argument("--out", required=True)
    a = ap.parse_args()
    print("FRAGMENT BitsBodiesGen %s" % generate(a.repo, a.out))
    for n, s in LAST_RESULTS:
        print("  %-40s %s" % (n, s))
    return 0


if __name__ == "__main__":
    sys.exit(main())
