#!/usr/bin/env python3
"""C01 round 5: the BODIES of the multiplication stack above the loop kernels -> coq/gen/MulBodiesGen.v.

Built on the parser of tools/translate_c01_r4.py (tokenize / Parser / parse_fns); own code generator, because these
functions live in the result monad (a callee may panic through debug_assert_zero!) and recurse through function
parameters.  What is read:
  mul/helpers.rs  add_signed_mul_split_into_chunks   (while loop that re-slices `a` and `c`, call of the function parameter)
  mul/karatsuba.rs add_signed_mul_same_len, add_signed_mul
  mul/simple.rs   add_signed_mul, add_signed_mul_same_len   (the chunk kernel itself is a loop kernel of round 4)
  mul/toom_3.rs   add_signed_mul (the chunking wrapper); add_signed_mul_same_len is attempted and reported `unparsed`
                  (calls outside the supported kernels): it stays the section variable `toom3_ext`
  mul/mod.rs      add_signed_mul (operand swap + size dispatch), add_signed_mul_same_len, multiply; constants THRESHOLD_*
  sqr/mod.rs      sqr; constant MAX_LEN_SIMPLE.  simple.rs CHUNK_LEN.
Conventions of the rendering (Int/MulBodiesGenProofs.v proves the result equal to the hand models):
  * every function gets the two parameters `rec_same rec_gen : mulfn` = mul::add_signed_mul_same_len / mul::add_signed_mul
    (the recursion of the stack goes through them); the file ends with the fuel knot `mul_fuel_gen`.
  * `&mut x[lo..hi]` passed to a callee: read `slice lo (hi - lo) x`, write back `splice lo <new> x`; a whole `&mut` slice
    is replaced by the callee's result; `x = &mut x[k..]` inside the while loop freezes the prefix `firstn k x`.
  * a `while` loop becomes a Fixpoint on fuel (initial fuel = total length of the slices named in the condition); the code
    after the loop is the loop's exit branch.
  * `memory` arguments are dropped; allocate_slice_fill(n, 0) = repeat 0 n, allocate_slice_copy(x) = x.
  * debug_assert_zero!(call) = assert_zero; other debug_assert!s are dropped (they are the contracts of the theorems).
Anything else raises Unparsed: the function is reported `unparsed`, keeps its last good copy (STALE), never an alarm.
Entry points: generate(repo, outdir) -> status string; LAST_RESULTS; command line --repo/--out.
"""
import argparse
import os
import re
import sys

sys.path.insert(0, os.path.dirname(os.path.abspath(__file__)))
import translate_c01_r4 as r4  # noqa: E402

Unparsed = r4.Unparsed

FNAME = "MulBodiesGen.v"
STALE = "(* STALE *)"

# pure kernels (round 4 / hand atoms): callee -> (gallina head, return type or None for unit)
KERNELS = {
    "add::add_signed_word_in_place": ("add_signed_word_in_place_gen w", "Z"),
    "add::add_signed_same_len_in_place": ("add_signed_same_len_in_place_gen w", "Z"),
    "add::add_signed_in_place": ("add_signed_in_place_gen w", "Z"),
    "add::sub_in_place_with_sign": ("sub_in_place_with_sign_gen w", "sign"),
    "add_signed_mul_chunk": ("add_signed_mul_chunk w", "Z"),
    "simple::square": ("simple_square w", None),
}
# (file, module, [functions])
SOURCES = [
    ("integer/src/mul/helpers.rs", "helpers", ["add_signed_mul_split_into_chunks"]),
    ("integer/src/mul/simple.rs", "simple", ["add_signed_mul", "add_signed_mul_same_len"]),
    ("integer/src/mul/karatsuba.rs", "karatsuba", ["add_signed_mul_same_len", "add_signed_mul"]),
    ("integer/src/mul/toom_3.rs", "toom_3", ["add_signed_mul_same_len", "add_signed_mul"]),
    ("integer/src/mul/mod.rs", "mul", ["add_signed_mul_same_len", "add_signed_mul", "multiply"]),
    ("integer/src/sqr/mod.rs", "sqr", ["sqr"]),
]
CONSTS = [("integer/src/mul/mod.rs", "THRESHOLD_SIMPLE"), ("integer/src/mul/mod.rs", "THRESHOLD_KARATSUBA"),
          ("integer/src/mul/simple.rs", "CHUNK_LEN"), ("integer/src/sqr/mod.rs", "MAX_LEN_SIMPLE")]
# what an unparsed function is replaced by in its callers (a section variable of the generated file)
EXTERNAL = {"toom_3_add_signed_mul_same_len": "toom3_ext rec_same"}
RESERVED = {"sign": "sign_", "fuel": "fuel_", "w": "w_", "rec_same": "rec_same_", "rec_gen": "rec_gen_", "length": "length_"}


def gname(module, name):
    if module == "helpers":
        return name + "_gen"
    if module == "mul" and name in ("add_signed_mul", "add_signed_mul_same_len"):
        return "mul_%s_body_gen" % name
    return "%s_%s_gen" % (module, name)


class B:  # binding
    def __init__(self, g, ty, mut=False):
        self.g, self.ty, self.mut = g, ty, mut


class Env:
    def __init__(self, scopes=None):
        self.scopes = scopes or [{}]
        self.reattach = []

    def clone(self):
        e = Env([{k: B(v.g, v.ty, v.mut) for k, v in s.items()} for s in self.scopes])
        e.reattach = list(self.reattach)
        return e

    def get(self, n):
        for s in reversed(self.scopes):
            if n in s:
                return s[n]
        raise Unparsed("unknown variable %s" % n)

    def has(self, n):
        return any(n in s for s in self.scopes)

    def visible(self):
        out, seen = [], set()
        for s in reversed(self.scopes):
            for k in s:
                if k not in seen:
                    seen.add(k)
                    out.append(k)
        order = []
        for s in self.scopes:
            for k in s:
                if k in seen and k not in order:
                    order.append(k)
        return order


TY = {"nat": "nat", "Z": "Z", "sign": "sign", "list": "list Z", "fn": "mulfn"}


class FnGen:
    def __init__(self, module, fa, known):
        self.module, self.fa, self.known = module, fa, known
        self.used = set(["w", "rec_same", "rec_gen", "fuel", "fuel'", "toom3_ext", "r", "ret"])
        self.aux = []
        self.name = gname(module, fa.name)

    def fresh(self, base):
        base = RESERVED.get(base, base)
        n, k = base, 0
        while n in self.used:
            k += 1
            n = "%s%d" % (base, k)
        self.used.add(n)
        return n

    # ---------------------------------------------------------------- pure expressions
    def expr(self, e, env):
        k = e[0]
        if k == "num":
            return str(e[1]), "num"
        if k == "var":
            b = env.get(e[1])
            return b.g, b.ty
        if k == "path":
            nm = e[1].split("::")[-1]
            if nm in ("Positive", "Negative"):
                return nm, "sign"
            if nm in self.known["consts"]:
                return self.known["consts"][nm], "nat"
            raise Unparsed("path %s" % e[1])
        if k == "ref":
            return self.expr(e[2], env)
        if k == "mcall":
            recv, m, args = e[1], e[2], e[3]
            if m == "len" and not args:
                t, ty = self.expr(recv, env)
                if ty != "list":
                    raise Unparsed("len of non-slice")
                return "(length %s)" % t, "nat"
            raise Unparsed("method .%s" % m)
        if k == "un":
            if e[1] == "!" and e[2][0] == "mcall" and e[2][2] == "is_empty":
                t, ty = self.expr(e[2][1], env)
                return "(0 <? length %s)%%nat" % t, "bool"
            t, ty = self.expr(e[2], env)
            if e[1] == "-" and ty == "sign":
                return "(sign_neg %s)" % t, "sign"
            if e[1] == "-" and ty in ("Z", "num"):
                return "(- %s)" % t, "Z"
            if e[1] == "!" and ty == "bool":
                return "(negb %s)" % t, "bool"
            raise Unparsed("unary %s on %s" % (e[1], ty))
        if k == "bin":
            op = e[1]
            a, ta = self.expr(e[2], env)
            b, tb = self.expr(e[3], env)
            if ta == "num" and tb == "num":
                ta = tb = "Z"
            if ta == "num":
                ta = tb
            if tb == "num":
                tb = ta
            if ta != tb:
                raise Unparsed("operand types %s %s" % (ta, tb))
            if ta == "sign" and op == "*":
                return "(sign_mul %s %s)" % (a, b), "sign"
            sc = "%nat" if ta == "nat" else ""
            if ta in ("nat", "Z"):
                if op in ("+", "-", "*", "/"):
                    return "(%s %s %s)%s" % (a, op, b, sc), ta
                cmp = {"<=": ("<=?", a, b), "<": ("<?", a, b), ">=": ("<=?", b, a), ">": ("<?", b, a), "==": ("=?", a, b)}
                if op in cmp:
                    o, x, y = cmp[op]
                    return "(%s %s %s)%s" % (x, o, y, sc), "bool"
            raise Unparsed("operator %s on %s" % (op, ta))
        raise Unparsed("expression %s" % k)

    def typed(self, e, env, want):
        t, ty = self.expr(e, env)
        if ty == "num":
            ty = want or "Z"
            if ty == "nat":
                t = "%s%%nat" % t
        if want and ty != want:
            raise Unparsed("expected %s, found %s" % (want, ty))
        return t, ty

    # ---------------------------------------------------------------- calls
    def is_memory(self, a):
        while a[0] == "ref":
            a = a[2]
        return a == ("var", "memory")

    def callee(self, name, env):
        """-> (kind, gallina head, ret type)  kind = 'kernel' | 'mulfn'"""
        if "::" not in name and env.has(name) and env.get(name).ty == "fn":
            return "mulfn", env.get(name).g, "Z"
        if name in KERNELS:
            return ("kernel",) + KERNELS[name]
        mod, _, fn = name.rpartition("::")
        mod = mod.split("::")[-1] if mod else self.module
        if mod == "mul" and fn == "add_signed_mul_same_len":
            return "mulfn", "rec_same", "Z"
        if mod == "mul" and fn == "add_signed_mul":
            return "mulfn", "rec_gen", "Z"
        key = "%s::%s" % (mod, fn)
        if key in KERNELS:
            return ("kernel",) + KERNELS[key]
        g = "%s_%s" % (mod, fn)
        if (mod, fn) in self.known["fns"]:
            return "mulfn", "%s rec_same rec_gen" % gname(mod, fn), "Z"
        if g in EXTERNAL:
            return "mulfn", EXTERNAL[g], "Z"
        raise Unparsed("call of %s" % name)

    def fn_value(self, e, env):
        """a function passed as an argument"""
        if e[0] not in ("var", "path"):
            raise Unparsed("function argument")
        kind, head, _ = self.callee(e[1], env)
        if kind == "mulfn":
            return "(%s)" % head
        return "(fun c_ s_ a_ b_ => Ok (%s c_ s_ a_ b_))" % head

    def call(self, e, env, k, zero=False, tailpos=False):
        """e = ('call', name, args); k(value text or None, type, env) -> text"""
        name, args = e[1], [a for a in e[2] if not self.is_memory(a)]
        if name == "debug_assert_zero_fn":
            if len(args) != 1 or args[0][0] != "call":
                raise Unparsed("debug_assert_zero! of a non-call")
            return self.call(args[0], env, k, zero=True)
        kind, head, rty = self.callee(name, env)
        if not args:
            raise Unparsed("call without arguments")
        # first argument: the mutated slice
        a0 = args[0]
        wb = None
        if a0[0] == "ref" and a0[1] and a0[2][0] == "index" and a0[2][1][0] == "var" and isinstance(a0[2][2], tuple) \
                and a0[2][2][0] == "range":
            b = env.get(a0[2][1][1])
            if b.ty != "list":
                raise Unparsed("range of non-slice")
            lo, hi = a0[2][2][1], a0[2][2][2]
            lot = self.typed(lo, env, "nat")[0] if lo is not None else "0%nat"
            if hi is None:
                n = "(length %s - %s)%%nat" % (b.g, lot)
            elif lo is None:
                n = self.typed(hi, env, "nat")[0]
            else:
                n = "(%s - %s)%%nat" % (self.typed(hi, env, "nat")[0], lot)
            first = "(slice %s %s %s)" % (lot, n, b.g)
            wb = (a0[2][1][1], lot)
        else:
            v = a0[2] if a0[0] == "ref" else a0
            if v[0] != "var":
                raise Unparsed("first argument of %s" % name)
            b = env.get(v[1])
            if b.ty != "list":
                raise Unparsed("first argument of %s is not a slice" % name)
            first = b.g
            wb = (v[1], None)
        rest = []
        for a in args[1:]:
            if a[0] == "var" and not env.has(a[1]):
                rest.append(self.fn_value(a, env))
            elif a[0] == "var" and env.get(a[1]).ty == "fn":
                rest.append(env.get(a[1]).g)
            else:
                rest.append(self.typed(a, env, None)[0])
        app = " ".join([head, first] + rest)
        if tailpos and kind == "mulfn" and not zero and wb[1] is None and wb[0] == self.out and self.rettype == "mulres":
            return app  # tail call: the callee's (contents, carry) is the result
        bnd = env.get(wb[0])
        x = self.fresh("x" if wb[1] is not None else wb[0])
        rv = self.fresh("k") if rty else None

        def after(env):
            if wb[1] is not None:
                c2 = self.fresh(wb[0])
                pre = "let %s := splice %s %s %s in\n" % (c2, wb[1], x, bnd.g)
                env.get(wb[0]).g = c2
            else:
                pre = ""
                env.get(wb[0]).g = x
            return pre + k(rv, rty, env)

        if kind == "kernel":
            if zero:
                raise Unparsed("debug_assert_zero! of a kernel")
            pat = "'(%s, %s)" % (x, rv) if rty else x
            return "let %s := %s in\n%s" % (pat, app, after(env))
        if zero:
            rv, rty = None, None
            return "rbind (assert_zero (%s)) (fun %s =>\n%s)" % (app, x, after(env))
        return "rbind (%s) (fun '(%s, %s) =>\n%s)" % (app, x, rv, after(env))

    # ---------------------------------------------------------------- statements
    def bind_value(self, rname, text, ty, env, mut=False):
        g = self.fresh(rname)
        env.scopes[-1][rname] = B(g, ty, mut)
        return "let %s := %s in\n" % (g, text)

    def stmts(self, ss, final, env, k):
        """k(final value text/None, type, env) -> text, called at the end of the list"""
        if not ss:
            if final is None:
                return k(None, None, env)
            return self.tail(final, env, k)
        s, rest = ss[0], ss[1:]

        def K(env):
            return self.stmts(rest, final, env, k)

        kind = s[0]
        if kind == "let":
            return self.let(s, env, K)
        if kind == "assign":
            return self.assign(s, env, K)
        if kind == "expr":
            e = s[1]
            if e[0] == "block":
                if e[2] is not None:
                    raise Unparsed("block value")
                env.scopes.append({})

                def endb(v, ty, env):
                    env.scopes.pop()
                    return K(env)
                return self.stmts(e[1], None, env, endb)
            if e[0] == "if":
                return self.if_stmt(e, env, K)
            if e[0] == "call":
                return self.call(e, env, lambda v, ty, env: K(env))
            raise Unparsed("statement %s" % e[0])
        if kind == "while":
            if self.loop_depth:
                raise Unparsed("nested loop")
            return self.while_loop(s, rest, final, env, k)
        raise Unparsed("statement %s" % kind)

    def _unp(self, why):
        raise Unparsed(why)

    def tail(self, e, env, k):
        """final expression of a block"""
        if e[0] == "if" and e[3] is None:
            return self.if_stmt(e, env, lambda env: k(None, None, env))
        if e[0] == "if":
            c, _ = self.typed(e[1], env, "bool")
            e1, e2 = env.clone(), env.clone()
            th = self.stmts(e[2][1], e[2][2], e1, k)
            el = self.stmts(e[3][1], e[3][2], e2, k)
            return "if %s then\n%s\nelse\n%s" % (c, th, el)
        if e[0] == "call":
            return self.call(e, env, k, tailpos=(k is self.retk))
        t, ty = self.typed(e, env, None)
        return k(t, ty, env)

    def if_stmt(self, e, env, K):
        c, _ = self.typed(e[1], env, "bool")
        th = e[2]
        # if cond { mem::swap(&mut a, &mut b); }
        if e[3] is None and len(th[1]) == 1 and th[2] is None and th[1][0][0] == "expr" and th[1][0][1][0] == "call" \
                and th[1][0][1][1].endswith("mem::swap"):
            xs = []
            for a in th[1][0][1][2]:
                if a[0] != "ref" or a[2][0] != "var":
                    raise Unparsed("mem::swap argument")
                xs.append(a[2][1])
            b1, b2 = env.get(xs[0]), env.get(xs[1])
            if b1.ty != b2.ty:
                raise Unparsed("mem::swap types")
            n1, n2 = self.fresh(xs[0]), self.fresh(xs[1])
            txt = "let '(%s, %s) := if %s then (%s, %s) else (%s, %s) in\n" % (n1, n2, c, b2.g, b1.g, b1.g, b2.g)
            b1.g, b2.g = n1, n2
            return txt + K(env)
        e1, e2 = env.clone(), env.clone()
        t1 = self.stmts(th[1], th[2], e1, lambda v, ty, env: K(env))
        if e[3] is None:
            t2 = K(e2)
        else:
            t2 = self.stmts(e[3][1], e[3][2], e2, lambda v, ty, env: K(env))
        return "if %s then\n%s\nelse\n%s" % (c, t1, t2)

    def let(self, s, env, K):
        _, pat, ty, e, mut = s
        if e[0] == "mcall" and e[2] == "split_at" and pat[0] == "ptuple" and len(pat[1]) == 2:
            src, sty = self.expr(e[1], env)
            n, _ = self.typed(e[3][0], env, "nat")
            if sty != "list":
                raise Unparsed("split_at of non-slice")
            t = self.bind_value(pat[1][0][1], "firstn %s %s" % (n, src), "list", env)
            t += self.bind_value(pat[1][1][1], "skipn %s %s" % (n, src), "list", env)
            return t + K(env)
        if e[0] == "mcall" and e[1] == ("var", "memory") and pat[0] == "ptuple" and len(pat[1]) == 2:
            if e[2] == "allocate_slice_fill" and len(e[3]) == 2 and e[3][1] == ("num", 0):
                n, _ = self.typed(e[3][0], env, "nat")
                return self.bind_value(pat[1][0][1], "repeat 0 %s" % n, "list", env, True) + K(env)
            if e[2] == "allocate_slice_copy" and len(e[3]) == 1:
                src, sty = self.expr(e[3][0], env)
                if sty != "list":
                    raise Unparsed("allocate_slice_copy of non-slice")
                return self.bind_value(pat[1][0][1], src, "list", env, True) + K(env)
            raise Unparsed("memory.%s" % e[2])
        if pat[0] != "pvar":
            raise Unparsed("let pattern")
        if e[0] == "call":
            def bind(v, vty, env):
                if v is None:
                    raise Unparsed("let of a unit call")
                env.scopes[-1][pat[1]] = B(v, vty, mut)
                return K(env)
            return self.call(e, env, bind)
        want = None
        if ty:
            want = r4.classify_type(ty)[0]
        t, vty = self.typed(e, env, want)
        return self.bind_value(pat[1], t, vty, env, mut) + K(env)

    def assign(self, s, env, K):
        _, lhs, op, rhs = s
        if lhs[0] != "var":
            raise Unparsed("assignment target")
        b = env.get(lhs[1])
        # c = &mut c[k..]
        if op == "=" and rhs[0] == "ref" and rhs[2][0] == "index" and rhs[2][1] == lhs and isinstance(rhs[2][2], tuple) \
                and rhs[2][2][0] == "range" and rhs[2][2][2] is None and rhs[2][2][1] is not None:
            if not self.loop_depth or b.ty != "list":
                raise Unparsed("re-slicing outside a loop")
            kk, _ = self.typed(rhs[2][2][1], env, "nat")
            env.reattach.append("firstn %s %s" % (kk, b.g))
            g = self.fresh(lhs[1])
            txt = "let %s := skipn %s %s in\n" % (g, kk, b.g)
            b.g = g
            return txt + K(env)

        def fin(v, vty, env):
            b = env.get(lhs[1])
            if v is None:
                raise Unparsed("assignment of unit")
            if vty == "num":
                vty = b.ty
            if vty != b.ty:
                raise Unparsed("assignment types %s %s" % (b.ty, vty))
            if op == "=":
                new = v
            elif op == "+=" and b.ty in ("Z", "nat"):
                new = "(%s + %s)%s" % (b.g, v, "%nat" if b.ty == "nat" else "")
            elif op == "*=" and b.ty == "sign":
                new = "(sign_mul %s %s)" % (b.g, v)
            else:
                raise Unparsed("assignment %s on %s" % (op, b.ty))
            g = self.fresh(lhs[1])
            b.g = g
            return "let %s := %s in\n" % (g, new) + K(env)

        if rhs[0] == "call":
            return self.call(rhs, env, fin)
        t, ty = self.expr(rhs, env)
        return fin(t, ty, env)

    # ---------------------------------------------------------------- while
    def while_loop(self, s, rest, final, env, k):
        _, cond, body = s
        if body[2] is not None:
            raise Unparsed("while body with a value")
        names = env.visible()
        lname = self.name.replace("_gen", "") + "_while_gen"
        # fuel: total length of the slices named in the condition
        fuel_terms = []

        def walk(e):
            if isinstance(e, tuple):
                if e[0] == "var" and env.has(e[1]) and env.get(e[1]).ty == "list":
                    fuel_terms.append("length %s" % env.get(e[1]).g)
                for x in e[1:]:
                    walk(x)
            elif isinstance(e, list):
                for x in e:
                    walk(x)
        walk(cond)
        if not fuel_terms:
            raise Unparsed("while condition without a slice")
        outer_args = [env.get(n).g for n in names]
        # the loop function: fresh environment over its own parameters
        saved_used = self.used
        self.used = set(["w", "rec_same", "rec_gen", "fuel", "fuel'", "toom3_ext", "r", "ret"])
        lenv = Env()
        params = []
        for n in names:
            ob = env.get(n)
            g = self.fresh(n)
            lenv.scopes[0][n] = B(g, ob.ty, ob.mut)
            params.append("(%s : %s)" % (g, TY[ob.ty]))
        c, _ = self.typed(cond, lenv, "bool")
        exit_env, body_env = lenv.clone(), lenv.clone()
        self.loop_depth += 1

        def end_body(v, ty, benv):
            args = " ".join(benv.get(n).g for n in names)
            callt = "%s rec_same rec_gen fuel' %s" % (lname, args)
            if benv.reattach:
                pre = " ++ ".join("(%s)" % p for p in benv.reattach)
                return "rbind (%s) (fun '(r, ret) => Ok (%s ++ r, ret))" % (callt, pre)
            return callt
        body_env.scopes.append({})
        bt = self.stmts(body[1], None, body_env, end_body)
        self.loop_depth -= 1
        et = self.stmts(rest, final, exit_env, k)
        self.aux.append(
            "Fixpoint %s (rec_same rec_gen : mulfn) (fuel : nat) %s {struct fuel} : %s :=\n"
            "if %s then\nmatch fuel with\n| O => OutOfFuel\n| S fuel' =>\n%s\nend\nelse\n%s."
            % (lname, " ".join(params), self.rettype, c, bt, et))
        self.used = saved_used
        return "%s rec_same rec_gen (%s)%%nat %s" % (lname, " + ".join(fuel_terms), " ".join(outer_args))

    # ---------------------------------------------------------------- function
    def function(self):
        fa = self.fa
        env = Env()
        params = []
        self.out = None
        for pn, pt, _ in fa.params:
            t = re.sub(r"'\w+\s*", "", pt).replace(" ", "")
            if t in ("&mutMemory", "&mutMemory<'_>"):
                continue
            if t == "F":
                kind, mut = "fn", False
            else:
                kind, mut = r4.classify_type(pt)
            if kind not in TY:
                raise Unparsed("parameter type %s" % pt)
            g = self.fresh(pn)
            env.scopes[0][pn] = B(g, kind, mut)
            params.append("(%s : %s)" % (g, TY[kind]))
            if mut and self.out is None:
                self.out = pn
        if self.out is None:
            raise Unparsed("no &mut [Word] parameter")
        ret = fa.ret.strip()
        if ret == "SignedWord":
            self.rettype = "mulres"
        elif ret == "":
            self.rettype = "result (list Z)"
        else:
            raise Unparsed("return type %s" % ret)
        self.loop_depth = 0

        def k(v, ty, env):
            c = env.get(self.out).g
            if self.rettype == "mulres":
                if v is None or ty not in ("Z", "num"):
                    raise Unparsed("return value")
                return "Ok (%s, %s)" % (c, v)
            if v is not None:
                raise Unparsed("value returned from a unit function")
            return "Ok %s" % c

        self.retk = k
        blk = fa.body()
        body = self.stmts(blk[1], blk[2], env, k)
        main = "Definition %s (rec_same rec_gen : mulfn) %s : %s :=\n%s." % (self.name, " ".join(params), self.rettype, body)
        return "\n\n".join(self.aux + [main])


def indent(text):
    """cosmetic: two spaces for every line of a body"""
    out = []
    for ln in text.split("\n"):
        out.append(ln if re.match(r"^(Definition|Fixpoint)\b", ln) else "  " + ln)
    return "\n".join(out)


def read_const(src, name):
    m = re.search(r"\bconst\s+%s\s*:\s*usize\s*=\s*(\d[\d_]*)\s*;" % name, src)
    if not m:
        raise Unparsed("constant %s" % name)
    return int(m.group(1).replace("_", ""))


HEADER = [
    "(** GENERATED by tools/translate_c01_r5.py from integer/src/mul/{helpers,simple,karatsuba,toom_3,mod}.rs and sqr/mod.rs - do not edit.",
    "    The bodies of the multiplication stack above the loop kernels, in the result monad; recursion through the parameters",
    "    rec_same / rec_gen (= mul::add_signed_mul_same_len / mul::add_signed_mul), tied by the fuel knot at the end.",
    "    Int/MulBodiesGenProofs.v proves them equal to the hand models of Int/RingMul.v / Int/RingMulW.v. *)",
    "From Dashu Require Import Base.Prelude Base.Words Int.RingAdd Int.RingMul Int.WordPrims.",
    "From DashuGen Require Import WordKernelsGen.",
    "Open Scope Z_scope.",
    "Open Scope bool_scope.",
    "",
    "Section MulBodiesGen.",
    "Variable w : Z.",
    "(** toom_3::add_signed_mul_same_len (not regenerated), given mul::add_signed_mul_same_len *)",
    "Variable toom3_ext : mulfn -> mulfn.",
]
KNOT = """Fixpoint mul_fuel_gen (fuel : nat) (same : bool) (c : list Z) (s : sign) (a b : list Z) {struct fuel} : mulres :=
  match fuel with
  | O => OutOfFuel
  | S f =>
      if same then mul_add_signed_mul_same_len_body_gen (mul_fuel_gen f true) (mul_fuel_gen f false) c s a b
      else mul_add_signed_mul_body_gen (mul_fuel_gen f true) (mul_fuel_gen f false) c s a b
  end.
Definition mul_add_signed_mul_same_len_gen : mulfn := fun c s a b => mul_fuel_gen (S (length a)) true c s a b.
Definition mul_add_signed_mul_gen : mulfn := fun c s a b => mul_fuel_gen (S (length a + length b)) false c s a b."""

LAST_RESULTS = []


def render(repo):
    known = {"fns": set(), "consts": {}}
    results = []
    for rel, name in CONSTS:
        try:
            with open(os.path.join(repo, rel)) as f:
                v = read_const(f.read(), name)
            known["consts"][name] = "%s_gen" % name
            results.append(("const_" + name, "ok", "Definition %s_gen : nat := %d." % (name, v)))
        except (Unparsed, OSError) as ex:
            results.append(("const_" + name, "unparsed %s" % ex, ""))
            known["consts"][name] = "%s_gen" % name
    for rel, module, names in SOURCES:
        with open(os.path.join(repo, rel)) as f:
            src = f.read()
        src = src.replace("debug_assert_zero!(", "debug_assert_zero_fn(")
        src = re.split(r"#\[cfg\(dashu_verif\)\]", src)[0]
        fns = r4.parse_fns(src)
        for n in names:
            key = "%s_%s" % (module, n)
            try:
                if n not in fns:
                    raise Unparsed("function not found")
                txt = indent(FnGen(module, fns[n], known).function())
                known["fns"].add((module, n))
                results.append((key, "ok", txt))
            except (Unparsed, RecursionError, IndexError, KeyError, TypeError, ValueError) as ex:
                why = re.sub(r"\s+", " ", str(ex)).strip()[:120] or ex.__class__.__name__
                results.append((key, "unparsed " + why, ""))
                if key not in EXTERNAL:
                    known["fns"].add((module, n))  # callers use the last good copy
    results.append(("knot", "ok", KNOT))
    return results


def generate(repo, outdir):
    """regenerates <outdir>/MulBodiesGen.v; "ok" | "ok unparsed=<names>" | "unparsed <why>"; never raises"""
    global LAST_RESULTS
    path = os.path.join(outdir, FNAME)
    try:
        os.makedirs(outdir, exist_ok=True)
        try:
            results = render(repo)
        except (Unparsed, OSError, UnicodeDecodeError, ValueError, RecursionError) as ex:
            why = re.sub(r"\s+", " ", str(ex)).strip()[:160] or ex.__class__.__name__
            if os.path.exists(path):
                with open(path) as f:
                    old = f.read()
                if not old.startswith(STALE):
                    r4._write_if_changed(path, STALE + " " + old)
                return "unparsed " + why
            return "unparsed " + why + " (no previous copy)"
        LAST_RESULTS = [(n, s) for n, s, _ in results]
        bad = [n for n, s, _ in results if s != "ok"]
        previous = ""
        if os.path.exists(path):
            with open(path) as f:
                previous = f.read()
        txt = r4.emit_file(HEADER, results, previous) + "\nEnd MulBodiesGen.\n"
        r4._write_if_changed(path, txt)
        return "ok" if not bad else "ok unparsed=" + ",".join(bad)
    except Exception as ex:  # never an alarm
        return "unparsed internal %s" % re.sub(r"\s+", " ", repr(ex))[:160]


def main():
    ap = argparse.ArgumentParser()
    ap.add_argument("--repo", default=os.environ.get("VERIF_REPO", "/repo"))
    ap.add_argument("--out", required=True)
    a = ap.parse_args()
    print("FRAGMENT MulBodiesGen %s" % generate(a.repo, a.out))
    for n, s in LAST_RESULTS:
        print("  %-44s %s" % (n, s))
    return 0


if __name__ == "__main__":
    sys.exit(main())
